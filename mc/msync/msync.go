// Package msync replaces sync and github.com/sasha-s/go-deadlock in instrumented vouch code.
// Each primitive wraps the real one: the model decides when the operation is enabled, the goroutine
// then performs the real operation so that ThreadSanitizer sees the program's real happens-before.
package msync

import (
	"sync"
	"sync/atomic"
	"unsafe"

	"github.com/attestantio/vouch/verifmc/mc"
)

type (
	Locker = sync.Locker
	Map    = sync.Map
	Pool   = sync.Pool
)

// Once shims sync.Once over the modelled mutex: a second caller waits for the first as a modelled block
// (with the real sync.Once it would block for real while holding the execution token).
type Once struct {
	m    Mutex
	done atomic.Uint32
}

func (o *Once) Do(f func()) {
	if o.done.Load() == 1 {
		return
	}
	o.m.Lock()
	defer o.m.Unlock()
	if o.done.Load() == 0 {
		defer o.done.Store(1)
		f()
	}
}

// Mutex shims sync.Mutex.
type Mutex struct{ real sync.Mutex }

//go:norace
func (m *Mutex) key() uintptr { return uintptr(unsafe.Pointer(m)) }

func (m *Mutex) Lock() {
	if mc.Do(&mc.Op{Kind: mc.KLock, Key: m.key(), Ref: m, Desc: "Mutex.Lock"}) {
		m.real.Lock()
	}
}

func (m *Mutex) Unlock() {
	if mc.Unwinding() {
		return
	}
	m.real.Unlock()
	mc.Do(&mc.Op{Kind: mc.KUnlock, Key: m.key(), Ref: m, Desc: "Mutex.Unlock"})
}

// RWMutex shims sync.RWMutex with Go's writer preference.
type RWMutex struct{ real sync.RWMutex }

//go:norace
func (m *RWMutex) key() uintptr { return uintptr(unsafe.Pointer(m)) }

func (m *RWMutex) RLock() {
	if mc.Do(&mc.Op{Kind: mc.KRLock, Key: m.key(), Ref: m, Desc: "RWMutex.RLock"}) {
		m.real.RLock()
	}
}

func (m *RWMutex) RUnlock() {
	if mc.Unwinding() {
		return
	}
	m.real.RUnlock()
	mc.Do(&mc.Op{Kind: mc.KRUnlock, Key: m.key(), Ref: m, Desc: "RWMutex.RUnlock"})
}

func (m *RWMutex) Lock() {
	if !mc.Do(&mc.Op{Kind: mc.KWAnnounce, Key: m.key(), Ref: m, Desc: "RWMutex.Lock(announce)"}) {
		return
	}
	if mc.Do(&mc.Op{Kind: mc.KWAcquire, Key: m.key(), Ref: m, Desc: "RWMutex.Lock(acquire)"}) {
		m.real.Lock()
	}
}

func (m *RWMutex) Unlock() {
	if mc.Unwinding() {
		return
	}
	m.real.Unlock()
	mc.Do(&mc.Op{Kind: mc.KWUnlock, Key: m.key(), Ref: m, Desc: "RWMutex.Unlock"})
}

// RLocker returns a Locker for the read side.
func (m *RWMutex) RLocker() Locker { return (*rlocker)(m) }

type rlocker RWMutex

func (r *rlocker) Lock()   { (*RWMutex)(r).RLock() }
func (r *rlocker) Unlock() { (*RWMutex)(r).RUnlock() }

// WaitGroup shims sync.WaitGroup (model only; annotated for the race detector).
type WaitGroup struct {
	real sync.WaitGroup
	sync byte
}

//go:norace
func (w *WaitGroup) key() uintptr { return uintptr(unsafe.Pointer(w)) }

func (w *WaitGroup) Add(d int) {
	if !mc.Active() {
		w.real.Add(d)
		return
	}
	if d < 0 {
		mc.RaceReleaseMerge(&w.sync)
	}
	mc.Do(&mc.Op{Kind: mc.KWGAdd, Key: w.key(), Ref: w, N: int64(d), Desc: "WaitGroup.Add"})
}

func (w *WaitGroup) Done() { w.Add(-1) }

func (w *WaitGroup) Wait() {
	if !mc.Active() {
		w.real.Wait()
		return
	}
	if mc.Do(&mc.Op{Kind: mc.KWGWait, Key: w.key(), Ref: w, Desc: "WaitGroup.Wait"}) {
		mc.RaceAcquire(&w.sync)
	}
}

// Cond shims sync.Cond with Go's ticket semantics: Wait registers before unlocking, Signal wakes the
// oldest registered waiter and is lost when there is none.
type Cond struct {
	L    Locker
	real *sync.Cond
	sync byte
}

func NewCond(l Locker) *Cond { return &Cond{L: l, real: sync.NewCond(l)} }

//go:norace
func (c *Cond) key() uintptr { return uintptr(unsafe.Pointer(c)) }

func (c *Cond) Wait() {
	if !mc.Active() {
		c.real.Wait()
		return
	}
	op := &mc.Op{Kind: mc.KCondReg, Key: c.key(), Ref: c, Desc: "Cond.Wait(register)"}
	if !mc.Do(op) {
		return
	}
	c.L.Unlock()
	if mc.Do(&mc.Op{Kind: mc.KCondPark, Key: c.key(), Ref: c, N: op.Result, Desc: "Cond.Wait(park)"}) {
		mc.RaceAcquire(&c.sync)
	}
	c.L.Lock()
}

func (c *Cond) Signal() {
	if !mc.Active() {
		c.real.Signal()
		return
	}
	mc.RaceReleaseMerge(&c.sync)
	mc.Do(&mc.Op{Kind: mc.KCondSignal, Key: c.key(), Ref: c, Desc: "Cond.Signal"})
}

func (c *Cond) Broadcast() {
	if !mc.Active() {
		c.real.Broadcast()
		return
	}
	mc.RaceReleaseMerge(&c.sync)
	mc.Do(&mc.Op{Kind: mc.KCondBroadcast, Key: c.key(), Ref: c, Desc: "Cond.Broadcast"})
}

// OnceFunc, OnceValue and OnceValues mirror the helpers of package sync.
func OnceFunc(f func()) func() {
	var o Once
	return func() { o.Do(f) }
}

func OnceValue[T any](f func() T) func() T {
	var o Once
	var v T
	return func() T {
		o.Do(func() { v = f() })
		return v
	}
}

func OnceValues[T1, T2 any](f func() (T1, T2)) func() (T1, T2) {
	var o Once
	var a T1
	var b T2
	return func() (T1, T2) {
		o.Do(func() { a, b = f() })
		return a, b
	}
}
