// Package mrand replaces math/rand in instrumented vouch code by fixed answers (the three uses in vouch
// are a log tag, a start-up jitter and the choice of a graffiti line; the harness varies inputs instead).
package mrand

func Int31() int32         { return 7 }
func Int63() int64         { return 7 }
func Int() int             { return 7 }
func Int63n(n int64) int64 { return 0 }
func Int31n(n int32) int32 { return 0 }
func Intn(n int) int       { return 0 }
func Float64() float64     { return 0 }
