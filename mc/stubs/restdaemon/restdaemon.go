// Package restdaemon stands in for github.com/attestantio/go-block-relay/services/daemon/rest in
// instrumented builds: blockrelay/standard.New keeps its real code path but no TCP listener is opened.
// The harness calls the handlers (AuctionBlock, BuilderBid, ValidatorRegistrations, UnblindBlock) directly.
package restdaemon

import "context"

// Service is the stand-in daemon.
type Service struct{}

// Parameter is a no-op option.
type Parameter struct{}

func New(_ context.Context, _ ...Parameter) (*Service, error) { return &Service{}, nil }

func WithLogLevel(_ any) Parameter           { return Parameter{} }
func WithMonitor(_ any) Parameter            { return Parameter{} }
func WithListenAddress(_ any) Parameter      { return Parameter{} }
func WithValidatorRegistrar(_ any) Parameter { return Parameter{} }
func WithBlockAuctioneer(_ any) Parameter    { return Parameter{} }
func WithBlockUnblinder(_ any) Parameter     { return Parameter{} }
func WithBuilderBidProvider(_ any) Parameter { return Parameter{} }
