// Package merrgroup replaces golang.org/x/sync/errgroup in instrumented vouch code: the group's goroutines
// are controlled goroutines, its waiting and its limit are modelled.  Vouch does not use errgroup at
// present; the shim exists so that a changed tree that does is still explored.
package merrgroup

import (
	"context"

	"github.com/attestantio/vouch/verifmc/mc"
	"github.com/attestantio/vouch/verifmc/mcontext"
	"github.com/attestantio/vouch/verifmc/msem"
	"github.com/attestantio/vouch/verifmc/msync"
)

// Group mirrors errgroup.Group.
type Group struct {
	cancel  context.CancelFunc
	wg      msync.WaitGroup
	sem     *msem.Weighted
	errOnce msync.Once
	err     error
}

// WithContext mirrors errgroup.WithContext.
func WithContext(ctx context.Context) (*Group, context.Context) {
	ctx, cancel := mcontext.WithCancel(ctx)
	return &Group{cancel: cancel}, ctx
}

func (g *Group) done() {
	if g.sem != nil {
		g.sem.Release(1)
	}
	g.wg.Done()
}

// Wait mirrors (*errgroup.Group).Wait.
func (g *Group) Wait() error {
	g.wg.Wait()
	if g.cancel != nil {
		g.cancel()
	}
	return g.err
}

func (g *Group) run(f func() error) {
	g.wg.Add(1)
	mc.Go(func() {
		defer g.done()
		if err := f(); err != nil {
			g.errOnce.Do(func() {
				g.err = err
				if g.cancel != nil {
					g.cancel()
				}
			})
		}
	})
}

// Go mirrors (*errgroup.Group).Go.
func (g *Group) Go(f func() error) {
	if g.sem != nil {
		_ = g.sem.Acquire(context.Background(), 1)
	}
	g.run(f)
}

// TryGo mirrors (*errgroup.Group).TryGo.
func (g *Group) TryGo(f func() error) bool {
	if g.sem != nil && !g.sem.TryAcquire(1) {
		return false
	}
	g.run(f)
	return true
}

// SetLimit mirrors (*errgroup.Group).SetLimit.
func (g *Group) SetLimit(n int) {
	if n < 0 {
		g.sem = nil
		return
	}
	g.sem = msem.NewWeighted(int64(n))
}
