// Package msingleflight replaces golang.org/x/sync/singleflight in instrumented vouch code: the group's lock and
// the waiting of duplicate callers are modelled.  Vouch does not use singleflight at present; the shim exists so
// that a changed tree that does is still explored.
package msingleflight

import (
	"github.com/attestantio/vouch/verifmc/mc"
	"github.com/attestantio/vouch/verifmc/msync"
)

// Result mirrors singleflight.Result.
type Result struct {
	Val    any
	Err    error
	Shared bool
}

type call struct {
	wg    msync.WaitGroup
	val   any
	err   error
	dups  int
	chans []chan<- Result
}

// Group mirrors singleflight.Group.
type Group struct {
	mu msync.Mutex
	m  map[string]*call
}

// Do mirrors (*singleflight.Group).Do.
func (g *Group) Do(key string, fn func() (any, error)) (v any, err error, shared bool) {
	g.mu.Lock()
	if g.m == nil {
		g.m = make(map[string]*call)
	}
	if c, ok := g.m[key]; ok {
		c.dups++
		g.mu.Unlock()
		c.wg.Wait()
		return c.val, c.err, true
	}
	c := new(call)
	c.wg.Add(1)
	g.m[key] = c
	g.mu.Unlock()
	g.doCall(c, key, fn)
	return c.val, c.err, c.dups > 0
}

// DoChan mirrors (*singleflight.Group).DoChan.
func (g *Group) DoChan(key string, fn func() (any, error)) <-chan Result {
	ch := make(chan Result, 1)
	g.mu.Lock()
	if g.m == nil {
		g.m = make(map[string]*call)
	}
	if c, ok := g.m[key]; ok {
		c.dups++
		c.chans = append(c.chans, ch)
		g.mu.Unlock()
		return ch
	}
	c := &call{chans: []chan<- Result{ch}}
	c.wg.Add(1)
	g.m[key] = c
	g.mu.Unlock()
	mc.Go(func() { g.doCall(c, key, fn) })
	return ch
}

func (g *Group) doCall(c *call, key string, fn func() (any, error)) {
	c.val, c.err = fn()
	g.mu.Lock()
	c.wg.Done()
	if g.m[key] == c {
		delete(g.m, key)
	}
	for _, ch := range c.chans {
		mc.Send(ch, Result{c.val, c.err, c.dups > 0})
	}
	g.mu.Unlock()
}

// Forget mirrors (*singleflight.Group).Forget.
func (g *Group) Forget(key string) {
	g.mu.Lock()
	delete(g.m, key)
	g.mu.Unlock()
}
