package mcontext

import (
	"context"
	"time"

	"github.com/attestantio/vouch/verifmc/mc"
)

// The newer constructors of package context, over the same controlled contexts.  Vouch uses WithCancel,
// WithTimeout and WithDeadline only; these exist so that a changed tree that uses the others still builds
// and is explored.

type CancelCauseFunc = context.CancelCauseFunc

// Cause mirrors context.Cause (causes are not tracked separately: the cause of a controlled context is its error).
func Cause(c Context) error {
	if m, ok := c.Value(key{}).(*mctx); ok {
		return m.Err()
	}
	return context.Cause(c)
}

func WithCancelCause(parent Context) (Context, CancelCauseFunc) {
	c, cancel := WithCancel(parent)
	return c, func(error) { cancel() }
}

func WithTimeoutCause(parent Context, d time.Duration, _ error) (Context, CancelFunc) {
	return WithTimeout(parent, d)
}

func WithDeadlineCause(parent Context, t time.Time, _ error) (Context, CancelFunc) {
	return WithDeadline(parent, t)
}

// WithoutCancel mirrors context.WithoutCancel: values of the parent, never cancelled.
func WithoutCancel(parent Context) Context { return withoutCancel{parent} }

type withoutCancel struct{ p Context }

func (withoutCancel) Deadline() (time.Time, bool) { return time.Time{}, false }
func (withoutCancel) Done() <-chan struct{}       { return nil }
func (withoutCancel) Err() error                  { return nil }
func (w withoutCancel) Value(k any) any {
	if _, ok := k.(key); ok {
		return nil
	}
	return w.p.Value(k)
}

// AfterFunc mirrors context.AfterFunc: f runs in its own controlled goroutine once ctx is done.
func AfterFunc(ctx Context, f func()) (stop func() bool) {
	if !mc.Active() {
		return context.AfterFunc(ctx, f)
	}
	stopped := false
	started := false
	mc.Go(func() {
		d := ctx.Done()
		if d == nil {
			mc.Block(0)
			return
		}
		mc.Recv(d)
		if !stopped {
			started = true
			f()
		}
	})
	return func() bool {
		mc.Yield()
		if started || stopped {
			return false
		}
		stopped = true
		return true
	}
}
