// Package mcontext replaces context in instrumented vouch code: deadlines run on the virtual clock and
// cancellation is a visible operation.
package mcontext

import (
	"context"
	"sync"
	"time"

	"github.com/attestantio/vouch/verifmc/mc"
)

type (
	Context    = context.Context
	CancelFunc = context.CancelFunc
)

var (
	Canceled         = context.Canceled
	DeadlineExceeded = context.DeadlineExceeded
)

func Background() Context                   { return context.Background() }
func TODO() Context                         { return context.TODO() }
func WithValue(p Context, k, v any) Context { return context.WithValue(p, k, v) }

type key struct{}

type mctx struct {
	parent   Context
	done     chan struct{}
	err      error
	children []*mctx
	deadline time.Time
	hasDL    bool
	timer    *mc.Timer
	hb       sync.Mutex // carries the happens-before edge cancel -> Err that the real implementation has
}

//go:norace
func (c *mctx) Deadline() (time.Time, bool) {
	if c.hasDL {
		return c.deadline, true
	}
	return c.parent.Deadline()
}

//go:norace
func (c *mctx) Done() <-chan struct{} { return c.done }

//go:norace
func (c *mctx) Err() error {
	c.hb.Lock()
	e := c.err
	c.hb.Unlock()
	return e
}

//go:norace
func (c *mctx) Value(k any) any {
	if _, ok := k.(key); ok {
		return c
	}
	return c.parent.Value(k)
}

// cancelTree marks c and its descendants cancelled and closes their channels.  Runs with the token held.
//
//go:norace
func (c *mctx) cancelTree(err error) {
	if c.err != nil {
		return
	}
	c.hb.Lock()
	c.err = err
	if c.timer != nil {
		c.timer.Stop()
	}
	mc.ModelChanClose(mc.KeyOf(c.done))
	close(c.done)
	c.hb.Unlock()
	for _, ch := range c.children {
		ch.cancelTree(err)
	}
	c.children = nil
}

// Fire is the deadline expiring.
//
//go:norace
func (c *mctx) Fire() { c.cancelTree(context.DeadlineExceeded) }

//go:norace
func newCtx(parent Context) *mctx {
	c := &mctx{parent: parent, done: make(chan struct{})}
	mc.Keep(c.done)
	if p, ok := parent.Value(key{}).(*mctx); ok {
		if p.err != nil {
			c.err = p.err
			mc.ModelChanClose(mc.KeyOf(c.done))
			close(c.done)
		} else {
			p.children = append(p.children, c)
		}
	} else if parent.Err() != nil {
		c.err = parent.Err()
		mc.ModelChanClose(mc.KeyOf(c.done))
		close(c.done)
	}
	return c
}

//go:norace
func (c *mctx) cancel() {
	if !mc.Do(&mc.Op{Kind: mc.KCancel, Key: mc.KeyOf(c.done), Ref: c, Desc: "cancel"}) {
		return
	}
	c.cancelTree(context.Canceled)
}

func WithCancel(parent Context) (Context, CancelFunc) {
	if !mc.Active() {
		return context.WithCancel(parent)
	}
	c := newCtx(parent)
	return c, c.cancel
}

func WithDeadline(parent Context, t time.Time) (Context, CancelFunc) {
	if !mc.Active() {
		return context.WithDeadline(parent, t)
	}
	c := newCtx(parent)
	if pd, ok := parent.Deadline(); ok && pd.Before(t) {
		t = pd
	}
	c.deadline, c.hasDL = t, true
	if c.err == nil {
		at := int64(t.Sub(mc.Base))
		c.timer = mc.AddTimer(at, mc.KeyOf(c.done), "ctx-deadline", c)
	}
	return c, c.cancel
}

func WithTimeout(parent Context, d time.Duration) (Context, CancelFunc) {
	if !mc.Active() {
		return context.WithTimeout(parent, d)
	}
	return WithDeadline(parent, mc.Base.Add(time.Duration(mc.Now())+d))
}
