package mtime

import (
	"time"

	"github.com/attestantio/vouch/verifmc/mc"
)

// Timer, Ticker and AfterFunc on the virtual clock.  Vouch itself uses time.After and time.Sleep only; these
// exist so that a changed tree that reaches for the other timer forms is explored like any other.

type Weekday = time.Weekday

const (
	Layout   = time.Layout
	RFC1123  = time.RFC1123
	DateTime = time.DateTime
	DateOnly = time.DateOnly
	TimeOnly = time.TimeOnly
	Kitchen  = time.Kitchen
)

var Local = time.Local

func Parse(layout, value string) (Time, error) { return time.Parse(layout, value) }
func UnixMicro(us int64) Time                  { return time.UnixMicro(us) }
func FixedZone(name string, off int) *Location { return time.FixedZone(name, off) }
func LoadLocation(name string) (*Location, error) {
	return time.LoadLocation(name)
}

// Timer shims time.Timer.
type Timer struct {
	C  <-chan Time
	ch chan Time
	t  *mc.Timer
	f  func()
}

type timerFire struct{ tm *Timer }

//go:norace
func (x *timerFire) Fire() {
	tm := x.tm
	tm.t = nil
	if tm.f != nil {
		mc.SpawnFromTimer(tm.f)
		return
	}
	if mc.ModelChanLen(mc.KeyOf(tm.ch)) == 0 {
		mc.ModelChanPush(mc.KeyOf(tm.ch), 1)
		tm.ch <- mc.Base.Add(time.Duration(mc.Now()))
	}
}

func (tm *Timer) arm(d Duration) {
	if d < 0 {
		d = 0
	}
	var key uintptr
	if tm.ch != nil {
		key = mc.KeyOf(tm.ch)
	}
	tm.t = mc.AddTimer(mc.Now()+int64(d), key, "Timer", &timerFire{tm})
}

// NewTimer mirrors time.NewTimer.
func NewTimer(d Duration) *Timer {
	if !mc.Active() {
		mc.Unsupported("time.NewTimer outside a controlled execution")
	}
	ch := make(chan Time, 1)
	mc.Keep(ch)
	tm := &Timer{C: ch, ch: ch}
	tm.arm(d)
	return tm
}

// AfterFunc mirrors time.AfterFunc: f runs in its own (controlled) goroutine when the timer fires.
func AfterFunc(d Duration, f func()) *Timer {
	if !mc.Active() {
		mc.Unsupported("time.AfterFunc outside a controlled execution")
	}
	tm := &Timer{f: f}
	tm.arm(d)
	return tm
}

// Stop mirrors (*time.Timer).Stop.
func (tm *Timer) Stop() bool {
	mc.Yield()
	if tm.t == nil {
		return false
	}
	tm.t.Stop()
	tm.t = nil
	return true
}

// Reset mirrors (*time.Timer).Reset.
func (tm *Timer) Reset(d Duration) bool {
	was := tm.Stop()
	tm.arm(d)
	return was
}

// Ticker shims time.Ticker.
type Ticker struct {
	C      <-chan Time
	ch     chan Time
	t      *mc.Timer
	period Duration
}

type tickerFire struct{ tk *Ticker }

//go:norace
func (x *tickerFire) Fire() {
	tk := x.tk
	if mc.ModelChanLen(mc.KeyOf(tk.ch)) == 0 {
		mc.ModelChanPush(mc.KeyOf(tk.ch), 1)
		tk.ch <- mc.Base.Add(time.Duration(mc.Now()))
	}
	tk.t = mc.AddTimer(mc.Now()+int64(tk.period), mc.KeyOf(tk.ch), "Ticker", x)
}

// NewTicker mirrors time.NewTicker.
func NewTicker(d Duration) *Ticker {
	if !mc.Active() {
		mc.Unsupported("time.NewTicker outside a controlled execution")
	}
	if d <= 0 {
		panic("non-positive interval for NewTicker")
	}
	ch := make(chan Time, 1)
	mc.Keep(ch)
	tk := &Ticker{C: ch, ch: ch, period: d}
	tk.t = mc.AddTimer(mc.Now()+int64(d), mc.KeyOf(ch), "Ticker", &tickerFire{tk})
	return tk
}

// Stop mirrors (*time.Ticker).Stop.
func (tk *Ticker) Stop() {
	mc.Yield()
	if tk.t != nil {
		tk.t.Stop()
		tk.t = nil
	}
}

// Reset mirrors (*time.Ticker).Reset.
func (tk *Ticker) Reset(d Duration) {
	tk.Stop()
	tk.period = d
	tk.t = mc.AddTimer(mc.Now()+int64(d), mc.KeyOf(tk.ch), "Ticker", &tickerFire{tk})
}

// Tick mirrors time.Tick.
func Tick(d Duration) <-chan Time {
	if d <= 0 {
		return nil
	}
	return NewTicker(d).C
}
