// Package mtime replaces time in instrumented vouch code: one virtual clock owned by the explorer.
package mtime

import (
	"time"

	"github.com/attestantio/vouch/verifmc/mc"
)

type (
	Time     = time.Time
	Duration = time.Duration
	Month    = time.Month
	Location = time.Location
)

const (
	Nanosecond  = time.Nanosecond
	Microsecond = time.Microsecond
	Millisecond = time.Millisecond
	Second      = time.Second
	Minute      = time.Minute
	Hour        = time.Hour
	RFC3339     = time.RFC3339
	RFC3339Nano = time.RFC3339Nano
)

var UTC = time.UTC

func Now() Time {
	if !mc.Active() && mc.S == nil {
		return mc.Base
	}
	return mc.Base.Add(time.Duration(mc.Now()))
}
func Since(t Time) Duration             { return Now().Sub(t) }
func Until(t Time) Duration             { return t.Sub(Now()) }
func Unix(s, ns int64) Time             { return time.Unix(s, ns) }
func UnixMilli(ms int64) Time           { return time.UnixMilli(ms) }
func ParseDuration(s string) (Duration, error) { return time.ParseDuration(s) }
func Date(y int, m Month, d, h, mi, s, ns int, l *Location) Time {
	return time.Date(y, m, d, h, mi, s, ns, l)
}

func Sleep(d Duration) {
	if !mc.Active() {
		return
	}
	mc.Sleep(int64(d))
}

type afterTimer struct {
	ch chan Time
	at int64
}

//go:norace
func (a *afterTimer) Fire() {
	mc.ModelChanPush(mc.KeyOf(a.ch), 1)
	a.ch <- mc.Base.Add(time.Duration(a.at))
}

func After(d Duration) <-chan Time {
	ch := make(chan Time, 1)
	if !mc.Active() {
		mc.Unsupported("time.After outside a controlled execution")
	}
	if d < 0 {
		d = 0
	}
	at := mc.Now() + int64(d)
	mc.Keep(ch)
	mc.AddTimer(at, mc.KeyOf(ch), "After", &afterTimer{ch: ch, at: at})
	return ch
}
