// Package msem replaces golang.org/x/sync/semaphore in instrumented vouch code.
package msem

import (
	"context"
	"unsafe"

	"github.com/attestantio/vouch/verifmc/mc"
	"golang.org/x/sync/semaphore"
)

type Weighted struct {
	size int64
	real *semaphore.Weighted
	sync byte
	reg  bool
}

func NewWeighted(n int64) *Weighted { return &Weighted{size: n, real: semaphore.NewWeighted(n)} }

//go:norace
func (w *Weighted) key() uintptr {
	k := uintptr(unsafe.Pointer(w))
	if !w.reg && mc.Active() {
		w.reg = true
		mc.RegisterSem(k, w.size)
	}
	return k
}

func doneKey(ctx context.Context) uintptr {
	d := ctx.Done()
	if d == nil {
		return 0
	}
	return mc.KeyOfRecv(d)
}

func (w *Weighted) Acquire(ctx context.Context, n int64) error {
	if !mc.Active() {
		return w.real.Acquire(ctx, n)
	}
	op := &mc.Op{Kind: mc.KSemAcquire, Key: w.key(), Ref: w, N: n, Key2: doneKey(ctx), Desc: "sem.Acquire"}
	if !mc.Do(op) {
		return nil
	}
	if op.Result == 0 {
		return ctx.Err()
	}
	mc.RaceAcquire(&w.sync)
	return nil
}

func (w *Weighted) TryAcquire(n int64) bool {
	if !mc.Active() {
		return w.real.TryAcquire(n)
	}
	op := &mc.Op{Kind: mc.KSemTry, Key: w.key(), Ref: w, N: n, Desc: "sem.TryAcquire"}
	if !mc.Do(op) {
		return false
	}
	if op.Result == 1 {
		mc.RaceAcquire(&w.sync)
	}
	return op.Result == 1
}

func (w *Weighted) Release(n int64) {
	if !mc.Active() {
		if !mc.Unwinding() {
			w.real.Release(n)
		}
		return
	}
	if mc.Unwinding() {
		return
	}
	mc.RaceReleaseMerge(&w.sync)
	mc.Do(&mc.Op{Kind: mc.KSemRelease, Key: w.key(), Ref: w, N: n, Desc: "sem.Release"})
}
