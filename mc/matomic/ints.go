package matomic

import (
	"sync/atomic"
	"unsafe"

	"github.com/attestantio/vouch/verifmc/mc"
)

// Typed integers, pointers and values of sync/atomic (and the go.uber.org/atomic extras Inc, Dec, Sub, CAS),
// and the function forms over plain variables.  Every operation is a visible step of the controlled runtime
// and then performs the real atomic operation, so the race detector sees the program's own synchronisation.

func pt(p unsafe.Pointer, ref any, desc string) bool {
	return mc.Do(&mc.Op{Kind: mc.KAtomic, Key: uintptr(p), Ref: ref, Desc: desc})
}

type Int32 struct{ v atomic.Int32 }

func NewInt32(x int32) *Int32 { i := &Int32{}; i.v.Store(x); return i }
func (i *Int32) Load() int32  { pt(unsafe.Pointer(i), i, "Int32.Load"); return i.v.Load() }
func (i *Int32) Store(x int32) {
	if pt(unsafe.Pointer(i), i, "Int32.Store") {
		i.v.Store(x)
	}
}
func (i *Int32) Add(d int32) int32 {
	if pt(unsafe.Pointer(i), i, "Int32.Add") {
		return i.v.Add(d)
	}
	return 0
}
func (i *Int32) Sub(d int32) int32 { return i.Add(-d) }
func (i *Int32) Inc() int32        { return i.Add(1) }
func (i *Int32) Dec() int32        { return i.Add(-1) }
func (i *Int32) Swap(x int32) int32 {
	if pt(unsafe.Pointer(i), i, "Int32.Swap") {
		return i.v.Swap(x)
	}
	return 0
}
func (i *Int32) CompareAndSwap(o, n int32) bool {
	if pt(unsafe.Pointer(i), i, "Int32.CAS") {
		return i.v.CompareAndSwap(o, n)
	}
	return false
}
func (i *Int32) CAS(o, n int32) bool { return i.CompareAndSwap(o, n) }

type Int64 struct{ v atomic.Int64 }

func NewInt64(x int64) *Int64 { i := &Int64{}; i.v.Store(x); return i }
func (i *Int64) Load() int64  { pt(unsafe.Pointer(i), i, "Int64.Load"); return i.v.Load() }
func (i *Int64) Store(x int64) {
	if pt(unsafe.Pointer(i), i, "Int64.Store") {
		i.v.Store(x)
	}
}
func (i *Int64) Add(d int64) int64 {
	if pt(unsafe.Pointer(i), i, "Int64.Add") {
		return i.v.Add(d)
	}
	return 0
}
func (i *Int64) Sub(d int64) int64 { return i.Add(-d) }
func (i *Int64) Inc() int64        { return i.Add(1) }
func (i *Int64) Dec() int64        { return i.Add(-1) }
func (i *Int64) Swap(x int64) int64 {
	if pt(unsafe.Pointer(i), i, "Int64.Swap") {
		return i.v.Swap(x)
	}
	return 0
}
func (i *Int64) CompareAndSwap(o, n int64) bool {
	if pt(unsafe.Pointer(i), i, "Int64.CAS") {
		return i.v.CompareAndSwap(o, n)
	}
	return false
}
func (i *Int64) CAS(o, n int64) bool { return i.CompareAndSwap(o, n) }

type Uint32 struct{ v atomic.Uint32 }

func NewUint32(x uint32) *Uint32 { i := &Uint32{}; i.v.Store(x); return i }
func (i *Uint32) Load() uint32   { pt(unsafe.Pointer(i), i, "Uint32.Load"); return i.v.Load() }
func (i *Uint32) Store(x uint32) {
	if pt(unsafe.Pointer(i), i, "Uint32.Store") {
		i.v.Store(x)
	}
}
func (i *Uint32) Add(d uint32) uint32 {
	if pt(unsafe.Pointer(i), i, "Uint32.Add") {
		return i.v.Add(d)
	}
	return 0
}
func (i *Uint32) Sub(d uint32) uint32 { return i.Add(^(d - 1)) }
func (i *Uint32) Inc() uint32         { return i.Add(1) }
func (i *Uint32) Dec() uint32         { return i.Add(^uint32(0)) }
func (i *Uint32) Swap(x uint32) uint32 {
	if pt(unsafe.Pointer(i), i, "Uint32.Swap") {
		return i.v.Swap(x)
	}
	return 0
}
func (i *Uint32) CompareAndSwap(o, n uint32) bool {
	if pt(unsafe.Pointer(i), i, "Uint32.CAS") {
		return i.v.CompareAndSwap(o, n)
	}
	return false
}
func (i *Uint32) CAS(o, n uint32) bool { return i.CompareAndSwap(o, n) }

type Uint64 struct{ v atomic.Uint64 }

func NewUint64(x uint64) *Uint64 { i := &Uint64{}; i.v.Store(x); return i }
func (i *Uint64) Load() uint64   { pt(unsafe.Pointer(i), i, "Uint64.Load"); return i.v.Load() }
func (i *Uint64) Store(x uint64) {
	if pt(unsafe.Pointer(i), i, "Uint64.Store") {
		i.v.Store(x)
	}
}
func (i *Uint64) Add(d uint64) uint64 {
	if pt(unsafe.Pointer(i), i, "Uint64.Add") {
		return i.v.Add(d)
	}
	return 0
}
func (i *Uint64) Sub(d uint64) uint64 { return i.Add(^(d - 1)) }
func (i *Uint64) Inc() uint64         { return i.Add(1) }
func (i *Uint64) Dec() uint64         { return i.Add(^uint64(0)) }
func (i *Uint64) Swap(x uint64) uint64 {
	if pt(unsafe.Pointer(i), i, "Uint64.Swap") {
		return i.v.Swap(x)
	}
	return 0
}
func (i *Uint64) CompareAndSwap(o, n uint64) bool {
	if pt(unsafe.Pointer(i), i, "Uint64.CAS") {
		return i.v.CompareAndSwap(o, n)
	}
	return false
}
func (i *Uint64) CAS(o, n uint64) bool { return i.CompareAndSwap(o, n) }

// Pointer shims atomic.Pointer[T].
type Pointer[T any] struct{ v atomic.Pointer[T] }

func (p *Pointer[T]) Load() *T { pt(unsafe.Pointer(p), p, "Pointer.Load"); return p.v.Load() }
func (p *Pointer[T]) Store(x *T) {
	if pt(unsafe.Pointer(p), p, "Pointer.Store") {
		p.v.Store(x)
	}
}
func (p *Pointer[T]) Swap(x *T) *T {
	if pt(unsafe.Pointer(p), p, "Pointer.Swap") {
		return p.v.Swap(x)
	}
	return nil
}
func (p *Pointer[T]) CompareAndSwap(o, n *T) bool {
	if pt(unsafe.Pointer(p), p, "Pointer.CAS") {
		return p.v.CompareAndSwap(o, n)
	}
	return false
}

// Value shims atomic.Value.
type Value struct{ v atomic.Value }

func (a *Value) Load() any { pt(unsafe.Pointer(a), a, "Value.Load"); return a.v.Load() }
func (a *Value) Store(x any) {
	if pt(unsafe.Pointer(a), a, "Value.Store") {
		a.v.Store(x)
	}
}
func (a *Value) Swap(x any) any {
	if pt(unsafe.Pointer(a), a, "Value.Swap") {
		return a.v.Swap(x)
	}
	return nil
}
func (a *Value) CompareAndSwap(o, n any) bool {
	if pt(unsafe.Pointer(a), a, "Value.CAS") {
		return a.v.CompareAndSwap(o, n)
	}
	return false
}

// Function forms over plain variables.

func AddInt32(p *int32, d int32) int32 {
	if pt(unsafe.Pointer(p), p, "AddInt32") {
		return atomic.AddInt32(p, d)
	}
	return 0
}
func AddInt64(p *int64, d int64) int64 {
	if pt(unsafe.Pointer(p), p, "AddInt64") {
		return atomic.AddInt64(p, d)
	}
	return 0
}
func AddUint32(p *uint32, d uint32) uint32 {
	if pt(unsafe.Pointer(p), p, "AddUint32") {
		return atomic.AddUint32(p, d)
	}
	return 0
}
func AddUint64(p *uint64, d uint64) uint64 {
	if pt(unsafe.Pointer(p), p, "AddUint64") {
		return atomic.AddUint64(p, d)
	}
	return 0
}
func LoadInt32(p *int32) int32 { pt(unsafe.Pointer(p), p, "LoadInt32"); return atomic.LoadInt32(p) }
func LoadInt64(p *int64) int64 { pt(unsafe.Pointer(p), p, "LoadInt64"); return atomic.LoadInt64(p) }
func LoadUint32(p *uint32) uint32 {
	pt(unsafe.Pointer(p), p, "LoadUint32")
	return atomic.LoadUint32(p)
}
func LoadUint64(p *uint64) uint64 {
	pt(unsafe.Pointer(p), p, "LoadUint64")
	return atomic.LoadUint64(p)
}
func StoreInt32(p *int32, x int32) {
	if pt(unsafe.Pointer(p), p, "StoreInt32") {
		atomic.StoreInt32(p, x)
	}
}
func StoreInt64(p *int64, x int64) {
	if pt(unsafe.Pointer(p), p, "StoreInt64") {
		atomic.StoreInt64(p, x)
	}
}
func StoreUint32(p *uint32, x uint32) {
	if pt(unsafe.Pointer(p), p, "StoreUint32") {
		atomic.StoreUint32(p, x)
	}
}
func StoreUint64(p *uint64, x uint64) {
	if pt(unsafe.Pointer(p), p, "StoreUint64") {
		atomic.StoreUint64(p, x)
	}
}
func SwapInt32(p *int32, x int32) int32 {
	if pt(unsafe.Pointer(p), p, "SwapInt32") {
		return atomic.SwapInt32(p, x)
	}
	return 0
}
func SwapInt64(p *int64, x int64) int64 {
	if pt(unsafe.Pointer(p), p, "SwapInt64") {
		return atomic.SwapInt64(p, x)
	}
	return 0
}
func SwapUint32(p *uint32, x uint32) uint32 {
	if pt(unsafe.Pointer(p), p, "SwapUint32") {
		return atomic.SwapUint32(p, x)
	}
	return 0
}
func SwapUint64(p *uint64, x uint64) uint64 {
	if pt(unsafe.Pointer(p), p, "SwapUint64") {
		return atomic.SwapUint64(p, x)
	}
	return 0
}
func CompareAndSwapInt32(p *int32, o, n int32) bool {
	if pt(unsafe.Pointer(p), p, "CASInt32") {
		return atomic.CompareAndSwapInt32(p, o, n)
	}
	return false
}
func CompareAndSwapInt64(p *int64, o, n int64) bool {
	if pt(unsafe.Pointer(p), p, "CASInt64") {
		return atomic.CompareAndSwapInt64(p, o, n)
	}
	return false
}
func CompareAndSwapUint32(p *uint32, o, n uint32) bool {
	if pt(unsafe.Pointer(p), p, "CASUint32") {
		return atomic.CompareAndSwapUint32(p, o, n)
	}
	return false
}
func CompareAndSwapUint64(p *uint64, o, n uint64) bool {
	if pt(unsafe.Pointer(p), p, "CASUint64") {
		return atomic.CompareAndSwapUint64(p, o, n)
	}
	return false
}
