// Package matomic replaces sync/atomic and go.uber.org/atomic types in instrumented vouch code.
package matomic

import (
	"sync/atomic"
	"unsafe"

	"github.com/attestantio/vouch/verifmc/mc"
)

// Bool shims atomic.Bool.
type Bool struct{ v atomic.Bool }

// NewBool mirrors go.uber.org/atomic.NewBool.
func NewBool(x bool) *Bool {
	b := &Bool{}
	b.v.Store(x)
	return b
}

func (b *Bool) pt(desc string) bool {
	return mc.Do(&mc.Op{Kind: mc.KAtomic, Key: uintptr(unsafe.Pointer(b)), Ref: b, Desc: desc})
}

func (b *Bool) Load() bool {
	b.pt("Bool.Load")
	return b.v.Load()
}

func (b *Bool) Store(x bool) {
	if b.pt("Bool.Store") {
		b.v.Store(x)
	}
}

func (b *Bool) Swap(x bool) bool {
	if b.pt("Bool.Swap") {
		return b.v.Swap(x)
	}
	return false
}

func (b *Bool) CompareAndSwap(o, n bool) bool {
	if b.pt("Bool.CAS") {
		return b.v.CompareAndSwap(o, n)
	}
	return false
}

// CAS mirrors go.uber.org/atomic.
func (b *Bool) CAS(o, n bool) bool { return b.CompareAndSwap(o, n) }

// Toggle mirrors go.uber.org/atomic.
func (b *Bool) Toggle() bool {
	if b.pt("Bool.Toggle") {
		for {
			o := b.v.Load()
			if b.v.CompareAndSwap(o, !o) {
				return o
			}
		}
	}
	return false
}
