package mc

import (
	"runtime"
	"unsafe"
)

// chanKey returns the identity of a channel (the address of its runtime header).
//
//go:norace
func chanKey[T any](ch chan T) uintptr { return *(*uintptr)(unsafe.Pointer(&ch)) }

// KeyOfRecv returns the model key of a receive-only channel.
//
//go:norace
func KeyOfRecv[T any](ch <-chan T) uintptr { return *(*uintptr)(unsafe.Pointer(&ch)) }

// KeyOf returns the model key of a channel.
//
//go:norace
func KeyOf[T any](ch chan T) uintptr { return chanKey(ch) }

// Sel is the outcome of a Select.
type Sel struct {
	Index int
	val   any
	ok    bool
}

// Case is one select case.
type Case struct {
	c    SelCase
	recv func(*Sel)
	send func()
	val  any // send cases: the value (used when the channel is unbuffered and the model carries the value)
}

// RecvCase describes `case … <-ch`.
func RecvCase[T any](ch <-chan T) Case {
	return Case{c: SelCase{Key: KeyOfRecv(ch), Cap: cap(ch), Len: len(ch), Ref: ch},
		recv: func(s *Sel) { v, ok := <-ch; s.val, s.ok = v, ok }}
}

// SendCase describes `case ch <- v`.
func SendCase[T any](ch chan<- T, v T) Case {
	k := *(*uintptr)(unsafe.Pointer(&ch))
	if ch != nil && cap(ch) == 0 {
		// unbuffered: the case is ready when a receiver is waiting; the model hands it the value
		return Case{c: SelCase{Send: true, Key: k, Ref: ch}, send: func() {}, val: v}
	}
	return Case{c: SelCase{Send: true, Key: k, Cap: cap(ch), Len: len(ch), Ref: ch}, send: func() { ch <- v }}
}

// Got returns the value received by the chosen case.
func Got[T any](_ <-chan T, s *Sel) T {
	if s.val == nil {
		var z T
		return z
	}
	return s.val.(T)
}

// Got2 returns the value and ok flag received by the chosen case.
func Got2[T any](c <-chan T, s *Sel) (T, bool) { return Got(c, s), s.ok }

// BadSelect is the default arm generated for a select without default.
func BadSelect() {
	if Unwinding() {
		runtime.Goexit()
	}
	panic("mc: select returned without a ready case")
}

// Select blocks until a case is ready (or default); the explorer picks among ready cases.
func Select(hasDefault bool, cases ...Case) *Sel {
	sel := &Sel{Index: -1}
	if !Active() {
		return selectPassthrough(hasDefault, cases, sel)
	}
	op := &Op{Kind: KSelect, HasDefault: hasDefault, Desc: "select", Cases: make([]SelCase, len(cases))}
	for i := range cases {
		op.Cases[i] = cases[i].c
	}
	op.SendVal = func(i int) any { return cases[i].val }
	if !Do(op) {
		sel.Index = -2
		return sel
	}
	sel.Index = int(op.Result)
	if sel.Index >= 0 {
		c := &cases[sel.Index]
		if c.c.Send {
			if c.c.Cap == 0 && S != nil && S.chClosed(c.c.Key) {
				panic("send on closed channel")
			}
			c.send()
		} else if op.Offer != nil {
			sel.val, sel.ok = op.Offer.Val, true
		} else {
			c.recv(sel)
		}
	}
	return sel
}

// selectPassthrough: outside an execution only the trivial forms are supported (first ready case by
// polling in order; blocks by spinning are never needed by the harness).
func selectPassthrough(hasDefault bool, cases []Case, sel *Sel) *Sel {
	for {
		for i := range cases {
			c := &cases[i]
			if c.c.Key == 0 {
				continue
			}
			if c.c.Send {
				continue
			}
			// cannot poll generically without reflect; the recv closure would block.  Unsupported.
		}
		if hasDefault {
			sel.Index = -1
			return sel
		}
		Unsupported("select outside a controlled execution")
	}
}

// Send is `ch <- v`.
func Send[T any](ch chan<- T, v T) {
	if !Active() {
		ch <- v
		return
	}
	k := *(*uintptr)(unsafe.Pointer(&ch))
	if ch != nil && cap(ch) == 0 {
		// unbuffered: the sender holds its value out and waits until a receiver has taken it
		off := &Offer{Val: v}
		op := &Op{Kind: KSend, Key: k, Ref: ch, Offer: off, Desc: "send (unbuffered)"}
		if !Do(op) {
			return
		}
		if op.Result < 0 {
			panic("send on closed channel")
		}
		op = &Op{Kind: KSendWait, Key: k, Ref: ch, Offer: off, Desc: "send (unbuffered) taken"}
		if !Do(op) {
			return
		}
		if op.Result < 0 {
			panic("send on closed channel")
		}
		return
	}
	if !Do(&Op{Kind: KSend, Key: k, Cap: cap(ch), Len: len(ch), Ref: ch, Desc: "send"}) {
		return
	}
	ch <- v
}

// offered converts the value taken from a sender on an unbuffered channel.
func offered[T any](o *Offer) T {
	if o.Val == nil {
		var z T
		return z
	}
	return o.Val.(T)
}

// Recv is `<-ch`.
func Recv[T any](ch <-chan T) T {
	if !Active() {
		return <-ch
	}
	op := &Op{Kind: KRecv, Key: KeyOfRecv(ch), Cap: cap(ch), Len: len(ch), Ref: ch, Desc: "recv"}
	if !Do(op) {
		var z T
		return z
	}
	if op.Offer != nil {
		return offered[T](op.Offer)
	}
	return <-ch
}

// Recv2 is `v, ok := <-ch`.
func Recv2[T any](ch <-chan T) (T, bool) {
	if !Active() {
		v, ok := <-ch
		return v, ok
	}
	op := &Op{Kind: KRecv, Key: KeyOfRecv(ch), Cap: cap(ch), Len: len(ch), Ref: ch, Desc: "recv"}
	if !Do(op) {
		var z T
		return z, false
	}
	if op.Offer != nil {
		return offered[T](op.Offer), true
	}
	v, ok := <-ch
	return v, ok
}

// Close is `close(ch)`.
func Close[T any](ch chan T) {
	if !Active() {
		close(ch)
		return
	}
	if !Do(&Op{Kind: KClose, Key: chanKey(ch), Cap: cap(ch), Len: len(ch), Ref: ch, Desc: "close"}) {
		return
	}
	close(ch)
}
