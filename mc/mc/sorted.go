package mc

import (
	"fmt"
	"reflect"
	"sort"
	"unsafe"
)

func unsafePtr(p *byte) unsafe.Pointer { return unsafe.Pointer(p) }

// SortedKeys returns the keys of m in a fixed order.  Go leaves map iteration order unspecified, so
// any fixed order is a legal execution; fixing it removes an uncontrolled source of nondeterminism.
// The map is read on the calling goroutine by ordinary (race-instrumented) code.
func SortedKeys[M ~map[K]V, K comparable, V any](m M) []K {
	ks := make([]K, 0, len(m))
	for k := range m {
		ks = append(ks, k)
	}
	if len(ks) < 2 {
		return ks
	}
	sort.Slice(ks, func(i, j int) bool { return less(reflect.ValueOf(ks[i]), reflect.ValueOf(ks[j])) })
	return ks
}

func less(a, b reflect.Value) bool {
	switch a.Kind() {
	case reflect.Int, reflect.Int8, reflect.Int16, reflect.Int32, reflect.Int64:
		return a.Int() < b.Int()
	case reflect.Uint, reflect.Uint8, reflect.Uint16, reflect.Uint32, reflect.Uint64, reflect.Uintptr:
		return a.Uint() < b.Uint()
	case reflect.String:
		return a.String() < b.String()
	case reflect.Bool:
		return !a.Bool() && b.Bool()
	case reflect.Float32, reflect.Float64:
		return a.Float() < b.Float()
	case reflect.Array:
		for i := 0; i < a.Len(); i++ {
			if less(a.Index(i), b.Index(i)) {
				return true
			}
			if less(b.Index(i), a.Index(i)) {
				return false
			}
		}
		return false
	case reflect.Struct:
		for i := 0; i < a.NumField(); i++ {
			if less(a.Field(i), b.Field(i)) {
				return true
			}
			if less(b.Field(i), a.Field(i)) {
				return false
			}
		}
		return false
	case reflect.Interface:
		if a.IsNil() || b.IsNil() {
			return a.IsNil() && !b.IsNil()
		}
		if a.Elem().Type() != b.Elem().Type() {
			return a.Elem().Type().String() < b.Elem().Type().String()
		}
		return less(a.Elem(), b.Elem())
	case reflect.Pointer, reflect.Chan, reflect.UnsafePointer:
		// no order that is stable across executions exists; the divergence guard reports it if it matters
		return a.Pointer() < b.Pointer()
	}
	return fmt.Sprint(a) < fmt.Sprint(b)
}
