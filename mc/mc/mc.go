// Package mc is the controlled runtime under which instrumented vouch code is explored.
//
// Every goroutine of instrumented code is a real goroutine that runs only while it holds the single
// token.  Before each visible operation it publishes a plain-data descriptor (Op) and calls dispatch:
// the token holder computes the enabled set from the model state, asks the explorer for a choice,
// applies the model effect and hands the token over (directly, goroutine to goroutine).  The goroutine
// that is granted then performs the *real* operation, which cannot block because the model guaranteed
// it is enabled.
//
// Rules that keep ThreadSanitizer usable inside the exploration (C17):
//   - every function in this package that touches model state is //go:norace and uses no closures;
//   - token hand-offs (the two channel operations) are bracketed by runtime.RaceDisable/Enable, so the
//     hand-off creates no happens-before edge;
//   - timers fire on whichever goroutine holds the token, with race synchronisation disabled.
package mc

import (
	"fmt"
	"os"
	"runtime"
	"strings"
	"time"
)

// Kind of a visible operation.
type Kind uint8

const (
	KStart Kind = iota
	KLock
	KUnlock
	KRLock
	KRUnlock
	KWAnnounce
	KWAcquire
	KWUnlock
	KAtomic
	KSend
	KRecv
	KClose
	KSelect
	KSleep
	KCancel
	KYield
	KSpawn
	KWGAdd
	KWGWait
	KCondReg
	KCondPark
	KCondSignal
	KCondBroadcast
	KSemAcquire
	KSemTry
	KSemRelease
	KEnvBlock
	KChoose
	KTimer
	KSendWait
)

var kindNames = [...]string{"start", "lock", "unlock", "rlock", "runlock", "wannounce", "wacquire", "wunlock",
	"atomic", "send", "recv", "close", "select", "sleep", "cancel", "yield", "spawn", "wgadd", "wgwait",
	"condreg", "condpark", "condsignal", "condbroadcast", "semacquire", "semtry", "semrelease", "envblock", "choose", "timer", "sendwait"}

func (k Kind) String() string { return kindNames[k] }

// SelCase is one case of a select, as plain data.
type SelCase struct {
	Send bool
	Key  uintptr
	Cap  int
	Len  int
	Ref  any
}

// Op is a pending visible operation.  Plain data only.
type Op struct {
	Kind       Kind
	Key        uintptr // identity of the model object (address)
	Ref        any     // keeps the object alive for the execution so that addresses are not reused
	N          int64   // sem weight / wg delta / sleep deadline
	Cap, Len   int     // channel capacity and length observed when publishing
	Key2       uintptr // sem acquire / env block: ctx done channel that also enables the op
	Cases      []SelCase
	HasDefault bool
	Result     int64
	Desc       string
	Offer      *Offer // unbuffered channels: the value a sender holds out (send) / the one taken (recv, select)
	Handed     bool   // recv / select: Offer was handed to this waiting receiver by a select that chose to send
	HandedKey  uintptr
	SendVal    func(i int) any // select: the value of send case i (unbuffered channels only)
}

// Offer is the value a goroutine blocked in a send on an unbuffered channel holds out to receivers.
type Offer struct {
	Val   any
	taken bool
}

// G is a controlled goroutine.
type G struct {
	id        int
	gh        uint64
	nops      int
	spawns    int
	wake      chan struct{}
	op        *Op
	done      bool
	abort     bool
	unwinding bool
	Name      string
}

// Fireable is a timer action.  Fire runs with the token held and race synchronisation disabled.
type Fireable interface{ Fire() }

// Timer is a pending virtual-time event.
type Timer struct {
	at     int64
	seq    int
	f      Fireable
	dead   bool
	Target uintptr // channel key the timer will make ready (for blocked/sleeping classification)
	Desc   string
}

// Point is one recorded choice point.
type ChoicePoint struct {
	N      int
	Chosen int
	Cost   int
	Sig    uint64
	FP     uint64 // state fingerprint when the choice was taken
	Kind   uint8  // 0 schedule, 1 select tie, 2 environment
}

type muState struct {
	held     bool
	readers  int
	writer   bool
	pendingW int
}

type chState struct {
	n      int
	cap    int
	closed bool
	offers []*Offer // unbuffered channel: senders waiting with their values, in arrival order
}

type condState struct{ next, notified int64 }
type semState struct{ cur, size int64 }

type objInfo struct {
	id  int
	oh  uint64
	seq uint64
}

const (
	clInfo uint8 = iota
	clMutex
	clChan
	clWG
	clCond
	clSem
)

// objState is the model state of one object (one class per entry).
type objState struct {
	key   uintptr
	class uint8
	info  objInfo
	mu    muState
	ch    chState
	wg    int64
	cond  condState
	sem   semState
}

//go:norace
func (s *Sched) lookup(class uint8, key uintptr) *objState {
	for _, o := range s.tab {
		if o.key == key && o.class == class {
			return o
		}
	}
	return nil
}

//go:norace
func (s *Sched) entry(class uint8, key uintptr) (*objState, bool) {
	if o := s.lookup(class, key); o != nil {
		return o, false
	}
	o := &objState{key: key, class: class}
	s.tab = append(s.tab, o)
	return o, true
}

// Config of one execution.
type Config struct {
	Horizon   int64 // virtual ns; 0 = none
	Deviation bool  // deviation cost instead of preemption cost
	Fixed     bool  // no schedule choices at all (default schedule only); Choose is still explored
	KeepTrace bool
	MaxSteps  int
	Expect    []uint64 // signatures of the choice points of the parent execution (divergence guard)
}

// Sched is one execution.
type Sched struct {
	cfg    Config
	gs     []*G
	cur    *G
	now    int64
	timers []*Timer
	tseq   int
	prefix []int
	points []ChoicePoint

	// model state: small slice tables searched linearly.  No Go maps here: the runtime's map functions
	// report accesses to the race detector on behalf of their caller even when the caller is
	// //go:norace, and this state is touched by whichever goroutine holds the token.
	tab  []*objState
	keep []any

	nobj  int
	fp    uint64
	fps   []uint64 // fingerprint after every step (for state counting)
	steps int

	endCh    chan struct{}
	aborting bool

	Panic     string
	PanicVal  any
	Diverged  string
	StepLimit bool
	Trace     []string
	Quiesce   func() // scenario observer run whenever virtual time is about to advance, and at the end
	inQuiesce bool
	devOff    bool // schedule alternatives are not offered at present (see SetDeviations)
	Touched   int // number of scheduling points with >1 candidate
	SelTies   int
}

// S is the current execution (one per process at a time).
var S *Sched

// Base is the wall-clock instant of virtual time 0.
var Base = time.Unix(1_700_000_000, 0)

//go:norace
func mix(a, b uint64) uint64 {
	x := a ^ (b + 0x9e3779b97f4a7c15 + (a << 6) + (a >> 2))
	x ^= x >> 30
	x *= 0xbf58476d1ce4e5b9
	x ^= x >> 27
	x *= 0x94d049bb133111eb
	x ^= x >> 31
	return x
}

// Active reports whether the caller runs inside a controlled execution.
//
//go:norace
func Active() bool { return S != nil && S.cur != nil }

// Now returns virtual time in ns (0 outside an execution).
//
//go:norace
func Now() int64 {
	if S == nil {
		return 0
	}
	return S.now
}

// Unwinding reports whether the calling goroutine is being torn down: every shim must then be a no-op.
//
//go:norace
func Unwinding() bool {
	s := S
	if s == nil || s.cur == nil {
		return false
	}
	return s.cur.abort
}

//go:norace
func (s *Sched) obj(key uintptr, g *G) *objInfo {
	o, fresh := s.entry(clInfo, key)
	if fresh {
		s.nobj++
		o.info = objInfo{id: s.nobj, oh: mix(g.gh, uint64(g.nops)+0x51ed)}
	}
	return &o.info
}

//go:norace
func (s *Sched) touch(key uintptr, g *G, ev uint64) {
	o := s.obj(key, g)
	s.fp -= mix(o.oh, o.seq)
	o.seq = mix(o.seq, ev)
	s.fp += mix(o.oh, o.seq)
}

//go:norace
func (s *Sched) mu(k uintptr) *muState {
	o, _ := s.entry(clMutex, k)
	return &o.mu
}

//go:norace
func (s *Sched) ch(k uintptr, n, c int) *chState {
	o, fresh := s.entry(clChan, k)
	if fresh {
		o.ch = chState{n: n, cap: c}
	}
	return &o.ch
}

//go:norace
func (s *Sched) chClosed(k uintptr) bool {
	if k == 0 {
		return false
	}
	o := s.lookup(clChan, k)
	return o != nil && o.ch.closed
}

// ModelChanPush records a send performed by a timer on the channel with the given key.
//
//go:norace
func ModelChanPush(key uintptr, c int) {
	S.ch(key, 0, c).n++
}

// ModelChanClose records a close performed outside a Close point (context cancellation).
//
//go:norace
func ModelChanClose(key uintptr) {
	S.ch(key, 0, 0).closed = true
}

// ModelChanClosed reports whether the model has the channel closed.
//
//go:norace
func ModelChanClosed(key uintptr) bool { return S != nil && S.chClosed(key) }

// Keep keeps a reference for the lifetime of the execution.
//
//go:norace
func Keep(x any) {
	if S != nil {
		S.keep = append(S.keep, x)
	}
}

//go:norace
func (s *Sched) selReady(c *SelCase) bool {
	if c.Key == 0 {
		return false
	}
	m := s.ch(c.Key, c.Len, c.Cap)
	if c.Send {
		if c.Cap == 0 {
			// unbuffered: ready when a receiver is waiting on the channel (or it is closed: the send panics)
			return m.closed || s.waitingReceiver(c.Key) != nil
		}
		return m.closed || m.n < m.cap
	}
	return m.n > 0 || m.closed || len(m.offers) > 0
}

// waitingReceiver returns a goroutine parked in a receive (plain or select) on the unbuffered channel key that
// has not been handed a value yet; the one with the lowest id (they are parked, so any fixed rule is a legal order).
//
//go:norace
func (s *Sched) waitingReceiver(key uintptr) *G {
	for _, g := range s.gs {
		if g == s.cur || g.done || g.op == nil || g.op.Handed {
			continue
		}
		switch g.op.Kind {
		case KRecv:
			if g.op.Key == key {
				return g
			}
		case KSelect:
			for i := range g.op.Cases {
				if !g.op.Cases[i].Send && g.op.Cases[i].Key == key {
					return g
				}
			}
		}
	}
	return nil
}

//go:norace
func (s *Sched) enabled(op *Op) bool {
	switch op.Kind {
	case KLock:
		return !s.mu(op.Key).held
	case KRLock:
		m := s.mu(op.Key)
		return !m.writer && m.pendingW == 0
	case KWAcquire:
		m := s.mu(op.Key)
		return !m.writer && m.readers == 0
	case KSend:
		if op.Key == 0 {
			return false
		}
		m := s.ch(op.Key, op.Len, op.Cap)
		return m.closed || m.n < m.cap || op.Offer != nil
	case KSendWait:
		return op.Offer.taken || s.ch(op.Key, 0, 0).closed
	case KRecv:
		if op.Key == 0 {
			return false
		}
		m := s.ch(op.Key, op.Len, op.Cap)
		return op.Handed || m.n > 0 || m.closed || len(m.offers) > 0
	case KSelect:
		if op.HasDefault || op.Handed {
			return true
		}
		for i := range op.Cases {
			if s.selReady(&op.Cases[i]) {
				return true
			}
		}
		return false
	case KSleep:
		return s.now >= op.N
	case KWGWait:
		o := s.lookup(clWG, op.Key)
		return o == nil || o.wg <= 0
	case KCondPark:
		o := s.lookup(clCond, op.Key)
		return o != nil && op.N < o.cond.notified
	case KSemAcquire:
		o := s.lookup(clSem, op.Key)
		if o != nil && o.sem.cur+op.N <= o.sem.size {
			return true
		}
		return s.chClosed(op.Key2)
	case KEnvBlock:
		return s.chClosed(op.Key)
	}
	return true
}

//go:norace
func (s *Sched) choose(n, cost int, kind uint8, sig uint64) int {
	i := len(s.points)
	c := 0
	if i < len(s.prefix) {
		c = s.prefix[i]
		if c >= n || c < 0 {
			if s.Diverged == "" {
				s.Diverged = fmt.Sprintf("point %d: prefix choice %d but %d alternatives", i, c, n)
			}
			c = 0
		}
		if i < len(s.cfg.Expect) && s.cfg.Expect[i] != sig && s.Diverged == "" {
			s.Diverged = fmt.Sprintf("point %d: signature differs from the parent execution", i)
		}
	}
	s.points = append(s.points, ChoicePoint{N: n, Chosen: c, Cost: cost, Sig: sig, FP: mix(s.fp, uint64(s.now)), Kind: kind})
	return c
}

type cand struct {
	g *G
	t *Timer
}

//go:norace
func (s *Sched) candidates(buf []cand) []cand {
	out := buf[:0]
	if c := s.cur; c != nil && !c.done && c.op != nil && s.enabled(c.op) {
		out = append(out, cand{g: c})
	}
	for _, g := range s.gs {
		if g == s.cur || g.done || g.op == nil {
			continue
		}
		if s.enabled(g.op) {
			out = append(out, cand{g: g})
		}
	}
	nd := 0
	for _, t := range s.timers {
		if !t.dead && t.at <= s.now {
			out = append(out, cand{t: t})
			nd++
		}
	}
	if nd > 1 {
		ts := out[len(out)-nd:]
		for i := 1; i < len(ts); i++ {
			for j := i; j > 0 && ts[j].t.seq < ts[j-1].t.seq; j-- {
				ts[j], ts[j-1] = ts[j-1], ts[j]
			}
		}
	}
	return out
}

//go:norace
func (s *Sched) nextDeadline() (int64, bool) {
	var best int64
	ok := false
	live := s.timers[:0]
	for _, t := range s.timers {
		if t.dead {
			continue
		}
		live = append(live, t)
		if !ok || t.at < best {
			best, ok = t.at, true
		}
	}
	s.timers = live
	for _, g := range s.gs {
		if !g.done && g.op != nil && g.op.Kind == KSleep {
			if !ok || g.op.N < best {
				best, ok = g.op.N, true
			}
		}
	}
	return best, ok
}

// pick returns the next goroutine to run (its operation already applied) or nil when the execution is over.
//
//go:norace
func (s *Sched) pick() *G {
	var buf [16]cand
	for {
		if s.Panic != "" {
			return nil
		}
		if s.cfg.MaxSteps > 0 && s.steps > s.cfg.MaxSteps {
			s.StepLimit = true
			return nil
		}
		cands := s.candidates(buf[:])
		if len(cands) == 0 {
			dl, ok := s.nextDeadline()
			if s.Quiesce != nil && !s.inQuiesce {
				s.inQuiesce = true
				s.runQuiesce()
				s.inQuiesce = false
				if s.Panic != "" {
					return nil
				}
			}
			if !ok || (s.cfg.Horizon > 0 && dl > s.cfg.Horizon) {
				return nil
			}
			if dl > s.now {
				s.now = dl
			}
			continue
		}
		idx := 0
		if len(cands) > 1 {
			s.Touched++
			if !s.cfg.Fixed && !s.devOff {
				cost := 0
				if s.cfg.Deviation || (cands[0].g != nil && cands[0].g == s.cur) {
					cost = 1
				}
				var sig uint64 = uint64(len(cands))
				for _, c := range cands {
					if c.g != nil {
						sig = mix(sig, uint64(c.g.id)<<8|uint64(c.g.op.Kind))
					} else {
						sig = mix(sig, 0xffff0000|uint64(c.t.seq))
					}
				}
				idx = s.choose(len(cands), cost, 0, sig)
			}
		}
		c := cands[idx]
		s.steps++
		if c.t != nil {
			c.t.dead = true
			if s.cfg.KeepTrace {
				s.Trace = append(s.Trace, fmt.Sprintf("[%d] timer#%d %s", s.now, c.t.seq, c.t.Desc))
			}
			s.fp = mix(s.fp, 0x7100+uint64(c.t.seq))
			raceOff()
			c.t.f.Fire()
			raceOn()
			s.fps = append(s.fps, mix(s.fp, uint64(s.now)))
			continue
		}
		s.grant(c.g)
		return c.g
	}
}

// runQuiesce calls the observer.  It must not perform visible operations.
func (s *Sched) runQuiesce() {
	defer func() {
		if r := recover(); r != nil && s.Panic == "" {
			s.PanicVal = r
			s.Panic = fmt.Sprintf("quiescence observer: %v", r)
		}
	}()
	s.Quiesce()
}

//go:norace
func (s *Sched) grant(g *G) {
	op := g.op
	ev := mix(mix(g.gh, uint64(g.nops)), uint64(op.Kind))
	switch op.Kind {
	case KLock:
		s.mu(op.Key).held = true
	case KUnlock:
		s.mu(op.Key).held = false
	case KRLock:
		s.mu(op.Key).readers++
	case KRUnlock:
		s.mu(op.Key).readers--
	case KWAnnounce:
		s.mu(op.Key).pendingW++
	case KWAcquire:
		m := s.mu(op.Key)
		m.pendingW--
		m.writer = true
	case KWUnlock:
		s.mu(op.Key).writer = false
	case KSend:
		m := s.ch(op.Key, op.Len, op.Cap)
		if m.closed {
			op.Result = -1
		} else if op.Offer != nil {
			m.offers = append(m.offers, op.Offer)
		} else {
			m.n++
		}
	case KSendWait:
		if !op.Offer.taken {
			op.Result = -1 // closed while waiting
		}
	case KRecv:
		m := s.ch(op.Key, op.Len, op.Cap)
		if op.Handed {
			op.Result = 1
		} else if m.n > 0 {
			m.n--
			op.Result = 1
		} else if len(m.offers) > 0 {
			op.Offer, m.offers = m.offers[0], m.offers[1:]
			op.Offer.taken = true
			op.Result = 1
		} else {
			op.Result = 0
		}
	case KClose:
		s.ch(op.Key, op.Len, op.Cap).closed = true
	case KSelect:
		var rb [8]int
		ready := rb[:0]
		for i := range op.Cases {
			if op.Handed {
				// a sender's select chose this parked receiver: it takes that value
				if !op.Cases[i].Send && op.Cases[i].Key == op.HandedKey && len(ready) == 0 {
					ready = append(ready, i)
				}
				continue
			}
			if s.selReady(&op.Cases[i]) {
				ready = append(ready, i)
			}
		}
		switch len(ready) {
		case 0:
			op.Result = -1
		case 1:
			op.Result = int64(ready[0])
		default:
			s.SelTies++
			if s.cfg.Fixed {
				op.Result = int64(ready[0])
			} else {
				op.Result = int64(ready[s.choose(len(ready), 0, 1, mix(uint64(len(ready)), uint64(g.id)))])
			}
		}
		for i := range op.Cases {
			if op.Cases[i].Key != 0 {
				s.touch(op.Cases[i].Key, g, mix(ev, uint64(op.Result+1)))
			}
		}
		if op.Result >= 0 {
			c := &op.Cases[op.Result]
			m := s.ch(c.Key, c.Len, c.Cap)
			if c.Send && c.Cap == 0 && !m.closed {
				// hand the value to the waiting receiver
				if r := s.waitingReceiver(c.Key); r != nil && op.SendVal != nil {
					r.op.Offer = &Offer{Val: op.SendVal(int(op.Result)), taken: true}
					r.op.Handed, r.op.HandedKey = true, c.Key
				}
			} else if c.Send {
				if !m.closed {
					m.n++
				}
			} else if op.Handed {
				// value already in op.Offer
			} else if m.n > 0 {
				m.n--
			} else if len(m.offers) > 0 {
				op.Offer, m.offers = m.offers[0], m.offers[1:]
				op.Offer.taken = true
			}
		}
	case KWGAdd:
		o, _ := s.entry(clWG, op.Key)
		o.wg += op.N
	case KCondReg:
		o, _ := s.entry(clCond, op.Key)
		op.Result = o.cond.next
		o.cond.next++
	case KCondSignal:
		if o := s.lookup(clCond, op.Key); o != nil && o.cond.notified < o.cond.next {
			o.cond.notified++
		}
	case KCondBroadcast:
		if o := s.lookup(clCond, op.Key); o != nil {
			o.cond.notified = o.cond.next
		}
	case KSemAcquire, KSemTry:
		o := s.lookup(clSem, op.Key)
		if o != nil && o.sem.cur+op.N <= o.sem.size {
			o.sem.cur += op.N
			op.Result = 1
		} else {
			op.Result = 0
		}
	case KSemRelease:
		if o := s.lookup(clSem, op.Key); o != nil {
			o.sem.cur -= op.N
		}
	}
	if op.Ref != nil {
		s.keep = append(s.keep, op.Ref)
	}
	ev = mix(ev, uint64(op.Result))
	key := op.Key
	if key == 0 || op.Kind == KSelect {
		key = uintptr(g.gh) | 1 // goroutine-local pseudo object
	}
	s.touch(key, g, ev)
	s.fps = append(s.fps, mix(s.fp, uint64(s.now)))
	if s.cfg.KeepTrace {
		id := 0
		if op.Key != 0 {
			id = s.obj(op.Key, g).id
		}
		s.Trace = append(s.Trace, fmt.Sprintf("[%d] g%d %s %s #%d -> %d", s.now, g.id, op.Kind, op.Desc, id, op.Result))
	}
	g.nops++
	g.op = nil
	s.cur = g
}

// RegisterSem tells the model the size of a semaphore.
//
//go:norace
func RegisterSem(key uintptr, size int64) {
	if S != nil {
		o, _ := S.entry(clSem, key)
		o.sem = semState{size: size}
	}
}

// dispatch is called by the token holder after publishing its operation (or when exiting, self == nil
// or self.done).
//
//go:norace
func (s *Sched) dispatch(self *G) {
	next := s.pick()
	if next == nil {
		raceOff()
		s.endCh <- struct{}{}
		if self != nil && !self.done {
			<-self.wake
		}
		raceOn()
		return
	}
	if next == self {
		return
	}
	raceOff()
	next.wake <- struct{}{}
	if self != nil && !self.done {
		<-self.wake
	}
	raceOn()
}

// Do publishes op and parks until it is granted.  Returns false when the goroutine is being torn down
// (the caller must then not perform the real operation).
//
//go:norace
func Do(op *Op) bool {
	s := S
	if s == nil || s.cur == nil {
		return true // outside a controlled execution: pass through
	}
	g := s.cur
	if g.abort {
		return false
	}
	g.op = op
	s.dispatch(g)
	if g.abort {
		g.unwinding = true
		runtime.Goexit()
	}
	return true
}

//go:norace
func (s *Sched) newG(parent *G) *G {
	g := &G{id: len(s.gs), wake: make(chan struct{}, 1)}
	if parent != nil {
		g.gh = mix(parent.gh, uint64(parent.spawns)+1)
		parent.spawns++
	} else {
		g.gh = 0x1234567
	}
	g.op = &Op{Kind: KStart, Desc: "start"}
	s.gs = append(s.gs, g)
	return g
}

//go:norace
func (s *Sched) body(g *G, f func()) {
	raceOff()
	<-g.wake
	raceOn()
	if g.abort {
		g.done = true
		raceOff()
		s.endCh <- struct{}{}
		raceOn()
		return
	}
	defer s.exit(g)
	f()
}

//go:norace
func (s *Sched) exit(g *G) {
	if r := recover(); r != nil {
		if s.Panic == "" && !g.abort {
			buf := make([]byte, 8192)
			n := runtime.Stack(buf, false)
			s.PanicVal = r
			s.Panic = fmt.Sprintf("panic in g%d: %v\n%s", g.id, r, buf[:n])
		}
	}
	g.done = true
	g.op = nil
	if g.abort || s.aborting {
		raceOff()
		s.endCh <- struct{}{}
		raceOn()
		return
	}
	s.dispatch(g)
}

// Go starts a controlled goroutine (outside an execution: a plain goroutine).
//
//go:norace
func Go(f func()) {
	s := S
	if s == nil || s.cur == nil {
		go f()
		return
	}
	if s.cur.abort {
		return
	}
	g := s.newG(s.cur)
	go s.body(g, f)
	Do(&Op{Kind: KSpawn, Desc: "spawn"})
}

// SpawnFromTimer starts a controlled goroutine from inside a timer's Fire (time.AfterFunc, context.AfterFunc):
// the goroutine is registered and becomes schedulable; there is no scheduling point at the spawn itself.
//
//go:norace
func SpawnFromTimer(f func()) {
	s := S
	if s == nil {
		go f()
		return
	}
	g := s.newG(s.cur)
	go s.body(g, f)
}

// ModelChanLen reports how many elements the model has in the channel.
//
//go:norace
func ModelChanLen(key uintptr) int {
	if S == nil {
		return 0
	}
	return S.ch(key, 0, 1).n
}

// GoNamed is Go with a label for traces.
func GoNamed(name string, f func()) {
	s := S
	Go(f)
	if s != nil && len(s.gs) > 0 {
		s.gs[len(s.gs)-1].Name = name
	}
}

// Choose is an environment choice with n alternatives (never costs budget, never a scheduling point).
//
// SetDeviations switches the offering of schedule alternatives on or off from inside the scenario: while
// off, the default schedule is followed and no schedule choice points are recorded (environment choices
// and select ties are unaffected).  A scenario that runs for many virtual slots uses it to confine the
// schedule bound to the instants it is about (a start, the handling of an event).  It must be called at
// the same places in every execution of a unit.
//
//go:norace
func SetDeviations(on bool) {
	if s := S; s != nil {
		s.devOff = !on
	}
}

//go:norace
func Choose(n int) int {
	s := S
	if n <= 1 || s == nil || s.cur == nil || s.cur.abort {
		return 0
	}
	g := s.cur
	c := s.choose(n, 0, 2, mix(0xc0, uint64(n)))
	s.touch(uintptr(g.gh)|1, g, mix(0xc1, uint64(c)))
	s.fps = append(s.fps, mix(s.fp, uint64(s.now)))
	if s.cfg.KeepTrace {
		s.Trace = append(s.Trace, fmt.Sprintf("[%d] g%d choose/%d -> %d", s.now, g.id, n, c))
	}
	return c
}

// Yield is a plain scheduling point.
//
//go:norace
func Yield() { Do(&Op{Kind: KYield, Desc: "yield"}) }

// Sleep parks until virtual time has advanced by d ns.
//
//go:norace
func Sleep(d int64) {
	if !Active() {
		return
	}
	if d < 0 {
		d = 0
	}
	Do(&Op{Kind: KSleep, N: S.now + d, Desc: "sleep"})
}

// Block parks the goroutine as "environment" until the channel with key doneKey (0: never) is closed.
//
//go:norace
func Block(doneKey uintptr) {
	Do(&Op{Kind: KEnvBlock, Key: doneKey, Desc: "env"})
}

// AddTimer registers f to fire at virtual time at.
//
//go:norace
func AddTimer(at int64, target uintptr, desc string, f Fireable) *Timer {
	s := S
	if at < s.now {
		at = s.now
	}
	t := &Timer{at: at, seq: s.tseq, f: f, Target: target, Desc: desc}
	s.tseq++
	s.timers = append(s.timers, t)
	return t
}

// Stop cancels the timer.
//
//go:norace
func (t *Timer) Stop() { t.dead = true }

// Blocked describes a goroutine that had not finished when the execution ended.
type Blocked struct {
	G     int
	Name  string
	Kind  Kind
	Desc  string
	Class string // "sleeping", "environment", "blocked"
}

// Result of one execution.
type Result struct {
	Points    []ChoicePoint
	Panic     string
	PanicVal  any
	Blocked   []Blocked
	Trace     []string
	Steps     int
	Now       int64
	Diverged  string
	StepLimit bool
	FPs       []uint64
	Touched   int
	SelTies   int
	Gs        int
}

//go:norace
func (s *Sched) classify(g *G) string {
	op := g.op
	switch op.Kind {
	case KSleep:
		return "sleeping"
	case KEnvBlock:
		return "environment"
	}
	// waiting on a channel that a pending timer will make ready?
	keys := []uintptr{}
	switch op.Kind {
	case KRecv:
		keys = append(keys, op.Key)
	case KSelect:
		for _, c := range op.Cases {
			if !c.Send {
				keys = append(keys, c.Key)
			}
		}
	case KSemAcquire:
		keys = append(keys, op.Key2)
	}
	for _, k := range keys {
		for _, t := range s.timers {
			if !t.dead && t.Target == k && k != 0 {
				return "sleeping"
			}
		}
	}
	return "blocked"
}

// Watchdog is the real-time limit for one execution (uncontrolled blocking → exit 2).
var Watchdog = 120 * time.Second

//go:norace
func (s *Sched) waitEnd() {
	select {
	case <-s.endCh:
	case <-time.After(Watchdog):
		fmt.Fprintf(os.Stderr, "mc: watchdog: execution did not reach a scheduling point within %v (uncontrolled blocking)\n", Watchdog)
		buf := make([]byte, 1<<20)
		n := runtime.Stack(buf, true)
		os.Stderr.Write(buf[:n])
		os.Exit(2)
	}
}

// Run executes body under the given choice prefix.
func Run(prefix []int, cfg Config, body func()) *Result {
	s := &Sched{cfg: cfg, prefix: prefix, endCh: make(chan struct{})}
	if s.cfg.MaxSteps == 0 {
		s.cfg.MaxSteps = 300_000
	}
	S = s
	g0 := s.newG(nil)
	go s.body(g0, body)
	s.run0()
	r := &Result{Points: s.points, Panic: s.Panic, PanicVal: s.PanicVal, Trace: s.Trace, Steps: s.steps, Now: s.now,
		Diverged: s.Diverged, StepLimit: s.StepLimit, FPs: s.fps, Touched: s.Touched, SelTies: s.SelTies, Gs: len(s.gs)}
	for _, g := range s.gs {
		if !g.done && g.op != nil {
			r.Blocked = append(r.Blocked, Blocked{G: g.id, Name: g.Name, Kind: g.op.Kind, Desc: g.op.Desc, Class: s.classify(g)})
		}
	}
	if s.Quiesce != nil && s.Panic == "" {
		s.cur = nil
		s.runQuiesce()
		if s.Panic != "" {
			r.Panic, r.PanicVal = s.Panic, s.PanicVal
		}
	}
	s.teardown()
	S = nil
	return r
}

//go:norace
func (s *Sched) run0() {
	next := s.pick()
	if next == nil {
		return
	}
	raceOff()
	next.wake <- struct{}{}
	raceOn()
	s.waitEnd()
}

//go:norace
func (s *Sched) teardown() {
	s.aborting = true
	for _, g := range s.gs {
		if g.done {
			continue
		}
		g.abort = true
		s.cur = g
		raceOff()
		g.wake <- struct{}{}
		raceOn()
		s.waitEnd()
	}
	s.cur = nil
}

// SetQuiesce installs the quiescence observer of the current execution.
func SetQuiesce(f func()) { S.Quiesce = f }

// TraceString renders a trace.
func TraceString(tr []string) string { return strings.Join(tr, "\n") }

// Unsupported aborts the whole process with status 2: the harness cannot decide.
func Unsupported(what string) {
	fmt.Fprintln(os.Stderr, "mc: unsupported construct reached:", what)
	os.Exit(2)
}
