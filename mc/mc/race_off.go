//go:build !race

package mc

func raceOff() {}
func raceOn()  {}

// RaceErrors returns the number of data races reported so far in this process.
func RaceErrors() int { return 0 }

// RaceBuild reports whether the binary was built with the race detector.
const RaceBuild = false

func RaceAcquire(p *byte)      {}
func RaceReleaseMerge(p *byte) {}
