package mc

import (
	"fmt"
	"sort"
	"time"
)

// Verdict is what a scenario's oracle says about one complete execution.
type Verdict struct {
	Violation  string // "" = holds; otherwise the failed clause, human readable
	Key        string // stable finding key (clause + structural cause) for known_findings.txt
	Outcome    string // observable outcome label (for distinct-outcome statistics)
	Nontrivial bool   // the mechanism the property is about was exercised in this execution
	Sample     string // optional description of the case (kept for a few executions)
	Detail     string // optional long text (panic stack) stored in the replay file
}

// Violation is a recorded counterexample.
type Violation struct {
	Msg     string
	Key     string
	Choices []int
	Cost    int
	Trace   []string
	Detail  string
}

// Opts of one exploration.
type Opts struct {
	Bound    int  // max cost; <0 = unbounded
	Prune    bool // unbounded mode only: skip subtrees of already visited states
	MaxViol  int  // stop after this many distinct finding keys (0 = 8)
	Deadline time.Time
	MaxExec  int
	States   map[uint64]struct{} // optional shared set for state counting
	NoRepro  bool                // do not require a violation to reproduce on the traced re-run (race reports are deduplicated by the detector)
	MaxState int
}

// Stats of one exploration.
type Stats struct {
	Executions  int
	Transitions int
	MaxPoints   int
	MaxGs       int
	Nontrivial  int
	Contended   int // executions with at least one scheduling point that had >1 candidate
	SelTies     int
	Outcomes    map[string]int
	NTOutcomes  map[string]int // outcomes of non-trivial executions
	Violations  []Violation
	Samples     []string
	Complete    bool // the bounded space was enumerated completely
	Pruned      int
	Diverged    string
	StepLimited int
	StatesCap   bool
}

// Explore runs body under every schedule / environment choice within the bound and applies check to
// every complete execution.
func Explore(cfg Config, o Opts, body func(), check func(r *Result) Verdict) *Stats {
	st := &Stats{Outcomes: map[string]int{}, NTOutcomes: map[string]int{}, Complete: true}
	if o.MaxViol == 0 {
		o.MaxViol = 8
	}
	if o.MaxState == 0 {
		o.MaxState = 5_000_000 // per unit; beyond it `states` is a lower bound (the set costs ~50 bytes per entry and 16 workers run at once)
	}
	visited := map[uint64]struct{}{}
	keys := map[string]bool{}
	stop := false
	var rec func(prefix []int, expect []uint64)
	rec = func(prefix []int, expect []uint64) {
		if stop {
			return
		}
		if (o.MaxExec > 0 && st.Executions >= o.MaxExec) || (!o.Deadline.IsZero() && st.Executions%64 == 0 && time.Now().After(o.Deadline)) {
			st.Complete = false
			stop = true
			return
		}
		c := cfg
		c.Expect = expect
		r := Run(prefix, c, body)
		st.Executions++
		st.Transitions += r.Steps
		if len(r.Points) > st.MaxPoints {
			st.MaxPoints = len(r.Points)
		}
		if r.Gs > st.MaxGs {
			st.MaxGs = r.Gs
		}
		if r.Touched > 0 {
			st.Contended++
		}
		st.SelTies += r.SelTies
		if o.States != nil {
			if len(o.States) < o.MaxState {
				for _, f := range r.FPs {
					o.States[f] = struct{}{}
				}
			} else {
				st.StatesCap = true
			}
		}
		if r.Diverged != "" {
			st.Diverged = r.Diverged
			st.Complete = false
			stop = true
			return
		}
		if r.StepLimit {
			st.StepLimited++
		}
		v := check(r)
		st.Outcomes[v.Outcome]++
		if v.Nontrivial {
			st.Nontrivial++
			st.NTOutcomes[v.Outcome]++
		}
		if v.Sample != "" && len(st.Samples) < 4 && (v.Nontrivial || len(st.Samples) == 0) {
			st.Samples = append(st.Samples, v.Sample)
		}
		if v.Violation != "" {
			k := v.Key
			if k == "" {
				k = v.Violation
			}
			if !keys[k] {
				keys[k] = true
				ch := make([]int, len(r.Points))
				cost := 0
				for i, p := range r.Points {
					ch[i] = p.Chosen
					if p.Chosen > 0 {
						cost += p.Cost
					}
				}
				// re-run with a trace for the replay file
				tc := cfg
				tc.KeepTrace = true
				tr := Run(ch, tc, body)
				v2 := check(tr)
				if !o.NoRepro && (v2.Violation != v.Violation || v2.Key != v.Key) {
					st.Diverged = fmt.Sprintf("violation did not reproduce on replay: first %q, then %q", v.Violation, v2.Violation)
					st.Complete = false
					stop = true
					return
				}
				st.Violations = append(st.Violations, Violation{Msg: v.Violation, Key: k, Choices: ch, Cost: cost, Trace: tr.Trace, Detail: detail(v, tr)})
				if len(keys) >= o.MaxViol {
					st.Complete = false
					stop = true
					return
				}
			}
		}
		if r.StepLimit {
			// the execution did not end within the step limit (a goroutine spins without blocking): it has
			// been judged as it stands; its choice points are not expanded (each alternative would spin as
			// well), and unless the oracle flagged it the exploration is not complete
			if v.Violation == "" {
				st.Complete = false
			}
			return
		}
		sigs := make([]uint64, len(r.Points))
		for i, p := range r.Points {
			sigs[i] = p.Sig
		}
		used := 0
		for i, p := range r.Points {
			if i >= len(prefix) {
				if o.Prune && o.Bound < 0 {
					if _, seen := visited[p.FP]; seen && p.Kind != 2 {
						st.Pruned++
						break
					}
					visited[p.FP] = struct{}{}
				}
				for alt := 1; alt < p.N; alt++ {
					if o.Bound >= 0 && used+p.Cost > o.Bound {
						break
					}
					np := make([]int, i+1)
					for j := 0; j < i; j++ {
						np[j] = r.Points[j].Chosen
					}
					np[i] = alt
					rec(np, sigs[:i+1])
					if stop {
						return
					}
				}
			}
			if p.Chosen > 0 {
				used += p.Cost
			}
		}
	}
	rec(nil, nil)
	return st
}

// Merge adds b into a.
func (a *Stats) Merge(b *Stats) {
	a.Executions += b.Executions
	a.Transitions += b.Transitions
	if b.MaxPoints > a.MaxPoints {
		a.MaxPoints = b.MaxPoints
	}
	if b.MaxGs > a.MaxGs {
		a.MaxGs = b.MaxGs
	}
	a.Nontrivial += b.Nontrivial
	a.Contended += b.Contended
	a.SelTies += b.SelTies
	a.Pruned += b.Pruned
	a.StepLimited += b.StepLimited
	if a.Outcomes == nil {
		a.Outcomes = map[string]int{}
	}
	if a.NTOutcomes == nil {
		a.NTOutcomes = map[string]int{}
	}
	for k, v := range b.Outcomes {
		a.Outcomes[k] += v
	}
	for k, v := range b.NTOutcomes {
		a.NTOutcomes[k] += v
	}
	a.Violations = append(a.Violations, b.Violations...)
	for _, s := range b.Samples {
		if len(a.Samples) < 6 {
			a.Samples = append(a.Samples, s)
		}
	}
	a.Complete = a.Complete && b.Complete
	a.StatesCap = a.StatesCap || b.StatesCap
	if a.Diverged == "" {
		a.Diverged = b.Diverged
	}
}

// SortedOutcomes lists outcome labels.
func SortedOutcomes(m map[string]int) []string {
	ks := make([]string, 0, len(m))
	for k := range m {
		ks = append(ks, k)
	}
	sort.Strings(ks)
	return ks
}

func detail(v Verdict, r *Result) string {
	if v.Detail != "" {
		return v.Detail
	}
	return r.Panic
}
