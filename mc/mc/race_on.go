//go:build race

package mc

import "runtime"

func raceOff() { runtime.RaceDisable() }
func raceOn()  { runtime.RaceEnable() }

// RaceErrors returns the number of data races reported so far in this process.
func RaceErrors() int { return runtime.RaceErrors() }

// RaceBuild reports whether the binary was built with the race detector.
const RaceBuild = true

// RaceAcquire / RaceRelease annotate model-only primitives.
func RaceAcquire(p *byte)      { runtime.RaceAcquire(unsafePtr(p)) }
func RaceReleaseMerge(p *byte) { runtime.RaceReleaseMerge(unsafePtr(p)) }
