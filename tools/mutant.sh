#!/bin/bash
# usage: tools/mutant.sh <label> <file relative to repo> <python-replace-old> <python-replace-new> <check id> [extra check args]
# Applies a one-off textual mutation to a scratch copy of /repo, runs the repo's tests of that package and the check.
set -u
label=$1; file=$2; old=$3; new=$4; id=$5; shift 5
d=/tmp/repo-mut-$$
rm -rf $d; cp -r /repo $d
python3 - "$d/$file" "$old" "$new" <<'P'
import sys
p,old,new=sys.argv[1:4]
s=open(p).read()
n=s.count(old)
if n<1:
    print("MUTATION DID NOT APPLY"); sys.exit(3)
open(p,'w').write(s.replace(old,new,1))
P
[ $? -eq 0 ] || { rm -rf $d; exit 3; }
export GOFLAGS=-mod=mod GOPROXY=off GOSUMDB=off GOTOOLCHAIN=local
pkg=$(dirname $file)
(cd $d && go build ./... 2>&1 | tail -3 && go test -vet=off -count=1 ./$pkg/... 2>&1 | grep -v "no test files" | tail -2)
VERIF_REPO=$d /verif/check $id quick "$@" 2>&1 | grep -E "finding key|VIOLATION|quick:" | cut -c1-260 | head -6
echo "[$label] check exit=${PIPESTATUS[0]}"
rm -rf $d
git -C /verif checkout -q evidence/$id.json 2>/dev/null
