#!/usr/bin/env python3
"""Confirm a seeded change delivered by a sub-agent and run the checks against it.

  tools/seedeval.py <seed id, e.g. C05-1> <dir with patch.diff + demo + notes.md> <property id> [--demo-dir <pkg dir>] [--checks C05,C16] [--tier quick]

Steps (all in a scratch copy of /repo outside /repo and /verif, removed afterwards):
  1. the patch applies to /repo's HEAD and the tree builds;
  2. the repository's whole test suite passes with the patch (demo absent);
  3. the demonstration fails with the patch and passes without it;
  4. the listed checks are run against the patched copy (VERIF_REPO) and their verdicts recorded.
Results are stored under /verif/seeded/<seed id>/ (patch.diff, the demonstration, notes.md, meta.json).
"""
import glob
import json
import os
import re
import shutil
import subprocess
import sys
import time

VERIF = os.path.dirname(os.path.dirname(os.path.abspath(__file__)))
ENV = dict(os.environ, GOFLAGS="-mod=mod", GOPROXY="off", GOSUMDB="off", GOTOOLCHAIN="local")


def run(cmd, cwd=None, env=None, timeout=3600):
    p = subprocess.run(cmd, cwd=cwd, env=env or ENV, stdout=subprocess.PIPE, stderr=subprocess.STDOUT, text=True, timeout=timeout)
    return p.returncode, p.stdout


def main():
    a = sys.argv[1:]
    sid, src, prop = a[0], a[1], a[2]
    demo_dir = None
    checks = [prop]
    tier = "quick"
    race = prop == "C17"
    demo_map = {}
    i = 3
    while i < len(a):
        if a[i] == "--demo-dir":
            demo_dir = a[i + 1]
        elif a[i] == "--checks":
            checks = a[i + 1].split(",")
        elif a[i] == "--tier":
            tier = a[i + 1]
        elif a[i] == "--demo-map":  # file=dir,file=dir for demonstrations that live in several packages
            demo_map = dict(x.split("=") for x in a[i + 1].split(","))
        i += 2
    patch = os.path.join(src, "patch.diff")
    demos = [f for f in glob.glob(os.path.join(src, "*_test.go"))] + [f for f in glob.glob(os.path.join(src, "*.go")) if not f.endswith("_test.go")]
    d = "/tmp/seedeval-" + sid
    shutil.rmtree(d, ignore_errors=True)
    run(["git", "clone", "-q", "/repo", d])
    meta = {"seed": sid, "property": prop, "repo_commit": run(["git", "-C", "/repo", "log", "--format=%h", "-1"])[1].strip(), "checks": {}, "when": time.strftime("%Y-%m-%d %H:%M:%S")}
    rc, out = run(["git", "apply", patch], cwd=d)
    if rc != 0:
        print("patch does not apply:", out[-500:])
        meta["confirmed"] = False
        meta["reason"] = "patch does not apply to HEAD"
        return finish(sid, src, meta, d)
    files = re.findall(r"^\+\+\+ b/(.*)$", open(patch).read(), re.M)
    meta["files"] = files
    if demo_dir is None:
        demo_dir = os.path.dirname(files[0])
    rc, out = run(["go", "build", "./..."], cwd=d)
    meta["builds"] = rc == 0
    rc, out = run(["go", "test", "-vet=off", "-count=1", "-p", "4", "./..."], cwd=d)
    fails = [l for l in out.splitlines() if l.startswith("FAIL") or l.startswith("--- FAIL")]
    if fails:
        # timing-based scheduler tests are flaky under load: retry the failing packages once alone
        pk = sorted(set(l.split()[1] for l in fails if l.startswith("FAIL") and len(l.split()) > 1 and "/" in l.split()[1]))
        still = []
        for p in pk:
            rc2, out2 = run(["go", "test", "-vet=off", "-count=1", p.replace("github.com/attestantio/vouch", ".")], cwd=d)
            if rc2 != 0:
                still.append(p)
        fails = still
    meta["suite_passes_with_patch"] = not fails
    if fails:
        meta["suite_failures"] = fails
    # demonstration
    demo_res = {}
    where = {f: demo_map.get(os.path.basename(f), demo_dir) for f in demos}
    for f in demos:
        shutil.copy(f, os.path.join(d, where[f], os.path.basename(f)))
    pkgs = sorted(set("./" + w + "/" for w in where.values()))
    names = []
    for f in demos:
        names += re.findall(r"^func (Test\w+)\(", open(f).read(), re.M)
    runarg = "^(" + "|".join(names) + ")$" if names else "."
    tcmd = ["go", "test", "-vet=off", "-count=1"] + (["-race"] if race else [])
    rc, out = run(tcmd + ["-run", runarg] + pkgs, cwd=d)
    demo_res["fails_with_patch"] = rc != 0
    run(["git", "apply", "-R", patch], cwd=d)
    rc, out2 = run(tcmd + ["-run", runarg] + pkgs, cwd=d)
    demo_res["passes_without_patch"] = rc == 0
    if rc != 0:
        demo_res["output_without_patch"] = out2[-1500:]
    run(["git", "apply", patch], cwd=d)
    for f in demos:
        os.remove(os.path.join(d, where[f], os.path.basename(f)))
    meta["demonstration"] = demo_res
    meta["demo_dir"] = demo_dir
    meta["confirmed"] = bool(meta["builds"] and meta["suite_passes_with_patch"] and demo_res["fails_with_patch"] and demo_res["passes_without_patch"])
    # the checks
    for c in checks:
        env = dict(ENV, VERIF_REPO=d)
        t0 = time.time()
        rc, out = run([os.path.join(VERIF, "check"), c, tier], env=env)
        keys = re.findall(r"finding key=(\S+)", out)
        meta["checks"][c] = {"tier": tier, "exit": rc, "caught": rc == 1, "finding_keys": keys, "wall_s": round(time.time() - t0, 1), "summary": [l for l in out.splitlines() if " %s:" % tier in l][-1:] }
        # evidence files belong to runs against /repo: restore
        run(["git", "-C", VERIF, "checkout", "-q", "evidence/%s.json" % c])
    return finish(sid, src, meta, d)


def finish(sid, src, meta, d):
    out = os.path.join(VERIF, "seeded", sid)
    os.makedirs(out, exist_ok=True)
    for f in os.listdir(src):
        if os.path.isfile(os.path.join(src, f)):
            shutil.copy(os.path.join(src, f), os.path.join(out, f))
    if "notes.md" in os.listdir(out):
        txt = open(os.path.join(out, "notes.md")).read()
        meta["needs_to_manifest"] = " ".join(txt.split())[:600]
    json.dump(meta, open(os.path.join(out, "meta.json"), "w"), indent=1)
    shutil.rmtree(d, ignore_errors=True)
    print(json.dumps({k: meta[k] for k in meta if k in ("seed", "confirmed", "checks", "suite_passes_with_patch", "demonstration")}, indent=1))
    return 0


if __name__ == "__main__":
    sys.exit(main())
