#!/usr/bin/env python3
"""Regenerates /verif/MANIFEST.json from the table below (run after adding a property check)."""
import json, os
V = os.path.dirname(os.path.dirname(os.path.abspath(__file__)))
ids = ["C%02d" % i for i in range(1, 21)]
MC = "stateless model checking of the implementation: controlled scheduler + exhaustive DFS over schedule and environment choices"
SEQ = "explicit exhaustive enumeration of operation sequences / inputs on the real code under the controlled runtime (fixed schedule), against a reference model"
P = {
 "C02": ("model_checking",
   "All interleavings of the real scheduler's job goroutine, run/cancel/context actors and timers for 29 scenarios: quick = every schedule with <=2 preemptions, thorough = the unbounded schedule space with happens-before state pruning. Schedules are the quantifier of the property, so exhaustive interleaving exploration is the matching level.",
   "Trusted: the controlled runtime's model of mutex/RWMutex/atomic/channel/select/timer semantics; atomicity of code between synchronisation operations (C17); scenarios fix 1 job, <=2 actors, instants T-2..T+1.",
   MC + " (preemption-bounded; unbounded with HB-fingerprint pruning)", "DESIGN.md §6 C02"),
 "C18": ("model_checking",
   "Every operation sequence up to depth 4 (quick) / 6 (thorough) over block events, lookups with a working or failing beacon node and clean runs, for three roots placed around the retention boundary, executed on the real cache + real scheduler + real chain time on a virtual clock and compared with a reference map after every step. Histories are the quantifier; bounded-depth exhaustive enumeration covers non-initial states.",
   "Trusted: virtual clock; scripted header provider; three roots / depth bound; sequential caller (overlap is C17).",
   SEQ, "DESIGN.md §6 C18"),
 "C07": ("model_checking",
   "Each of the 14 non-builder strategy implementations (best/majority/first/latest for attestation data, aggregate attestation, proposal, sync contribution, block root, header, signed block) is run against n=1..3 scripted nodes for every assignment of response kind x latency (x majority threshold), and for every order of same-instant events and select ties within the schedule bound; the oracle works on the observed return instant and the scripted arrival sets. Inputs, fault sequences and schedules are enumerated exhaustively within the alphabet.",
   "Trusted: virtual clock (computation is instantaneous); latency alphabet {0,<soft,=soft,between,=hard,never,late}; n<=3; nodes honour cancellation except the explicit late kind; builder-bid strategies are C09.",
   MC + " (n<=2 preemption-bounded, n=3 deviation-bounded)", "DESIGN.md §6 C07"),
 "C08": ("model_checking",
   "The real multinode submitter (8 submission kinds; sync.Cond + semaphore + util.Scatter under the controlled runtime) against n=1..3 scripted nodes: every assignment of behaviour (accept, reject, every client-specific tolerated rejection, malformed error JSON variants) x latency (0,<timeout,=timeout,>timeout,hang) x payload size x process concurrency, each explored over all schedules within a deviation bound (quick 1 for n<=2, 0 for n=3; thorough 2 / 1); plus the immediate submitter and all Scatter partitions. Fault sequences and inputs are enumerated completely within the alphabet.",
   "Trusted: virtual clock; a node's chunk calls behave alike; tolerated-rejection table taken from the code's client/kind table; boundary instants admitted both ways.",
   MC + " (deviation-bounded)", "DESIGN.md §6 C08"),
 "C19": ("model_checking",
   "All configuration trees over 4 (thorough 5) dotted levels with values present/absent and two distinct values per level, side nodes, 5 configuration sources (Set, YAML, YAML+default, environment, defaults), all lookup paths incl. siblings and look-alikes, for the 5 hierarchical accessors, compared with an independent longest-prefix reference. Configurations are the quantifier; the bounded tree space is enumerated completely.",
   "Trusted: viper as configuration store; values vouch treats as 'no value' (0, empty) are outside the alphabet.",
   SEQ, "DESIGN.md §6 C19"),
 "C12": ("model_checking",
   "The real blockrelay service (real constructor, REST daemon stubbed) with a scripted configuration source: every sequence of 2 (thorough 3) fetch outcomes over 7 kinds x every set of 1-2 concurrent requests (lookups, auctions, registration round), all interleavings within a preemption bound (quick 1, thorough 2) under an RWMutex model with Go's writer preference; every call must return, nothing may stay blocked, and lookups must answer from the last good document. Fault sequences x schedules are the quantifier.",
   "Trusted: RWMutex writer-preference model; stand-in relay client / bid strategy / signer return immediately; two validators; unresolvable settings produced by a zero-pubkey proposer entry.",
   MC + " (preemption-bounded)", "DESIGN.md §6 C12"),
 "C06": ("model_checking",
   "All ten signing entry points of the real signer service with real BLS keys (local, remote ordinary, remote distributed with 2-of-3 threshold recovery): slots on both sides of an epoch and a fork boundary x message field values x all account-kind batches up to length 3 (thorough 4); every returned signature is BLS-verified against an independently merkleised signing root and independently computed domain. Inputs are enumerated completely within the alphabet.",
   "Trusted: herumi BLS, go-eth2-client HashTreeRoot of spec types, the stand-in accounts modelled on the dirk client; value domains are small alphabets, not all 2^256 roots.",
   SEQ, "DESIGN.md §6 C06"),
 "C13": ("model_checking",
   "Specifier lists (<=2, thorough <=3, over 10 specifiers incl. anchors, character classes and alternation) x wallets x account names through both account managers' real admission path, compared with Go-regexp full-match semantics; all validator records (activation/exit/withdrawable in {past,=epoch,future,far-future}, slashed) x epochs 0..3 through the managers over the real validators manager; all refresh-outcome sequences (<=4, thorough 6) for the validators manager and dirk. Configurations, inputs and fault sequences are enumerated completely within the alphabet.",
   "Trusted: in-package hooks only add constructors/accessors; go-eth2-client's ValidatorToState; 'only if' direction for admission.",
   SEQ, "DESIGN.md §6 C13"),
 "C17": ("model_checking",
   "Overlap scenarios of operations that run on different goroutines in production, explored over all interleavings within a preemption bound (quick 1, thorough 2) in a -race build: the controlled runtime's token hand-offs carry no happens-before edge and shimmed primitives perform the real synchronisation, so ThreadSanitizer decides, per explored schedule, whether two conflicting vouch accesses are unordered. Schedules are the quantifier.",
   "Trusted: ThreadSanitizer; release/acquire annotations of model-only primitives (Cond, semaphore, WaitGroup); scenario list (scheduler, cache, block relay; more are added as other harnesses come online).",
   MC + " under the Go race detector (preemption-bounded)", "DESIGN.md §6 C17"),
 "C09": ("model_checking",
   "The real best and deadline builder-bid strategies (real BLS verification of relay signatures) against n=1..2 (thorough 3) scripted relays: per relay one eligibility defect or none x value x builder x payload header x latency (x per-attempt value drift for the deadline strategy) x builder configurations (offset, factor incl. exclusion), explored with deviation-bounded schedules; plus the block relay's AuctionBlock -> BuilderBid cache. The oracle recomputes eligibility and scores independently and works on the observed return instant.",
   "Trusted: herumi BLS; relays honour cancellation; score formula as documented; quick tier restricts the latency/value/config alphabets.",
   MC + " (deviation-bounded)", "DESIGN.md §6 C09"),
 "C10": ("model_checking",
   "Execution configurations built as JSON and decoded by the real version-dispatching unmarshaller: presence lattice of fee recipient / gas limit / grace / min value over top level, base relay, proposer entry and proposer relay, relay sets (inherited, new, disabled, reset), ordered proposer lists mixing pubkey and (anchored / unanchored) account regexes, for 2 pubkeys x 3 account names, v2 and legacy v1; compared with an independent reference resolver written from the documentation, and checked for marshal/unmarshal meaning preservation. Configurations are enumerated completely within the bounded grammar (pairwise in quick, fuller in thorough).",
   "Trusted: the reference resolver (from docs/executionconfig.md and docs/execlayer.md); relay order compared as a set; null entries / regex alternation are C16 / C13 inputs.",
   SEQ, "DESIGN.md §6 C10"),
 "C05": ("model_checking",
   "Real Prepare + Propose of the block proposer for every block version x blinded x proposal slot x graffiti / auction / signing / submission outcome x unblind-from-all x per-relay unblinding behaviour (full block, retried errors, status 400, empty response, never), with the relay goroutines explored under deviation-bounded schedules (quick 1, thorough 2); the oracle inspects every RANDAO / block signing request, every unblinding request and the submitted container (pointer identity of block and signature).",
   "Trusted: well-formed proposals from the provider (malformed ones are C16); two relays; 8 s duty context deadline.",
   MC + " (deviation-bounded)", "DESIGN.md §6 C05"),
 "C14": ("model_checking",
   "Real beacon committee subscriber, attestation aggregator and controller (real constructors): all duty sets of 3 (thorough 4) validators over the (slot, committee) pairs of an epoch x current slot positions x signature classes x committee sizes; all size/target pairs of the aggregator selection against a sha256 reference on boundary signatures; all attestation subsets x subscription-info shapes for the aggregation jobs; plus an end-to-end composition. Inputs and histories are enumerated completely within the alphabet.",
   "Trusted: recording scheduler stand-in refuses duplicate names like the real one; two committees, <=4 validators.",
   SEQ, "DESIGN.md §6 C14"),
 "C15": ("model_checking",
   "Real controller (real New, real scheduler, chain time and subscriber) on the virtual clock: sync-period length {2,4,8} x Altair fork epoch {0,1,3} x every slot-start clock position of the first 2-3 periods x start-up / direct scheduling x membership patterns; real messenger + aggregator + signer for every {ok, no account, no signature}^3 member combination over three slots; aggregator selection for 5 committee geometries on boundary hashes against a sha256 reference. Inputs and fault subsets are enumerated completely within the alphabet.",
   "Trusted: recording messenger in the window part; remote-signer stand-in turning a nil batch entry into a zero signature (as dirk does); in-package hook exposing scheduleSyncCommitteeMessages / firstEpochOfSyncPeriod.",
   SEQ, "DESIGN.md §6 C15"),
 "C11": ("model_checking",
   "Real block relay registration rounds, REST registrations and the real proposal preparer with 3 validators, 2 relays, 2 beacon nodes: every history of 1..3 rounds over 5 configuration documents x 4 failing parties, a refresh preceding each round; fan-out goroutines explored under deviation-bounded schedules (quick 0, thorough 1); every relay / node delivery and every signing request is compared with hand-written resolved settings, and signatures encode the signed content so that stale reuse is visible.",
   "Trusted: expected settings per document written out by hand (C10 checks the resolver); relay clients injected through the util hook; REST daemon stubbed.",
   MC + " (deviation-bounded)", "DESIGN.md §6 C11"),
 "C03": ("model_checking",
   "The real controller with the real scheduler and real chain time on a virtual clock, started at 4 instants of an epoch (a restart is a start instant) x attester / proposer duty-table pairs (before / after a reorg: same, moved, dropped, with out-of-epoch duties, dense) x head-event scripts (1-2 events after a baseline, position in slot before/after the attestation time, roots same / previous / current changed), run for three epochs under deviation-bounded schedules (quick 0, thorough 1). The oracle is computed from the log of the beacon node's answers. Plus an exhaustive grid of chain parameters for the slot/epoch/wall-clock conversion identities.",
   "Trusted: virtual clock; recording attester / proposer; duties for a slot in progress when obtained are optional except where the statement is explicit; sync-committee windows are C15.",
   MC + " (deviation-bounded) + exhaustive parameter grid", "DESIGN.md §6 C03"),
}
checks = []
for pid in ids:
    if pid not in P:
        continue
    cat, text, note, tech, ref = P[pid]
    checks.append({"property_id": pid, "quick_cmd": "./check %s quick" % pid, "thorough_cmd": "./check %s thorough" % pid,
                   "evidence_file": "/verif/evidence/%s.json" % pid, "replay_cmd_template": "./check --replay {path}", "engine": "mc",
                   "level_claimed": {"category": cat, "text": text, "design_ref": ref}, "level_note": note, "technique": tech})
m = {"version": 1, "setup_cmd": "./check --setup",
     "hooks": {"guard": "verif-overlay",
               "enable": "go build -overlay <generated overlay.json>: instrumented copies of the vouch sources, the runtime packages (verifmc/*) and in-package hook files are injected at build time; nothing is committed to /repo",
               "baseline_off_cmd": "cd /repo && GOFLAGS=-mod=mod go test -vet=off -count=1 ./...", "source_commits": [], "add_only": True},
     "engines": [{"name": "mc", "path": "/verif/mc", "serves_properties": sorted(P),
                  "kind_free_text": "controlled scheduler (virtual time, modelled sync primitives) + exhaustive DFS explorer over schedule and environment choices, run on source-instrumented vouch code"}],
     "checks": checks,
     "notes": "See DESIGN.md. Every check rebuilds the instrumented harness from /repo's working tree (cached by tree hash under /verif/.work).",
     "not_applicable": [{"property_id": i, "reason": "check not built yet in this round (planned, see DESIGN.md §6)"} for i in ids if i not in P]}
json.dump(m, open(os.path.join(V, "MANIFEST.json"), "w"), indent=1)
print("claimed:", sorted(P))
