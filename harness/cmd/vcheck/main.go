// Command vcheck runs the exhaustive exploration for one property.
package main

import (
	"verifharness/hx"
	_ "verifharness/props"

	"github.com/rs/zerolog"
)

func main() {
	zerolog.SetGlobalLevel(zerolog.Disabled)
	hx.Main()
}
