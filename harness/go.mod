module verifharness

go 1.22.7

require github.com/attestantio/vouch v0.0.0

replace github.com/attestantio/vouch => /repo
