// Package hx is the common part of the verification harness: property registry, work units, worker
// processes, evidence, replay files and known findings.
package hx

import (
	"bufio"
	"crypto/sha256"
	"encoding/hex"
	"encoding/json"
	"flag"
	"fmt"
	"os"
	"os/exec"
	"path/filepath"
	"sort"
	"strconv"
	"strings"
	"sync"
	"time"

	"github.com/attestantio/vouch/verifmc/mc"
)

// Unit is one independently explorable piece of a property's check (one scenario × one environment
// assignment).  Units are distributed over worker processes.
type Unit struct {
	Name  string
	Cfg   mc.Config
	Bound int  // cost bound; <0 unbounded
	Prune bool // unbounded only
	Body  func()
	Check func(*mc.Result) mc.Verdict
	Race  bool // count data races reported during this unit (C17)
}

// Prop is a property's check.
type Prop struct {
	ID          string
	Title       string
	Rule        string // how cases are enumerated and what makes one non-trivial
	Assumptions []string
	Units       func(tier string) []Unit
	NeedRace    bool
	// MinNontrivial guards against vacuous runs (exit 2).
	MinNontrivial int
}

var registry = map[string]*Prop{}

// Register adds a property check.
func Register(p *Prop) { registry[p.ID] = p }

// Get returns a registered property check (nil if unknown); used to add units to an existing check.
func Get(id string) *Prop { return registry[id] }

// UnitResult is what a worker reports for one unit.
type UnitResult struct {
	Name   string
	Stats  *mc.Stats
	States int
	Races  []string
	WallMS int64
}

type workerOut struct {
	Units []UnitResult
}

// Replay is the content of a replay file.
type Replay struct {
	Property  string   `json:"property"`
	Unit      string   `json:"unit"`
	Tier      string   `json:"tier"`
	Key       string   `json:"finding_key"`
	Violation string   `json:"violation"`
	Cost      int      `json:"cost"`
	Choices   []int    `json:"choices"`
	Trace     []string `json:"trace"`
	Detail    string   `json:"detail,omitempty"`
}

func runUnit(u *Unit, deadline time.Time) UnitResult {
	t0 := time.Now()
	states := map[uint64]struct{}{}
	total := &mc.Stats{Complete: true}
	// iterate the bound so that the first counterexample has the fewest deviations
	bounds := []int{u.Bound}
	if u.Bound > 0 {
		bounds = nil
		for b := 0; b <= u.Bound; b++ {
			bounds = append(bounds, b)
		}
	}
	var last *mc.Stats
	for _, b := range bounds {
		clear(states)
		st := mc.Explore(u.Cfg, mc.Opts{Bound: b, Prune: u.Prune, Deadline: deadline, States: states, NoRepro: u.Race, MaxViol: maxViol(u)}, u.Body, u.Check)
		last = st
		if len(st.Violations) > 0 || st.Diverged != "" || !st.Complete {
			break
		}
	}
	total = last
	return UnitResult{Name: u.Name, Stats: total, States: len(states), WallMS: time.Since(t0).Milliseconds()}
}

func maxViol(u *Unit) int {
	if u.Race {
		return 64
	}
	return 8
}

// Known finding entries.
type known struct {
	prop, key, text string
}

func loadKnown(path string) []known {
	f, err := os.Open(path)
	if err != nil {
		return nil
	}
	defer f.Close()
	var out []known
	sc := bufio.NewScanner(f)
	for sc.Scan() {
		l := strings.TrimSpace(sc.Text())
		if !strings.HasPrefix(l, "known:") {
			continue
		}
		l = strings.TrimSpace(strings.TrimPrefix(l, "known:"))
		var k known
		rest := l
		for _, f := range strings.Fields(l) {
			if strings.HasPrefix(f, "property=") {
				k.prop = strings.TrimPrefix(f, "property=")
			} else if strings.HasPrefix(f, "key=") {
				k.key = strings.TrimPrefix(f, "key=")
			}
		}
		if i := strings.Index(rest, "::"); i >= 0 {
			k.text = strings.TrimSpace(rest[i+2:])
		}
		if k.prop != "" && k.key != "" {
			out = append(out, k)
		}
	}
	return out
}

// Main is the entry point of cmd/vcheck.
func Main() {
	prop := flag.String("prop", "", "property id")
	tier := flag.String("tier", "quick", "quick|thorough")
	worker := flag.String("worker", "", "i/n (internal)")
	wout := flag.String("wout", "", "worker output file (internal)")
	evidence := flag.String("evidence", "", "evidence file to write")
	replays := flag.String("replays", "/verif/replays", "directory for replay files")
	knownPath := flag.String("known", "/verif/known_findings.txt", "known findings file")
	procs := flag.Int("procs", 16, "worker processes")
	replay := flag.String("replay", "", "replay file")
	budget := flag.Duration("budget", 0, "wall-clock budget for the exploration (0: tier default)")
	only := flag.String("unit", "", "run only units whose name contains this (debugging)")
	list := flag.Bool("list", false, "list units")
	flag.Parse()

	if *replay != "" {
		os.Exit(doReplay(*replay))
	}
	p := registry[*prop]
	if p == nil {
		fmt.Fprintf(os.Stderr, "unknown property %q; known: %v\n", *prop, propIDs())
		os.Exit(2)
	}
	if p.NeedRace && !mc.RaceBuild {
		fmt.Fprintln(os.Stderr, "this property needs the -race build of vcheck")
		os.Exit(2)
	}
	units := p.Units(*tier)
	if *only != "" {
		var f []Unit
		for _, u := range units {
			if strings.Contains(u.Name, *only) {
				f = append(f, u)
			}
		}
		units = f
	}
	if *list {
		for _, u := range units {
			fmt.Println(u.Name)
		}
		return
	}
	if *budget == 0 {
		*budget = 4 * time.Minute
		if *tier == "thorough" {
			*budget = 40 * time.Minute
		}
	}
	if *worker != "" {
		var i, n int
		fmt.Sscanf(*worker, "%d/%d", &i, &n)
		deadline := time.Now().Add(*budget)
		var out workerOut
		_ = i
		_ = n
		for j := range units {
			// units are claimed one at a time (an exclusively created marker file next to the worker outputs), so
			// that a worker busy with a large unit does not keep smaller ones waiting
			cf, cerr := os.OpenFile(filepath.Join(filepath.Dir(*wout), fmt.Sprintf("claim-%d", j)), os.O_CREATE|os.O_EXCL|os.O_WRONLY, 0o644)
			if cerr != nil {
				continue
			}
			cf.Close()
			before := mc.RaceErrors()
			r := runUnit(&units[j], deadline)
			if d := mc.RaceErrors() - before; d > 0 {
				r.Races = append(r.Races, fmt.Sprintf("%d race report(s)", d))
			}
			out.Units = append(out.Units, r)
		}
		js, _ := json.Marshal(out)
		if err := os.WriteFile(*wout, js, 0o644); err != nil {
			fmt.Fprintln(os.Stderr, err)
			os.Exit(2)
		}
		return
	}

	// parent
	t0 := time.Now()
	n := *procs
	if n > len(units) {
		n = len(units)
	}
	if n < 1 {
		fmt.Fprintln(os.Stderr, "no units")
		os.Exit(2)
	}
	tmp, err := os.MkdirTemp("", "vcheck-"+p.ID+"-")
	if err != nil {
		fmt.Fprintln(os.Stderr, err)
		os.Exit(2)
	}
	defer os.RemoveAll(tmp)
	exe, _ := os.Executable()
	var wg sync.WaitGroup
	fails := make([]string, n)
	for i := 0; i < n; i++ {
		wg.Add(1)
		go func(i int) {
			defer wg.Done()
			args := []string{"-prop", p.ID, "-tier", *tier, "-worker", fmt.Sprintf("%d/%d", i, n), "-wout", filepath.Join(tmp, fmt.Sprintf("w%d.json", i)), "-budget", budget.String()}
			if *only != "" {
				args = append(args, "-unit", *only)
			}
			cmd := exec.Command(exe, args...)
			cmd.Env = append(os.Environ(), "GOMAXPROCS=2")
			if p.NeedRace {
				cmd.Env = append(cmd.Env, "GORACE=halt_on_error=0 exitcode=0 log_path="+filepath.Join(tmp, fmt.Sprintf("race%d", i)))
			}
			outb, err := cmd.CombinedOutput()
			if err != nil {
				fails[i] = fmt.Sprintf("worker %d: %v\n%s", i, err, tail(string(outb), 4000))
			}
		}(i)
	}
	wg.Wait()
	for _, f := range fails {
		if f != "" {
			fmt.Fprintln(os.Stderr, f)
			os.RemoveAll(tmp)
			os.Exit(2)
		}
	}
	total := &mc.Stats{Complete: true}
	states := 0
	var races []string
	type uv struct {
		unit string
		v    mc.Violation
	}
	var viols []uv
	unitSamples := []map[string]any{}
	incomplete := []string{}
	type unitSize struct {
		Unit       string `json:"unit"`
		Executions int    `json:"executions"`
		WallMS     int64  `json:"wall_ms"`
	}
	var largest []unitSize
	for i := 0; i < n; i++ {
		b, err := os.ReadFile(filepath.Join(tmp, fmt.Sprintf("w%d.json", i)))
		if err != nil {
			fmt.Fprintln(os.Stderr, err)
			os.Exit(2)
		}
		var out workerOut
		if err := json.Unmarshal(b, &out); err != nil {
			fmt.Fprintln(os.Stderr, err)
			os.Exit(2)
		}
		for _, u := range out.Units {
			for _, v := range u.Stats.Violations {
				viols = append(viols, uv{u.Name, v})
			}
			u.Stats.Violations = nil
			total.Merge(u.Stats)
			states += u.States
			if !u.Stats.Complete {
				incomplete = append(incomplete, u.Name)
			}
			largest = append(largest, unitSize{u.Name, u.Stats.Executions, u.WallMS})
			races = append(races, u.Races...)
			if len(unitSamples) < 5 {
				unitSamples = append(unitSamples, map[string]any{"unit": u.Name, "executions": u.Stats.Executions, "states": u.States,
					"outcomes": u.Stats.Outcomes, "cases": u.Stats.Samples})
			}
		}
		if p.NeedRace {
			ms, _ := filepath.Glob(filepath.Join(tmp, fmt.Sprintf("race%d*", i)))
			for _, m := range ms {
				if rb, err := os.ReadFile(m); err == nil && len(rb) > 0 {
					races = append(races, string(rb))
				}
			}
		}
	}
	if total.Diverged != "" {
		fmt.Fprintln(os.Stderr, "harness cannot decide: replay divergence:", total.Diverged)
		os.Exit(2)
	}

	// classify violations against the known findings
	kn := loadKnown(*knownPath)
	sort.Slice(viols, func(i, j int) bool {
		if viols[i].v.Key != viols[j].v.Key {
			return viols[i].v.Key < viols[j].v.Key
		}
		if viols[i].v.Cost != viols[j].v.Cost {
			return viols[i].v.Cost < viols[j].v.Cost
		}
		return len(viols[i].v.Choices) < len(viols[j].v.Choices)
	})
	seen := map[string]bool{}
	nviol := 0
	knownHit := 0
	os.MkdirAll(*replays, 0o755)
	for _, x := range viols {
		if seen[x.v.Key] {
			continue
		}
		seen[x.v.Key] = true
		isKnown := false
		for _, k := range kn {
			if k.prop == p.ID && k.key == x.v.Key {
				fmt.Printf("KNOWN-FINDING: property=%s %s %s\n", p.ID, k.key, k.text)
				isKnown = true
				knownHit++
				break
			}
		}
		if isKnown {
			continue
		}
		nviol++
		h := sha256.Sum256([]byte(x.v.Key + x.unit))
		path := filepath.Join(*replays, fmt.Sprintf("%s-%s.json", p.ID, hex.EncodeToString(h[:5])))
		rp := Replay{Property: p.ID, Unit: x.unit, Tier: *tier, Key: x.v.Key, Violation: x.v.Msg, Cost: x.v.Cost, Choices: x.v.Choices, Trace: trimTrace(x.v.Trace), Detail: x.v.Detail}
		js, _ := json.MarshalIndent(rp, "", " ")
		os.WriteFile(path, js, 0o644)
		fmt.Printf("finding key=%s unit=%s cost=%d: %s\n", x.v.Key, x.unit, x.v.Cost, x.v.Msg)
		fmt.Printf("VIOLATION property=%s replay=%s\n", p.ID, path)
	}

	distinctNT := len(total.NTOutcomes)
	ev := map[string]any{
		"property_id": p.ID,
		"tier":        *tier,
		"seed":        seedEnv(),
		"level":       "model_checking",
		"wall_s":      time.Since(t0).Seconds(),
		"violations":  nviol,
		"assumptions": append([]string{}, p.Assumptions...),
		"coverage": map[string]any{
			"states":                        states,
			"transitions":                   total.Transitions,
			"traces_validated_against_impl": total.Executions,
			"evaluations":                   total.Executions,
			"distinct_nontrivial":           distinctNT,
			"nontrivial_executions":         total.Nontrivial,
			"rule":                          p.Rule,
			"exhaustive":                    total.Complete,
			"units":                         len(units),
			"contended_executions":          total.Contended,
			"select_ties":                   total.SelTies,
			"max_choice_points":             total.MaxPoints,
			"max_goroutines":                total.MaxGs,
			"pruned":                        total.Pruned,
			"states_capped":                 total.StatesCap,
			"step_limited":                  total.StepLimited,
			"distinct_outcomes":             len(total.Outcomes),
			"outcomes":                      total.Outcomes,
			"known_findings_observed":       knownHit,
			"samples":                       unitSamples,
			"explanation":                   "stateless exhaustive exploration of the instrumented implementation itself: every explored trace is an implementation trace",
		},
	}
	if p.NeedRace {
		ev["coverage"].(map[string]any)["race_reports"] = len(races)
	}
	// what a capped run did not finish, and where the time went
	sort.Slice(largest, func(i, j int) bool { return largest[i].Executions > largest[j].Executions })
	if len(largest) > 5 {
		largest = largest[:5]
	}
	sort.Strings(incomplete)
	ev["coverage"].(map[string]any)["largest_units"] = largest
	ev["coverage"].(map[string]any)["budget_s"] = budget.Seconds()
	ev["coverage"].(map[string]any)["units_cut_by_budget"] = incomplete
	if *evidence != "" {
		os.MkdirAll(filepath.Dir(*evidence), 0o755)
		js, _ := json.MarshalIndent(ev, "", " ")
		if err := os.WriteFile(*evidence, js, 0o644); err != nil {
			fmt.Fprintln(os.Stderr, err)
			os.Exit(2)
		}
	}
	fmt.Printf("%s %s: units=%d executions=%d states=%d transitions=%d nontrivial=%d outcomes=%d exhaustive=%v violations=%d known=%d wall=%.1fs\n",
		p.ID, *tier, len(units), total.Executions, states, total.Transitions, total.Nontrivial, len(total.Outcomes), total.Complete, nviol, knownHit, time.Since(t0).Seconds())
	if nviol > 0 {
		os.RemoveAll(tmp)
		os.Exit(1)
	}
	if total.Nontrivial < p.MinNontrivial || total.Executions == 0 {
		fmt.Fprintf(os.Stderr, "harness cannot decide: vacuous run (%d non-trivial executions, need %d)\n", total.Nontrivial, p.MinNontrivial)
		os.RemoveAll(tmp)
		os.Exit(2)
	}
}

func seedEnv() int {
	n, _ := strconv.Atoi(os.Getenv("VERIF_SEED"))
	return n
}

func tail(s string, n int) string {
	if len(s) > n {
		return s[len(s)-n:]
	}
	return s
}

func propIDs() []string {
	var ids []string
	for k := range registry {
		ids = append(ids, k)
	}
	sort.Strings(ids)
	return ids
}

func doReplay(path string) int {
	b, err := os.ReadFile(path)
	if err != nil {
		fmt.Fprintln(os.Stderr, err)
		return 2
	}
	var rp Replay
	if err := json.Unmarshal(b, &rp); err != nil {
		fmt.Fprintln(os.Stderr, err)
		return 2
	}
	p := registry[rp.Property]
	if p == nil {
		fmt.Fprintln(os.Stderr, "unknown property", rp.Property)
		return 2
	}
	tier := rp.Tier
	if tier == "" {
		tier = "quick"
	}
	for _, u := range p.Units(tier) {
		if u.Name != rp.Unit {
			continue
		}
		cfg := u.Cfg
		cfg.KeepTrace = true
		r1 := mc.Run(rp.Choices, cfg, u.Body)
		v1 := u.Check(r1)
		r2 := mc.Run(rp.Choices, cfg, u.Body)
		v2 := u.Check(r2)
		if r1.Diverged != "" || r2.Diverged != "" || strings.Join(r1.Trace, "\n") != strings.Join(r2.Trace, "\n") || v1 != v2 {
			fmt.Println("replay is not deterministic")
			return 2
		}
		fmt.Println(strings.Join(r1.Trace, "\n"))
		if v1.Violation != "" {
			fmt.Printf("finding key=%s: %s\n", v1.Key, v1.Violation)
			fmt.Printf("VIOLATION property=%s replay=%s\n", rp.Property, path)
			return 1
		}
		fmt.Println("replay: property holds on this schedule")
		return 0
	}
	fmt.Fprintln(os.Stderr, "unit not found:", rp.Unit)
	return 2
}

// trimTrace keeps the head and the tail of a very long trace (an execution cut by the step limit).
func trimTrace(t []string) []string {
	const keep = 1500
	if len(t) <= 2*keep {
		return t
	}
	out := append([]string{}, t[:keep]...)
	out = append(out, fmt.Sprintf("... %d steps omitted ...", len(t)-2*keep))
	return append(out, t[len(t)-keep:]...)
}
