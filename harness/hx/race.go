package hx

import (
	"os"
	"path/filepath"
	"sort"
	"strings"

	"github.com/attestantio/vouch/verifmc/mc"
)

// RaceWatcher turns ThreadSanitizer reports written during an execution into findings.  The worker
// process runs with GORACE=log_path=<prefix>; reports are appended to <prefix>.<pid>.
type RaceWatcher struct {
	path   string
	offset int64
	errs   int
}

// NewRaceWatcher finds the log file of this process.
func NewRaceWatcher() *RaceWatcher {
	w := &RaceWatcher{errs: mc.RaceErrors()}
	for _, f := range strings.Fields(os.Getenv("GORACE")) {
		if strings.HasPrefix(f, "log_path=") {
			w.path = strings.TrimPrefix(f, "log_path=")
		}
	}
	return w
}

// RaceReport is one parsed data race.
type RaceReport struct {
	Key  string // sorted pair of the innermost vouch functions of the two accesses
	Text string
}

// Poll returns the reports written since the last call whose two accesses are both in vouch code.
func (w *RaceWatcher) Poll() []RaceReport {
	n := mc.RaceErrors()
	if n == w.errs || w.path == "" {
		return nil
	}
	w.errs = n
	ms, _ := filepath.Glob(w.path + ".*")
	var out []RaceReport
	for _, m := range ms {
		b, err := os.ReadFile(m)
		if err != nil {
			continue
		}
		if int64(len(b)) <= w.offset {
			continue
		}
		txt := string(b[w.offset:])
		w.offset = int64(len(b))
		for _, rep := range strings.Split(txt, "==================") {
			if !strings.Contains(rep, "DATA RACE") {
				continue
			}
			if r, ok := parseRace(rep); ok {
				out = append(out, r)
			}
		}
	}
	return out
}

const vouchPrefix = "github.com/attestantio/vouch/"

// parseRace extracts, for the two access stacks, the innermost frame in vouch's own code.
func parseRace(rep string) (RaceReport, bool) {
	lines := strings.Split(rep, "\n")
	var sites []string
	inAccess := false
	found := false
	for i := 0; i < len(lines); i++ {
		l := lines[i]
		t := strings.TrimSpace(l)
		switch {
		case strings.HasPrefix(t, "Write at "), strings.HasPrefix(t, "Read at "), strings.HasPrefix(t, "Previous write at "), strings.HasPrefix(t, "Previous read at "),
			strings.HasPrefix(t, "Atomic write at "), strings.HasPrefix(t, "Atomic read at "), strings.HasPrefix(t, "Previous atomic write at "), strings.HasPrefix(t, "Previous atomic read at "):
			inAccess, found = true, false
			continue
		case strings.HasPrefix(t, "Goroutine "):
			inAccess = false
		}
		if !inAccess || found || t == "" {
			if t == "" && inAccess && !found {
				// end of this stack without a vouch frame
				sites = append(sites, "")
				inAccess = false
			}
			continue
		}
		if strings.HasPrefix(l, "  ") && !strings.HasPrefix(l, "      ") {
			fn := strings.TrimSuffix(t, "()")
			switch {
			case strings.HasPrefix(fn, "runtime."), strings.HasPrefix(fn, "internal/"), strings.HasPrefix(fn, "sync."), strings.HasPrefix(fn, "sync/"):
				// runtime helper acting on behalf of its caller: keep looking
			case strings.HasPrefix(fn, vouchPrefix+"verifmc/mc.SortedKeys"):
				// the map iteration helper reads the map on behalf of the instrumented range statement
			case strings.HasPrefix(fn, vouchPrefix+"verifmc/"):
				sites = append(sites, "") // inside the controlled runtime: not the program's access
				found = true
			case strings.HasPrefix(fn, vouchPrefix):
				file := ""
				if i+1 < len(lines) {
					file = lines[i+1]
				}
				if strings.Contains(file, "zz_verif_") && strings.Contains(fn, ".VerifMirror") {
					// a hook that repeats, statement for statement, the part of a production function that can run
					// here (its beginning opens wallets on disk): its accesses are the production function's
					sites = append(sites, strings.TrimPrefix(fn, vouchPrefix))
				} else if strings.Contains(file, "zz_verif_") {
					sites = append(sites, "") // hook files are harness code
				} else {
					sites = append(sites, strings.TrimPrefix(fn, vouchPrefix))
				}
				found = true
			default:
				sites = append(sites, "") // harness or library code
				found = true
			}
		}
	}
	if len(sites) < 2 || sites[0] == "" || sites[1] == "" {
		return RaceReport{}, false
	}
	pair := []string{sites[0], sites[1]}
	sort.Strings(pair)
	return RaceReport{Key: pair[0] + "|" + pair[1], Text: strings.TrimSpace(rep)}, true
}
