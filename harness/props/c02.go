package props

import (
	"context"
	"fmt"
	"strings"
	"time"

	"verifharness/hx"

	nullmetrics "github.com/attestantio/vouch/services/metrics/null"
	"github.com/attestantio/vouch/services/scheduler"
	"github.com/attestantio/vouch/services/scheduler/advanced"
	"github.com/attestantio/vouch/verifmc/mc"
	"github.com/attestantio/vouch/verifmc/mcontext"
	"github.com/rs/zerolog"
)

// C02: a scheduled job runs exactly once, whoever starts it.
//
// Alphabet: actions {RunJob, RunJobIfExists, CancelJob, CancelJobs(prefix), cancel parent context,
// ScheduleJob (again)} placed at instants relative to the scheduled instant T; job bodies that take 0 or
// some virtual time; one-off and periodic jobs.  Every interleaving of the job goroutine, the actors and
// the timers is explored within the preemption bound (thorough: unbounded with state pruning).

const sec = int64(time.Second)

type c02Action struct {
	at   int64  // virtual instant
	kind string // run, runif, cancel, cancelif, cancelall, ctx, sched, exists
	name string
	dead bool // run / runif: the request is made with a context of the caller's that is already cancelled
	// results
	err  error
	done bool
	ex   bool
	ex2  bool
}

type c02Scn struct {
	name      string
	periodic  bool
	jobDur    int64 // virtual duration of the job body
	T         int64
	horizon   int64
	actions   []c02Action
	reschedAt int64    // if >0: at this instant, after everything, the name must be schedulable again
	extra     []string // further one-off jobs scheduled for T before the actions start
	bound     [2]int   // bounds (quick, thorough) when the defaults (2, unbounded) are too wide
	deviation bool     // count every non-default scheduling choice (scenarios with more than four goroutines)
	lastTick  int64    // periodic: if >0 the runtime function has no more instances after this instant
}

type c02State struct {
	runs      []int64 // start instants of job runs
	ends      []int64
	gauge     int
	maxGauge  int
	acts      []c02Action
	schedErr  error
	resched   error
	reschedOK bool
	existsEnd bool
	listEnd   []string
	runs2     int            // runs of a job scheduled by a "sched" action
	runs2At   int64          // instant of the first of these runs (0: none)
	runsX     map[string]int // runs of the extra jobs
}

func c02Units(tier string) []hx.Unit {
	T := 10 * sec
	var scns []c02Scn
	// S1: one-off, RunJob before / at / after T
	for _, at := range []int64{T - sec, T, T + sec} {
		scns = append(scns, c02Scn{name: fmt.Sprintf("S1/run@%+d", (at-T)/sec), T: T, actions: []c02Action{{at: at, kind: "run", name: "J"}}, reschedAt: T + 3*sec})
	}
	// S1b: the same with a job body that takes time
	scns = append(scns, c02Scn{name: "S1b/run@+0/dur2", T: T, jobDur: 2 * sec, actions: []c02Action{{at: T, kind: "run", name: "J"}}, reschedAt: T + 4*sec})
	scns = append(scns, c02Scn{name: "S1c/runif@+0", T: T, actions: []c02Action{{at: T, kind: "runif", name: "J"}}, reschedAt: T + 3*sec})
	// S2: two run requests and the timer
	for _, a := range [][2]int64{{T - sec, T - sec}, {T - sec, T}, {T, T}} {
		scns = append(scns, c02Scn{name: fmt.Sprintf("S2/run@%+d,runif@%+d", (a[0]-T)/sec, (a[1]-T)/sec), T: T,
			actions: []c02Action{{at: a[0], kind: "run", name: "J"}, {at: a[1], kind: "runif", name: "J"}}})
	}
	scns = append(scns, c02Scn{name: "S2/run@-1,run@-1/dur2", T: T, jobDur: 2 * sec,
		actions: []c02Action{{at: T - sec, kind: "run", name: "J"}, {at: T - sec, kind: "run", name: "J"}}})
	// S3: cancel
	scns = append(scns, c02Scn{name: "S3/cancel@-2", T: T, actions: []c02Action{{at: T - 2*sec, kind: "cancel", name: "J"}}, reschedAt: T + sec})
	scns = append(scns, c02Scn{name: "S3/cancel@+0", T: T, actions: []c02Action{{at: T, kind: "cancel", name: "J"}}, reschedAt: T + sec})
	scns = append(scns, c02Scn{name: "S3/cancel@-1,run@-1", T: T, actions: []c02Action{{at: T - sec, kind: "cancel", name: "J"}, {at: T - sec, kind: "run", name: "J"}}})
	scns = append(scns, c02Scn{name: "S3/cancel@-2,cancel@-2", T: T, actions: []c02Action{{at: T - 2*sec, kind: "cancel", name: "J"}, {at: T - 2*sec, kind: "cancel", name: "J"}}})
	scns = append(scns, c02Scn{name: "S3/run@-1/dur3,cancel@+0", T: T, jobDur: 3 * sec, actions: []c02Action{{at: T - sec, kind: "run", name: "J"}, {at: T, kind: "cancel", name: "J"}}})
	// S4: parent context
	scns = append(scns, c02Scn{name: "S4/ctx@-2", T: T, actions: []c02Action{{at: T - 2*sec, kind: "ctx"}}})
	scns = append(scns, c02Scn{name: "S4/ctx@+0", T: T, actions: []c02Action{{at: T, kind: "ctx"}}})
	scns = append(scns, c02Scn{name: "S4/ctx@-1,run@-1", T: T, actions: []c02Action{{at: T - sec, kind: "ctx"}, {at: T - sec, kind: "run", name: "J"}}})
	// S5: periodic
	scns = append(scns, c02Scn{name: "S5/periodic", periodic: true, T: T, horizon: 3*T + 2*sec})
	scns = append(scns, c02Scn{name: "S5/periodic/run@T/2", periodic: true, T: T, horizon: 3*T + 2*sec, actions: []c02Action{{at: T / 2, kind: "run", name: "J"}}})
	scns = append(scns, c02Scn{name: "S5/periodic/run@T", periodic: true, T: T, horizon: 3*T + 2*sec, actions: []c02Action{{at: T, kind: "run", name: "J"}}})
	scns = append(scns, c02Scn{name: "S5/periodic/dur3/run@T+1", periodic: true, jobDur: 3 * sec, T: T, horizon: 3*T + 5*sec, actions: []c02Action{{at: T + sec, kind: "run", name: "J"}}})
	scns = append(scns, c02Scn{name: "S5/periodic/dur3/cancel@T+1", periodic: true, jobDur: 3 * sec, T: T, horizon: 3*T + 5*sec, actions: []c02Action{{at: T + sec, kind: "cancel", name: "J"}}, reschedAt: 2*T + sec})
	scns = append(scns, c02Scn{name: "S5/periodic/cancel@T/2", periodic: true, T: T, horizon: 3*T + 2*sec, actions: []c02Action{{at: T / 2, kind: "cancel", name: "J"}}})
	// a name cancelled and scheduled again at the same instant (the cancelled job's goroutine may deal with its cancel
	// signal before or after the new entry exists): the new job is pending like any other - listed, cancellable
	scns = append(scns, c02Scn{name: "S6c/cancel@-2,sched@-2,exists@-1", T: T, horizon: T + 12*sec,
		actions: []c02Action{{at: T - 2*sec, kind: "cancel", name: "J"}, {at: T - 2*sec, kind: "sched6", name: "J"}, {at: T - sec, kind: "exists", name: "J"}}})
	scns = append(scns, c02Scn{name: "S6c/cancel@-2,sched@-2,cancel@-1", T: T, horizon: T + 12*sec,
		actions: []c02Action{{at: T - 2*sec, kind: "cancel", name: "J"}, {at: T - 2*sec, kind: "sched6", name: "J"}, {at: T - sec, kind: "cancel2", name: "J"}}})
	// cancelling by the other two entry points while an instance of the periodic job is running / while an early run is under way
	scns = append(scns, c02Scn{name: "S5/periodic/dur3/cancelif@T+1", periodic: true, jobDur: 3 * sec, T: T, horizon: 3*T + 5*sec, actions: []c02Action{{at: T + sec, kind: "cancelif", name: "J"}}, reschedAt: 2*T + sec})
	scns = append(scns, c02Scn{name: "S5/periodic/dur3/cancelall@T+1", periodic: true, jobDur: 3 * sec, T: T, horizon: 3*T + 5*sec, actions: []c02Action{{at: T + sec, kind: "cancelall", name: "J"}}, reschedAt: 2*T + sec})
	scns = append(scns, c02Scn{name: "S5/periodic/dur3/run@T/2,cancelif@T/2+1", periodic: true, jobDur: 3 * sec, T: T, horizon: 3*T + 5*sec,
		actions: []c02Action{{at: T / 2, kind: "run", name: "J"}, {at: T/2 + sec, kind: "cancelif", name: "J"}}, reschedAt: 2*T + sec})
	// a run request made with a context of the caller's that is already cancelled (the job's own context is alive)
	scns = append(scns, c02Scn{name: "S1d/run(dead ctx)@-1", T: T, actions: []c02Action{{at: T - sec, kind: "run", name: "J", dead: true}}, reschedAt: T + 3*sec})
	scns = append(scns, c02Scn{name: "S1d/runif(dead ctx)@-1", T: T, actions: []c02Action{{at: T - sec, kind: "runif", name: "J", dead: true}}, reschedAt: T + 3*sec})
	scns = append(scns, c02Scn{name: "S5/periodic/run(dead ctx)@T/2", periodic: true, T: T, horizon: 3*T + 2*sec, actions: []c02Action{{at: T / 2, kind: "run", name: "J", dead: true}}})
	// a runtime function with a last instance: an early run at the last tick must not be lost with the job
	scns = append(scns, c02Scn{name: "S5/periodic/finite1/run@T", periodic: true, lastTick: T, T: T, horizon: 2*T + 2*sec, actions: []c02Action{{at: T, kind: "run", name: "J"}}})
	scns = append(scns, c02Scn{name: "S5/periodic/finite2/run@2T", periodic: true, lastTick: 2 * T, T: T, horizon: 3*T + 2*sec, actions: []c02Action{{at: 2 * T, kind: "run", name: "J"}}})
	scns = append(scns, c02Scn{name: "S5/periodic/finite2/run@T", periodic: true, lastTick: 2 * T, T: T, horizon: 3*T + 2*sec, actions: []c02Action{{at: T, kind: "run", name: "J"}}})
	scns = append(scns, c02Scn{name: "S5/periodic/finite1/dur3/run@T+3", periodic: true, jobDur: 3 * sec, lastTick: T, T: T, horizon: 2*T + 2*sec, actions: []c02Action{{at: T + 3*sec, kind: "run", name: "J"}}})
	scns = append(scns, c02Scn{name: "S5/periodic/dur12", periodic: true, jobDur: 12 * sec, T: T, horizon: 4*T + 5*sec})
	// S6: name re-use
	scns = append(scns, c02Scn{name: "S6/cancel@-2,sched@-2", T: T, actions: []c02Action{{at: T - 2*sec, kind: "cancel", name: "J"}, {at: T - 2*sec, kind: "sched", name: "J"}}})
	scns = append(scns, c02Scn{name: "S6/run@-1,sched@-1", T: T, actions: []c02Action{{at: T - sec, kind: "run", name: "J"}, {at: T - sec, kind: "sched", name: "J"}}})
	scns = append(scns, c02Scn{name: "S6/sched@+0", T: T, actions: []c02Action{{at: T, kind: "sched", name: "J"}}})
	// S6d: a run request at the very instant of the timer, and the name scheduled again at that instant too (the
	// run request takes the job off the table before the job's own goroutine has noticed): the new job is a
	// pending job like any other
	scns = append(scns, c02Scn{name: "S6d/run@+0,sched@+0,exists@+3", T: T, horizon: T + 12*sec, bound: [2]int{1, 0},
		actions: []c02Action{{at: T, kind: "run", name: "J"}, {at: T, kind: "sched6", name: "J"}, {at: T + 3*sec, kind: "exists", name: "J"}}})
	scns = append(scns, c02Scn{name: "S6d/run@+0,sched@+0,cancel@+3", T: T, horizon: T + 12*sec, bound: [2]int{1, 0},
		actions: []c02Action{{at: T, kind: "run", name: "J"}, {at: T, kind: "sched6", name: "J"}, {at: T + 3*sec, kind: "cancel2", name: "J"}}})
	// S6b: the name is scheduled again while the first job, started early, is still executing; the new job is
	// a pending job like any other: listed, cancellable, and it runs once if not cancelled
	scns = append(scns, c02Scn{name: "S6b/run@-1/dur3,sched@+0,exists@+3", T: T, jobDur: 3 * sec, horizon: T + 12*sec,
		actions: []c02Action{{at: T - sec, kind: "run", name: "J"}, {at: T, kind: "sched6", name: "J"}, {at: T + 3*sec, kind: "exists", name: "J"}}})
	scns = append(scns, c02Scn{name: "S6b/run@-1/dur3,sched@+0,cancel@+3", T: T, jobDur: 3 * sec, horizon: T + 12*sec,
		actions: []c02Action{{at: T - sec, kind: "run", name: "J"}, {at: T, kind: "sched6", name: "J"}, {at: T + 3*sec, kind: "cancel2", name: "J"}}})
	// S7: CancelJobs(prefix) with concurrent scheduling
	scns = append(scns, c02Scn{name: "S7/cancelall@-2,sched2@-2", T: T, actions: []c02Action{{at: T - 2*sec, kind: "cancelall", name: "J"}, {at: T - 2*sec, kind: "sched", name: "J2"}}})
	scns = append(scns, c02Scn{name: "S7/cancelall@+0,run@+0", T: T, actions: []c02Action{{at: T, kind: "cancelall", name: "J"}, {at: T, kind: "run", name: "J"}}})
	// S7b: CancelJobs(prefix) over three jobs while one of them is claimed by an early-run request
	for _, victim := range []string{"J", "J2"} {
		scns = append(scns, c02Scn{name: "S7b/3jobs/cancelall@-2,run(" + victim + ")@-2", T: T, extra: []string{"J2", "J3"}, bound: [2]int{2, 3}, deviation: true,
			actions: []c02Action{{at: T - 2*sec, kind: "cancelall", name: "J"}, {at: T - 2*sec, kind: "run", name: victim}}})
	}

	var units []hx.Unit
	for i := range scns {
		sc := scns[i]
		if sc.horizon == 0 {
			sc.horizon = sc.T + 8*sec
		}
		st := &c02State{}
		u := hx.Unit{Name: "C02/" + sc.name, Cfg: mc.Config{Horizon: sc.horizon + 100*sec, Deviation: sc.deviation}}
		if tier == "thorough" {
			u.Bound, u.Prune = -1, true
			if sc.bound[1] > 0 {
				u.Bound, u.Prune = sc.bound[1], false
			}
		} else {
			u.Bound = 2
			if sc.bound[0] > 0 {
				u.Bound = sc.bound[0]
			}
		}
		u.Body = func() { c02Body(&sc, st) }
		u.Check = func(r *mc.Result) mc.Verdict { return c02Check(&sc, st, r) }
		units = append(units, u)
	}
	return units
}

func c02Body(sc *c02Scn, st *c02State) {
	*st = c02State{acts: append([]c02Action(nil), sc.actions...)}
	ctx, cancel := mcontext.WithCancel(context.Background())
	svc, err := advanced.New(ctx, advanced.WithLogLevel(zerolog.Disabled), advanced.WithMonitor(&nullmetrics.Service{}))
	if err != nil {
		panic(err)
	}
	jobFn := func(_ context.Context) {
		st.runs = append(st.runs, mc.Now())
		st.gauge++
		if st.gauge > st.maxGauge {
			st.maxGauge = st.gauge
		}
		if sc.jobDur > 0 {
			mc.Sleep(sc.jobDur)
		} else {
			mc.Yield()
		}
		st.gauge--
		st.ends = append(st.ends, mc.Now())
	}
	at := func(ns int64) time.Time { return mc.Base.Add(time.Duration(ns)) }
	if sc.periodic {
		st.schedErr = svc.SchedulePeriodicJob(ctx, "class", "J", func(_ context.Context) (time.Time, error) {
			k := mc.Now()/sc.T + 1
			if sc.lastTick > 0 && k*sc.T > sc.lastTick {
				return time.Time{}, scheduler.ErrNoMoreInstances
			}
			return at(k * sc.T), nil
		}, jobFn)
	} else {
		st.schedErr = svc.ScheduleJob(ctx, "class", "J", at(sc.T), jobFn)
	}
	st.runsX = map[string]int{}
	for i, x := range sc.extra {
		x := x
		if err := svc.ScheduleJob(ctx, "class", x, at(sc.T+int64(i+1)*sec), func(_ context.Context) { st.runsX[x]++ }); err != nil {
			panic(err)
		}
	}
	for i := range st.acts {
		a := &st.acts[i]
		mc.Go(func() {
			mc.Sleep(a.at - mc.Now())
			rctx := ctx
			if a.dead {
				// the caller's own context, not the one the job was scheduled under
				var rcancel context.CancelFunc
				rctx, rcancel = mcontext.WithCancel(context.Background())
				rcancel()
			}
			switch a.kind {
			case "run":
				a.err = svc.RunJob(rctx, a.name)
			case "runif":
				svc.RunJobIfExists(rctx, a.name)
			case "cancel":
				a.err = svc.CancelJob(ctx, a.name)
			case "cancelif":
				svc.CancelJobIfExists(ctx, a.name)
			case "cancelall":
				svc.CancelJobs(ctx, a.name)
			case "ctx":
				cancel()
			case "sched":
				a.err = svc.ScheduleJob(ctx, "class", a.name, at(sc.T+2*sec), func(_ context.Context) { st.runs2++ })
			case "sched6":
				a.err = svc.ScheduleJob(ctx, "class", a.name, at(sc.T+6*sec), func(_ context.Context) {
					st.runs2++
					if st.runs2At == 0 {
						st.runs2At = mc.Now()
					}
				})
			case "cancel2":
				a.err = svc.CancelJob(ctx, a.name)
			case "exists":
				a.ex = svc.JobExists(ctx, a.name)
				for _, n := range svc.ListJobs(ctx) {
					if n == a.name {
						a.ex2 = true
					}
				}
			}
			a.done = true
		})
	}
	if sc.reschedAt > 0 {
		mc.Go(func() {
			mc.Sleep(sc.reschedAt - mc.Now())
			st.resched = svc.ScheduleJob(ctx, "class", "J", at(sc.reschedAt+sec), func(_ context.Context) { st.runs2++ })
			st.reschedOK = true
		})
	}
	mc.Sleep(sc.horizon - mc.Now())
	st.existsEnd = svc.JobExists(ctx, "J")
	st.listEnd = svc.ListJobs(ctx)
	cancel()
}

func c02Check(sc *c02Scn, st *c02State, r *mc.Result) mc.Verdict {
	v := mc.Verdict{}
	var o []string
	o = append(o, fmt.Sprintf("runs=%d", len(st.runs)))
	for _, t := range st.runs {
		o = append(o, fmt.Sprintf("@%d", t/sec))
	}
	var runOK, cancelOK, ctxCancel, schedOK bool
	var xRunOK []string // extra jobs for which RunJob reported success
	var cancelAt, runAt int64 = -1, -1
	for _, a := range st.acts {
		o = append(o, fmt.Sprintf("%s=%v", a.kind, errStr(a.err)))
		switch a.kind {
		case "run":
			if a.err == nil && a.name != "J" {
				xRunOK = append(xRunOK, a.name)
			} else if a.err == nil {
				runOK = true
				runAt = a.at
			}
		case "cancel":
			if a.err == nil {
				cancelOK = true
				cancelAt = a.at
			}
		case "cancelall", "cancelif":
			cancelOK = true // may or may not have hit the job
			cancelAt = a.at
		case "ctx":
			ctxCancel = true
			cancelAt = a.at
		case "sched":
			schedOK = a.err == nil
		}
	}
	if sc.reschedAt > 0 {
		o = append(o, fmt.Sprintf("resched=%v", errStr(st.resched)))
	}
	o = append(o, fmt.Sprintf("runs2=%d", st.runs2))
	for _, x := range sc.extra {
		o = append(o, fmt.Sprintf("%s:%d", x, st.runsX[x]))
	}
	v.Outcome = strings.Join(o, " ")
	v.Nontrivial = r.SelTies > 0 || r.Touched > 2
	v.Sample = sc.name + ": " + v.Outcome
	fail := func(key, msg string) mc.Verdict {
		v.Violation = sc.name + ": " + msg + " [" + v.Outcome + "]"
		v.Key = "C02/" + key
		return v
	}
	if r.Panic != "" {
		return fail("panic", "panic: "+firstLine(r.Panic))
	}
	if st.schedErr != nil {
		return fail("schedule-rejected", "initial schedule rejected: "+st.schedErr.Error())
	}
	for _, a := range st.acts {
		if !a.done {
			return fail("call-never-returned/"+a.kind, "a "+a.kind+" call never returned")
		}
	}
	for _, b := range r.Blocked {
		if b.Class == "blocked" {
			return fail("blocked-goroutine/"+b.Kind.String(), fmt.Sprintf("goroutine g%d is blocked forever at %s %s", b.G, b.Kind, b.Desc))
		}
	}
	if st.maxGauge > 1 {
		return fail("self-overlap", "the job ran concurrently with itself")
	}
	n := len(st.runs)
	if !sc.periodic {
		if n > 1 {
			return fail("ran-twice", fmt.Sprintf("one-off job ran %d times", n))
		}
		cancelled := cancelOK || ctxCancel
		if !cancelled && n != 1 {
			return fail("dropped", "accepted one-off job, never cancelled, did not run")
		}
		// A parent-context cancellation that lands no later than the run request leaves both outcomes
		// open (the statement only promises the run for jobs that are not cancelled).
		if runOK && n < 1 && !(ctxCancel && cancelAt <= runAt) {
			return fail("run-reported-success-but-dropped", "RunJob reported success but the job never ran")
		}
		if cancelled && !runOK && cancelAt <= sc.T-2*sec && n != 0 {
			return fail("ran-after-cancel", "job cancelled clearly before its time still ran")
		}
		for _, x := range xRunOK {
			if st.runsX[x] != 1 && !ctxCancel {
				return fail("run-reported-success-but-dropped", fmt.Sprintf("RunJob(%s) reported success but the job ran %d times", x, st.runsX[x]))
			}
		}
		for _, x := range sc.extra {
			named, swept := false, false
			for _, a := range st.acts {
				if a.kind == "cancelall" && strings.HasPrefix(x, a.name) && a.at <= sc.T-2*sec {
					swept = true
				} else if a.name == x {
					named = true
				}
			}
			switch {
			case st.runsX[x] > 1:
				return fail("ran-twice", fmt.Sprintf("one-off job %s ran %d times", x, st.runsX[x]))
			case swept && !named && st.runsX[x] != 0:
				return fail("ran-after-cancel", fmt.Sprintf("job %s, cancelled with its prefix clearly before its time, still ran", x))
			case !swept && !ctxCancel && st.runsX[x] != 1:
				return fail("dropped", fmt.Sprintf("accepted one-off job %s, never cancelled, did not run", x))
			}
		}
		if st.existsEnd && !schedOK {
			return fail("finished-job-still-listed", "JobExists is true for a one-off job after its time")
		}
		if sc.reschedAt > 0 && st.reschedOK && st.resched != nil {
			return fail("name-not-reusable", "finished/cancelled job's name cannot be scheduled again: "+st.resched.Error())
		}
		if sc.reschedAt > 0 && st.reschedOK && st.resched == nil && st.runs2 != 1 {
			return fail("rescheduled-job-dropped", fmt.Sprintf("job scheduled under a re-used name ran %d times", st.runs2))
		}
		if schedOK && !ctxCancel {
			// a job scheduled by a sched action under the name J (or J2) and possibly hit by cancelall
			hit := false
			for _, a := range st.acts {
				if a.kind == "cancelall" {
					hit = true
				}
			}
			if !hit && st.runs2 != 1 {
				return fail("rescheduled-job-dropped", fmt.Sprintf("job scheduled under a re-used name ran %d times", st.runs2))
			}
			if st.runs2 > 1 {
				return fail("ran-twice", "re-scheduled job ran twice")
			}
		}
		// a job scheduled again under the name while the first was executing is a pending job like any other
		var sched6 *c02Action
		for i := range st.acts {
			a := &st.acts[i]
			switch a.kind {
			case "sched6":
				sched6 = a
				if a.err != nil {
					// scheduled at the very instant of a cancel request: it may have come first, when the name was still taken
					early := false
					for _, b := range st.acts {
						if (b.kind == "cancel" || b.kind == "run" || b.kind == "runif") && b.at == a.at {
							early = true
						}
					}
					if early {
						sched6 = nil
						continue
					}
					return fail("name-not-reusable", "the name of a claimed, running one-off job cannot be scheduled again: "+a.err.Error())
				}
			case "exists":
				if st.runs2At != 0 && st.runs2At <= a.at {
					continue // a run request of the same instant has claimed the new job: it is no longer pending
				}
				if sched6 != nil && sched6.err == nil && (!a.ex || !a.ex2) {
					return fail("pending-job-not-listed", "a pending job scheduled under a re-used name is not reported by JobExists / ListJobs")
				}
			case "cancel2":
				if st.runs2At != 0 && st.runs2At <= a.at {
					continue
				}
				if sched6 != nil && sched6.err == nil {
					if a.err != nil {
						return fail("pending-job-not-cancellable", "a pending job scheduled under a re-used name cannot be cancelled: "+a.err.Error())
					}
					if st.runs2 != 0 {
						return fail("ran-after-cancel", "a job cancelled clearly before its time still ran")
					}
				}
			}
		}
		if sched6 != nil && sched6.err == nil {
			cancelled2 := false
			for _, a := range st.acts {
				if a.kind == "cancel2" && a.err == nil {
					cancelled2 = true
				}
			}
			if !cancelled2 && st.runs2 != 1 {
				return fail("rescheduled-job-dropped", fmt.Sprintf("job scheduled under a re-used name ran %d times", st.runs2))
			}
		}
		_ = runAt
	} else {
		// periodic: ticks at k*T.  Every tick strictly after the last harness action, at which the job was
		// idle and which precedes a cancel, must start a run.
		last := int64(0)
		for _, a := range st.acts {
			if a.at > last {
				last = a.at
			}
		}
		if runOK {
			found := false
			// a run of its own: one that starts at the request or later and is not simply the next tick
			for _, t := range st.runs {
				if t == runAt || (t > runAt && t%sc.T != 0) {
					found = true
				}
			}
			if !found {
				return fail("run-reported-success-but-dropped", "RunJob on a periodic job reported success but no run followed (beyond the ticks that would have run anyway)")
			}
		}
		for k := int64(1); k*sc.T <= sc.horizon-sec; k++ {
			tk := k * sc.T
			if sc.lastTick > 0 && tk > sc.lastTick {
				break
			}
			if tk <= last+sc.jobDur {
				continue
			}
			if cancelOK || ctxCancel {
				if tk >= cancelAt {
					// a tick after a successful cancel must not start a run (a run in progress may finish)
					for _, t := range st.runs {
						if t == tk && cancelAt <= tk-2*sec {
							return fail("ran-after-cancel", fmt.Sprintf("periodic job ran at %ds after being cancelled at %ds", tk/sec, cancelAt/sec))
						}
					}
					continue
				}
			}
			busy := false
			for i, t := range st.runs {
				end := sc.horizon
				if i < len(st.ends) {
					end = st.ends[i]
				}
				if t < tk && end >= tk {
					busy = true
				}
			}
			if busy {
				continue
			}
			found := false
			for _, t := range st.runs {
				if t == tk {
					found = true
				}
			}
			if !found {
				return fail("periodic-tick-missed", fmt.Sprintf("periodic job idle at tick %ds did not run", tk/sec))
			}
		}
		if sc.reschedAt > 0 && st.reschedOK && st.resched != nil {
			return fail("name-not-reusable", "cancelled periodic job's name cannot be scheduled again: "+st.resched.Error())
		}
	}
	return v
}

func errStr(e error) string {
	if e == nil {
		return "nil"
	}
	switch e {
	case scheduler.ErrNoSuchJob:
		return "nosuch"
	case scheduler.ErrJobRunning:
		return "running"
	case scheduler.ErrJobFinalised:
		return "finalised"
	case scheduler.ErrJobAlreadyExists:
		return "exists"
	}
	return e.Error()
}

func firstLine(s string) string {
	if i := strings.IndexByte(s, '\n'); i >= 0 {
		return s[:i]
	}
	return s
}

func init() {
	hx.Register(&hx.Prop{
		ID:    "C02",
		Title: "A scheduled job runs exactly once, whoever starts it",
		Rule: "each unit is one scenario (actors calling RunJob/RunJobIfExists/CancelJob/CancelJobs/ScheduleJob/cancel at fixed virtual instants around the job's time, one-off or periodic, instantaneous or long job body); " +
			"every interleaving of the job goroutine, actors and timers within the preemption bound is executed on the real scheduler; an execution is non-trivial when a select had two ready cases or more than two scheduling points had several enabled goroutines; distinct = distinct observable outcomes (run instants, return values) among those",
		Assumptions: []string{
			"code between two synchronisation operations of one goroutine is atomic (justified by C17)",
			"computation takes no virtual time; concurrency in time is explored as events on the same instant",
			"go-deadlock mutexes behave as sync mutexes (deadlock detection disabled in production builds too)",
		},
		Units:         c02Units,
		MinNontrivial: 10,
	})
}
