package props

import (
	"context"
	"fmt"
	"strings"
	"time"

	"verifharness/hx"

	relaytypes "github.com/attestantio/go-block-relay/types"
	apiv1 "github.com/attestantio/go-eth2-client/api/v1"
	"github.com/attestantio/go-eth2-client/spec/bellatrix"
	"github.com/attestantio/go-eth2-client/spec/phase0"
	"github.com/attestantio/vouch/services/blockrelay"
	standardblockrelay "github.com/attestantio/vouch/services/blockrelay/standard"
	standardcache "github.com/attestantio/vouch/services/cache/standard"
	nullmetrics "github.com/attestantio/vouch/services/metrics/null"
	"github.com/attestantio/vouch/services/scheduler/advanced"
	"github.com/attestantio/vouch/util"
	"github.com/attestantio/vouch/verifmc/mc"
	"github.com/attestantio/vouch/verifmc/mcontext"
	"github.com/rs/zerolog"
)

// C17: vouch's own concurrency never corrupts its state.
//
// Each scenario overlaps operations that run on different goroutines in production and is explored
// over all interleavings within the preemption bound, in a binary built with the Go race detector.
// Token hand-offs of the controlled runtime carry no happens-before edge (runtime.RaceDisable), the
// shimmed primitives perform the real operation, so ThreadSanitizer checks exactly the program's own
// synchronisation on every explored schedule.  A report counts when both accesses are in vouch code.

var c17Watcher *hx.RaceWatcher

// c17Scn is one overlap scenario: setup builds the services, actors run concurrently at the same instant.
type c17Scn struct {
	name   string
	setup  func(ctx context.Context) []func()
	settle int64 // virtual time to let constructors' own goroutines finish before the actors start
	// deviation: scenarios with many goroutines (the whole controller) use the deviation cost model, under
	// which every non-default scheduling choice costs 1 (preemption bounding explodes beyond ~4 goroutines)
	deviation bool
	tail      int64 // virtual time to keep running after the actors have been started (default one hour)
	// thoroughBound: the thorough tier's bound for this scenario, where two is out of reach (0: two)
	thoroughBound int
}

func c17Wrap(sc c17Scn, tier string) hx.Unit {
	done := new(int)
	total := new(int)
	u := hx.Unit{Name: "C17/" + sc.name, Cfg: mc.Config{Horizon: int64(2 * time.Hour), Deviation: sc.deviation}, Race: true}
	u.Bound = 1
	if tier == "thorough" {
		u.Bound = 2
		if sc.thoroughBound > 0 {
			u.Bound = sc.thoroughBound
		}
	}
	u.Body = func() {
		*done, *total = 0, 0
		ctx, cancel := mcontext.WithCancel(context.Background())
		defer cancel()
		actors := sc.setup(ctx)
		*total = len(actors)
		if sc.settle > 0 {
			mc.Sleep(sc.settle)
		}
		for _, a := range actors {
			a := a
			mc.Go(func() {
				a()
				c17Done(done)
			})
		}
		if sc.tail > 0 {
			mc.Sleep(sc.tail)
		} else {
			mc.Sleep(int64(time.Hour))
		}
	}
	u.Check = func(r *mc.Result) mc.Verdict {
		if c17Watcher == nil {
			c17Watcher = hx.NewRaceWatcher()
		}
		v := mc.Verdict{Outcome: fmt.Sprintf("%s done=%d/%d", sc.name, *done, *total), Nontrivial: r.Touched > 0, Sample: sc.name}
		reps := c17Watcher.Poll()
		if len(reps) > 0 {
			v.Violation = sc.name + ": data race between " + strings.ReplaceAll(reps[0].Key, "|", " and ")
			v.Key = "C17/race/" + reps[0].Key
			v.Detail = reps[0].Text
			if len(reps) > 1 {
				var more []string
				for _, x := range reps[1:] {
					more = append(more, x.Key)
					v.Detail += "\n==================\n" + x.Text
				}
				v.Violation += " (and: " + strings.Join(more, "; ") + ")"
			}
			return v
		}
		if r.Panic != "" {
			v.Violation, v.Key = sc.name+": panic: "+firstLine(r.Panic), "C17/panic/"+sc.name
			return v
		}
		if *done != *total {
			v.Violation, v.Key = sc.name+": an overlapping operation never returned", "C17/never-returned/"+sc.name
		}
		return v
	}
	return u
}

//go:norace
func c17Done(p *int) { *p++ }

func c17Units(tier string) []hx.Unit {
	var scns []c17Scn

	// scheduler: schedule / run / cancel / list on the same job table
	scns = append(scns, c17Scn{name: "scheduler/run-cancel-list", setup: func(ctx context.Context) []func() {
		svc, err := advanced.New(ctx, advanced.WithLogLevel(zerolog.Disabled), advanced.WithMonitor(&nullmetrics.Service{}))
		must(err)
		job := func(context.Context) {}
		must(svc.ScheduleJob(ctx, "c", "J", mc.Base.Add(10*time.Second), job))
		return []func(){
			func() { _ = svc.RunJob(ctx, "J") },
			func() {
				_ = svc.CancelJob(ctx, "J")
				_ = svc.ScheduleJob(ctx, "c", "K", mc.Base.Add(20*time.Second), job)
			},
			func() { _ = svc.ListJobs(ctx); _ = svc.JobExists(ctx, "J") },
		}
	}})

	// cache: lookups, block events and the periodic clean
	scns = append(scns, c17Scn{name: "cache/lookup-event-clean", settle: int64(15*time.Minute) - 1, setup: func(ctx context.Context) []func() {
		sched, err := advanced.New(ctx, advanced.WithLogLevel(zerolog.Disabled), advanced.WithMonitor(&nullmetrics.Service{}))
		must(err)
		ts := map[phase0.Root]phase0.Slot{root(1): 33, root(2): 990}
		ev := &eventsProvider{}
		svc, err := standardcache.New(ctx, standardcache.WithLogLevel(zerolog.Disabled), standardcache.WithMonitor(&nullmetrics.Service{}),
			standardcache.WithChainTime(newChainTime(-int64(66*15*time.Minute), time.Minute, 15)), standardcache.WithScheduler(sched),
			standardcache.WithEventsProvider(ev), standardcache.WithSignedBeaconBlockProvider(c18Blocks{}),
			standardcache.WithBeaconBlockHeadersProvider(&c18Headers{slots: ts}))
		must(err)
		return []func(){
			func() { _, _ = svc.BlockRootToSlot(ctx, root(1)); _, _ = svc.BlockRootToSlot(ctx, root(2)) },
			func() { ev.deliver("block", &apiv1.BlockEvent{Block: root(2), Slot: 990}) },
			func() { mc.Sleep(2) }, // the clean job fires at 15 min, i.e. one ns after the actors start
		}
	}})

	// cache: two beacon nodes announce the same new head (one event stream, i.e. one goroutine, per node) while a
	// proposal asks for the execution chain head
	scns = append(scns, c17Scn{name: "cache/head-from-two-nodes+execution-head", settle: int64(time.Second), setup: func(ctx context.Context) []func() {
		ts := map[phase0.Root]phase0.Slot{root(1): 33, root(2): 990, root(3): 991}
		hd := &c18Headers{slots: ts, parents: map[phase0.Root]phase0.Root{root(2): root(1), root(3): root(2)}, heads: []phase0.Root{root(1)}}
		ev := &eventsProvider{}
		svc, err := standardcache.New(ctx, standardcache.WithLogLevel(zerolog.Disabled), standardcache.WithMonitor(&nullmetrics.Service{}),
			standardcache.WithChainTime(newChainTime(-int64(66*15*time.Minute), time.Minute, 15)), standardcache.WithScheduler(&nopScheduler{}),
			standardcache.WithEventsProvider(ev), standardcache.WithSignedBeaconBlockProvider(c18Blocks{h: hd}),
			standardcache.WithBeaconBlockHeadersProvider(hd))
		must(err)
		return []func(){
			func() { ev.deliver("head", &apiv1.HeadEvent{Block: root(2), Slot: 990}) },
			func() { ev.deliver("head", &apiv1.HeadEvent{Block: root(2), Slot: 990}) },
			func() { _, _ = svc.ExecutionChainHead(ctx) },
		}
	}})

	// block relay: refresh (success and failure paths) vs registration round vs lookups vs auction.
	// Two refreshes never overlap in production (one periodic job, and a job never overlaps itself, C02),
	// so refresh || refresh is not a scenario.
	for _, seq := range [][]string{{"A", "B"}, {"A", "err"}, {"A", "malformed"}, {"V1", "V1"}} {
		actSets := [][]string{{"refresh", "register"}, {"refresh", "lookup1", "auction2"}, {"lookup1", "lookup2"}, {"register", "validatorregs"}, {"refresh", "lookup1", "lookup2"}}
		if seq[0] == "V1" {
			// two requests about one validator (whose own entry in the legacy document is incomplete)
			actSets = append(actSets, []string{"lookup2", "lookup2"}, []string{"register", "lookup2"}, []string{"lookup2", "auction2"})
		}
		for _, acts := range actSets {
			seq, acts := seq, acts
			scns = append(scns, c17Scn{name: fmt.Sprintf("blockrelay/fetch[%s]/%s", strings.Join(seq, ","), strings.Join(acts, "+")), settle: int64(time.Second),
				setup: func(ctx context.Context) []func() {
					svc, v1, v2 := c17BlockRelay(ctx, seq)
					var out []func()
					for _, a := range acts {
						switch a {
						case "refresh":
							out = append(out, func() { svc.VerifFetchExecutionConfig(ctx) })
						case "register":
							out = append(out, func() { svc.VerifSubmitValidatorRegistrations(ctx) })
						case "lookup1":
							out = append(out, func() { _, _ = svc.ProposerConfig(ctx, v1, v1.pubkey()) })
						case "lookup2":
							out = append(out, func() { _, _ = svc.ProposerConfig(ctx, v2, v2.pubkey()) })
						case "auction2":
							out = append(out, func() { _, _ = svc.AuctionBlock(ctx, 3300, phase0.Hash32{1}, v2.pubkey()) })
						case "validatorregs":
							out = append(out, func() {
								// a beacon node's MEV-boost registration for a validator vouch does not control
								_, _ = svc.ValidatorRegistrations(ctx, []*relaytypes.SignedValidatorRegistration{{Message: &relaytypes.ValidatorRegistration{Pubkey: newAccount("X", "ext", 9).pubkey(), GasLimit: 1, Timestamp: mc.Base}}})
							})
						}
					}
					return out
				}})
		}
	}
	// the bid cache: a beacon node's bid request for a slot that has an entry already, next to an auction for the same
	// slot on another head (a second beacon node, a reorg)
	scns = append(scns, c17Scn{name: "blockrelay/bid-request+auction-same-slot", settle: int64(time.Second),
		setup: func(ctx context.Context) []func() {
			svc, v1, v2 := c17BlockRelay(ctx, []string{"A", "A"})
			_, _ = svc.AuctionBlock(ctx, 3300, phase0.Hash32{1}, v1.pubkey())
			return []func(){
				func() { _, _ = svc.BuilderBid(ctx, 3300, phase0.Hash32{1}, v1.pubkey()) },
				func() { _, _ = svc.AuctionBlock(ctx, 3300, phase0.Hash32{2}, v2.pubkey()) },
				func() { _, _ = svc.BuilderBid(ctx, 3300, phase0.Hash32{2}, v2.pubkey()) },
			}
		}})
	scns = append(scns, c17MoreScenarios()...)
	scns = append(scns, c17StrategyScenarios()...)
	var units []hx.Unit
	for _, sc := range scns {
		units = append(units, c17Wrap(sc, tier))
	}
	return units
}

func c17BlockRelay(ctx context.Context, seq []string) (*standardblockrelay.Service, *hAccount, *hAccount) {
	util.VerifResetBuilderClients()
	util.VerifSetBuilderClient(c12Relay, c12Relays{})
	v1, v2 := newAccount("W", "v1", 1), newAccount("W", "v2", 2)
	accts := &accountsTable{byIndex: map[phase0.ValidatorIndex]*hAccount{1: v1, 2: v2}}
	var fb bellatrix.ExecutionAddress
	fb[0] = 0xff
	svc, err := standardblockrelay.New(ctx,
		standardblockrelay.WithLogLevel(zerolog.Disabled),
		standardblockrelay.WithMonitor(&nullmetrics.Service{}),
		standardblockrelay.WithMajordomo(&c12Majordomo{docs: seq}),
		standardblockrelay.WithScheduler(&nopScheduler{}),
		standardblockrelay.WithListenAddress("127.0.0.1:18550"),
		standardblockrelay.WithChainTime(newChainTime(-int64(100*12*time.Second), 12*time.Second, 32)),
		standardblockrelay.WithConfigURL("file:///config.json"),
		standardblockrelay.WithFallbackFeeRecipient(fb),
		standardblockrelay.WithFallbackGasLimit(30000000),
		standardblockrelay.WithAccountsProvider(accts),
		standardblockrelay.WithValidatorsProvider(c12Validators{}),
		standardblockrelay.WithValidatingAccountsProvider(accts),
		standardblockrelay.WithValidatorRegistrationSigner(c12Signer{}),
		standardblockrelay.WithReleaseVersion("test"),
		standardblockrelay.WithBuilderBidProvider(c12Bids{}),
		standardblockrelay.WithBuilderConfigs(map[phase0.BLSPubKey]*blockrelay.BuilderConfig{}),
	)
	must(err)
	return svc, v1, v2
}

func init() {
	hx.Register(&hx.Prop{
		ID:    "C17",
		Title: "Vouch's own concurrency never corrupts its state",
		Rule: "overlap scenarios (operations that run on different goroutines in production: scheduler calls, cache lookups/events/clean, block relay refresh / registration round / lookups / auction / REST registrations; validators manager, dirk and wallet refresh vs queries; two attestation runs; sync messenger message / verification / pruning; controller head event vs attestation job vs pending query, with and without reorg; proposal unblinding with two relays; and, beyond the anchored files, each of the 14 data strategies with two nodes (answers at one instant, answer+error, late second answer, two overlapping calls), both relay auction strategies with two relays, the multinode submitter under two simultaneous submissions, sync aggregator head-root recording vs aggregation) explored over all interleavings within the preemption bound (quick 1, thorough 2; the controller scenarios with a reorg keep one deviation in both tiers) in a -race build whose token hand-offs carry no happens-before edge; a ThreadSanitizer report with both accesses in vouch code is a violation; " +
			"non-trivial = the execution had a contended scheduling point; distinct = distinct scenarios with all operations completed",
		Assumptions: []string{
			"ThreadSanitizer's vector-clock detector is exact for the explored schedule; shimmed primitives perform the real synchronisation operation, model-only ones (Cond, semaphore, WaitGroup) are annotated with release/acquire",
			"races between vouch code and uninstrumented libraries are out of scope",
		},
		Units:         c17Units,
		NeedRace:      true,
		MinNontrivial: 20,
	})
}
