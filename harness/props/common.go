package props

import (
	"context"
	"errors"
	"fmt"
	"sort"
	"time"

	"github.com/attestantio/vouch/services/scheduler"
	"github.com/google/uuid"
	e2types "github.com/wealdtech/go-eth2-types/v2"
	e2wtypes "github.com/wealdtech/go-eth2-wallet-types/v2"

	eth2client "github.com/attestantio/go-eth2-client"
	"github.com/attestantio/go-eth2-client/api"
	apiv1 "github.com/attestantio/go-eth2-client/api/v1"
	"github.com/attestantio/go-eth2-client/spec/phase0"
	"github.com/attestantio/vouch/services/chaintime"
	standardchaintime "github.com/attestantio/vouch/services/chaintime/standard"
	"github.com/attestantio/vouch/verifmc/mc"
	"github.com/rs/zerolog"
)

// specProvider is a scripted chain specification.
type specProvider struct{ m map[string]any }

func (s *specProvider) Spec(_ context.Context, _ *api.SpecOpts) (*api.Response[map[string]any], error) {
	return &api.Response[map[string]any]{Data: s.m, Metadata: map[string]any{}}, nil
}

type genesisProvider struct{ t time.Time }

func (g *genesisProvider) Genesis(_ context.Context, _ *api.GenesisOpts) (*api.Response[*apiv1.Genesis], error) {
	return &api.Response[*apiv1.Genesis]{Data: &apiv1.Genesis{GenesisTime: g.t}, Metadata: map[string]any{}}, nil
}

// baseSpec returns the mainnet-like spec values vouch reads, with the given timing parameters.
func baseSpec(slotDur time.Duration, slotsPerEpoch uint64) map[string]any {
	return map[string]any{
		"DOMAIN_AGGREGATE_AND_PROOF":               phase0.DomainType{0x06, 0x00, 0x00, 0x00},
		"DOMAIN_BEACON_ATTESTER":                   phase0.DomainType{0x01, 0x00, 0x00, 0x00},
		"DOMAIN_BEACON_PROPOSER":                   phase0.DomainType{0x00, 0x00, 0x00, 0x00},
		"DOMAIN_CONTRIBUTION_AND_PROOF":            phase0.DomainType{0x09, 0x00, 0x00, 0x00},
		"DOMAIN_DEPOSIT":                           phase0.DomainType{0x03, 0x00, 0x00, 0x00},
		"DOMAIN_RANDAO":                            phase0.DomainType{0x02, 0x00, 0x00, 0x00},
		"DOMAIN_SELECTION_PROOF":                   phase0.DomainType{0x05, 0x00, 0x00, 0x00},
		"DOMAIN_SYNC_COMMITTEE":                    phase0.DomainType{0x07, 0x00, 0x00, 0x00},
		"DOMAIN_SYNC_COMMITTEE_SELECTION_PROOF":    phase0.DomainType{0x08, 0x00, 0x00, 0x00},
		"DOMAIN_VOLUNTARY_EXIT":                    phase0.DomainType{0x04, 0x00, 0x00, 0x00},
		"DOMAIN_APPLICATION_BUILDER":               phase0.DomainType{0x00, 0x00, 0x00, 0x01},
		"EPOCHS_PER_SYNC_COMMITTEE_PERIOD":         uint64(256),
		"SECONDS_PER_SLOT":                         slotDur,
		"SLOTS_PER_EPOCH":                          slotsPerEpoch,
		"SYNC_COMMITTEE_SIZE":                      uint64(512),
		"SYNC_COMMITTEE_SUBNET_COUNT":              uint64(4),
		"TARGET_AGGREGATORS_PER_SYNC_SUBCOMMITTEE": uint64(16),
		"TARGET_AGGREGATORS_PER_COMMITTEE":         uint64(16),
		"ALTAIR_FORK_EPOCH":                        uint64(0),
		"BELLATRIX_FORK_EPOCH":                     uint64(0),
		"CAPELLA_FORK_EPOCH":                       uint64(0),
		"DENEB_FORK_EPOCH":                         uint64(0),
	}
}

// newChainTime builds the real chaintime service on the virtual clock; genesis is given as an offset
// (ns) from virtual time 0 (negative: in the past).
func newChainTime(genesisOffset int64, slotDur time.Duration, slotsPerEpoch uint64) chaintime.Service {
	ct, err := standardchaintime.New(context.Background(),
		standardchaintime.WithLogLevel(zerolog.Disabled),
		standardchaintime.WithGenesisProvider(&genesisProvider{t: mc.Base.Add(time.Duration(genesisOffset))}),
		standardchaintime.WithSpecProvider(&specProvider{m: baseSpec(slotDur, slotsPerEpoch)}),
	)
	if err != nil {
		panic(err)
	}
	return ct
}

// eventsProvider captures the handlers vouch registers, so that the harness can deliver events.
type eventsProvider struct {
	handlers map[string][]eth2client.EventHandlerFunc
}

func (e *eventsProvider) Events(_ context.Context, topics []string, h eth2client.EventHandlerFunc) error {
	if e.handlers == nil {
		e.handlers = map[string][]eth2client.EventHandlerFunc{}
	}
	for _, t := range topics {
		e.handlers[t] = append(e.handlers[t], h)
	}
	return nil
}

func (e *eventsProvider) deliver(topic string, data any) {
	for _, h := range e.handlers[topic] {
		h(&apiv1.Event{Topic: topic, Data: data})
	}
}

func root(b byte) phase0.Root {
	var r phase0.Root
	r[0] = b
	r[31] = b
	return r
}

func must(err error) {
	if err != nil {
		panic(err)
	}
}

func sprintf(f string, a ...any) string { return fmt.Sprintf(f, a...) }

// ---- accounts -------------------------------------------------------------------------------------

// hPub is a stand-in public key (vouch only marshals and compares public keys outside the signer).
type hPub struct{ b [48]byte }

func (p *hPub) Aggregate(_ e2types.PublicKey) {}
func (p *hPub) Marshal() []byte               { return p.b[:] }
func (p *hPub) Copy() e2types.PublicKey       { c := *p; return &c }

type hWallet struct{ name string }

func (w *hWallet) Name() string { return w.name }

// hAccount is a wallet account stand-in: name, wallet name, public key.
type hAccount struct {
	id     uuid.UUID
	name   string
	wallet *hWallet
	pub    *hPub
}

func newAccount(wallet, name string, b byte) *hAccount {
	a := &hAccount{name: name, wallet: &hWallet{name: wallet}, pub: &hPub{}}
	a.id[0] = b
	for i := range a.pub.b {
		a.pub.b[i] = b
	}
	a.pub.b[0] = 0x80 | b // looks like a compressed G1 point
	return a
}

func (a *hAccount) ID() uuid.UUID                              { return a.id }
func (a *hAccount) Name() string                               { return a.name }
func (a *hAccount) PublicKey() e2types.PublicKey               { return a.pub }
func (a *hAccount) Path() string                               { return "" }
func (a *hAccount) Lock(_ context.Context) error               { return nil }
func (a *hAccount) Unlock(_ context.Context, _ []byte) error   { return nil }
func (a *hAccount) IsUnlocked(_ context.Context) (bool, error) { return true, nil }
func (a *hAccount) Wallet() e2wtypes.Wallet                    { return hWalletFull{a.wallet} }
func (a *hAccount) pubkey() phase0.BLSPubKey {
	var k phase0.BLSPubKey
	copy(k[:], a.pub.b[:])
	return k
}

// hWalletFull adapts hWallet to the e2wtypes.Wallet interface (only Name is used by vouch here).
type hWalletFull struct{ w *hWallet }

func (w hWalletFull) ID() uuid.UUID                              { return uuid.UUID{} }
func (w hWalletFull) Type() string                               { return "verif" }
func (w hWalletFull) Name() string                               { return w.w.name }
func (w hWalletFull) Version() uint                              { return 1 }
func (w hWalletFull) Lock(_ context.Context) error               { return nil }
func (w hWalletFull) Unlock(_ context.Context, _ []byte) error   { return nil }
func (w hWalletFull) IsUnlocked(_ context.Context) (bool, error) { return true, nil }
func (w hWalletFull) Accounts(_ context.Context) <-chan e2wtypes.Account {
	ch := make(chan e2wtypes.Account)
	close(ch)
	return ch
}

// accountsTable implements the account-manager provider interfaces over a fixed table.
type accountsTable struct {
	byIndex map[phase0.ValidatorIndex]*hAccount
	err     error
	// activeFrom: activation epoch of validators that are not active from the start (absent: always active)
	activeFrom map[phase0.ValidatorIndex]phase0.Epoch
	// knownFrom: virtual instant from which the account manager knows the account (absent: from the start)
	knownFrom map[phase0.ValidatorIndex]int64
}

func (t *accountsTable) active(i phase0.ValidatorIndex, e phase0.Epoch) bool {
	if at, ok := t.knownFrom[i]; ok && mc.Now() < at {
		return false
	}
	from, ok := t.activeFrom[i]
	return !ok || e >= from
}

func (t *accountsTable) ValidatingAccountsForEpoch(_ context.Context, e phase0.Epoch) (map[phase0.ValidatorIndex]e2wtypes.Account, error) {
	if t.err != nil {
		return nil, t.err
	}
	out := map[phase0.ValidatorIndex]e2wtypes.Account{}
	for i, a := range t.byIndex {
		if t.active(i, e) {
			out[i] = a
		}
	}
	return out, nil
}

func (t *accountsTable) ValidatingAccountsForEpochByIndex(_ context.Context, e phase0.Epoch, idx []phase0.ValidatorIndex) (map[phase0.ValidatorIndex]e2wtypes.Account, error) {
	if t.err != nil {
		return nil, t.err
	}
	out := map[phase0.ValidatorIndex]e2wtypes.Account{}
	for _, i := range idx {
		if a, ok := t.byIndex[i]; ok && t.active(i, e) {
			out[i] = a
		}
	}
	return out, nil
}

func (t *accountsTable) SyncCommitteeAccountsForEpoch(ctx context.Context, e phase0.Epoch) (map[phase0.ValidatorIndex]e2wtypes.Account, error) {
	return t.ValidatingAccountsForEpoch(ctx, e)
}

func (t *accountsTable) SyncCommitteeAccountsForEpochByIndex(ctx context.Context, e phase0.Epoch, idx []phase0.ValidatorIndex) (map[phase0.ValidatorIndex]e2wtypes.Account, error) {
	return t.ValidatingAccountsForEpochByIndex(ctx, e, idx)
}

func (t *accountsTable) AccountByPublicKey(_ context.Context, k phase0.BLSPubKey) (e2wtypes.Account, error) {
	for _, a := range t.byIndex {
		if a.pubkey() == k {
			return a, nil
		}
	}
	return nil, errors.New("no such account")
}

// nopScheduler accepts jobs and never runs them (the harness drives the job functions itself).
type nopScheduler struct{ names []string }

func (s *nopScheduler) ScheduleJob(_ context.Context, _ string, name string, _ time.Time, _ scheduler.JobFunc) error {
	s.names = append(s.names, name)
	return nil
}
func (s *nopScheduler) SchedulePeriodicJob(_ context.Context, _ string, name string, _ scheduler.RuntimeFunc, _ scheduler.JobFunc) error {
	s.names = append(s.names, name)
	return nil
}
func (s *nopScheduler) CancelJob(_ context.Context, _ string) error   { return nil }
func (s *nopScheduler) CancelJobIfExists(_ context.Context, _ string) {}
func (s *nopScheduler) CancelJobs(_ context.Context, _ string)        {}
func (s *nopScheduler) RunJob(_ context.Context, _ string) error      { return nil }
func (s *nopScheduler) JobExists(_ context.Context, _ string) bool    { return false }
func (s *nopScheduler) RunJobIfExists(_ context.Context, _ string)    {}
func (s *nopScheduler) ListJobs(_ context.Context) []string           { return s.names }

// keysSorted returns the keys of m in ascending order: oracles iterate maps in a fixed order so that the clause
// and message they report do not depend on Go's map iteration (a violation must reproduce on replay word for word).
func keysSorted[K interface {
	~int | ~int64 | ~uint64 | ~uint8 | ~string
}, V any](m map[K]V) []K {
	out := make([]K, 0, len(m))
	for k := range m {
		out = append(out, k)
	}
	sort.Slice(out, func(i, j int) bool { return out[i] < out[j] })
	return out
}
