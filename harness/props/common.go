package props

import (
	"context"
	"fmt"
	"time"

	eth2client "github.com/attestantio/go-eth2-client"
	"github.com/attestantio/go-eth2-client/api"
	apiv1 "github.com/attestantio/go-eth2-client/api/v1"
	"github.com/attestantio/go-eth2-client/spec/phase0"
	"github.com/attestantio/vouch/services/chaintime"
	standardchaintime "github.com/attestantio/vouch/services/chaintime/standard"
	"github.com/attestantio/vouch/verifmc/mc"
	"github.com/rs/zerolog"
)

// specProvider is a scripted chain specification.
type specProvider struct{ m map[string]any }

func (s *specProvider) Spec(_ context.Context, _ *api.SpecOpts) (*api.Response[map[string]any], error) {
	return &api.Response[map[string]any]{Data: s.m, Metadata: map[string]any{}}, nil
}

type genesisProvider struct{ t time.Time }

func (g *genesisProvider) Genesis(_ context.Context, _ *api.GenesisOpts) (*api.Response[*apiv1.Genesis], error) {
	return &api.Response[*apiv1.Genesis]{Data: &apiv1.Genesis{GenesisTime: g.t}, Metadata: map[string]any{}}, nil
}

// baseSpec returns the mainnet-like spec values vouch reads, with the given timing parameters.
func baseSpec(slotDur time.Duration, slotsPerEpoch uint64) map[string]any {
	return map[string]any{
		"DOMAIN_AGGREGATE_AND_PROOF":               phase0.DomainType{0x06, 0x00, 0x00, 0x00},
		"DOMAIN_BEACON_ATTESTER":                   phase0.DomainType{0x01, 0x00, 0x00, 0x00},
		"DOMAIN_BEACON_PROPOSER":                   phase0.DomainType{0x00, 0x00, 0x00, 0x00},
		"DOMAIN_CONTRIBUTION_AND_PROOF":            phase0.DomainType{0x09, 0x00, 0x00, 0x00},
		"DOMAIN_DEPOSIT":                           phase0.DomainType{0x03, 0x00, 0x00, 0x00},
		"DOMAIN_RANDAO":                            phase0.DomainType{0x02, 0x00, 0x00, 0x00},
		"DOMAIN_SELECTION_PROOF":                   phase0.DomainType{0x05, 0x00, 0x00, 0x00},
		"DOMAIN_SYNC_COMMITTEE":                    phase0.DomainType{0x07, 0x00, 0x00, 0x00},
		"DOMAIN_SYNC_COMMITTEE_SELECTION_PROOF":    phase0.DomainType{0x08, 0x00, 0x00, 0x00},
		"DOMAIN_VOLUNTARY_EXIT":                    phase0.DomainType{0x04, 0x00, 0x00, 0x00},
		"DOMAIN_APPLICATION_BUILDER":               phase0.DomainType{0x00, 0x00, 0x00, 0x01},
		"EPOCHS_PER_SYNC_COMMITTEE_PERIOD":         uint64(256),
		"SECONDS_PER_SLOT":                         slotDur,
		"SLOTS_PER_EPOCH":                          slotsPerEpoch,
		"SYNC_COMMITTEE_SIZE":                      uint64(512),
		"SYNC_COMMITTEE_SUBNET_COUNT":              uint64(4),
		"TARGET_AGGREGATORS_PER_SYNC_SUBCOMMITTEE": uint64(16),
		"TARGET_AGGREGATORS_PER_COMMITTEE":         uint64(16),
		"ALTAIR_FORK_EPOCH":                        uint64(0),
		"BELLATRIX_FORK_EPOCH":                     uint64(0),
		"CAPELLA_FORK_EPOCH":                       uint64(0),
		"DENEB_FORK_EPOCH":                         uint64(0),
	}
}

// newChainTime builds the real chaintime service on the virtual clock; genesis is given as an offset
// (ns) from virtual time 0 (negative: in the past).
func newChainTime(genesisOffset int64, slotDur time.Duration, slotsPerEpoch uint64) chaintime.Service {
	ct, err := standardchaintime.New(context.Background(),
		standardchaintime.WithLogLevel(zerolog.Disabled),
		standardchaintime.WithGenesisProvider(&genesisProvider{t: mc.Base.Add(time.Duration(genesisOffset))}),
		standardchaintime.WithSpecProvider(&specProvider{m: baseSpec(slotDur, slotsPerEpoch)}),
	)
	if err != nil {
		panic(err)
	}
	return ct
}

// eventsProvider captures the handlers vouch registers, so that the harness can deliver events.
type eventsProvider struct {
	handlers map[string][]eth2client.EventHandlerFunc
}

func (e *eventsProvider) Events(_ context.Context, topics []string, h eth2client.EventHandlerFunc) error {
	if e.handlers == nil {
		e.handlers = map[string][]eth2client.EventHandlerFunc{}
	}
	for _, t := range topics {
		e.handlers[t] = append(e.handlers[t], h)
	}
	return nil
}

func (e *eventsProvider) deliver(topic string, data any) {
	for _, h := range e.handlers[topic] {
		h(&apiv1.Event{Topic: topic, Data: data})
	}
}

func root(b byte) phase0.Root {
	var r phase0.Root
	r[0] = b
	r[31] = b
	return r
}

func must(err error) {
	if err != nil {
		panic(err)
	}
}

func sprintf(f string, a ...any) string { return fmt.Sprintf(f, a...) }
