package props

import (
	"context"
	"fmt"
	"time"

	"github.com/attestantio/go-eth2-client/spec/altair"
	"github.com/attestantio/go-eth2-client/spec/phase0"
	nullmetrics "github.com/attestantio/vouch/services/metrics/null"
	"github.com/attestantio/vouch/services/synccommitteeaggregator"
	standardsyncaggregator "github.com/attestantio/vouch/services/synccommitteeaggregator/standard"
	"github.com/attestantio/vouch/util"
	"github.com/attestantio/vouch/verifmc/mc"
	"github.com/rs/zerolog"
	e2wtypes "github.com/wealdtech/go-eth2-wallet-types/v2"
)

// Overlap scenarios beyond the files the property anchors: the goroutines a strategy starts per call (and
// two overlapping calls of one strategy instance, as two slow duty jobs produce), the relay auction
// strategies, the multinode submitter under two simultaneous submissions, and the sync committee
// aggregator's head-root table written by the messenger's job while an aggregation job reads it.

func c17StrategyScenarios() []c17Scn {
	var scns []c17Scn
	for _, stg := range c07Strats() {
		stg := stg
		for _, v := range []struct {
			kinds string
			lats  [2]int
			calls int
		}{
			{"AB", [2]int{0, 0}, 1}, // both answers at the same instant
			{"AE", [2]int{0, 0}, 1}, // an answer and an error at the same instant
			{"AB", [2]int{0, 1}, 1}, // the second answer arrives after the call may have returned
			{"AB", [2]int{0, 0}, 2}, // two overlapping calls on one strategy instance
		} {
			v := v
			scns = append(scns, c17Scn{name: fmt.Sprintf("strategy/%s/%s@%d,%d/calls=%d", stg.name, v.kinds, c07Lats[v.lats[0]], c07Lats[v.lats[1]], v.calls), tail: int64(30 * time.Second), deviation: v.calls > 1,
				setup: func(ctx context.Context) []func() {
					e := &c07Env{nodes: []c07Node{{kind: v.kinds[0], lat: v.lats[0]}, {kind: v.kinds[1], lat: v.lats[1]}}, arrive: []int64{-1, -1}, called: make([]int, 2), threshold: 1}
					call := stg.mk(e)
					var actors []func()
					for i := 0; i < v.calls; i++ {
						actors = append(actors, func() { _, _ = call(ctx) })
					}
					return actors
				}})
		}
	}
	// relay auction strategies with two relays answering at the same instant / one second apart
	for si, name := range []string{"best", "deadline"} {
		si := si
		for _, lat1 := range []int{0, 1} {
			lat1 := lat1
			scns = append(scns, c17Scn{name: fmt.Sprintf("auction/%s/relays@0,%d", name, c09Lats[lat1]), tail: int64(60 * time.Second), deviation: true,
				setup: func(ctx context.Context) []func() {
					c09Init()
					st := c09Strats()[si]
					e := &c09Env{cfgKind: "none", given: make([][]c09Given, 2)}
					util.VerifResetBuilderClients()
					for i := 0; i < 2; i++ {
						r := &c09Relay{idx: i, env: e, value: int64(10 + 10*i), bldr: 'Y', hdr: 1, defect: "none", step: 3}
						if i == 1 {
							r.lat = lat1
						}
						e.relays = append(e.relays, r)
						util.VerifSetBuilderClient(r.Address(), r)
					}
					mc.Sleep(int64(time.Duration(c09Slot)*12*time.Second) - mc.Now())
					svc := st.mk()
					return []func(){func() {
						_, _ = svc.BuilderBid(ctx, c09Slot, phase0.Hash32{9}, phase0.BLSPubKey{1}, c09ProposerConfig(e), c09BuilderConfigs("none"))
					}}
				}})
		}
	}
	// multinode submitter: attestations and sync committee messages of the same slot submitted at once
	scns = append(scns, c17Scn{name: "submitter/attestations+messages", tail: int64(30 * time.Second), deviation: true, setup: func(ctx context.Context) []func() {
		nodes := []*c08Node{{beh: c08Beh{name: "accept", client: "prysm"}}, {beh: c08Beh{name: "reject", client: "Lighthouse", errText: lhPrefix + lhDupMsg}}}
		svc := multiSvc(nodes, 2)
		return []func(){
			func() { _ = svc.SubmitAttestations(ctx, mkAtts(2)) },
			func() { _ = svc.SubmitSyncCommitteeMessages(ctx, mk[altair.SyncCommitteeMessage](2)) },
		}
	}})
	// sync committee aggregator: the messenger's job records the head root of slot 11 while the aggregation
	// job of slot 10 reads (and drops) the root of slot 10
	scns = append(scns, c17Scn{name: "synccommitteeaggregator/setroot-aggregate", tail: int64(30 * time.Second), setup: func(ctx context.Context) []func() {
		env := &c20SyncEnv{sigSel: c20FindSig(8, true), sigNot: c20FindSig(8, false), selected: true}
		sp := &specProvider{m: baseSpec(12*time.Second, 32)}
		ct := newChainTime(0, 12*time.Second, 32)
		accts := &accountsTable{byIndex: map[phase0.ValidatorIndex]*hAccount{1: newAccount("W", "v1", 1)}}
		agg, err := standardsyncaggregator.New(ctx, standardsyncaggregator.WithLogLevel(zerolog.Disabled), standardsyncaggregator.WithMonitor(nullmetrics.New()), standardsyncaggregator.WithSpecProvider(sp),
			standardsyncaggregator.WithBeaconBlockRootProvider(env), standardsyncaggregator.WithContributionAndProofSigner(env), standardsyncaggregator.WithValidatingAccountsProvider(accts),
			standardsyncaggregator.WithSyncCommitteeContributionProvider(env), standardsyncaggregator.WithSyncCommitteeContributionsSubmitter(env), standardsyncaggregator.WithChainTime(ct))
		must(err)
		agg.SetBeaconBlockRoot(7, root(7))
		agg.SetBeaconBlockRoot(10, root(10))
		duty := &synccommitteeaggregator.Duty{Slot: 10, ValidatorIndices: []phase0.ValidatorIndex{1},
			SelectionProofs: map[phase0.ValidatorIndex]map[uint64]phase0.BLSSignature{1: {0: env.sigSel}}, Accounts: map[phase0.ValidatorIndex]e2wtypes.Account{1: accts.byIndex[1]}}
		return []func(){
			func() { agg.Aggregate(ctx, duty) },
			func() { agg.SetBeaconBlockRoot(11, root(11)) },
		}
	}})
	return scns
}
