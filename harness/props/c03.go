package props

import (
	"context"
	"fmt"
	"sort"
	"strings"
	"time"

	"verifharness/hx"

	"github.com/attestantio/go-eth2-client/api"
	apiv1 "github.com/attestantio/go-eth2-client/api/v1"
	"github.com/attestantio/go-eth2-client/spec/phase0"
	vouchmock "github.com/attestantio/vouch/mock"
	mockaccountmanager "github.com/attestantio/vouch/services/accountmanager/mock"
	mockattestationaggregator "github.com/attestantio/vouch/services/attestationaggregator/mock"
	"github.com/attestantio/vouch/services/attester"
	"github.com/attestantio/vouch/services/beaconblockproposer"
	mockbeaconcommitteesubscriber "github.com/attestantio/vouch/services/beaconcommitteesubscriber/mock"
	"github.com/attestantio/vouch/services/cache"
	mockcache "github.com/attestantio/vouch/services/cache/mock"
	standardcontroller "github.com/attestantio/vouch/services/controller/standard"
	nullmetrics "github.com/attestantio/vouch/services/metrics/null"
	mockproposalpreparer "github.com/attestantio/vouch/services/proposalpreparer/mock"
	"github.com/attestantio/vouch/services/scheduler/advanced"
	"github.com/attestantio/vouch/verifmc/mc"
	"github.com/attestantio/vouch/verifmc/mcontext"
	"github.com/rs/zerolog"
)

// C03: every duty is scheduled once, for the right time, across restarts and reorgs.
//
// Part 1 (controller): the real controller with the real scheduler and real chain time on the virtual
// clock, started at a chosen instant of epoch 2 (a restart is a start instant: vouch keeps no state), run
// for three epochs.  Scripted duty providers serve version 0 of the duty tables until a head event
// announces changed dependent roots, version 1 afterwards.  The oracle is derived from the log of what
// the beacon node actually returned (the "duties it then obtains"), not from a model of the controller.
//
// Part 2 (chain time): exhaustive grid of chain parameters for the conversion identities.

// c03Epoch0 is the epoch in which vouch starts: 2, except in the genesis units, whose body sets it to 0 and
// whose check restores it (units of one worker process run one after the other).
var c03Epoch0 = 2

const (
	c03SPE     = 4
	c03SlotDur = 12 * time.Second
	c03Delay   = 4 * time.Second        // attestation delay
	c03Grace   = 500 * time.Millisecond // fast-track grace
)

type c03Duty struct {
	slot phase0.Slot
	val  phase0.ValidatorIndex
}

// duty tables per epoch offset (0,1,2 relative to c03Epoch0), by kind
func c03AttTable(kind string, epoch phase0.Epoch) []c03Duty {
	f := phase0.Slot(uint64(epoch) * c03SPE)
	switch kind {
	case "A":
		return []c03Duty{{f, 1}, {f + 1, 2}, {f + 1, 3}}
	case "B": // validator 1 moved later, validator 3 moved to the last slot
		return []c03Duty{{f + 2, 1}, {f + 1, 2}, {f + 3, 3}}
	case "C": // validator 1 dropped
		return []c03Duty{{f + 1, 2}, {f + 1, 3}}
	case "D": // as A plus duties outside the requested epoch, which must be ignored
		return []c03Duty{{f, 1}, {f + 1, 2}, {f + 1, 3}, {f + c03SPE + 2, 3}, {f - 1, 2}, {f + c03SPE, 2}}
	case "E": // a duty in every slot
		return []c03Duty{{f, 1}, {f + 1, 2}, {f + 2, 3}, {f + 3, 1}}
	case "G": // no duty at all
		return nil
	case "H": // a duty in the third and one in the fourth slot of the epoch
		return []c03Duty{{f + 2, 1}, {f + 3, 2}}
	case "I": // two duties in the third slot, one in the fourth
		return []c03Duty{{f + 2, 1}, {f + 2, 3}, {f + 3, 2}}
	case "F": // as E with validators 2 and 3 swapped (same number of validators per slot)
		return []c03Duty{{f, 1}, {f + 1, 3}, {f + 2, 2}, {f + 3, 1}}
	}
	return nil
}

// c03Committee: validator 1 sits in committee 0, validators 2 and 3 in committee 1.
func c03Committee(v phase0.ValidatorIndex) phase0.CommitteeIndex { return phase0.CommitteeIndex(v / 2) }

func c03PropTable(kind string, epoch phase0.Epoch) []c03Duty {
	f := phase0.Slot(uint64(epoch) * c03SPE)
	switch kind {
	case "A":
		return []c03Duty{{f, 1}, {f + 2, 2}}
	case "B": // moved
		return []c03Duty{{f + 1, 1}, {f + 3, 2}}
	case "C": // dropped
		return []c03Duty{{f + 2, 2}}
	case "D": // out-of-epoch duty
		return []c03Duty{{f, 1}, {f + 2, 2}, {f + c03SPE + 1, 3}, {f + c03SPE, 3}, {f - 1, 3}}
	}
	return nil
}

type c03Fetch struct {
	req    int64 // instant of the request (the answer is given at `at`)
	at     int64
	epoch  phase0.Epoch
	duties []c03Duty
}

type c03Call struct {
	at   int64
	slot phase0.Slot
	vals []phase0.ValidatorIndex
}

type c03World struct {
	attKinds   [2]string // version 0 / 1
	propKinds  [2]string
	version    int
	attF       []c03Fetch
	propF      []c03Fetch
	attests    []c03Call
	proposes   []c03Call
	prepares   []c03Call
	startAt    int64 // offset of virtual time 0 from the start of epoch c03Epoch0
	events     []string
	reorgAt    int64 // instant of the first event announcing changed roots (-1: none)
	done       bool
	jobsAtEnd  []string
	reorgs     []c03Reorg              // head events that announced changed dependent roots
	slowDuties bool                    // after the reorg the beacon node takes two seconds over a duty request; the reorg event arrives one second before the end of its slot
	fastTrack  bool                    // the controller starts a slot's attestations early when the slot's block arrives (vouch's default)
	evAt       map[phase0.Slot][]int64 // instants at which head events for a slot were delivered
	lateHead   bool                    // head events arrive 11.7 s into their slot: the fast-track grace (0.5 s) ends in the next slot
	waited     bool                    // vouch was started before genesis and waited for it (controller option WaitedForGenesis): the start instant is genesis itself
	attestDur  int64                   // how long the attester stand-in takes (0: returns at once)
	inflight   map[phase0.Slot]int     // attestations being carried out by the stand-in
}

func (w *c03World) now() int64 { return mc.Now() }

func (w *c03World) AttesterDuties(_ context.Context, opts *api.AttesterDutiesOpts) (*api.Response[[]*apiv1.AttesterDuty], error) {
	if w.slowDuties && w.version == 1 {
		mc.Sleep(int64(2 * time.Second)) // the answer is given (and logged) two seconds after the request
	}
	tab := c03AttTable(w.attKinds[w.version], opts.Epoch)
	f := c03Fetch{at: w.now(), epoch: opts.Epoch}
	var out []*apiv1.AttesterDuty
	for _, d := range tab {
		ok := false
		for _, i := range opts.Indices {
			if i == d.val {
				ok = true
			}
		}
		if !ok {
			continue
		}
		f.duties = append(f.duties, d)
		// validators 2 and 3 sit in the same committee (tables with both in one slot: two duties for one slot and committee)
		out = append(out, &apiv1.AttesterDuty{Slot: d.slot, ValidatorIndex: d.val, CommitteeIndex: c03Committee(d.val), CommitteeLength: 8, CommitteesAtSlot: 2, ValidatorCommitteeIndex: uint64(d.val)})
	}
	w.attF = append(w.attF, f)
	return &api.Response[[]*apiv1.AttesterDuty]{Data: out, Metadata: map[string]any{}}, nil
}

func (w *c03World) ProposerDuties(_ context.Context, opts *api.ProposerDutiesOpts) (*api.Response[[]*apiv1.ProposerDuty], error) {
	req := w.now()
	if w.slowDuties && w.version == 1 {
		mc.Sleep(int64(2 * time.Second)) // as for the attester duties
	}
	tab := c03PropTable(w.propKinds[w.version], opts.Epoch)
	f := c03Fetch{req: req, at: w.now(), epoch: opts.Epoch}
	var out []*apiv1.ProposerDuty
	for _, d := range tab {
		f.duties = append(f.duties, d)
		out = append(out, &apiv1.ProposerDuty{Slot: d.slot, ValidatorIndex: d.val})
	}
	w.propF = append(w.propF, f)
	return &api.Response[[]*apiv1.ProposerDuty]{Data: out, Metadata: map[string]any{}}, nil
}

func (w *c03World) Attest(_ context.Context, duty *attester.Duty) ([]*phase0.Attestation, error) {
	c := c03Call{at: w.now(), slot: duty.Slot(), vals: append([]phase0.ValidatorIndex(nil), duty.ValidatorIndices()...)}
	sort.Slice(c.vals, func(i, j int) bool { return c.vals[i] < c.vals[j] })
	w.attests = append(w.attests, c)
	if w.attestDur > 0 {
		if w.inflight == nil {
			w.inflight = map[phase0.Slot]int{}
		}
		w.inflight[duty.Slot()]++
		mc.Sleep(w.attestDur)
		w.inflight[duty.Slot()]--
	}
	return nil, nil
}

func (w *c03World) Prepare(_ context.Context, duty *beaconblockproposer.Duty) error {
	w.prepares = append(w.prepares, c03Call{at: w.now(), slot: duty.Slot(), vals: []phase0.ValidatorIndex{duty.ValidatorIndex()}})
	return nil
}

func (w *c03World) Propose(_ context.Context, duty *beaconblockproposer.Duty) {
	w.proposes = append(w.proposes, c03Call{at: w.now(), slot: duty.Slot(), vals: []phase0.ValidatorIndex{duty.ValidatorIndex()}})
}

// virtual instant of the start of a slot
func (w *c03World) slotStart(s phase0.Slot) int64 {
	return int64(uint64(s)-uint64(c03Epoch0)*c03SPE)*int64(c03SlotDur) - w.startAt
}

func (w *c03World) slotAt(t int64) phase0.Slot {
	return phase0.Slot(uint64(c03Epoch0)*c03SPE + uint64((t+w.startAt)/int64(c03SlotDur)))
}

// c03Reorg is a head event announcing that duty-dependent roots changed.
type c03Reorg struct {
	at       int64
	epoch    phase0.Epoch
	crossing bool // first event of a new epoch: the controller can only compare the previous root
	prev     bool
	cur      bool
}

type c03Event struct {
	slotOff int    // slot offset from the first slot of epoch c03Epoch0
	secs    int64  // seconds into the slot
	kind    string // same, prev, cur
}

func c03Units(tier string) []hx.Unit {
	starts := []int64{0, int64(6 * time.Second), int64(c03SlotDur) + int64(time.Second), 3*int64(c03SlotDur) + int64(6*time.Second)}
	if tier == "thorough" {
		// also: the last second of a slot, the last second of the epoch
		starts = append(starts, 2*int64(c03SlotDur)+int64(11*time.Second), 4*int64(c03SlotDur)-int64(time.Second))
	}
	attPairs := [][2]string{{"A", "A"}, {"A", "B"}, {"A", "C"}, {"D", "B"}, {"E", "C"}, {"B", "A"}}
	propPairs := [][2]string{{"A", "A"}, {"A", "B"}, {"A", "C"}, {"D", "B"}}
	var units []hx.Unit
	for si, st := range starts {
		for _, ap := range attPairs {
			for _, pp := range propPairs {
				st, ap, pp := st, ap, pp
				w := &c03World{}
				u := hx.Unit{Name: fmt.Sprintf("C03/controller/start%d/att%s%s/prop%s%s", si, ap[0], ap[1], pp[0], pp[1]), Cfg: mc.Config{Deviation: true, Horizon: int64(40 * c03SlotDur)}}
				u.Bound = 0
				u.Body = func() { c03Body(w, st, ap, pp, false) }
				u.Check = func(r *mc.Result) mc.Verdict { return c03Check(w, r) }
				units = append(units, u)
			}
		}
	}
	// a reorg announced one second before the end of a slot, with a beacon node that then takes two seconds over
	// the duty request: the slot changes while the request is in flight
	for _, pr := range [][2][2]string{{{"A", "B"}, {"A", "B"}}, {{"E", "C"}, {"A", "C"}}, {{"B", "A"}, {"A", "A"}}, {{"E", "F"}, {"A", "A"}}} {
		ap, pp := pr[0], pr[1]
		w := &c03World{}
		u := hx.Unit{Name: fmt.Sprintf("C03/controller/slow-duties/att%s%s/prop%s%s", ap[0], ap[1], pp[0], pp[1]), Cfg: mc.Config{Deviation: true, Horizon: int64(40 * c03SlotDur)}}
		u.Body = func() {
			w.slowDuties = true
			c03Body(w, 0, ap, pp, false)
		}
		u.Check = func(r *mc.Result) mc.Verdict { return c03Check(w, r) }
		units = append(units, u)
	}
	// genesis: the same from the first epoch of a chain (unsigned epoch arithmetic: epoch-1, epoch-2 wrap)
	for si, st := range starts[:3] {
		for _, pr := range [][2][2]string{{{"A", "B"}, {"A", "B"}}, {{"E", "C"}, {"A", "C"}}} {
			st, ap, pp := st, pr[0], pr[1]
			w := &c03World{}
			u := hx.Unit{Name: fmt.Sprintf("C03/controller/genesis/start%d/att%s%s/prop%s%s", si, ap[0], ap[1], pp[0], pp[1]), Cfg: mc.Config{Deviation: true, Horizon: int64(40 * c03SlotDur)}}
			u.Body = func() {
				c03Epoch0 = 0
				c03Body(w, st, ap, pp, false)
			}
			u.Check = func(r *mc.Result) mc.Verdict {
				v := c03Check(w, r)
				c03Epoch0 = 2
				return v
			}
			units = append(units, u)
		}
	}
	// head events that arrive in the last third of a second of their slot: the fast-track grace ends in the next slot
	for _, ap := range [][2]string{{"E", "E"}, {"E", "B"}} {
		ap := ap
		w := &c03World{}
		u := hx.Unit{Name: fmt.Sprintf("C03/controller/late-head/att%s%s", ap[0], ap[1]), Cfg: mc.Config{Deviation: true, Horizon: int64(40 * c03SlotDur)}}
		u.Body = func() {
			w.lateHead = true
			c03Body(w, 0, ap, [2]string{"A", "A"}, false)
		}
		u.Check = func(r *mc.Result) mc.Verdict { return c03Check(w, r) }
		units = append(units, u)
	}
	// started before genesis: vouch waits and is started at genesis itself, with the controller told so; the duties
	// of the first slot are then owed a job like any other slot's
	for _, ap := range [][2]string{{"E", "E"}, {"A", "A"}} {
		ap := ap
		w := &c03World{}
		u := hx.Unit{Name: fmt.Sprintf("C03/controller/genesis-waited/att%s/propB", ap[0]), Cfg: mc.Config{Deviation: true, Horizon: int64(40 * c03SlotDur)}}
		u.Body = func() {
			c03Epoch0 = 0
			w.waited = true
			c03Body(w, 0, ap, [2]string{"B", "B"}, false)
		}
		u.Check = func(r *mc.Result) mc.Verdict {
			v := c03Check(w, r)
			c03Epoch0 = 2
			return v
		}
		units = append(units, u)
	}
	if tier == "thorough" {
		// one deviation from the default schedule during start-up and during the handling of one event that
		// announces changed roots (see c03Body)
		for si, st := range starts[:4] {
			for _, ap := range attPairs {
				for _, pp := range propPairs {
					st, ap, pp := st, ap, pp
					w := &c03World{}
					u := hx.Unit{Name: fmt.Sprintf("C03/controller-1dev/start%d/att%s%s/prop%s%s", si, ap[0], ap[1], pp[0], pp[1]), Cfg: mc.Config{Deviation: true, Horizon: int64(40 * c03SlotDur)}, Bound: 1}
					u.Body = func() { c03Body(w, st, ap, pp, true) }
					u.Check = func(r *mc.Result) mc.Verdict { return c03Check(w, r) }
					units = append(units, u)
				}
			}
		}
	}
	units = append(units, c03ChainTimeUnits(tier)...)
	// sync committee duties: "one job per duty slot that has not yet passed ... when started or restarted at
	// any point" is explored by the sync-period window units shared with C15 (every start instant of the
	// first periods x period length x fork epoch x membership pattern)
	for _, u := range c15Units(tier) {
		if !strings.HasPrefix(u.Name, "C15/window/") {
			continue
		}
		u := u
		inner := u.Check
		u.Name = "C03/sync" + strings.TrimPrefix(u.Name, "C15")
		u.Check = func(r *mc.Result) mc.Verdict {
			v := inner(r)
			if v.Key != "" {
				v.Key = "C03/sync/" + strings.TrimPrefix(v.Key, "C15/")
			}
			return v
		}
		units = append(units, u)
	}
	return units
}

func c03Body(w *c03World, startAt int64, ap, pp [2]string, windowed bool) {
	slow, waited, late := w.slowDuties, w.waited, w.lateHead
	*w = c03World{attKinds: ap, propKinds: pp, startAt: startAt, reorgAt: -1, slowDuties: slow, waited: waited, lateHead: late}
	ctx, cancel := mcontext.WithCancel(context.Background())
	defer cancel()
	ct := newChainTime(-(int64(c03Epoch0*c03SPE)*int64(c03SlotDur) + startAt), c03SlotDur, c03SPE)
	spec := baseSpec(c03SlotDur, c03SPE)
	sched, err := advanced.New(ctx, advanced.WithLogLevel(zerolog.Disabled), advanced.WithMonitor(&nullmetrics.Service{}))
	must(err)
	byIndex := map[phase0.ValidatorIndex]*hAccount{}
	for i := 1; i <= 3; i++ {
		byIndex[phase0.ValidatorIndex(i)] = newAccount("W", fmt.Sprintf("v%d", i), byte(i))
	}
	accts := &accountsTable{byIndex: byIndex}
	ev := &eventsProvider{}
	// fast track (vouch's default configuration): a head event for a slot starts that slot's attestations half a
	// second later instead of at the attestation delay
	w.fastTrack = mc.Choose(2) == 1
	_, err = standardcontroller.New(ctx,
		standardcontroller.WithFastTrackAttestations(w.fastTrack), standardcontroller.WithFastTrackSyncCommittees(w.fastTrack), standardcontroller.WithFastTrackGrace(c03Grace),
		standardcontroller.WithLogLevel(zerolog.Disabled),
		standardcontroller.WithWaitedForGenesis(w.waited),
		standardcontroller.WithMonitor(nullmetrics.New()),
		standardcontroller.WithSpecProvider(&specProvider{m: spec}),
		standardcontroller.WithChainTimeService(ct),
		standardcontroller.WithProposerDutiesProvider(w),
		standardcontroller.WithAttesterDutiesProvider(w),
		standardcontroller.WithSyncCommitteeDutiesProvider(vouchmock.NewSyncCommitteeDutiesProvider()),
		standardcontroller.WithEventsProvider(ev),
		standardcontroller.WithValidatingAccountsProvider(accts),
		standardcontroller.WithProposalsPreparer(mockproposalpreparer.New()),
		standardcontroller.WithScheduler(sched),
		standardcontroller.WithAttester(w),
		standardcontroller.WithBeaconBlockProposer(w),
		standardcontroller.WithBeaconCommitteeSubscriber(mockbeaconcommitteesubscriber.New()),
		standardcontroller.WithAttestationAggregator(mockattestationaggregator.New()),
		standardcontroller.WithAccountsRefresher(mockaccountmanager.NewRefresher()),
		standardcontroller.WithBlockToSlotSetter(mockcache.New(map[phase0.Root]phase0.Slot{}).(cache.BlockRootToSlotSetter)),
		standardcontroller.WithBeaconBlockHeadersProvider(vouchmock.NewBeaconBlockHeadersProvider()),
		standardcontroller.WithSignedBeaconBlockProvider(vouchmock.NewSignedBeaconBlockProvider()),
		standardcontroller.WithMaxAttestationDelay(c03Delay),
		standardcontroller.WithAttestationAggregationDelay(8*time.Second),
	)
	must(err)
	// head events: a baseline event shortly after the start, then up to two more; an event announcing
	// changed roots switches the beacon node to version 1 of the duty tables
	deliver := func(kind string, prev, cur byte) {
		s := w.slotAt(mc.Now())
		w.events = append(w.events, fmt.Sprintf("%s@slot%d+%ds", kind, s, (mc.Now()-w.slotStart(s))/int64(time.Second)))
		if w.evAt == nil {
			w.evAt = map[phase0.Slot][]int64{}
		}
		w.evAt[s] = append(w.evAt[s], mc.Now())
		ev.deliver("head", &apiv1.HeadEvent{Slot: s, Block: root(byte(s)), PreviousDutyDependentRoot: root(prev), CurrentDutyDependentRoot: root(cur)})
	}
	mc.Sleep(int64(500 * time.Millisecond))
	// the slot of the baseline event (its handling takes the fast-track grace, which may end in the next slot or epoch:
	// the controller compares later events with the epoch of this one)
	baseSlotOff := int(w.slotAt(mc.Now())) - c03Epoch0*c03SPE
	deliver("baseline", 0x10, 0x20)
	// The thorough tier's schedule bound (one deviation) applies to the start-up above and to the instants at
	// which a head event is handled; in between the default schedule is followed (three epochs of controller
	// activity offer thousands of scheduling points, which no bound above zero can cover)
	if windowed {
		mc.Sleep(int64(time.Millisecond))
		mc.SetDeviations(false)
	}
	prev, cur := byte(0x10), byte(0x20)
	nEvents := 1 + mc.Choose(2)
	if windowed {
		nEvents = 1
	}
	lastSlotOff := baseSlotOff
	for i := 0; i < nEvents; i++ {
		// the event's slot: the current slot or one of the next three; seconds into the slot: before or after the attestation time
		var slotOff int
		var secs int64
		var kind string
		if windowed {
			// one event announcing changed roots, in the next slot, before or after the attestation time
			slotOff, secs, kind = lastSlotOff+1, []int64{1, 6}[mc.Choose(2)], []string{"prev", "cur", "both"}[mc.Choose(3)]
		} else {
			slotOff = lastSlotOff + mc.Choose(4)
			secs = []int64{1, 6}[mc.Choose(2)]
			kind = []string{"same", "prev", "cur", "both"}[mc.Choose(4)]
		}
		if w.slowDuties {
			// the reorg is announced one second before the end of the slot
			secs = 11
			if kind == "same" {
				kind = "prev"
			}
		}
		if c03Epoch0 == 0 {
			// the duties of the first two epochs depend on the genesis state: a beacon node cannot announce
			// other dependent roots there
			kind = "same"
		}
		offNs := secs * int64(time.Second)
		if w.lateHead {
			offNs = int64(11700 * time.Millisecond)
		}
		at := w.slotStart(phase0.Slot(c03Epoch0*c03SPE+slotOff)) + offNs
		if at <= mc.Now() {
			slotOff++
			at = w.slotStart(phase0.Slot(c03Epoch0*c03SPE+slotOff)) + offNs
		}
		mc.Sleep(at - mc.Now())
		// crossing an epoch boundary shifts the roots: what was current becomes previous
		if slotOff/c03SPE != lastSlotOff/c03SPE {
			prev, cur = cur, cur+1
		}
		switch kind {
		case "prev":
			prev += 0x40
			w.version = 1
		case "cur":
			cur += 0x40
			w.version = 1
		case "both": // a deep reorg: both dependent roots change in one event
			prev += 0x40
			cur += 0x40
			w.version = 1
		}
		if kind != "same" && w.reorgAt < 0 {
			w.reorgAt = mc.Now()
		}
		if kind != "same" {
			w.reorgs = append(w.reorgs, c03Reorg{at: mc.Now(), epoch: phase0.Epoch(c03Epoch0 + slotOff/c03SPE), crossing: slotOff/c03SPE != lastSlotOff/c03SPE,
				prev: kind == "prev" || kind == "both", cur: kind == "cur" || kind == "both"})
		}
		if windowed {
			mc.SetDeviations(true)
		}
		deliver(kind, prev, cur)
		if windowed {
			mc.Sleep(int64(time.Millisecond))
			mc.SetDeviations(false)
		}
		lastSlotOff = slotOff
	}
	mc.Sleep(w.slotStart(phase0.Slot((c03Epoch0+3)*c03SPE)) + int64(time.Second) - mc.Now())
	w.jobsAtEnd = sched.ListJobs(ctx)
	w.done = true
}

func c03Check(w *c03World, r *mc.Result) (v mc.Verdict) {
	desc := fmt.Sprintf("start=epoch%d+%.0fs fast-track=%v attester duties v0=%s v1=%s proposer duties v0=%s v1=%s events=[%s]", c03Epoch0, float64(w.startAt)/1e9, w.fastTrack, w.attKinds[0], w.attKinds[1], w.propKinds[0], w.propKinds[1], strings.Join(w.events, " "))
	v.Outcome = fmt.Sprintf("attests=%d proposes=%d fetches=%d/%d", len(w.attests), len(w.proposes), len(w.attF), len(w.propF))
	v.Sample = desc + " -> " + v.Outcome
	v.Nontrivial = w.version == 1 || w.startAt != 0
	fail := func(key, msg string) mc.Verdict {
		v.Violation = desc + ": " + msg
		v.Key = "C03/" + key
		return v
	}
	if r.Panic != "" {
		return fail("panic/"+panicSite(r.Panic), "panic: "+firstLine(r.Panic))
	}
	if !w.done {
		return fail("never-finished", "the scenario driver never finished (a head event handler did not return)")
	}
	for _, b := range r.Blocked {
		if b.Class == "blocked" {
			return fail("blocked-goroutine/"+b.Kind.String(), fmt.Sprintf("goroutine g%d is blocked forever at %s %s", b.G, b.Kind, b.Desc))
		}
	}
	type judge struct {
		name    string
		calls   []c03Call
		fetches []c03Fetch
		delay   int64
	}
	fastN := 0
	defer func() {
		if fastN > 0 {
			v.Outcome += " fast-tracked"
		}
	}()
	for _, j := range []judge{{"attest", w.attests, w.attF, int64(c03Delay)}, {"propose", w.proposes, w.propF, 0}} {
		perSlot := map[phase0.Slot][]c03Call{}
		for _, c := range j.calls {
			perSlot[c.slot] = append(perSlot[c.slot], c)
		}
		first, last := phase0.Slot(c03Epoch0*c03SPE), phase0.Slot((c03Epoch0+3)*c03SPE-1)
		for s := first; s <= last; s++ {
			calls := perSlot[s]
			if len(calls) > 1 {
				return fail(j.name+"/slot-handled-twice", fmt.Sprintf("slot %d was handed to %s %d times", s, j.name, len(calls)))
			}
			jobTime := w.slotStart(s) + j.delay
			epoch := phase0.Epoch(uint64(s) / c03SPE)
			dutiesAt := func(f *c03Fetch) []phase0.ValidatorIndex {
				var out []phase0.ValidatorIndex
				if f != nil {
					for _, d := range f.duties {
						if d.slot == s {
							out = append(out, d.val)
						}
					}
				}
				sort.Slice(out, func(a, b int) bool { return out[a] < out[b] })
				return out
			}
			// the beacon node's last answer for this slot's epoch before the given instant
			lastBefore := func(t int64, inclusive bool) (*c03Fetch, int) {
				var lf *c03Fetch
				n := 0
				for i := range j.fetches {
					f := &j.fetches[i]
					if f.epoch == epoch && (f.at < t || (inclusive && f.at == t)) {
						lf = f
						n++
					}
				}
				return lf, n
			}
			if len(calls) == 0 {
				// started at genesis after waiting for it: the first slot has not passed, its duties need a job
				if lf0, _ := lastBefore(jobTime, false); w.waited && s == first && len(dutiesAt(lf0)) > 0 {
					return fail(j.name+"/genesis-slot-duty-without-job", fmt.Sprintf("vouch waited for genesis and started with it; slot %d has a %s duty for %v but was never handled", s, j.name, dutiesAt(lf0)))
				}
				lf, _ := lastBefore(jobTime, false)
				// a request for the epoch's duties that was under way when the job was due: its answer, not the one
				// before, says what is owed (the clause on withdrawn jobs below judges it)
				underWay := false
				for i := range j.fetches {
					if f := &j.fetches[i]; f.epoch == epoch && f.req != 0 && f.req < jobTime && f.at >= jobTime {
						underWay = true
						// the slot had a job (the earlier answer has a duty in it), the refresh withdrew it before it could
						// run, and the answer then obtained still has a duty in the slot: a job is owed
						if want := dutiesAt(f); len(want) > 0 && len(dutiesAt(lf)) > 0 && w.slotAt(lf.at) < s && w.slotAt(f.at) == s {
							return fail(j.name+"/withdrawn-job-not-replaced", fmt.Sprintf("slot %d had a %s job, which a refresh withdrew before it could run; the duties then obtained (%d s into the slot) still have a duty for %v in it, but no job was set up again", s, j.name, (f.at-w.slotStart(s))/int64(time.Second), want))
						}
					}
				}
				if want := dutiesAt(lf); len(want) > 0 && w.slotAt(lf.at) < s && !underWay {
					return fail(j.name+"/future-duty-without-job", fmt.Sprintf("slot %d has a %s duty for %v in the duties last obtained (in slot %d) but was never handled", s, j.name, want, w.slotAt(lf.at)))
				}
				// a job that existed and had not run when a reorg refresh withdrew it must be replaced by a job for
				// the duties then obtained, also when its slot is already in progress
				if want := dutiesAt(lf); len(want) > 0 && w.slotAt(lf.at) == s {
					for i := range j.fetches {
						f0 := &j.fetches[i]
						if f0.epoch == epoch && f0.at < lf.at && w.slotAt(f0.at) < s && len(dutiesAt(f0)) > 0 {
							return fail(j.name+"/withdrawn-job-not-replaced", fmt.Sprintf("slot %d had a %s job that had not run when the duties were refreshed in that slot; the refreshed duties still assign %v but the slot was never handled", s, j.name, want))
						}
					}
				}
				// duties obtained by the regular epoch processing (not at start-up, not after a reorg) while their
				// slot is in progress have not passed yet and need a job as well
				lf2, n2 := lastBefore(w.slotStart(s+1), false)
				if want := dutiesAt(lf2); len(want) > 0 && w.slotAt(lf2.at) == s && !(n2 == 1 && lf2.at < int64(time.Second)) && (w.reorgAt < 0 || lf2.at < w.reorgAt) {
					return fail(j.name+"/current-slot-duty-without-job", fmt.Sprintf("slot %d has a %s duty for %v obtained by the regular epoch processing while the slot was in progress, but was never handled", s, j.name, want))
				}
				continue
			}
			c := calls[0]
			lf, nBefore := lastBefore(c.at, true)
			want := dutiesAt(lf)
			if len(want) == 0 {
				return fail(j.name+"/slot-without-duty-handled", fmt.Sprintf("slot %d was handed to %s although the duties last obtained for epoch %d have nothing in it", s, j.name, epoch))
			}
			if fmt.Sprint(c.vals) != fmt.Sprint(want) {
				return fail(j.name+"/wrong-validators", fmt.Sprintf("slot %d was handed to %s with validators %v; the duties last obtained assign %v", s, j.name, c.vals, want))
			}
			if c.at < w.slotStart(s) || c.at >= w.slotStart(s+1) {
				return fail(j.name+"/outside-slot", fmt.Sprintf("slot %d was handed to %s at %+.1fs relative to its start", s, j.name, float64(c.at-w.slotStart(s))/1e9))
			}
			fetchSlot := w.slotAt(lf.at)
			fast := false
			if w.fastTrack && j.name == "attest" {
				for _, te := range w.evAt[s] {
					if te+int64(c03Grace) == c.at && c.at < jobTime {
						fast = true // started early by the head event of its own slot
						fastN++
					}
				}
			}
			if fetchSlot < s && c.at != jobTime && !fast {
				return fail(j.name+"/wrong-time", fmt.Sprintf("slot %d was handed to %s at slot start %+.1fs instead of %+.1fs", s, j.name, float64(c.at-w.slotStart(s))/1e9, float64(j.delay)/1e9))
			}
			if fetchSlot == s && nBefore == 1 && lf.at < int64(time.Second) && !w.waited {
				return fail(j.name+"/current-slot-scheduled-at-startup", fmt.Sprintf("slot %d was in progress when vouch started but was handed to %s", s, j.name))
			}
		}
		for s, calls := range perSlot {
			if s < first || s > last {
				if len(calls) > 0 && s < first {
					return fail(j.name+"/past-slot-handled", fmt.Sprintf("slot %d, before vouch started, was handed to %s", s, j.name))
				}
			}
		}
	}
	// "the duties it then obtains": a head event that shows changed dependent roots must make vouch ask the
	// beacon node again for the duties that depend on them — the previous root: this epoch's attesters; the
	// current root: this epoch's proposers and the next epoch's attesters (the first event of a new epoch can
	// only be compared through the previous root).  Without that clause the reference, which follows the
	// beacon node's answers, would accept jobs of the abandoned chain.
	asked := func(fs []c03Fetch, e phase0.Epoch, from int64) bool {
		for _, f := range fs {
			if f.epoch == e && f.at >= from {
				return true
			}
		}
		return false
	}
	for _, ro := range w.reorgs {
		if ro.prev && !asked(w.attF, ro.epoch, ro.at) {
			return fail("attest/duties-not-obtained-again", fmt.Sprintf("the head event at %+.0fs announced a changed previous dependent root but the attester duties of epoch %d were not obtained again", float64(ro.at)/1e9, ro.epoch))
		}
		if ro.cur && !ro.crossing {
			if !asked(w.propF, ro.epoch, ro.at) {
				return fail("propose/duties-not-obtained-again", fmt.Sprintf("the head event at %+.0fs announced a changed current dependent root but the proposer duties of epoch %d were not obtained again", float64(ro.at)/1e9, ro.epoch))
			}
			if !asked(w.attF, ro.epoch+1, ro.at) {
				return fail("attest/duties-not-obtained-again", fmt.Sprintf("the head event at %+.0fs announced a changed current dependent root but the attester duties of epoch %d were not obtained (again) afterwards", float64(ro.at)/1e9, ro.epoch+1))
			}
		}
	}
	return v
}

// ---- chain time ---------------------------------------------------------------------------------

func c03ChainTimeUnits(tier string) []hx.Unit {
	var units []hx.Unit
	genesisOffsets := []int64{0, -int64(time.Second), -int64(1000 * time.Hour), int64(30 * time.Second)}
	for gi, g := range genesisOffsets {
		for _, sd := range []int64{1, 2, 6, 12} {
			for _, spe := range []uint64{1, 2, 4, 32} {
				g, sd, spe := g, sd, spe
				fails := new(string)
				key := new(string)
				n := new(int)
				u := hx.Unit{Name: fmt.Sprintf("C03/chaintime/genesis%d/slot%ds/spe%d", gi, sd, spe), Cfg: mc.Config{Fixed: true, Horizon: int64(100000 * time.Hour)}}
				u.Body = func() {
					*fails, *key, *n = "", "", 0
					bad := func(k, f string, a ...any) {
						if *fails == "" {
							*fails, *key = fmt.Sprintf(f, a...), k
						}
					}
					slotDur := time.Duration(sd) * time.Second
					ct := newChainTime(g, slotDur, spe)
					genesis := mc.Base.Add(time.Duration(g))
					if ct.GenesisTime() != genesis {
						bad("genesis", "GenesisTime differs from the chain's")
					}
					if g > 0 {
						// before genesis everything is slot / epoch 0
						if ct.CurrentSlot() != 0 || ct.CurrentEpoch() != 0 {
							bad("pre-genesis", "before genesis CurrentSlot=%d CurrentEpoch=%d", ct.CurrentSlot(), ct.CurrentEpoch())
						}
						mc.Sleep(g - mc.Now())
					}
					// walk the clock through slots 0..130 from wherever it stands
					startSlot := uint64(0)
					if g < 0 {
						startSlot = uint64(-g) / uint64(slotDur)
					}
					maxSlot := startSlot + 130
					if tier != "thorough" {
						maxSlot = startSlot + 40
					}
					for s := startSlot; s <= maxSlot; s++ {
						slot := phase0.Slot(s)
						start := ct.StartOfSlot(slot)
						if start != genesis.Add(time.Duration(s)*slotDur) {
							bad("start-of-slot", "StartOfSlot(%d) is not genesis + slot*duration", s)
						}
						e := ct.SlotToEpoch(slot)
						if uint64(e) != s/spe {
							bad("slot-to-epoch", "SlotToEpoch(%d)=%d with %d slots per epoch", s, e, spe)
						}
						if ct.SlotToEpoch(ct.FirstSlotOfEpoch(e)) != e || ct.FirstSlotOfEpoch(e) > slot || uint64(ct.FirstSlotOfEpoch(e))+spe <= s {
							bad("first-slot-of-epoch", "FirstSlotOfEpoch(%d)=%d does not bracket slot %d", e, ct.FirstSlotOfEpoch(e), s)
						}
						if ct.StartOfEpoch(e) != ct.StartOfSlot(ct.FirstSlotOfEpoch(e)) {
							bad("start-of-epoch", "StartOfEpoch(%d) is not the start of its first slot", e)
						}
						for _, off := range []time.Duration{0, 1, slotDur / 2, slotDur - 1} {
							at := start.Add(off)
							d := int64(at.Sub(mc.Base)) - mc.Now()
							if d < 0 {
								continue
							}
							mc.Sleep(d)
							*n++
							if ct.CurrentSlot() != slot {
								bad("current-slot", "at start of slot %d + %v CurrentSlot says %d", s, off, ct.CurrentSlot())
							}
							if ct.CurrentEpoch() != ct.SlotToEpoch(ct.CurrentSlot()) {
								bad("current-epoch", "at slot %d + %v CurrentEpoch=%d but SlotToEpoch(CurrentSlot)=%d", s, off, ct.CurrentEpoch(), ct.SlotToEpoch(ct.CurrentSlot()))
							}
						}
					}
				}
				u.Check = func(r *mc.Result) mc.Verdict {
					v := mc.Verdict{Outcome: fmt.Sprintf("chaintime instants=%d", *n), Nontrivial: true, Sample: u.Name}
					if r.Panic != "" {
						v.Violation, v.Key = u.Name+": panic: "+firstLine(r.Panic), "C03/chaintime/panic"
					} else if *fails != "" {
						v.Violation, v.Key = u.Name+": "+*fails, "C03/chaintime/"+*key
					}
					return v
				}
				units = append(units, u)
			}
		}
	}
	return units
}

func init() {
	hx.Register(&hx.Prop{
		ID:    "C03",
		Title: "Every duty is scheduled once, for the right time, across restarts and reorgs",
		Rule: "controller part: real controller + real scheduler + real chain time (4 slots per epoch) started at 4 instants of an epoch (epoch start, mid-slot, just inside the second slot, last slot) x 6 attester and 4 proposer duty-table pairs (version before / after a reorg: same, moved, dropped, with out-of-epoch duties, dense) x fast track off / on (vouch's default: a slot's head event starts its attestations 0.5 s later) x head-event scripts (baseline + 1..2 events, each in one of the next 4 slots, 1 s or 6 s into the slot, roots same / previous changed / current changed / both changed), run for three epochs (from epoch 2, and for two table pairs also from epoch 0) (also: a reorg announced one second before the end of a slot while the beacon node takes two seconds over the duty request) on the default schedule (simultaneous timers and events in canonical order); thorough: two further start instants (last second of a slot, last second of the epoch), and every start x table pair once more with a single event announcing changed roots in the next slot, under every schedule with one deviation during start-up and during the handling of that event (mc.SetDeviations confines the bound to those instants: three epochs of controller activity offer thousands of scheduling points); the oracle is computed from the log of the beacon node's answers: per slot at most one Attest / Propose, exactly one with exactly the obtained validators at slot start + delay when the slot was still in the future, none for withdrawn or out-of-epoch duties, nothing for the slot in progress at start-up; after an event announcing a changed previous (current) dependent root the attester duties of the epoch (the proposer duties of the epoch and the attester duties of the next) are obtained again; " +
			"chain-time part: genesis {now, 1 s ago, 1000 h ago, in 30 s} x slot duration {1,2,6,12 s} x slots per epoch {1,2,4,32} x 40 (thorough 130) slots x 4 instants per slot for the conversion identities; sync part: the sync-period window units of C15 (start instants x period length x fork epoch x membership); non-trivial = a reorg happened or vouch started inside an epoch",
		Assumptions: []string{
			"vouch keeps no persistent state, so a restart is a start instant",
			"the sync committee part re-uses the period-window units of C15 (same world, same reference window)",
			"duties for a slot already in progress when they are obtained may or may not be scheduled, except at start-up where they must not",
		},
		Units:         c03Units,
		MinNontrivial: 100,
	})
}
