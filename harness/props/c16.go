package props

import (
	"bytes"
	"context"
	"encoding/json"
	"errors"
	"fmt"
	standardsubscriber "github.com/attestantio/vouch/services/beaconcommitteesubscriber/standard"
	"io"
	"math/big"
	"runtime/debug"
	"sort"
	"strings"
	"time"

	"verifharness/hx"

	"github.com/attestantio/go-block-relay/services/blockauctioneer"
	builderclient "github.com/attestantio/go-builder-client"
	builderapi "github.com/attestantio/go-builder-client/api"
	builderbellatrix "github.com/attestantio/go-builder-client/api/bellatrix"
	buildercapella "github.com/attestantio/go-builder-client/api/capella"
	builderdeneb "github.com/attestantio/go-builder-client/api/deneb"
	builderspec "github.com/attestantio/go-builder-client/spec"
	eth2client "github.com/attestantio/go-eth2-client"
	"github.com/attestantio/go-eth2-client/api"
	apiv1 "github.com/attestantio/go-eth2-client/api/v1"
	apiv1bellatrix "github.com/attestantio/go-eth2-client/api/v1/bellatrix"
	apiv1capella "github.com/attestantio/go-eth2-client/api/v1/capella"
	apiv1deneb "github.com/attestantio/go-eth2-client/api/v1/deneb"
	"github.com/attestantio/go-eth2-client/spec"
	"github.com/attestantio/go-eth2-client/spec/altair"
	"github.com/attestantio/go-eth2-client/spec/bellatrix"
	"github.com/attestantio/go-eth2-client/spec/capella"
	"github.com/attestantio/go-eth2-client/spec/deneb"
	"github.com/attestantio/go-eth2-client/spec/phase0"
	vouchmock "github.com/attestantio/vouch/mock"
	mockaccountmanager "github.com/attestantio/vouch/services/accountmanager/mock"
	mockattestationaggregator "github.com/attestantio/vouch/services/attestationaggregator/mock"
	"github.com/attestantio/vouch/services/attester"
	"github.com/attestantio/vouch/services/beaconblockproposer"
	standardproposer "github.com/attestantio/vouch/services/beaconblockproposer/standard"
	mockbeaconcommitteesubscriber "github.com/attestantio/vouch/services/beaconcommitteesubscriber/mock"
	"github.com/attestantio/vouch/services/blockrelay"
	"github.com/attestantio/vouch/services/cache"
	mockcache "github.com/attestantio/vouch/services/cache/mock"
	standardcache "github.com/attestantio/vouch/services/cache/standard"
	standardcontroller "github.com/attestantio/vouch/services/controller/standard"
	dynamicgraffiti "github.com/attestantio/vouch/services/graffitiprovider/dynamic"
	nullmetrics "github.com/attestantio/vouch/services/metrics/null"
	mockproposalpreparer "github.com/attestantio/vouch/services/proposalpreparer/mock"
	"github.com/attestantio/vouch/services/scheduler/advanced"
	bpbest "github.com/attestantio/vouch/strategies/beaconblockproposal/best"
	bidbest "github.com/attestantio/vouch/strategies/builderbid/best"
	biddeadline "github.com/attestantio/vouch/strategies/builderbid/deadline"
	"github.com/attestantio/vouch/util"
	"github.com/attestantio/vouch/verifmc/mc"
	"github.com/attestantio/vouch/verifmc/mcontext"
	"github.com/holiman/uint256"
	"github.com/prysmaticlabs/go-bitfield"
	"github.com/rs/zerolog"
	zerologger "github.com/rs/zerolog/log"
	e2types "github.com/wealdtech/go-eth2-types/v2"
	e2wtypes "github.com/wealdtech/go-eth2-wallet-types/v2"
	"github.com/wealdtech/go-majordomo"
)

// C16: no data from a beacon node, relay or configuration can crash Vouch.
//
// Every consumer of external data named in the property's anchor is driven through the entry point by
// which the data really arrives.  Inputs come from bounded grammars of JSON texts that are pushed
// through the client libraries' own decoders (and the post-decode checks of their HTTP clients, which
// are mirrored below), so only values the libraries can deliver reach Vouch.  Operator-supplied strings
// (execution configuration, graffiti, relay addresses) are enumerated directly.
//
// Oracle: no panic in any goroutine and the call returns.  Returned errors are never flagged.
// Finding key: the innermost Vouch frame of the panic, "C16/panic/<package>.<function>".

// ---- common: state, guarded call, panic site -----------------------------------------------------------

type c16State struct {
	fam      string
	input    string // the exact input, written out
	nontriv  bool   // the input has an absent / null / zero / unparsable element
	outcome  string
	started  bool
	returned bool
	pmsg     string
	pstack   string
}

// call runs f and records a panic (with stack) instead of letting it end the execution.
func (st *c16State) call(f func()) {
	st.started = true
	st.returned = false
	defer func() {
		if r := recover(); r != nil && st.pmsg == "" {
			st.pmsg = fmt.Sprint(r)
			st.pstack = string(debug.Stack())
			st.outcome = "panic"
		}
	}()
	f()
	st.returned = true
}

const c16VouchPath = "github.com/attestantio/vouch/"

// c16Site names the innermost Vouch frame of a panic stack as "<package>.<function>".
func c16Site(stack string) string {
	lines := strings.Split(stack, "\n")
	start := 0
	lib := false
	for i, l := range lines {
		if strings.HasPrefix(l, "panic(") {
			start = i + 1
			break
		}
	}
	for _, l := range lines[start:] {
		if l == "" || l[0] == '\t' || l[0] == ' ' || strings.HasPrefix(l, "goroutine ") {
			continue
		}
		if strings.HasPrefix(l, "verifharness/") && strings.Contains(l, "c16RelayClient).UnblindProposal") {
			// the stand-in panics where the client library does: the site is vouch's frame that called the library
			lib = true
			continue
		}
		if strings.HasPrefix(l, "verifharness/") {
			return "HARNESS." + c16Frame(l, "verifharness/")
		}
		if !strings.HasPrefix(l, c16VouchPath) || strings.HasPrefix(l, c16VouchPath+"verifmc/") {
			continue
		}
		if lib {
			return "client-library-called-from." + c16Frame(l, c16VouchPath)
		}
		return c16Frame(l, c16VouchPath)
	}
	return "unknown"
}

func c16Frame(l, prefix string) string {
	if i := strings.LastIndex(l, "("); i > 0 {
		l = l[:i]
	}
	l = strings.TrimPrefix(l, prefix)
	slash := strings.LastIndex(l, "/")
	dot := strings.Index(l[slash+1:], ".")
	if dot < 0 {
		return l
	}
	pkg, rest := l[:slash+1+dot], l[slash+1+dot+1:]
	pkg = strings.TrimPrefix(strings.TrimPrefix(pkg, "services/"), "strategies/")
	pkg = strings.ReplaceAll(pkg, "/", ".")
	var parts []string
	for _, p := range strings.Split(rest, ".") {
		if p == "" || strings.HasPrefix(p, "(") || strings.HasSuffix(p, "]") {
			continue
		}
		parts = append(parts, p)
	}
	isClosure := func(p string) bool {
		p = strings.TrimPrefix(strings.TrimPrefix(p, "func"), "gowrap")
		if p == "" {
			return false
		}
		for _, c := range p {
			if c < '0' || c > '9' {
				return false
			}
		}
		return true
	}
	for len(parts) > 1 && isClosure(parts[len(parts)-1]) {
		parts = parts[:len(parts)-1]
	}
	fn := "?"
	if len(parts) > 0 {
		fn = parts[len(parts)-1]
	}
	return pkg + "." + fn
}

func c16Verdict(st *c16State, r *mc.Result) mc.Verdict {
	v := mc.Verdict{Outcome: st.fam + ":" + st.outcome, Nontrivial: st.nontriv, Sample: st.fam + " " + st.input + " -> " + st.outcome}
	msg, stack := st.pmsg, st.pstack
	if msg == "" && r.Panic != "" {
		msg, stack = firstLine(r.Panic), r.Panic
	}
	if msg != "" {
		site := c16Site(stack)
		v.Violation = fmt.Sprintf("%s: input %s: panic: %s (in %s)", st.fam, st.input, msg, site)
		v.Key = "C16/panic/" + site
		v.Detail = stack
		return v
	}
	if st.started && !st.returned {
		v.Violation = fmt.Sprintf("%s: input %s: the call never returned", st.fam, st.input)
		v.Key = "C16/never-returned/" + st.fam
	}
	return v
}

func c16Unit(name string, horizon time.Duration, st *c16State, body func()) hx.Unit {
	fam := st.fam
	return hx.Unit{
		Name: name,
		Cfg:  mc.Config{Fixed: true, Horizon: int64(horizon)},
		Body: func() {
			*st = c16State{fam: fam, outcome: "not-run"}
			c16LogLevel = zerolog.GlobalLevel()
			body()
		},
		Check: func(r *mc.Result) mc.Verdict { return c16Verdict(st, r) },
	}
}

// c16LogLevel is the log level the services of the current execution are built with.
var c16LogLevel = zerolog.Disabled

// c16Traced runs the same unit with trace logging switched on (output discarded): Vouch then also formats
// the external data it logs (bids, proposals, auction results), which is code that runs in production
// whenever an operator raises the log level.
func c16Traced(u hx.Unit) hx.Unit {
	body := u.Body
	u.Name += "/trace-logging"
	u.Body = func() {
		oldLevel, oldLogger := zerolog.GlobalLevel(), zerologger.Logger
		zerolog.SetGlobalLevel(zerolog.TraceLevel)
		zerologger.Logger = zerolog.New(io.Discard)
		defer func() {
			zerolog.SetGlobalLevel(oldLevel)
			zerologger.Logger = oldLogger
		}()
		body()
	}
	return u
}

func c16WithTraced(units []hx.Unit) []hx.Unit {
	out := units
	for _, u := range units {
		out = append(out, c16Traced(u))
	}
	return out
}

// ---- JSON grammar helpers ---------------------------------------------------------------------------------

const c16Absent = "\x00absent"

// c16Mut replaces (or removes) the member at path of a JSON object text.
type c16Mut struct {
	path []string
	val  string
}

func (m c16Mut) String() string {
	if len(m.path) == 0 {
		return "unchanged"
	}
	v := m.val
	if v == c16Absent {
		v = "<absent>"
	}
	if len(v) > 70 {
		v = v[:30] + "…" + v[len(v)-30:]
	}
	return strings.Join(m.path, ".") + "=" + v
}

func c16Set(doc []byte, path []string, val string) []byte {
	var m map[string]json.RawMessage
	must(json.Unmarshal(doc, &m))
	if len(path) == 1 {
		if val == c16Absent {
			delete(m, path[0])
		} else {
			m[path[0]] = json.RawMessage(val)
		}
	} else {
		m[path[0]] = c16Set(m[path[0]], path[1:], val)
	}
	out, err := json.Marshal(m)
	must(err)
	return out
}

func c16Apply(doc string, m c16Mut) string {
	if len(m.path) == 0 {
		return doc
	}
	return string(c16Set([]byte(doc), m.path, m.val))
}

// c16Alts lists the unexpected values tried in place of a raw JSON value, by its kind.
func c16Alts(raw string) []string {
	alts := []string{c16Absent, "null"}
	switch {
	case strings.HasPrefix(raw, `"0x`):
		alts = append(alts, `""`, `"0x"`)
		if z := `"0x` + strings.Repeat("0", len(raw)-4) + `"`; z != raw {
			alts = append(alts, z)
		}
	case strings.HasPrefix(raw, `"`):
		alts = append(alts, `""`, `"0"`, `"18446744073709551615"`)
	case strings.HasPrefix(raw, "["):
		alts = append(alts, "[]", "[null]", "{}")
	case strings.HasPrefix(raw, "{"):
		alts = append(alts, "{}", "[]")
	case raw == "true":
		alts = append(alts, "false")
	case raw == "false":
		alts = append(alts, "true")
	default:
		alts = append(alts, `""`)
	}
	return alts
}

// c16Muts enumerates all single replacements of members of doc down to the given depth (objects only).
// The first entry is the unchanged document.
func c16Muts(doc string, depth int) []c16Mut {
	out := []c16Mut{{}}
	var walk func(raw []byte, path []string, d int)
	walk = func(raw []byte, path []string, d int) {
		var m map[string]json.RawMessage
		if json.Unmarshal(raw, &m) != nil || m == nil {
			return
		}
		keys := make([]string, 0, len(m))
		for k := range m {
			keys = append(keys, k)
		}
		sort.Strings(keys)
		for _, k := range keys {
			p := append(append([]string{}, path...), k)
			for _, a := range c16Alts(string(m[k])) {
				out = append(out, c16Mut{path: p, val: a})
			}
			if d > 1 && len(m[k]) > 0 && m[k][0] == '{' {
				walk(m[k], p, d-1)
			}
		}
	}
	walk([]byte(doc), nil, depth)
	return out
}

var c16MutCache = map[string][]c16Mut{}

func c16MutsCached(key, doc string, depth int) []c16Mut {
	if m, ok := c16MutCache[key]; ok {
		return m
	}
	m := c16Muts(doc, depth)
	c16MutCache[key] = m
	return m
}

func c16JSON(x any) string {
	b, err := json.Marshal(x)
	must(err)
	return string(b)
}

// ---- mirrors of the client libraries' response decoding ---------------------------------------------------

// c16DecodeData is go-eth2-client http.decodeJSONResponse (and the identical function of go-builder-client):
// the "data" member, when present, is unmarshalled into a fresh value of the expected type with the
// library's own UnmarshalJSON; when it is absent the fresh (zero) value is returned; "null" yields nil.
func c16DecodeData[T any](body string, fresh T) (T, error) {
	decoded := make(map[string]json.RawMessage)
	if err := json.Unmarshal([]byte(body), &decoded); err != nil {
		return fresh, errors.Join(errors.New("failed to parse JSON"), err)
	}
	data := fresh
	for k, v := range decoded {
		switch k {
		case "data":
			if err := json.Unmarshal(v, &data); err != nil {
				return fresh, errors.Join(errors.New("failed to unmarshal data"), err)
			}
		case "dependent_root":
			var val phase0.Root
			if err := json.Unmarshal(v, &val); err != nil {
				return fresh, err
			}
		}
	}
	return data, nil
}

// c16Version is http.populateConsensusVersion for a JSON body without an Eth-Consensus-Version header.
func c16Version(body string) (spec.DataVersion, error) {
	var md struct {
		Version spec.DataVersion `json:"version"`
	}
	if err := json.Unmarshal([]byte(body), &md); err != nil {
		return spec.DataVersionUnknown, errors.Join(errors.New("no consensus version header and failed to parse response"), err)
	}
	return md.Version, nil
}

// c16DecodeProposal mirrors go-eth2-client v0.21.11 http.(*Service).Proposal for a JSON response: headers,
// per-version decoding, and the slot and RANDAO consistency checks that follow it.
func c16DecodeProposal(body string, hdr map[string]string, opts *api.ProposalOpts) (*api.Response[*api.VersionedProposal], error) {
	ver, err := c16Version(body)
	if err != nil {
		return nil, err
	}
	resp := &api.Response[*api.VersionedProposal]{Data: &api.VersionedProposal{Version: ver, ConsensusValue: big.NewInt(0), ExecutionValue: big.NewInt(0)}, Metadata: map[string]any{}}
	keys := make([]string, 0, len(hdr))
	for k := range hdr {
		keys = append(keys, k)
	}
	sort.Strings(keys)
	for _, k := range keys {
		v := hdr[k]
		switch {
		case strings.EqualFold(k, "Eth-Execution-Payload-Blinded"):
			resp.Data.Blinded = strings.EqualFold(v, "true")
		case strings.EqualFold(k, "Eth-Execution-Payload-Value"):
			var ok bool
			if resp.Data.ExecutionValue, ok = new(big.Int).SetString(v, 10); !ok {
				return nil, fmt.Errorf("proposal header Eth-Execution-Payload-Value %s not a valid integer", v)
			}
		case strings.EqualFold(k, "Eth-Consensus-Block-Value"):
			var ok bool
			if resp.Data.ConsensusValue, ok = new(big.Int).SetString(v, 10); !ok {
				return nil, fmt.Errorf("proposal header Eth-Consensus-Block-Value %s not a valid integer", v)
			}
		}
	}
	switch ver {
	case spec.DataVersionPhase0:
		resp.Data.Phase0, err = c16DecodeData(body, &phase0.BeaconBlock{})
	case spec.DataVersionAltair:
		resp.Data.Altair, err = c16DecodeData(body, &altair.BeaconBlock{})
	case spec.DataVersionBellatrix:
		if resp.Data.Blinded {
			resp.Data.BellatrixBlinded, err = c16DecodeData(body, &apiv1bellatrix.BlindedBeaconBlock{})
		} else {
			resp.Data.Bellatrix, err = c16DecodeData(body, &bellatrix.BeaconBlock{})
		}
	case spec.DataVersionCapella:
		if resp.Data.Blinded {
			resp.Data.CapellaBlinded, err = c16DecodeData(body, &apiv1capella.BlindedBeaconBlock{})
		} else {
			resp.Data.Capella, err = c16DecodeData(body, &capella.BeaconBlock{})
		}
	case spec.DataVersionDeneb:
		if resp.Data.Blinded {
			resp.Data.DenebBlinded, err = c16DecodeData(body, &apiv1deneb.BlindedBeaconBlock{})
		} else {
			resp.Data.Deneb, err = c16DecodeData(body, &apiv1deneb.BlockContents{})
		}
	default:
		err = fmt.Errorf("unsupported version %s", ver)
	}
	if err != nil {
		return nil, err
	}
	slot, err := resp.Data.Slot()
	if err != nil {
		return nil, err
	}
	if slot != opts.Slot {
		return nil, fmt.Errorf("beacon block proposal for slot %d; expected %d", slot, opts.Slot)
	}
	rr, err := resp.Data.RandaoReveal()
	if err != nil {
		return nil, err
	}
	if !bytes.Equal(rr[:], opts.RandaoReveal[:]) {
		return nil, errors.New("beacon block proposal has unexpected RANDAO reveal")
	}
	return resp, nil
}

// c16DecodeSignedBlock mirrors http.(*Service).SignedBeaconBlock for a JSON response (no post-decode checks).
func c16DecodeSignedBlock(body string) (*api.Response[*spec.VersionedSignedBeaconBlock], error) {
	ver, err := c16Version(body)
	if err != nil {
		return nil, err
	}
	resp := &api.Response[*spec.VersionedSignedBeaconBlock]{Data: &spec.VersionedSignedBeaconBlock{Version: ver}, Metadata: map[string]any{}}
	switch ver {
	case spec.DataVersionPhase0:
		resp.Data.Phase0, err = c16DecodeData(body, &phase0.SignedBeaconBlock{})
	case spec.DataVersionAltair:
		resp.Data.Altair, err = c16DecodeData(body, &altair.SignedBeaconBlock{})
	case spec.DataVersionBellatrix:
		resp.Data.Bellatrix, err = c16DecodeData(body, &bellatrix.SignedBeaconBlock{})
	case spec.DataVersionCapella:
		resp.Data.Capella, err = c16DecodeData(body, &capella.SignedBeaconBlock{})
	case spec.DataVersionDeneb:
		resp.Data.Deneb, err = c16DecodeData(body, &deneb.SignedBeaconBlock{})
	default:
		return nil, fmt.Errorf("unhandled version %s", ver)
	}
	if err != nil {
		return nil, err
	}
	return resp, nil
}

// c16DecodeBid mirrors go-builder-client v0.5.1 http.(*Service).BuilderBid: "204" is the no-content answer;
// otherwise per-version decoding followed by the parent hash check.
func c16DecodeBid(body string, opts *builderapi.BuilderBidOpts) (*builderapi.Response[*builderspec.VersionedSignedBuilderBid], error) {
	if body == "204" {
		return &builderapi.Response[*builderspec.VersionedSignedBuilderBid]{Data: nil, Metadata: map[string]any{}}, nil
	}
	ver, err := c16Version(body)
	if err != nil {
		return nil, err
	}
	resp := &builderapi.Response[*builderspec.VersionedSignedBuilderBid]{Data: &builderspec.VersionedSignedBuilderBid{Version: ver}, Metadata: map[string]any{}}
	switch ver {
	case spec.DataVersionBellatrix:
		resp.Data.Bellatrix, err = c16DecodeData(body, &builderbellatrix.SignedBuilderBid{})
	case spec.DataVersionCapella:
		resp.Data.Capella, err = c16DecodeData(body, &buildercapella.SignedBuilderBid{})
	case spec.DataVersionDeneb:
		resp.Data.Deneb, err = c16DecodeData(body, &builderdeneb.SignedBuilderBid{})
	default:
		return nil, fmt.Errorf("unsupported block version %s", ver)
	}
	if err != nil {
		return nil, err
	}
	ph, err := resp.Data.ParentHash()
	if err != nil {
		return nil, errors.Join(errors.New("could not obtain parent hash of bid"), err)
	}
	if !bytes.Equal(ph[:], opts.ParentHash[:]) {
		return nil, errors.New("parent hash mismatch")
	}
	return resp, nil
}

// ---- fully populated base documents -----------------------------------------------------------------------

const c16Slot = phase0.Slot(100)

var (
	c16Versions   = []string{"phase0", "altair", "bellatrix", "capella", "deneb"}
	c16Randao     = phase0.BLSSignature{0xaa, 0x01}
	c16Fee        = bellatrix.ExecutionAddress{0x11, 0x22}
	c16ParentHash = phase0.Hash32{0x09}
)

func c16Att() *phase0.Attestation { return c16AttBits(8) }

func c16AttBits(n uint64) *phase0.Attestation {
	bits := bitfield.NewBitlist(n)
	if n > 1 {
		bits.SetBitAt(1, true)
		bits.SetBitAt(n-1, true)
	}
	return &phase0.Attestation{AggregationBits: bits, Data: &phase0.AttestationData{Slot: c16Slot - 1, Index: 1, Source: &phase0.Checkpoint{Epoch: 2}, Target: &phase0.Checkpoint{Epoch: 3}}}
}

// c16Atts: the attestations of a block: three for the same slot and committee whose aggregation bits have
// different lengths (empty, one byte, two bytes) — well-formed JSON, whatever a consensus client thinks of it.
func c16Atts() []*phase0.Attestation {
	return []*phase0.Attestation{c16AttBits(0), c16AttBits(8), c16AttBits(16)}
}

func c16SyncAgg() *altair.SyncAggregate {
	return &altair.SyncAggregate{SyncCommitteeBits: bitfield.NewBitvector512()}
}

func c16Payload(v string) any {
	switch v {
	case "bellatrix":
		return &bellatrix.ExecutionPayload{ParentHash: c16ParentHash, FeeRecipient: c16Fee, StateRoot: [32]byte{1}, BlockNumber: 7, BlockHash: phase0.Hash32{9}, Timestamp: 1, ExtraData: []byte{}, Transactions: []bellatrix.Transaction{{1, 2}}}
	case "capella":
		return &capella.ExecutionPayload{ParentHash: c16ParentHash, FeeRecipient: c16Fee, StateRoot: [32]byte{1}, BlockNumber: 7, BlockHash: phase0.Hash32{9}, Timestamp: 1, ExtraData: []byte{}, Transactions: []bellatrix.Transaction{{1, 2}}, Withdrawals: []*capella.Withdrawal{{Index: 1}}}
	default:
		return &deneb.ExecutionPayload{ParentHash: c16ParentHash, FeeRecipient: c16Fee, StateRoot: phase0.Root{1}, BlockNumber: 7, BlockHash: phase0.Hash32{9}, Timestamp: 1, ExtraData: []byte{}, BaseFeePerGas: uint256.NewInt(7), Transactions: []bellatrix.Transaction{{1, 2}}, Withdrawals: []*capella.Withdrawal{{Index: 1}}}
	}
}

func c16Header(v string, ts uint64) any {
	switch v {
	case "bellatrix":
		return &bellatrix.ExecutionPayloadHeader{ParentHash: c16ParentHash, FeeRecipient: c16Fee, StateRoot: [32]byte{1}, BlockNumber: 7, BlockHash: phase0.Hash32{9}, Timestamp: ts, ExtraData: []byte{}}
	case "capella":
		return &capella.ExecutionPayloadHeader{ParentHash: c16ParentHash, FeeRecipient: c16Fee, StateRoot: [32]byte{1}, BlockNumber: 7, BlockHash: phase0.Hash32{9}, Timestamp: ts, ExtraData: []byte{}}
	default:
		return &deneb.ExecutionPayloadHeader{ParentHash: c16ParentHash, FeeRecipient: c16Fee, StateRoot: phase0.Root{1}, BlockNumber: 7, BlockHash: phase0.Hash32{9}, Timestamp: ts, ExtraData: []byte{}, BaseFeePerGas: uint256.NewInt(7)}
	}
}

// c16Block returns a fully populated unsigned block of the given version (blinded where the version has one).
func c16Block(v string, blinded bool) any {
	eth1 := &phase0.ETH1Data{BlockHash: make([]byte, 32)}
	atts := c16Atts()
	ps, as, ds, ve := []*phase0.ProposerSlashing{}, []*phase0.AttesterSlashing{}, []*phase0.Deposit{}, []*phase0.SignedVoluntaryExit{}
	bc := []*capella.SignedBLSToExecutionChange{}
	p, s := phase0.Root{1}, phase0.Root{2}
	switch v {
	case "phase0":
		return &phase0.BeaconBlock{Slot: c16Slot, ProposerIndex: 1, ParentRoot: p, StateRoot: s, Body: &phase0.BeaconBlockBody{RANDAOReveal: c16Randao, ETH1Data: eth1, ProposerSlashings: ps, AttesterSlashings: as, Attestations: atts, Deposits: ds, VoluntaryExits: ve}}
	case "altair":
		return &altair.BeaconBlock{Slot: c16Slot, ProposerIndex: 1, ParentRoot: p, StateRoot: s, Body: &altair.BeaconBlockBody{RANDAOReveal: c16Randao, ETH1Data: eth1, ProposerSlashings: ps, AttesterSlashings: as, Attestations: atts, Deposits: ds, VoluntaryExits: ve, SyncAggregate: c16SyncAgg()}}
	case "bellatrix":
		if blinded {
			return &apiv1bellatrix.BlindedBeaconBlock{Slot: c16Slot, ProposerIndex: 1, ParentRoot: p, StateRoot: s, Body: &apiv1bellatrix.BlindedBeaconBlockBody{RANDAOReveal: c16Randao, ETH1Data: eth1, ProposerSlashings: ps, AttesterSlashings: as, Attestations: atts, Deposits: ds, VoluntaryExits: ve, SyncAggregate: c16SyncAgg(), ExecutionPayloadHeader: c16Header(v, 1).(*bellatrix.ExecutionPayloadHeader)}}
		}
		return &bellatrix.BeaconBlock{Slot: c16Slot, ProposerIndex: 1, ParentRoot: p, StateRoot: s, Body: &bellatrix.BeaconBlockBody{RANDAOReveal: c16Randao, ETH1Data: eth1, ProposerSlashings: ps, AttesterSlashings: as, Attestations: atts, Deposits: ds, VoluntaryExits: ve, SyncAggregate: c16SyncAgg(), ExecutionPayload: c16Payload(v).(*bellatrix.ExecutionPayload)}}
	case "capella":
		if blinded {
			return &apiv1capella.BlindedBeaconBlock{Slot: c16Slot, ProposerIndex: 1, ParentRoot: p, StateRoot: s, Body: &apiv1capella.BlindedBeaconBlockBody{RANDAOReveal: c16Randao, ETH1Data: eth1, ProposerSlashings: ps, AttesterSlashings: as, Attestations: atts, Deposits: ds, VoluntaryExits: ve, SyncAggregate: c16SyncAgg(), ExecutionPayloadHeader: c16Header(v, 1).(*capella.ExecutionPayloadHeader), BLSToExecutionChanges: bc}}
		}
		return &capella.BeaconBlock{Slot: c16Slot, ProposerIndex: 1, ParentRoot: p, StateRoot: s, Body: &capella.BeaconBlockBody{RANDAOReveal: c16Randao, ETH1Data: eth1, ProposerSlashings: ps, AttesterSlashings: as, Attestations: atts, Deposits: ds, VoluntaryExits: ve, SyncAggregate: c16SyncAgg(), ExecutionPayload: c16Payload(v).(*capella.ExecutionPayload), BLSToExecutionChanges: bc}}
	default:
		if blinded {
			return &apiv1deneb.BlindedBeaconBlock{Slot: c16Slot, ProposerIndex: 1, ParentRoot: p, StateRoot: s, Body: &apiv1deneb.BlindedBeaconBlockBody{RANDAOReveal: c16Randao, ETH1Data: eth1, ProposerSlashings: ps, AttesterSlashings: as, Attestations: atts, Deposits: ds, VoluntaryExits: ve, SyncAggregate: c16SyncAgg(), ExecutionPayloadHeader: c16Header(v, 1).(*deneb.ExecutionPayloadHeader), BLSToExecutionChanges: bc, BlobKZGCommitments: []deneb.KZGCommitment{}}}
		}
		return &deneb.BeaconBlock{Slot: c16Slot, ProposerIndex: 1, ParentRoot: p, StateRoot: s, Body: &deneb.BeaconBlockBody{RANDAOReveal: c16Randao, ETH1Data: eth1, ProposerSlashings: ps, AttesterSlashings: as, Attestations: atts, Deposits: ds, VoluntaryExits: ve, SyncAggregate: c16SyncAgg(), ExecutionPayload: c16Payload(v).(*deneb.ExecutionPayload), BLSToExecutionChanges: bc, BlobKZGCommitments: []deneb.KZGCommitment{}}}
	}
}

var c16DocCache = map[string]string{}

// c16ProposalData is the "data" member of a block-production response of the given shape.
func c16ProposalData(v string, blinded bool) string {
	key := fmt.Sprintf("proposal/%s/%v", v, blinded)
	if d, ok := c16DocCache[key]; ok {
		return d
	}
	var d string
	if v == "deneb" && !blinded {
		d = c16JSON(&apiv1deneb.BlockContents{Block: c16Block(v, false).(*deneb.BeaconBlock), KZGProofs: []deneb.KZGProof{}, Blobs: []deneb.Blob{}})
	} else {
		d = c16JSON(c16Block(v, blinded))
	}
	c16DocCache[key] = d
	return d
}

// c16SignedBlockData is the "data" member of a signed-block response.
func c16SignedBlockData(v string) string {
	key := "signed/" + v
	if d, ok := c16DocCache[key]; ok {
		return d
	}
	d := `{"message":` + c16JSON(c16Block(v, false)) + `,"signature":"0x` + strings.Repeat("ab", 96) + `"}`
	c16DocCache[key] = d
	return d
}

func c16Envelope(version, data string) string {
	return `{"version":"` + version + `","data":` + data + `}`
}

// ---- family: execution configuration ---------------------------------------------------------------------

// c16Node is a position of a configuration document: its base value (a raw fragment or an object/array of
// kids) and the alternatives tried in its place.
type c16Node struct {
	key  string
	base string
	kids []*c16Node
	arr  bool
	alts []string
	path string
	up   *c16Node
}

func c16Leaf(key, base string, alts ...string) *c16Node {
	return &c16Node{key: key, base: base, alts: alts}
}

func c16Obj(key string, alts []string, kids ...*c16Node) *c16Node {
	if kids == nil {
		kids = []*c16Node{}
	}
	return &c16Node{key: key, kids: kids, alts: alts}
}

func c16Arr(key string, alts []string, kids ...*c16Node) *c16Node {
	return &c16Node{key: key, kids: kids, alts: alts, arr: true}
}

func (n *c16Node) render(sel map[*c16Node]int) (string, bool) {
	if i := sel[n]; i > 0 {
		a := n.alts[i-1]
		return a, a != c16Absent
	}
	if n.kids == nil {
		return n.base, n.base != c16Absent
	}
	var sb strings.Builder
	open, cl := "{", "}"
	if n.arr {
		open, cl = "[", "]"
	}
	sb.WriteString(open)
	first := true
	for _, k := range n.kids {
		v, ok := k.render(sel)
		if !ok {
			continue
		}
		if !first {
			sb.WriteString(",")
		}
		first = false
		if !n.arr {
			sb.WriteString(c16JSON(k.key) + ":")
		}
		sb.WriteString(v)
	}
	sb.WriteString(cl)
	return sb.String(), true
}

func (n *c16Node) positions(prefix string, up *c16Node, out *[]*c16Node) {
	n.up = up
	n.path = prefix
	if len(n.alts) > 0 {
		*out = append(*out, n)
	}
	for i, k := range n.kids {
		p := prefix + "." + k.key
		if n.arr {
			p = fmt.Sprintf("%s[%d]", prefix, i)
		}
		k.positions(p, n, out)
	}
}

func (n *c16Node) under(a *c16Node) bool {
	for x := n.up; x != nil; x = x.up {
		if x == a {
			return true
		}
	}
	return false
}

const (
	c16Relay1   = "https://relay1.example.com/"
	c16Relay2   = "relay.example"
	c16Relay3   = "https://relay3.example.com/"
	c16FeeText  = `"0x1122000000000000000000000000000000000000"`
	c16FeeText2 = `"0x3344000000000000000000000000000000000000"`
)

func c16ScalarAlts(extra ...string) []string {
	return append([]string{c16Absent, "null", `""`, "7", "{}"}, extra...)
}

func c16V2Tree(v1pub, v2pub, relaypub string) *c16Node {
	relayFields := func(disabled bool) []*c16Node {
		var f []*c16Node
		if disabled {
			f = append(f, c16Leaf("disabled", "false", c16Absent, "null", `""`, "true", "7"))
		}
		return append(f,
			c16Leaf("public_key", `"`+relaypub+`"`, c16ScalarAlts(`"0x00"`, `"zz"`)...),
			c16Leaf("fee_recipient", c16FeeText2, c16ScalarAlts(`"0x1234"`, `"zz"`)...),
			c16Leaf("gas_limit", `"25000000"`, c16ScalarAlts(`"-1"`, `"x"`)...),
			c16Leaf("grace", `"50"`, c16ScalarAlts(`"-5"`, `"x"`)...),
			c16Leaf("min_value", `"0.2"`, c16ScalarAlts(`"-1"`, `"x"`)...),
		)
	}
	entryAlts := []string{"null", `""`, "7", "{}", "[]"}
	return c16Obj("", nil,
		c16Leaf("version", "2", c16Absent, "null", `""`, `"2"`, "3", "0"),
		c16Leaf("fee_recipient", c16FeeText, c16ScalarAlts(`"0x1234"`, `"zz"`)...),
		c16Leaf("gas_limit", `"30000000"`, c16ScalarAlts(`"-1"`, `"x"`)...),
		c16Leaf("grace", `"100"`, c16ScalarAlts(`"-5"`, `"x"`)...),
		c16Leaf("min_value", `"0.1"`, c16ScalarAlts(`"-1"`, `"x"`)...),
		c16Obj("relays", []string{c16Absent, "null", `""`, "7", "{}", "[]"},
			c16Obj(c16Relay1, entryAlts, relayFields(false)...),
			c16Obj(c16Relay2, []string{c16Absent, "null"}),
			c16Obj("", []string{c16Absent, "null"}),
			c16Obj("%zz", []string{c16Absent, "null"}),
		),
		c16Arr("proposers", []string{c16Absent, "null", `""`, "7", "{}", "[]", "[null]"},
			c16Obj("", []string{c16Absent, "null", `""`, "7", "{}", "[]"},
				c16Leaf("proposer", `"^W/v1$"`, c16Absent, "null", `""`, "7", `"`+v1pub+`"`, `"("`, `"0x00"`, `"0x`+strings.Repeat("00", 48)+`"`, `".*"`),
				c16Leaf("fee_recipient", c16FeeText2, c16ScalarAlts(`"0x1234"`)...),
				c16Leaf("gas_limit", `"20000000"`, c16ScalarAlts(`"x"`)...),
				c16Leaf("grace", `"10"`, c16ScalarAlts(`"-5"`)...),
				c16Leaf("min_value", `"0.3"`, c16ScalarAlts(`"-1"`)...),
				c16Leaf("reset_relays", "false", c16Absent, "null", `""`, "true", "7"),
				c16Obj("relays", []string{c16Absent, "null", `""`, "7", "{}", "[]"},
					c16Obj(c16Relay1, append([]string{`{"disabled":true}`}, entryAlts...), relayFields(true)...),
					c16Obj(c16Relay3, append([]string{c16Absent}, entryAlts...), relayFields(true)...),
					c16Obj("http://[::1", []string{c16Absent, "null"}),
				),
			),
			c16Obj("", []string{c16Absent, "null", "{}"},
				c16Leaf("proposer", `"`+v2pub+`"`, c16Absent, "null", `"W/.*"`),
				c16Leaf("fee_recipient", c16FeeText, c16Absent, "null"),
				c16Obj("relays", []string{c16Absent, "null"},
					c16Obj(c16Relay2, []string{"null", "{}"}, c16Leaf("disabled", "true", "false")),
				),
			),
		),
	)
}

func c16V1Tree(v1pub string) *c16Node {
	pc := func(key string, alts []string) *c16Node {
		return c16Obj(key, alts,
			c16Leaf("fee_recipient", c16FeeText, c16ScalarAlts(`"0x1234"`, `"zz"`)...),
			c16Leaf("gas_limit", `"30000000"`, c16ScalarAlts(`"-1"`, `"x"`, `"0"`)...),
			c16Obj("builder", []string{c16Absent, "null", `""`, "7", "{}", "[]"},
				c16Leaf("enabled", "true", c16Absent, "null", `""`, "false", "7"),
				c16Leaf("grace", `"100"`, c16ScalarAlts(`"-5"`, `"x"`)...),
				c16Arr("relays", []string{c16Absent, "null", `""`, "7", "[]", "[null]", `[""]`, "[7]", "{}"},
					c16Leaf("", `"`+c16Relay1+`"`, "null", `""`, `"%zz"`, `"http://[::1"`, "7"),
					c16Leaf("", `"`+c16Relay2+`"`, c16Absent),
				),
			),
		)
	}
	return c16Obj("", nil,
		c16Leaf("version", "0", c16Absent, "null", `""`, "1"),
		c16Obj("proposer_config", []string{c16Absent, "null", `""`, "7", "{}", "[]"},
			pc(v1pub, []string{c16Absent, "null", `""`, "7", "{}"}),
			c16Leaf("0x00", c16Absent, "null", `{"fee_recipient":`+c16FeeText+`}`),
			c16Leaf("zz", c16Absent, "null", `{"fee_recipient":`+c16FeeText+`}`),
			c16Leaf("0x"+strings.Repeat("00", 48), c16Absent, "null", `{"fee_recipient":`+c16FeeText+`}`),
		),
		pc("default_config", []string{c16Absent, "null", `""`, "7", "{}", "[]"}),
	)
}

// c16ConfigRun decodes one document with blockrelay.UnmarshalJSON and, when it decodes, resolves the proposer
// settings of two validators, as the block relay service does for every registration round and auction.
func c16ConfigRun(st *c16State, doc string, accts []*hAccount) []*beaconblockproposer.ProposerConfig {
	var out []*beaconblockproposer.ProposerConfig
	st.call(func() {
		cfg, err := blockrelay.UnmarshalJSON([]byte(doc))
		if err != nil || cfg == nil {
			st.outcome = "rejected"
			return
		}
		res := ""
		for _, a := range accts {
			pc, err := cfg.ProposerConfig(context.Background(), a, a.pubkey(), bellatrix.ExecutionAddress{0xff}, 30000000)
			switch {
			case err != nil:
				res += "E"
			case pc == nil:
				res += "N"
			default:
				res += "C"
				out = append(out, pc)
			}
		}
		st.outcome = "decoded/" + res
	})
	return out
}

var c16TopLevelDocs = []string{`null`, ``, ` `, `[]`, `[null]`, `0`, `""`, `true`, `{}`, `{"version":null}`, `{"version":0}`, `{"version":1}`, `{"version":2}`, `{"version":3}`, `{"version":"2"}`,
	`{"version":2,"relays":null}`, `{"version":2,"proposers":null}`, `{"default_config":null}`, `{"proposer_config":null}`, `{"version":1,"default_config":null,"proposer_config":null}`}

func c16ConfigUnits(tier string) []hx.Unit {
	v1, v2 := newAccount("W", "v1", 1), newAccount("W", "v2", 2)
	relaypub := "0x" + strings.Repeat("a1", 48)
	var units []hx.Unit
	for _, fmtName := range []string{"v2", "v1"} {
		var tree *c16Node
		if fmtName == "v2" {
			tree = c16V2Tree(v1.pubkey().String(), v2.pubkey().String(), relaypub)
		} else {
			tree = c16V1Tree(v1.pubkey().String())
		}
		var pos []*c16Node
		tree.positions("$", nil, &pos)
		if fmtName == "v2" {
			// documents that are not a configuration object at all, or carry only a version
			st := &c16State{fam: "config/toplevel"}
			units = append(units, c16Unit("C16/config/toplevel", time.Second, st, func() {
				doc := c16TopLevelDocs[mc.Choose(len(c16TopLevelDocs))]
				st.input = "document " + doc
				st.nontriv = true
				c16ConfigRun(st, doc, []*hAccount{v1, v2})
			}))
		}
		{
			tree := tree
			st := &c16State{fam: "config/" + fmtName}
			units = append(units, c16Unit("C16/config/"+fmtName+"/base", time.Second, st, func() {
				doc, _ := tree.render(nil)
				st.input = "document " + doc
				c16ConfigRun(st, doc, []*hAccount{v1, v2})
			}))
		}
		for i := range pos {
			i := i
			st := &c16State{fam: "config/" + fmtName}
			units = append(units, c16Unit(fmt.Sprintf("C16/config/%s/%02d%s", fmtName, i, pos[i].path), time.Second, st, func() {
				sel := map[*c16Node]int{}
				var desc []string
				pick := func(p *c16Node, a int) {
					sel[p] = a
					if a > 0 {
						v := p.alts[a-1]
						if v == c16Absent {
							v = "<absent>"
						}
						desc = append(desc, p.path+"="+v)
					}
				}
				pick(pos[i], 1+mc.Choose(len(pos[i].alts)))
				depth := 2
				if tier == "thorough" {
					depth = 3
				}
				last := i
				for d := 1; d < depth; d++ {
					rest := len(pos) - last - 1
					if rest <= 0 {
						break
					}
					j := mc.Choose(rest+1) - 1
					if j < 0 {
						break
					}
					last = last + 1 + j
					pick(pos[last], 1+mc.Choose(len(pos[last].alts)))
				}
				doc, _ := tree.render(sel)
				st.input = "document " + doc
				if len(desc) > 0 {
					st.input = "[" + strings.Join(desc, "; ") + "] " + st.input
				}
				st.nontriv = len(desc) > 0
				c16ConfigRun(st, doc, []*hAccount{v1, v2})
			}))
		}
	}
	return units
}

// ---- family: builder bids through the auction strategies ------------------------------------------------

// c16RelayClient is a relay stand-in at the go-builder-client interface; its answers are produced by the
// mirrored decoder from JSON texts.
type c16RelayClient struct {
	addr    string
	pub     *phase0.BLSPubKey
	bidBody func() string // JSON body ("204" = no content, "error" = transport error)
	unblind string        // full, err400, err, nildata
	calls   int
}

func (r *c16RelayClient) Name() string              { return "standin" }
func (r *c16RelayClient) Address() string           { return r.addr }
func (r *c16RelayClient) Pubkey() *phase0.BLSPubKey { return r.pub }

func (r *c16RelayClient) BuilderBid(_ context.Context, opts *builderapi.BuilderBidOpts) (*builderapi.Response[*builderspec.VersionedSignedBuilderBid], error) {
	r.calls++
	body := r.bidBody()
	if body == "error" {
		return nil, errors.New("failed to request execution payload header: GET failed with status 500")
	}
	return c16DecodeBid(body, opts)
}

// UnblindProposal answers as go-builder-client http.(*Service).UnblindProposal can: an error, or a response
// whose data is the block rebuilt from the request and the relay's payload.  ("nildata" is kept as a
// regression input: it cannot come from that client, and the proposer handles it since 18d566e.)
func (r *c16RelayClient) UnblindProposal(_ context.Context, opts *builderapi.UnblindProposalOpts) (*builderapi.Response[*api.VersionedSignedProposal], error) {
	r.calls++
	if opts == nil || opts.Proposal == nil {
		return nil, errors.New("no proposal specified")
	}
	res := &api.VersionedSignedProposal{Version: opts.Proposal.Version}
	switch opts.Proposal.Version {
	case spec.DataVersionBellatrix:
		if opts.Proposal.Bellatrix == nil {
			return nil, errors.New("bellatrix proposal without payload")
		}
		res.Bellatrix = &bellatrix.SignedBeaconBlock{Message: c16Block("bellatrix", false).(*bellatrix.BeaconBlock), Signature: opts.Proposal.Bellatrix.Signature}
	case spec.DataVersionCapella:
		if opts.Proposal.Capella == nil {
			return nil, errors.New("capella proposal without payload")
		}
		res.Capella = &capella.SignedBeaconBlock{Message: c16Block("capella", false).(*capella.BeaconBlock), Signature: opts.Proposal.Capella.Signature}
	case spec.DataVersionDeneb:
		if opts.Proposal.Deneb == nil {
			return nil, errors.New("deneb proposal without payload")
		}
		res.Deneb = &apiv1deneb.SignedBlockContents{SignedBlock: &deneb.SignedBeaconBlock{Message: c16Block("deneb", false).(*deneb.BeaconBlock), Signature: opts.Proposal.Deneb.Signature}, KZGProofs: []deneb.KZGProof{}, Blobs: []deneb.Blob{}}
	default:
		return nil, fmt.Errorf("unhandled data version %v", opts.Proposal.Version)
	}
	switch r.unblind {
	case "err400":
		return nil, errors.New("failed to submit unblind proposal request: POST failed with status 400: {\"code\":400,\"message\":\"unknown payload\"}")
	case "err":
		return nil, errors.New("failed to submit unblind proposal request: POST failed with status 500")
	case "nildata":
		return &builderapi.Response[*api.VersionedSignedProposal]{Data: nil, Metadata: map[string]any{}}, nil
	case "nullpayload":
		// the relay answers 200 with {"version":...,"data":null}: go-builder-client v0.5.1 decodes that to a nil
		// payload (bundle) and dereferences it while checking the payload hash - the library panics in the goroutine
		// of its caller, which is vouch's
		var payload *bellatrix.ExecutionPayload
		_ = payload.BlockHash
	}
	return &builderapi.Response[*api.VersionedSignedProposal]{Data: res, Metadata: map[string]any{}}, nil
}

// c16BidOnly is a relay client that cannot unblind (the strategy must skip it).
type c16BidOnly struct{ *c16RelayClient }

func (c16BidOnly) UnblindProposal() {}

type c16Domain struct{}

func (c16Domain) GenesisDomain(_ context.Context, t phase0.DomainType) (phase0.Domain, error) {
	var d phase0.Domain
	copy(d[:], t[:])
	d[31] = 0x42
	return d, nil
}

func (c16Domain) Domain(_ context.Context, t phase0.DomainType, _ phase0.Epoch) (phase0.Domain, error) {
	return c16Domain{}.GenesisDomain(context.Background(), t)
}

var c16BidVersions = []string{"bellatrix", "capella", "deneb"}

// c16BidData is the "data" member of a relay's header response: a fully populated signed bid.
func c16BidData(v string, ts uint64) string {
	key := fmt.Sprintf("bid/%s/%d", v, ts)
	if d, ok := c16DocCache[key]; ok {
		return d
	}
	var pk phase0.BLSPubKey
	for i := range pk {
		pk[i] = 0xb1
	}
	sig := phase0.BLSSignature{0xc0}
	var x any
	switch v {
	case "bellatrix":
		x = &builderbellatrix.SignedBuilderBid{Message: &builderbellatrix.BuilderBid{Header: c16Header(v, ts).(*bellatrix.ExecutionPayloadHeader), Value: uint256.NewInt(1000), Pubkey: pk}, Signature: sig}
	case "capella":
		x = &buildercapella.SignedBuilderBid{Message: &buildercapella.BuilderBid{Header: c16Header(v, ts).(*capella.ExecutionPayloadHeader), Value: uint256.NewInt(1000), Pubkey: pk}, Signature: sig}
	default:
		x = &builderdeneb.SignedBuilderBid{Message: &builderdeneb.BuilderBid{Header: c16Header(v, ts).(*deneb.ExecutionPayloadHeader), BlobKZGCommitments: []deneb.KZGCommitment{}, Value: uint256.NewInt(1000), Pubkey: pk}, Signature: sig}
	}
	d := c16JSON(x)
	c16DocCache[key] = d
	return d
}

// The last two parse as URLs (or nearly) but are refused when the relay client is built; no stand-in is
// registered for them, so vouch's own client construction runs.
var c16RelayAddrs = []string{c16Relay1, c16Relay2, "", "%zz", "http://[::1", "https://0xnothexadecimal@relay3.example.com", "relay3.example.com:notaport"}

type c16BidStrategy interface {
	BuilderBid(ctx context.Context, slot phase0.Slot, parentHash phase0.Hash32, pubkey phase0.BLSPubKey, proposerConfig *beaconblockproposer.ProposerConfig, builderConfigs map[phase0.BLSPubKey]*blockrelay.BuilderConfig) (*blockauctioneer.Results, error)
}

// virtual time 0 is two seconds before the start of c16Slot
const c16GenesisOff = -int64(c16Slot)*int64(12*time.Second) + int64(2*time.Second)

func c16BidStrat(name string) c16BidStrategy {
	mon := &nullmetrics.Service{}
	ct := newChainTime(c16GenesisOff, 12*time.Second, 32)
	if name == "best" {
		s, err := bidbest.New(context.Background(), bidbest.WithLogLevel(c16LogLevel), bidbest.WithMonitor(mon), bidbest.WithSpecProvider(&specProvider{m: baseSpec(12*time.Second, 32)}),
			bidbest.WithDomainProvider(c16Domain{}), bidbest.WithChainTime(ct), bidbest.WithTimeout(2*time.Second), bidbest.WithReleaseVersion("test"))
		must(err)
		return s
	}
	s, err := biddeadline.New(context.Background(), biddeadline.WithLogLevel(c16LogLevel), biddeadline.WithMonitor(mon), biddeadline.WithSpecProvider(&specProvider{m: baseSpec(12*time.Second, 32)}),
		biddeadline.WithDomainProvider(c16Domain{}), biddeadline.WithChainTime(ct), biddeadline.WithDeadline(2*time.Second), biddeadline.WithBidGap(time.Second), biddeadline.WithReleaseVersion("test"))
	must(err)
	return s
}

func c16SlotStartUnix() uint64 {
	return uint64(mc.Base.Add(time.Duration(c16GenesisOff) + time.Duration(c16Slot)*12*time.Second).Unix())
}

func c16BidUnits(tier string) []hx.Unit {
	v1 := newAccount("W", "v1", 1)
	relaypub := "0x" + strings.Repeat("a1", 48)
	var units []hx.Unit
	for _, strat := range []string{"best", "deadline"} {
		for a1 := range c16RelayAddrs {
			for a2 := -1; a2 < len(c16RelayAddrs); a2++ {
				if a2 == a1 {
					continue
				}
				for _, ver := range c16BidVersions {
					strat, a1, a2, ver := strat, a1, a2, ver
					// the second relay only varies in the quick tier for one bid version
					if tier != "thorough" && a2 >= 0 && ver != "capella" {
						continue
					}
					st := &c16State{fam: "bid/" + strat}
					name := fmt.Sprintf("C16/bid/%s/%s/relay[%q", strat, ver, c16RelayAddrs[a1])
					if a2 >= 0 {
						name += fmt.Sprintf(",%q", c16RelayAddrs[a2])
					}
					name += "]"
					units = append(units, c16Unit(name, 30*time.Second, st, func() {
						must(e2types.InitBLS())
						util.VerifResetBuilderClients()
						defer util.VerifResetBuilderClients()
						ts := c16SlotStartUnix()
						base := c16Envelope(ver, c16BidData(ver, ts))
						muts := c16MutsCached("bid/"+ver, base, 4)
						envs := []string{"204", "error", `{"version":"` + ver + `","data":null}`, `{"version":"` + ver + `"}`, `{"data":` + c16BidData(ver, ts) + `}`, `{"version":"phase0","data":` + c16BidData(ver, ts) + `}`, `{`, ``}
						// relay configuration (operator supplied), decoded by the real configuration code
						pkIdx := mc.Choose(3) // relay public key: absent, configured, delivered by the client
						minIdx, bcIdx := 0, 0
						if tier == "thorough" {
							minIdx, bcIdx = mc.Choose(2), mc.Choose(3)
						} else {
							c := mc.Choose(3)
							minIdx, bcIdx = []int{0, 1, 0}[c], []int{0, 1, 2}[c]
						}
						relayCfg := func(a int) string {
							var f []string
							if pkIdx == 1 {
								f = append(f, `"public_key":"`+relaypub+`"`)
							}
							if minIdx == 1 {
								f = append(f, `"min_value":"0.000000000000002"`, `"grace":"500"`)
							}
							return c16JSON(c16RelayAddrs[a]) + ":{" + strings.Join(f, ",") + "}"
						}
						doc := `{"version":2,"relays":{` + relayCfg(a1)
						if a2 >= 0 {
							doc += "," + relayCfg(a2)
						}
						doc += `}}`
						// the bid of the first relay
						k := 0
						if a1 < 2 {
							k = mc.Choose(len(muts) + len(envs))
						}
						body, desc := "", ""
						if k < len(muts) {
							body, desc = c16Apply(base, muts[k]), "bid "+muts[k].String()
							st.nontriv = k > 0
						} else {
							body = envs[k-len(muts)]
							desc, st.nontriv = "response "+body, true
							if len(desc) > 90 {
								desc = desc[:90] + "…"
							}
						}
						var bcfg map[phase0.BLSPubKey]*blockrelay.BuilderConfig
						var bpk phase0.BLSPubKey
						for i := range bpk {
							bpk[i] = 0xb1
						}
						switch bcIdx {
						case 1:
							bcfg = map[phase0.BLSPubKey]*blockrelay.BuilderConfig{bpk: {Category: "priority"}}
						case 2:
							bcfg = map[phase0.BLSPubKey]*blockrelay.BuilderConfig{bpk: {Category: "excluded", Factor: big.NewInt(0), Offset: big.NewInt(-5)}}
						}
						var rp phase0.BLSPubKey
						for i := range rp {
							rp[i] = 0xa1
						}
						mkClient := func(a int, body string) {
							addr := c16RelayAddrs[a]
							c := &c16RelayClient{addr: addr, bidBody: func() string { return body }, unblind: "full"}
							if pkIdx == 2 {
								c.pub = &rp
							}
							// unparsable addresses never reach the client table; registering them is harmless
							if a < 5 {
								util.VerifSetBuilderClient(addr, c)
							}
						}
						mkClient(a1, body)
						if a2 >= 0 {
							mkClient(a2, base)
						}
						if a1 >= 2 || a2 >= 2 {
							st.nontriv = true
						}
						st.input = fmt.Sprintf("config %s; relay %q answers: %s; relay key %d; builder config %d", doc, c16RelayAddrs[a1], desc, pkIdx, bcIdx)
						pcs := c16ConfigRun(st, doc, []*hAccount{v1})
						if st.pmsg != "" || len(pcs) != 1 {
							return
						}
						s := c16BidStrat(strat)
						ctx, cancel := mcontext.WithTimeout(context.Background(), 20*time.Second)
						defer cancel()
						st.call(func() {
							// two auctions in a row, as for two proposals of one run of vouch: relay clients are kept
							// between them
							_, _ = s.BuilderBid(ctx, c16Slot, c16ParentHash, v1.pubkey(), pcs[0], bcfg)
							res, err := s.BuilderBid(ctx, c16Slot, c16ParentHash, v1.pubkey(), pcs[0], bcfg)
							switch {
							case err != nil:
								st.outcome = "error"
							case res == nil:
								st.outcome = "nil-results"
							case res.WinningParticipation != nil:
								st.outcome = fmt.Sprintf("winner/providers=%d/all=%d", len(res.Providers), len(res.AllProviders))
							default:
								st.outcome = fmt.Sprintf("no-winner/all=%d", len(res.AllProviders))
							}
						})
					}))
				}
			}
		}
	}
	return units
}

// ---- family: proposals through the block proposer --------------------------------------------------------

// c16BeaconNode is a beacon node stand-in at the go-eth2-client interface: block production and signed
// blocks answered by the mirrored decoders from JSON texts.
type c16BeaconNode struct {
	body   string
	hdr    map[string]string
	err    error
	blocks func(id string) (string, error) // signed block JSON by block id
	calls  int
	graff  [][32]byte
}

func (n *c16BeaconNode) Proposal(_ context.Context, opts *api.ProposalOpts) (resp *api.Response[*api.VersionedProposal], err error) {
	n.calls++
	n.graff = append(n.graff, opts.Graffiti)
	if n.err != nil {
		return nil, n.err
	}
	// A panic inside the client library's own decoding path means the value is never delivered to Vouch
	// (the library fails first); it is counted and reported as an error.
	defer func() {
		if r := recover(); r != nil {
			c16LibPanics++
			resp, err = nil, fmt.Errorf("client library panicked while decoding: %v", r)
		}
	}()
	return c16DecodeProposal(n.body, n.hdr, opts)
}

// c16LibPanics counts inputs on which the client library itself panics before delivering anything.
var c16LibPanics int

func (n *c16BeaconNode) SignedBeaconBlock(_ context.Context, opts *api.SignedBeaconBlockOpts) (*api.Response[*spec.VersionedSignedBeaconBlock], error) {
	n.calls++
	if n.blocks == nil {
		return nil, errors.New("GET failed with status 404")
	}
	body, err := n.blocks(opts.Block)
	if err != nil {
		return nil, err
	}
	return c16DecodeSignedBlock(body)
}

// c16NamedNode additionally reports a client name, as go-eth2-client http.(*Service).NodeClient does (any
// lower-cased version string the node sends, or an error).
type c16NamedNode struct {
	*c16BeaconNode
	client    string
	clientErr bool
}

func (n *c16NamedNode) NodeClient(_ context.Context) (*api.Response[string], error) {
	if n.clientErr {
		return nil, errors.New("failed to request node version")
	}
	return &api.Response[string]{Data: n.client, Metadata: map[string]any{}}, nil
}

type c16Signer struct{ fail bool }

func (s c16Signer) SignRANDAOReveal(_ context.Context, _ e2wtypes.Account, _ phase0.Slot) (phase0.BLSSignature, error) {
	return c16Randao, nil
}
func (s c16Signer) SignBeaconBlockProposal(_ context.Context, _ e2wtypes.Account, _ phase0.Slot, _ phase0.ValidatorIndex, _, _, _ phase0.Root) (phase0.BLSSignature, error) {
	if s.fail {
		return phase0.BLSSignature{}, errors.New("scripted signer failure")
	}
	return phase0.BLSSignature{0x51}, nil
}
func (s c16Signer) SignBlobSidecar(_ context.Context, _ e2wtypes.Account, _ phase0.Slot, _ phase0.Root) (phase0.BLSSignature, error) {
	return phase0.BLSSignature{0x52}, nil
}

type c16Submitter struct {
	got []*api.VersionedSignedProposal
}

func (s *c16Submitter) SubmitProposal(_ context.Context, p *api.VersionedSignedProposal) error {
	s.got = append(s.got, p)
	// what the HTTP client does first with a proposal: look at its slot and marshal it
	if p != nil {
		_, _ = p.Slot()
		_, _ = json.Marshal(p)
	}
	return nil
}

type c16ExecHead struct{}

func (c16ExecHead) ExecutionChainHead(_ context.Context) (phase0.Hash32, uint64) {
	return c16ParentHash, 7
}

type c16StaticGraffiti struct {
	b   []byte
	err error
}

func (g c16StaticGraffiti) Graffiti(_ context.Context, _ phase0.Slot, _ phase0.ValidatorIndex) ([]byte, error) {
	return g.b, g.err
}

// c16Auctioneer is the block relay service as the proposer sees it.
type c16Auctioneer struct {
	mode   string
	relays []*c16RelayClient
}

var c16AuctionModes = []string{"none", "error", "empty", "nowinner", "winner", "winner-bidonly"}

func (a *c16Auctioneer) AuctionBlock(_ context.Context, _ phase0.Slot, _ phase0.Hash32, _ phase0.BLSPubKey) (*blockauctioneer.Results, error) {
	res := &blockauctioneer.Results{Participation: map[string]*blockauctioneer.Participation{}, AllProviders: []builderclient.BuilderBidProvider{}, Providers: []builderclient.BuilderBidProvider{}}
	switch a.mode {
	case "error":
		return nil, errors.New("failed to obtain proposer configuration")
	case "empty":
	case "nowinner":
		for _, r := range a.relays {
			res.AllProviders = append(res.AllProviders, r)
		}
	case "winner":
		for _, r := range a.relays {
			res.AllProviders = append(res.AllProviders, r)
		}
		res.Providers = append(res.Providers, a.relays[0])
		res.WinningParticipation = &blockauctioneer.Participation{Category: "standard", Score: big.NewInt(1000)}
	case "winner-bidonly":
		// a provider that cannot unblind (a client type other than the HTTP one)
		res.AllProviders = append(res.AllProviders, c16BidOnly{a.relays[0]})
		res.Providers = append(res.Providers, c16BidOnly{a.relays[0]})
		res.WinningParticipation = &blockauctioneer.Participation{Category: "standard", Score: big.NewInt(1000)}
	}
	return res, nil
}

type c16ProposeEnv struct {
	node     eth2client.ProposalProvider
	auction  *c16Auctioneer // nil: no auctioneer configured
	graffiti interface {
		Graffiti(ctx context.Context, slot phase0.Slot, validatorIndex phase0.ValidatorIndex) ([]byte, error)
	}
	fromAll   bool
	signFail  bool
	submitter *c16Submitter
}

// c16Propose builds the real proposer service and runs Prepare and Propose for the duty at c16Slot.
func c16Propose(st *c16State, e *c16ProposeEnv) {
	e.submitter = &c16Submitter{}
	v1 := newAccount("W", "v1", 1)
	accts := &accountsTable{byIndex: map[phase0.ValidatorIndex]*hAccount{1: v1}}
	params := []standardproposer.Parameter{
		standardproposer.WithLogLevel(c16LogLevel),
		standardproposer.WithMonitor(&nullmetrics.Service{}),
		standardproposer.WithChainTime(newChainTime(c16GenesisOff, 12*time.Second, 32)),
		standardproposer.WithProposalDataProvider(e.node),
		standardproposer.WithValidatingAccountsProvider(accts),
		standardproposer.WithExecutionChainHeadProvider(c16ExecHead{}),
		standardproposer.WithProposalSubmitter(e.submitter),
		standardproposer.WithRANDAORevealSigner(c16Signer{}),
		standardproposer.WithBeaconBlockSigner(c16Signer{fail: e.signFail}),
		standardproposer.WithBlobSidecarSigner(c16Signer{}),
		standardproposer.WithUnblindFromAllRelays(e.fromAll),
		standardproposer.WithBuilderBoostFactor(100),
	}
	if e.auction != nil {
		params = append(params, standardproposer.WithBlockAuctioneer(e.auction))
	}
	if e.graffiti != nil {
		params = append(params, standardproposer.WithGraffitiProvider(e.graffiti))
	}
	svc, err := standardproposer.New(context.Background(), params...)
	must(err)
	// the duty's context ends with the slot
	ctx, cancel := mcontext.WithTimeout(context.Background(), 14*time.Second)
	defer cancel()
	lib := c16LibPanics
	defer func() {
		if c16LibPanics != lib {
			st.outcome += "/client-library-panicked-before-delivery"
		}
	}()
	st.call(func() {
		duty := beaconblockproposer.NewDuty(c16Slot, 1)
		if err := svc.Prepare(ctx, duty); err != nil {
			st.outcome = "prepare-error"
			return
		}
		svc.Propose(ctx, duty)
		st.outcome = fmt.Sprintf("submitted=%d", len(e.submitter.got))
	})
}

func c16ProposeUnits(tier string) []hx.Unit {
	var units []hx.Unit
	unblinds := []string{"full", "err400", "err", "nildata", "nullpayload"}
	for _, ver := range c16Versions {
		for _, blinded := range []bool{false, true} {
			for _, mode := range c16AuctionModes {
				if !blinded && mode != "none" && mode != "winner" {
					continue
				}
				ver, blinded, mode := ver, blinded, mode
				st := &c16State{fam: "propose"}
				units = append(units, c16Unit(fmt.Sprintf("C16/propose/%s/blinded=%v/auction=%s", ver, blinded, mode), 60*time.Second, st, func() {
					// the data member is that of the version's (blinded) block; versions without a blinded block
					// can still be announced as blinded by the response header
					data := c16ProposalData(ver, blinded && ver != "phase0" && ver != "altair")
					base := c16Envelope(ver, data)
					muts := c16MutsCached(fmt.Sprintf("proposal/%s/%v", ver, blinded), base, 4)
					envs := []string{`{"version":"` + ver + `","data":null}`, `{"version":"` + ver + `"}`, `{"data":` + data + `}`, `{"version":"fulu","data":` + data + `}`, `{`}
					if ver != "deneb" {
						// a block of this version announced as the next version, and vice versa
						envs = append(envs, `{"version":"deneb","data":`+data+`}`)
					} else {
						envs = append(envs, `{"version":"capella","data":`+data+`}`)
					}
					k := mc.Choose(len(muts) + len(envs))
					body, desc := "", ""
					if k < len(muts) {
						body, desc = c16Apply(base, muts[k]), "proposal "+muts[k].String()
						st.nontriv = k > 0
					} else {
						body = envs[k-len(muts)]
						desc, st.nontriv = "response "+body, true
						if len(desc) > 100 {
							desc = desc[:100] + "…"
						}
					}
					hdr := map[string]string{"Eth-Execution-Payload-Blinded": fmt.Sprint(blinded), "Eth-Execution-Payload-Value": "12", "Eth-Consensus-Block-Value": "34"}
					full := tier == "thorough" || k == 0 // the full product of the other dimensions only for the unchanged document in the quick tier
					h := 0
					if full {
						h = mc.Choose(3)
					}
					if h == 1 {
						hdr = map[string]string{"Eth-Execution-Payload-Blinded": fmt.Sprint(blinded)}
						desc += " (no value headers)"
						st.nontriv = true
					} else if h == 2 {
						hdr["Eth-Execution-Payload-Value"] = ""
						desc += " (empty value header)"
						st.nontriv = true
					}
					e := &c16ProposeEnv{node: &c16BeaconNode{body: body, hdr: hdr}}
					ub := "-"
					if mode != "none" {
						r1 := &c16RelayClient{addr: c16Relay1, unblind: "full"}
						r2 := &c16RelayClient{addr: c16Relay2, unblind: "err"}
						if blinded && (mode == "nowinner" || mode == "winner") {
							if full {
								r1.unblind = unblinds[mc.Choose(len(unblinds))]
								r2.unblind = []string{"err", "full", "nildata", "nullpayload"}[mc.Choose(4)]
								e.fromAll = mc.Choose(2) == 1
							} else if mc.Choose(2) == 1 {
								r1.unblind, r2.unblind, e.fromAll = "err400", "nildata", true
							}
							ub = fmt.Sprintf("%s,%s fromAll=%v", r1.unblind, r2.unblind, e.fromAll)
						}
						e.auction = &c16Auctioneer{mode: mode, relays: []*c16RelayClient{r1, r2}}
					}
					if blinded && (mode == "none" || mode == "error" || mode == "empty" || mode == "nowinner") {
						st.nontriv = true
					}
					if k == 0 {
						e.signFail = mc.Choose(2) == 1
					}
					st.input = fmt.Sprintf("%s, blinded header %v; auction %s; unblinding %s; signer fails %v", desc, blinded, mode, ub, e.signFail)
					c16Propose(st, e)
				}))
			}
		}
	}
	return units
}

// ---- family: graffiti (dynamic provider -> proposer -> best proposal strategy -> nodes) ------------------

type c16Majordomo struct {
	files map[string]string // url -> content; missing = not found; "\x00err" = other error
}

func (m *c16Majordomo) Fetch(_ context.Context, key string) ([]byte, error) {
	c, ok := m.files[key]
	if !ok {
		return nil, majordomo.ErrNotFound
	}
	if c == "\x00err" {
		return nil, errors.New("scripted fetch failure")
	}
	return []byte(c), nil
}

var c16GraffitiFiles = []string{
	"\x00missing", "\x00err", "", "\n\n", "short",
	"exactly-32-bytes-of-graffiti-text", // trimmed below to 32
	"this graffiti is quite a bit longer than thirty-two bytes",
	"{{CLIENT}}", "vouch {{CLIENT}}", "{{CLIENT}}{{CLIENT}}{{CLIENT}}", "0123456789012345678901{{CLIENT}}",
	"012345678901234567890123456{{CLIENT}}", "{{CLIENT}} {{SLOT}} {{VALIDATORINDEX}}", "a\nb\r\n\r\n{{CLIENT}}\n", "{{CLIENT", "\x00\x00{{CLIENT}}",
}

var c16ClientNames = []string{"\x00err", "", "x", "teku", "lodestar", "lighthouse", "a-client-name-that-is-forty-characters-ab"}

func c16BestProposal(nodes map[string]eth2client.ProposalProvider, blocks eth2client.SignedBeaconBlockProvider, ev *eventsProvider) *bpbest.Service {
	s, err := bpbest.New(context.Background(), bpbest.WithLogLevel(c16LogLevel), bpbest.WithClientMonitor(&nullmetrics.Service{}), bpbest.WithProcessConcurrency(4),
		bpbest.WithTimeout(4*time.Second), bpbest.WithEventsProvider(ev), bpbest.WithChainTimeService(newChainTime(c16GenesisOff, 12*time.Second, 32)),
		bpbest.WithSpecProvider(&specProvider{m: baseSpec(12*time.Second, 32)}), bpbest.WithProposalProviders(nodes),
		bpbest.WithSignedBeaconBlockProvider(blocks), bpbest.WithBlockRootToSlotCache(tableCache{}))
	must(err)
	return s
}

func c16GraffitiUnits(tier string) []hx.Unit {
	var units []hx.Unit
	for fi := range c16GraffitiFiles {
		for nNodes := 0; nNodes <= 2; nNodes++ { // 0: the proposer asks a single node directly (no strategy)
			fi, nNodes := fi, nNodes
			st := &c16State{fam: "graffiti"}
			units = append(units, c16Unit(fmt.Sprintf("C16/graffiti/file%02d/nodes%d", fi, nNodes), 60*time.Second, st, func() {
				content := c16GraffitiFiles[fi]
				if fi == 5 {
					content = content[:32]
				}
				md := &c16Majordomo{files: map[string]string{}}
				switch content {
				case "\x00missing":
				case "\x00err":
					md.files["file:///graffiti/1.txt"] = content
				default:
					md.files["file:///graffiti/1.txt"] = content
				}
				fallback := mc.Choose(2) == 1
				g, err := dynamicgraffiti.New(context.Background(), dynamicgraffiti.WithLogLevel(c16LogLevel), dynamicgraffiti.WithMajordomo(md),
					dynamicgraffiti.WithLocation("file:///graffiti/{{VALIDATORINDEX}}.txt"), dynamicgraffiti.WithFallbackLocation(map[bool]string{false: "", true: "file:///graffiti/default.txt"}[fallback]))
				must(err)
				if fallback {
					md.files["file:///graffiti/default.txt"] = "fallback {{CLIENT}}"
				}
				body := c16Envelope("capella", c16ProposalData("capella", false))
				hdr := map[string]string{"Eth-Execution-Payload-Blinded": "false", "Eth-Execution-Payload-Value": "12", "Eth-Consensus-Block-Value": "34"}
				nodes := map[string]eth2client.ProposalProvider{}
				var names []string
				for i := 0; i < nNodes || i == 0; i++ {
					ci := mc.Choose(len(c16ClientNames) + 1)
					bn := &c16BeaconNode{body: body, hdr: hdr}
					switch {
					case ci == len(c16ClientNames):
						nodes[fmt.Sprintf("n%d", i)] = bn // a client type that does not report its name
						names = append(names, "<no name>")
					case c16ClientNames[ci] == "\x00err":
						nodes[fmt.Sprintf("n%d", i)] = &c16NamedNode{c16BeaconNode: bn, clientErr: true}
						names = append(names, "<error>")
					default:
						nodes[fmt.Sprintf("n%d", i)] = &c16NamedNode{c16BeaconNode: bn, client: c16ClientNames[ci]}
						names = append(names, fmt.Sprintf("%q", c16ClientNames[ci]))
					}
				}
				st.nontriv = true
				st.input = fmt.Sprintf("graffiti file %q (fallback location %v), node client names [%s], strategy %v", content, fallback, strings.Join(names, " "), nNodes > 0)
				if nNodes == 0 {
					c16Propose(st, &c16ProposeEnv{node: nodes["n0"], graffiti: g})
					return
				}
				strat := c16BestProposal(nodes, c18Blocks{}, &eventsProvider{})
				c16Propose(st, &c16ProposeEnv{node: strat, graffiti: g})
			}))
		}
	}
	return units
}

// ---- family: proposals from nodes through the best proposal strategy --------------------------------------

func c16BestUnits(tier string) []hx.Unit {
	var units []hx.Unit
	for _, ver := range c16Versions {
		for _, blinded := range []bool{false, true} {
			if blinded && (ver == "phase0" || ver == "altair") && tier != "thorough" {
				continue
			}
			ver, blinded := ver, blinded
			st := &c16State{fam: "proposal-best"}
			units = append(units, c16Unit(fmt.Sprintf("C16/proposal-best/%s/blinded=%v", ver, blinded), 60*time.Second, st, func() {
				data := c16ProposalData(ver, blinded && ver != "phase0" && ver != "altair")
				base := c16Envelope(ver, data)
				muts := c16MutsCached(fmt.Sprintf("proposal/%s/%v", ver, blinded), base, 4)
				envs := []string{`{"version":"` + ver + `","data":null}`, `{"version":"` + ver + `"}`, `{"data":` + data + `}`, `{`}
				k := mc.Choose(len(muts) + len(envs))
				body, desc := "", ""
				if k < len(muts) {
					body, desc = c16Apply(base, muts[k]), "proposal "+muts[k].String()
					st.nontriv = k > 0
				} else {
					body = envs[k-len(muts)]
					desc, st.nontriv = "response "+body, true
					if len(desc) > 100 {
						desc = desc[:100] + "…"
					}
				}
				hdr := map[string]string{"Eth-Execution-Payload-Blinded": fmt.Sprint(blinded), "Eth-Execution-Payload-Value": "12", "Eth-Consensus-Block-Value": "34"}
				if mc.Choose(2) == 1 {
					hdr = map[string]string{"Eth-Execution-Payload-Blinded": fmt.Sprint(blinded)}
					desc += " (no value headers)"
				}
				other := mc.Choose(3) // second node: none, valid proposal, error
				nodes := map[string]eth2client.ProposalProvider{"n0": &c16NamedNode{c16BeaconNode: &c16BeaconNode{body: body, hdr: hdr}, client: "teku"}}
				switch other {
				case 1:
					nodes["n1"] = &c16BeaconNode{body: base, hdr: map[string]string{"Eth-Execution-Payload-Blinded": fmt.Sprint(blinded), "Eth-Execution-Payload-Value": "1"}}
				case 2:
					nodes["n1"] = &c16BeaconNode{err: errors.New("GET failed with status 503")}
				}
				strat := c16BestProposal(nodes, c18Blocks{}, &eventsProvider{})
				st.input = fmt.Sprintf("node n0 answers: %s, blinded header %v; second node %d", desc, blinded, other)
				lib := c16LibPanics
				defer func() {
					if c16LibPanics != lib {
						st.outcome += "/client-library-panicked-before-delivery"
					}
				}()
				st.call(func() {
					resp, err := strat.Proposal(context.Background(), &api.ProposalOpts{Slot: c16Slot, RandaoReveal: c16Randao, Graffiti: [32]byte{'g'}})
					switch {
					case err != nil:
						st.outcome = "error"
					case resp == nil || resp.Data == nil:
						st.outcome = "nil"
					default:
						st.outcome = "proposal"
					}
				})
			}))
		}
	}
	return units
}

// ---- family: attester duties -----------------------------------------------------------------------------

func c16DutyJSON(slot, validator, committee, length, atSlot, pos string) string {
	return `{"pubkey":"0x` + strings.Repeat("81", 48) + `","slot":"` + slot + `","validator_index":"` + validator + `","committee_index":"` + committee +
		`","committee_length":"` + length + `","committees_at_slot":"` + atSlot + `","validator_committee_index":"` + pos + `"}`
}

type c16DutyElem struct {
	name string
	json string
	odd  bool
}

func c16DutyElems() []c16DutyElem {
	return []c16DutyElem{
		{"base", c16DutyJSON("100", "1", "2", "128", "4", "3"), false},
		{"duplicate", c16DutyJSON("100", "1", "2", "128", "4", "3"), true},
		{"same-validator-other-committee", c16DutyJSON("100", "1", "3", "64", "4", "0"), true},
		{"other-validator-same-committee-other-length", c16DutyJSON("100", "2", "2", "1", "2", "9"), true},
		{"other-slot", c16DutyJSON("101", "2", "0", "128", "4", "5"), false},
		{"out-of-epoch", c16DutyJSON("5", "1", "2", "128", "4", "3"), true},
		{"slot-2^63", c16DutyJSON("9223372036854775808", "1", "2", "128", "4", "3"), true},
		{"slot-max", c16DutyJSON("18446744073709551615", "1", "2", "128", "4", "3"), true},
		{"unknown-validator", c16DutyJSON("100", "18446744073709551615", "2", "128", "4", "3"), true},
		{"zero-fields", c16DutyJSON("0", "0", "0", "0", "0", "0"), true},
		{"genesis-slot", c16DutyJSON("0", "1", "2", "128", "4", "3"), true},
		{"position-beyond-length", c16DutyJSON("102", "1", "18446744073709551615", "1", "0", "18446744073709551615"), true},
		{"committee-of-15", c16DutyJSON("103", "2", "1", "15", "4", "7"), true},
		{"committee-of-2^63", c16DutyJSON("104", "2", "1", "9223372036854775808", "4", "7"), true},
		{"null", "null", true},
		{"empty-object", "{}", true},
	}
}

// c16RawDuties is the beacon node as the committee subscriber sees it: it delivers the decoded answer as it is.
type c16RawDuties struct{ duties []*apiv1.AttesterDuty }

func (d c16RawDuties) AttesterDuties(_ context.Context, _ *api.AttesterDutiesOpts) (*api.Response[[]*apiv1.AttesterDuty], error) {
	out := make([]*apiv1.AttesterDuty, 0, len(d.duties))
	for _, x := range d.duties {
		c := *x
		out = append(out, &c)
	}
	return &api.Response[[]*apiv1.AttesterDuty]{Data: out, Metadata: map[string]any{}}, nil
}

func c16DutyUnits(tier string) []hx.Unit {
	elems := c16DutyElems()
	maxLen := 3
	if tier == "thorough" {
		maxLen = 4
	}
	var units []hx.Unit
	for first := -3; first < len(elems); first++ {
		first := first
		st := &c16State{fam: "duties"}
		units = append(units, c16Unit(fmt.Sprintf("C16/duties/first=%d", first), time.Second, st, func() {
			var body string
			var names []string
			switch first {
			case -3:
				body, names = `{"data":null}`, []string{"<data null>"}
				st.nontriv = true
			case -2:
				body, names = `{"dependent_root":"0x`+strings.Repeat("00", 32)+`","execution_optimistic":false}`, []string{"<data absent>"}
				st.nontriv = true
			case -1:
				body, names = `{"data":[]}`, []string{"<empty>"}
				st.nontriv = true
			default:
				items := []string{elems[first].json}
				names = []string{elems[first].name}
				st.nontriv = elems[first].odd
				for len(items) < maxLen {
					k := mc.Choose(len(elems)+1) - 1
					if k < 0 {
						break
					}
					items = append(items, elems[k].json)
					names = append(names, elems[k].name)
					st.nontriv = st.nontriv || elems[k].odd
				}
				body = `{"data":[` + strings.Join(items, ",") + `]}`
			}
			st.input = "duties [" + strings.Join(names, ", ") + "] as " + body
			duties, err := c16DecodeData(body, []*apiv1.AttesterDuty{})
			if err != nil {
				st.outcome = "rejected-by-decoder"
				return
			}
			for _, d := range duties {
				if d == nil {
					// go-eth2-client's own range check dereferences the element before anything is delivered
					st.outcome = "not-delivered(library dereferences null duty)"
					return
				}
			}
			st.call(func() {
				merged, err := attester.MergeDuties(context.Background(), duties)
				if err != nil {
					st.outcome = "error"
					return
				}
				n := 0
				for _, d := range merged {
					// what the controller and the committee subscriber read from a merged duty
					_ = d.Slot()
					_ = d.String()
					n += len(d.Tuples())
					for i, ci := range d.CommitteeIndices() {
						_ = d.CommitteeSize(ci)
						_ = d.ValidatorIndices()[i]
						_ = d.ValidatorCommitteeIndices()[i]
					}
				}
				st.outcome = fmt.Sprintf("merged=%d", len(merged))
				if n != len(duties) {
					st.outcome += "/dropped"
				}
				// the same answer as the committee subscriber obtains it: the real subscriber and the real aggregator
				// (committee lengths of the duties enter the aggregator selection)
				ctx, cancel := mcontext.WithCancel(context.Background())
				defer cancel()
				signer := &c14Signer{sigs: map[phase0.BLSPubKey]phase0.BLSSignature{}}
				accts := &accountsTable{byIndex: map[phase0.ValidatorIndex]*hAccount{}}
				accounts := map[phase0.ValidatorIndex]e2wtypes.Account{}
				for i := 0; i < 3; i++ {
					a := newAccount("W", fmt.Sprintf("v%d", i), byte(i+1))
					accts.byIndex[phase0.ValidatorIndex(i)] = a
					accounts[phase0.ValidatorIndex(i)] = a
					signer.sigs[a.pubkey()] = phase0.BLSSignature{byte(i + 1)}
				}
				subscriber, err := standardsubscriber.New(ctx, standardsubscriber.WithLogLevel(zerolog.Disabled), standardsubscriber.WithMonitor(&nullmetrics.Service{}),
					standardsubscriber.WithProcessConcurrency(2), standardsubscriber.WithChainTimeService(newChainTime(-int64(96)*int64(12*time.Second), 12*time.Second, 32)),
					standardsubscriber.WithAttesterDutiesProvider(c16RawDuties{duties}), standardsubscriber.WithAttestationAggregator(c14NewAggregator(signer, 16, accts)),
					standardsubscriber.WithBeaconCommitteeSubmitter(&c14SubSubmitter{}))
				must(err)
				info, err := subscriber.Subscribe(ctx, 3, accounts)
				mc.Sleep(int64(100 * time.Millisecond))
				st.outcome += fmt.Sprintf("/subscribed-slots=%d/err=%v", len(info), err != nil)
				// ... and as the attestation jobs use it: the real attester is asked to attest for every merged duty
				env := &attEnv{accts: map[phase0.ValidatorIndex]*hAccount{}, ct: newChainTime(-int64(96)*int64(12*time.Second), 12*time.Second, 32)}
				for i := 0; i < 3; i++ {
					env.accts[phase0.ValidatorIndex(i)] = accts.byIndex[phase0.ValidatorIndex(i)]
				}
				env.dataFn = func(_ context.Context, _ int, opts *api.AttestationDataOpts) (*phase0.AttestationData, error) {
					e := phase0.Epoch(uint64(opts.Slot) / 32)
					src := e
					if src > 0 {
						src--
					}
					return &phase0.AttestationData{Slot: opts.Slot, Index: opts.CommitteeIndex, BeaconBlockRoot: root(7), Source: &phase0.Checkpoint{Epoch: src, Root: root(8)}, Target: &phase0.Checkpoint{Epoch: e, Root: root(9)}}, nil
				}
				att := newAttesterWithSpec(env, nil, 12*time.Second, 32)
				made := 0
				for _, d := range merged {
					if uint64(d.Slot())/32 != 3 {
						continue // the controller sets up jobs for the duties of the requested epoch only
					}
					atts, _ := att.Attest(ctx, d)
					made += len(atts)
				}
				st.outcome += fmt.Sprintf("/attested=%v", made > 0)
			})
		}))
	}
	return units
}

// ---- family: block and head events through the cache (and the proposal strategy's head handler) ----------

func c16EventUnits(tier string) []hx.Unit {
	var units []hx.Unit
	// block events
	{
		st := &c16State{fam: "event/block"}
		units = append(units, c16Unit("C16/event/block", 20*time.Minute, st, func() {
			ctx, cancel := mcontext.WithCancel(context.Background())
			defer cancel()
			ev := &eventsProvider{}
			svc, err := standardcache.New(ctx, standardcache.WithLogLevel(c16LogLevel), standardcache.WithMonitor(&nullmetrics.Service{}),
				standardcache.WithChainTime(newChainTime(c16GenesisOff, 12*time.Second, 32)), standardcache.WithScheduler(&nopScheduler{}), standardcache.WithEventsProvider(ev),
				standardcache.WithSignedBeaconBlockProvider(c18Blocks{}), standardcache.WithBeaconBlockHeadersProvider(&c18Headers{}))
			must(err)
			base := `{"slot":"100","block":"0x` + strings.Repeat("ab", 32) + `","execution_optimistic":false}`
			muts := c16MutsCached("event/block", base, 1)
			k := mc.Choose(len(muts) + 2)
			st.nontriv = k > 0
			var data any
			switch {
			case k == len(muts):
				st.input = "block event without data"
				data = nil
			case k == len(muts)+1:
				st.input = "block event with data null"
				e := &apiv1.BlockEvent{}
				if json.Unmarshal([]byte("null"), e) != nil {
					st.outcome = "rejected-by-decoder"
					return
				}
				data = e
			default:
				text := c16Apply(base, muts[k])
				st.input = "block event " + text
				e := &apiv1.BlockEvent{}
				if json.Unmarshal([]byte(text), e) != nil {
					st.outcome = "rejected-by-decoder"
					return
				}
				data = e
			}
			st.call(func() {
				if data == nil {
					ev.deliver("block", nil)
				} else {
					ev.deliver("block", data)
				}
				_, err := svc.BlockRootToSlot(ctx, phase0.Root{})
				st.outcome = fmt.Sprintf("delivered/zero-root-lookup-err=%v", err != nil)
			})
		}))
	}
	// head events: the handler fetches the block; the answer is a signed block of any shape the decoder admits
	for _, consumer := range []string{"cache", "proposal-best"} {
		for _, ver := range c16Versions {
			consumer, ver := consumer, ver
			st := &c16State{fam: "event/head/" + consumer}
			units = append(units, c16Unit(fmt.Sprintf("C16/event/head/%s/%s", consumer, ver), 20*time.Minute, st, func() {
				ctx, cancel := mcontext.WithCancel(context.Background())
				defer cancel()
				data := c16SignedBlockData(ver)
				base := c16Envelope(ver, data)
				muts := c16MutsCached("signed/"+ver, base, 5)
				envs := []string{"\x00err", `{"version":"` + ver + `","data":null}`, `{"version":"` + ver + `"}`, `{"data":` + data + `}`, `{"version":"fulu","data":` + data + `}`, `{`,
					`{"version":"` + ver + `","execution_optimistic":true,"finalized":false,"data":` + data + `}`}
				k := mc.Choose(len(muts) + len(envs))
				body, desc := "", ""
				if k < len(muts) {
					body, desc = c16Apply(base, muts[k]), "block "+muts[k].String()
					st.nontriv = k > 0
				} else {
					body = envs[k-len(muts)]
					desc, st.nontriv = "response "+body, true
					if body == "\x00err" {
						desc = "error (404)"
					} else if len(desc) > 100 {
						desc = desc[:100] + "…"
					}
				}
				// the cache also fetches the head block when it is constructed: either that request or the one made
				// by the event handler gets the answer under test (the other gets a plain block)
				atStart := consumer == "cache" && mc.Choose(2) == 1
				node := &c16BeaconNode{blocks: func(id string) (string, error) {
					if (id == "head") != atStart {
						return base, nil
					}
					if body == "\x00err" {
						return "", errors.New("GET failed with status 404")
					}
					return body, nil
				}}
				ev := &eventsProvider{}
				var build, after func()
				if consumer == "cache" {
					var svc *standardcache.Service
					build = func() {
						var err error
						svc, err = standardcache.New(ctx, standardcache.WithLogLevel(c16LogLevel), standardcache.WithMonitor(&nullmetrics.Service{}),
							standardcache.WithChainTime(newChainTime(c16GenesisOff, 12*time.Second, 32)), standardcache.WithScheduler(&nopScheduler{}), standardcache.WithEventsProvider(ev),
							standardcache.WithSignedBeaconBlockProvider(node), standardcache.WithBeaconBlockHeadersProvider(&c18Headers{}))
						must(err)
					}
					after = func() { svc.ExecutionChainHead(ctx) }
				} else {
					var strat *bpbest.Service
					build = func() {
						strat = c16BestProposal(map[string]eth2client.ProposalProvider{"n0": &c16BeaconNode{body: c16Envelope("capella", c16ProposalData("capella", false)),
							hdr: map[string]string{"Eth-Execution-Payload-Value": "1"}}}, node, ev)
					}
					after = func() {
						_, _ = strat.Proposal(ctx, &api.ProposalOpts{Slot: c16Slot, RandaoReveal: c16Randao})
					}
				}
				hk := mc.Choose(4)
				heads := []string{
					`{"slot":"99","block":"0x` + strings.Repeat("ab", 32) + `","state":"0x` + strings.Repeat("cd", 32) + `","epoch_transition":false,"previous_duty_dependent_root":"0x` + strings.Repeat("00", 32) + `","current_duty_dependent_root":"0x` + strings.Repeat("00", 32) + `"}`,
					`{"slot":"0","block":"0x` + strings.Repeat("00", 32) + `","state":"0x` + strings.Repeat("00", 32) + `","epoch_transition":false,"previous_duty_dependent_root":"0x` + strings.Repeat("00", 32) + `","current_duty_dependent_root":"0x` + strings.Repeat("00", 32) + `"}`,
					`{"slot":"18446744073709551615","block":"0x` + strings.Repeat("ab", 32) + `","state":"0x` + strings.Repeat("cd", 32) + `","epoch_transition":true}`,
					"\x00nil",
				}
				var hdata any
				if heads[hk] != "\x00nil" {
					he := &apiv1.HeadEvent{}
					if err := json.Unmarshal([]byte(heads[hk]), he); err != nil {
						st.outcome = "rejected-by-decoder"
						st.input = "head event " + heads[hk]
						return
					}
					hdata = he
					st.input = "head event " + heads[hk] + "; block request answered with " + desc
				} else {
					st.input = "head event without data; block request answered with " + desc
				}
				if atStart {
					st.input = "service start: request for block \"head\" answered with " + desc + "; then " + st.input[:strings.Index(st.input, ";")]
				}
				if hk > 0 {
					st.nontriv = true
				}
				st.call(func() {
					build()
					if hdata == nil {
						ev.deliver("head", nil)
					} else {
						ev.deliver("head", hdata)
					}
					after()
					st.outcome = "handled"
				})
			}))
		}
	}
	return units
}

// ---- family: error JSON from beacon nodes through the multinode submitter ---------------------------------

var c16ErrorJSONs = []string{
	lhDupMsg, lhRealMsg, lhNoFail, lhNullFail, tekuDupMsg, tekuReal, tekuNoFail, lhAggKnown, lhAggReal,
	`{"code":400,"message":"x","failures":null}`, `{"code":400,"message":"x","failures":[]}`, `{"code":400,"message":"x","failures":[null,null]}`,
	`{"code":400,"message":"x","failures":[{}]}`, `{"code":400,"message":"x","failures":[{"index":null,"message":null}]}`, `{"code":400,"message":"x","failures":"none"}`,
	`{"code":400,"message":"x","failures":{}}`, `{"code":"400","message":"x","failures":[null]}`, `{"code":null}`, `{}`, `{`, `{"failures":[`, `null`, `[]`, `[null]`,
	`{"failures":[{"index":"0","message":"Ignoring sync committee message as a duplicate was processed during validation"},null]}`,
	`{"failures":[{"index":0,"message":"Verification: PriorSyncCommitteeMessageKnown { validator_index: 1, slot: 2 }"},null]}`,
}

// c16IndexedErrorJSONs are rejections that name a position of the submitted batch (of one or two items):
// inside it, just outside it, far outside it, negative.
func c16IndexedErrorJSONs() []string {
	var out []string
	for _, idx := range []string{"-1", "0", "1", "2", "3", "2147483648", "9223372036854775807", "-9223372036854775808"} {
		for _, msg := range []string{"Verification: PriorSyncCommitteeMessageKnown { validator_index: 1, slot: 2 }", "Verification: InvalidSignature", "Ignoring sync committee message as a duplicate was processed during validation", "Rejected"} {
			out = append(out, `{"code":400,"message":"x","failures":[{"index":`+idx+`,"message":"`+msg+`"}]}`)
		}
		out = append(out, `{"code":400,"message":"x","failures":[{"index":0,"message":"Rejected"},{"index":`+idx+`,"message":"Verification: PriorSyncCommitteeMessageKnown { validator_index: 1, slot: 2 }"}]}`)
	}
	return out
}

func c16SubmitUnits(tier string) []hx.Unit {
	var units []hx.Unit
	texts := append(append([]string{}, c16ErrorJSONs...), c16IndexedErrorJSONs()...)
	prefixes := []string{lhPrefix, "", "dial tcp: lookup {node}: no such host "}
	for _, kind := range []string{"messages", "contributions"} {
		for _, client := range []string{"Lighthouse", "teku", "Nimbus", ""} {
			kind, client := kind, client
			st := &c16State{fam: "submit-error/" + kind}
			units = append(units, c16Unit(fmt.Sprintf("C16/submit-error/%s/client=%q", kind, client), 30*time.Second, st, func() {
				text := prefixes[mc.Choose(len(prefixes))] + texts[mc.Choose(len(texts))]
				batch := 1 + mc.Choose(2)
				st.input = fmt.Sprintf("node version %q rejects the submission of %d item(s) with error text %q", client+"/v1.0.0", batch, text)
				st.nontriv = true
				nodes := []*c08Node{{beh: c08Beh{name: "c16", client: client, errText: text}}}
				if mc.Choose(2) == 1 {
					nodes = append(nodes, &c08Node{beh: c08Beh{name: "accept", client: "prysm"}})
				}
				svc := multiSvc(nodes, 2)
				st.call(func() {
					var err error
					if kind == "messages" {
						err = svc.SubmitSyncCommitteeMessages(context.Background(), mk[altair.SyncCommitteeMessage](batch))
					} else {
						err = svc.SubmitSyncCommitteeContributions(context.Background(), mkContribs(batch))
					}
					st.outcome = fmt.Sprintf("err=%v", err != nil)
				})
			}))
		}
	}
	return units
}

// ---- family: a bid request after an auction, through the block relay service ---------------------------------

// c16RelayServiceUnits: the relay's answer to the auction is good / absent / below the minimum / an error /
// without data / badly signed; the beacon node then asks vouch's builder endpoint for the bid of the same slot,
// parent and proposer (served from the cache the auction filled) and for one of another parent.
func c16RelayServiceUnits(_ string) []hx.Unit {
	var units []hx.Unit
	for _, defect := range []string{"none", "belowmin", "error", "nildata", "badsig", "zerovalue", "timestamp"} {
		defect := defect
		st := &c16State{fam: "relay-service"}
		units = append(units, c16Unit("C16/relay-service/bid-after-auction/"+defect, 400*time.Second, st, func() {
			c09Init()
			e := &c09Env{cfgKind: "none", given: make([][]c09Given, 1)}
			util.VerifResetBuilderClients()
			defer util.VerifResetBuilderClients()
			r := &c09Relay{idx: 0, env: e, value: 10, bldr: 'Y', hdr: 1, defect: defect}
			e.relays = append(e.relays, r)
			util.VerifSetBuilderClient(r.Address(), r)
			mc.Sleep(int64(time.Duration(c09Slot)*12*time.Second) - mc.Now())
			ctx, cancel := mcontext.WithCancel(context.Background())
			defer cancel()
			v1 := newAccount("W", "v1", 1)
			accts := &accountsTable{byIndex: map[phase0.ValidatorIndex]*hAccount{1: v1}}
			strat := c09Strats()[0]
			svc := c09NewBlockRelay(ctx, e, &strat, "none", accts)
			st.nontriv = defect != "none"
			st.input = "relay answers the auction with: " + defect
			st.call(func() {
				res, err := svc.AuctionBlock(ctx, c09Slot, phase0.Hash32{9}, v1.pubkey())
				b1, err1 := svc.BuilderBid(ctx, c09Slot, phase0.Hash32{9}, v1.pubkey())
				b2, err2 := svc.BuilderBid(ctx, c09Slot, phase0.Hash32{8}, v1.pubkey())
				st.outcome = fmt.Sprintf("auction-winner=%v/err=%v;cached-bid=%v/err=%v;other-parent-bid=%v/err=%v",
					res != nil && res.WinningParticipation != nil, err != nil, b1 != nil, err1 != nil, b2 != nil, err2 != nil)
			})
		}))
	}
	return units
}

// ---- family: answers the client library hands on incomplete ----------------------------------------------------

// c16NoDataHeaders answers a header request the way go-eth2-client v0.21.11 does for a 200 body without a "data"
// member: a response whose header is the zero value (no inner header), and no error.
type c16NoDataHeaders struct{}

func (c16NoDataHeaders) BeaconBlockHeader(_ context.Context, _ *api.BeaconBlockHeaderOpts) (*api.Response[*apiv1.BeaconBlockHeader], error) {
	return &api.Response[*apiv1.BeaconBlockHeader]{Data: &apiv1.BeaconBlockHeader{}, Metadata: map[string]any{}}, nil
}

func c16IncompleteUnits(_ string) []hx.Unit {
	var units []hx.Unit
	// a block header answer without data, met by a cache lookup (as the strategies' goroutines make them)
	{
		st := &c16State{fam: "incomplete/header"}
		units = append(units, c16Unit("C16/incomplete/header-answer-without-data", time.Minute, st, func() {
			ctx, cancel := mcontext.WithCancel(context.Background())
			defer cancel()
			svc, err := standardcache.New(ctx, standardcache.WithLogLevel(c16LogLevel), standardcache.WithMonitor(&nullmetrics.Service{}),
				standardcache.WithChainTime(newChainTime(c16GenesisOff, 12*time.Second, 32)), standardcache.WithScheduler(&nopScheduler{}), standardcache.WithEventsProvider(&eventsProvider{}),
				standardcache.WithSignedBeaconBlockProvider(c18Blocks{}), standardcache.WithBeaconBlockHeadersProvider(c16NoDataHeaders{}))
			must(err)
			st.nontriv = true
			st.input = `block header answer {"execution_optimistic":false,"finalized":false} (no data member), on a cache miss`
			st.call(func() {
				slot, err := svc.BlockRootToSlot(ctx, root(0x31))
				st.outcome = fmt.Sprintf("slot=%d err=%v", slot, err != nil)
			})
		}))
	}
	// a sync committee duties answer whose list starts with null, met when the controller sets the period up
	{
		st := &c16State{fam: "incomplete/sync-duties"}
		units = append(units, c16Unit("C16/incomplete/sync-duties-with-null-entry", 10*time.Minute, st, func() {
			st.nontriv = true
			st.input = `sync committee duties {"data":[null,{...}]}`
			st.call(func() {
				w := c15Build(c15WorldCfg{spec: c15Spec(4, 0, 16, 4, 16), startSlot: 10, positions: map[phase0.ValidatorIndex][]phase0.CommitteeIndex{7: {0}}, delay: 4 * time.Second, before: func(w *c15World) {
					w.duties.member = map[uint64]bool{1: true, 2: true}
					w.duties.armed = true
					w.duties.nullFirst = true
				}})
				defer w.cancel()
				mc.Sleep(int64(3 * c15SlotDur))
				st.outcome = fmt.Sprintf("messaged-slots=%d", len(w.rec.calls))
			})
		}))
	}
	// a specification without the Altair constants (a chain that has not scheduled Altair): the controller says it does
	// not handle Altair and carries on; then the chain reorganises (a head event with a changed current dependent root)
	{
		st := &c16State{fam: "incomplete/spec"}
		units = append(units, c16Unit("C16/incomplete/spec-without-altair-constants+reorg", 10*time.Minute, st, func() {
			st.nontriv = true
			st.input = "beacon node specification without EPOCHS_PER_SYNC_COMMITTEE_PERIOD / ALTAIR_FORK_EPOCH, then a head event with a changed current dependent root"
			st.call(func() {
				ctx, cancel := mcontext.WithCancel(context.Background())
				defer cancel()
				sp := baseSpec(c03SlotDur, c03SPE)
				for _, k := range []string{"EPOCHS_PER_SYNC_COMMITTEE_PERIOD", "ALTAIR_FORK_EPOCH", "BELLATRIX_FORK_EPOCH", "CAPELLA_FORK_EPOCH", "DENEB_FORK_EPOCH", "SYNC_COMMITTEE_SIZE", "SYNC_COMMITTEE_SUBNET_COUNT", "TARGET_AGGREGATORS_PER_SYNC_SUBCOMMITTEE"} {
					delete(sp, k)
				}
				ct := newChainTime(-(int64(2*c03SPE) * int64(c03SlotDur)), c03SlotDur, c03SPE)
				sched, err := advanced.New(ctx, advanced.WithLogLevel(zerolog.Disabled), advanced.WithMonitor(&nullmetrics.Service{}))
				must(err)
				ev := &eventsProvider{}
				w := &c03World{attKinds: [2]string{"E", "E"}, propKinds: [2]string{"A", "A"}, reorgAt: -1}
				byIndex := map[phase0.ValidatorIndex]*hAccount{}
				for i := 1; i <= 3; i++ {
					byIndex[phase0.ValidatorIndex(i)] = newAccount("W", fmt.Sprintf("v%d", i), byte(i))
				}
				_, err = standardcontroller.New(ctx,
					standardcontroller.WithLogLevel(zerolog.Disabled), standardcontroller.WithMonitor(nullmetrics.New()),
					standardcontroller.WithSpecProvider(&specProvider{m: sp}), standardcontroller.WithChainTimeService(ct),
					standardcontroller.WithProposerDutiesProvider(w), standardcontroller.WithAttesterDutiesProvider(w),
					standardcontroller.WithSyncCommitteeDutiesProvider(vouchmock.NewSyncCommitteeDutiesProvider()), standardcontroller.WithEventsProvider(ev),
					standardcontroller.WithValidatingAccountsProvider(&accountsTable{byIndex: byIndex}), standardcontroller.WithProposalsPreparer(mockproposalpreparer.New()),
					standardcontroller.WithScheduler(sched), standardcontroller.WithAttester(w), standardcontroller.WithBeaconBlockProposer(w),
					standardcontroller.WithBeaconCommitteeSubscriber(mockbeaconcommitteesubscriber.New()), standardcontroller.WithAttestationAggregator(mockattestationaggregator.New()),
					standardcontroller.WithAccountsRefresher(mockaccountmanager.NewRefresher()),
					standardcontroller.WithBlockToSlotSetter(mockcache.New(map[phase0.Root]phase0.Slot{}).(cache.BlockRootToSlotSetter)),
					standardcontroller.WithBeaconBlockHeadersProvider(vouchmock.NewBeaconBlockHeadersProvider()), standardcontroller.WithSignedBeaconBlockProvider(vouchmock.NewSignedBeaconBlockProvider()),
					standardcontroller.WithMaxAttestationDelay(c03Delay), standardcontroller.WithAttestationAggregationDelay(8*time.Second))
				if err != nil {
					st.outcome = "controller refuses the specification"
					return
				}
				for i, cur := range []byte{0x20, 0x60} {
					mc.Sleep(int64(i)*int64(c03SlotDur) + int64(time.Second) - mc.Now())
					s := phase0.Slot(2*c03SPE + uint64(i))
					ev.deliver("head", &apiv1.HeadEvent{Slot: s, Block: root(byte(s)), PreviousDutyDependentRoot: root(0x10), CurrentDutyDependentRoot: root(cur)})
				}
				mc.Sleep(int64(2 * c03SlotDur))
				st.outcome = "survived the reorg"
			})
		}))
	}
	return units
}

func c16Units(tier string) []hx.Unit {
	var units []hx.Unit
	units = append(units, c16WithTraced(c16IncompleteUnits(tier))...)
	units = append(units, c16WithTraced(c16RelayServiceUnits(tier))...)
	units = append(units, c16ConfigUnits(tier)...)
	units = append(units, c16WithTraced(c16BidUnits(tier))...)
	units = append(units, c16WithTraced(c16ProposeUnits(tier))...)
	units = append(units, c16WithTraced(c16GraffitiUnits(tier))...)
	units = append(units, c16WithTraced(c16BestUnits(tier))...)
	units = append(units, c16DutyUnits(tier)...)
	units = append(units, c16WithTraced(c16EventUnits(tier))...)
	units = append(units, c16SubmitUnits(tier)...)
	return units
}

func init() {
	hx.Register(&hx.Prop{
		ID:    "C16",
		Title: "No data from a beacon node, relay or configuration can crash Vouch",
		Rule: "each consumer of external data is driven through the entry point by which the data really arrives, inside the controlled runtime (a panic in any goroutine Vouch starts is observed), over bounded grammars whose JSON texts pass through the client libraries' own decoders and the mirrored post-decode checks of their HTTP clients: " +
			"execution configurations = the v1 and v2 documents with every position (to depth 5) replaced by {absent, null, \"\", wrong type, other valid/invalid values}, all single and pairwise (thorough: triple) replacements, then ProposerConfig for 2 validators; " +
			"builder bids = both auction strategies x relay addresses {URL, bare host, \"\", \"%zz\", \"http://[::1\", a URL whose user part is no public key, host:notaport} (1-2 relays), two auctions in a row, x bid versions x every single replacement of a member of the bid (to depth 4) by {absent, null, empty, zero} plus no-content/error/null-data/version-less answers x relay key absent/configured/delivered x builder configurations; " +
			"proposals = Prepare+Propose of the real proposer for phase0..deneb x blinded header x auctioneer {none, error, no relays, no winner, winner, winner that cannot unblind} x every single replacement in the proposal (to depth 4) x value headers x unblinding answers {block, 400, error, no data}; the same proposals through the best proposal strategy with 1-2 nodes; " +
			"graffiti = 16 file contents of the dynamic provider (plain, 32 bytes, longer, {{CLIENT}} templates, missing, error) x node client names of length 0,1,4,8,10,40 / error / no name, through proposer and best strategy; " +
			"attester duties = all lists up to length 3 (thorough 4) over 13 elements (duplicates, out-of-epoch, slot 2^63 and 2^64-1, unknown validator, zero fields, null, {}); head and block events with zero / maximal fields and without data, the fetched block being any single replacement (to depth 5) of a signed block of each version, at service start and on the event, for the cache and the proposal strategy; " +
			"bid requests after an auction = the real block relay service, relay answer to the auction {good, below minimum, error, no data, bad signature, zero value, wrong timestamp}, then the builder endpoint's bid request for the same and for another parent; the attester duties are also taken through the real committee subscriber and aggregator (committee lengths 0, 1, 15, 64, 128); " +
			"incomplete answers the client library hands on = a block header answer without a data member on a cache miss, sync committee duties whose list starts with null; a relay's unblinding answer with a null payload (the stand-in panics where go-builder-client does); " +
			"lighthouse/teku error JSON (26 texts incl. failures:[null], plus 40 texts whose failure index lies inside, on the edge of, outside or far outside the batch of 1-2 items) through the multinode submitter; top-level configuration documents that are no object (null, empty, [], scalars) or carry only a version; proposal, bid, event and graffiti families are run both with logging disabled and with trace logging (output discarded); " +
			"oracle: no panic and the call returns; non-trivial = the input has at least one absent/null/zero/unparsable element; distinct = distinct (family, outcome) labels",
		Assumptions: []string{
			"beacon nodes and relays are reached through go-eth2-client v0.21.11 / go-builder-client v0.5.1 HTTP clients: a value is deliverable iff their JSON decoding and post-decode checks (mirrored in the harness) let it through; inputs on which the client library itself panics before returning are counted as not delivered, except where vouch calls the library in a goroutine of its own making (the relay unblinding), where such a panic ends the process and is vouch's to contain",
			"a relay's unblinding answer without data is kept as a regression input although the HTTP client cannot produce it",
			"the duty context ends 14 s after it starts (Propose blocks on its context when no relay unblinds)",
			"returned errors and fallbacks are never flagged",
		},
		Units:         c16Units,
		MinNontrivial: 50000,
	})
}
