package props

import (
	"context"
	"errors"
	"fmt"
	"strings"
	"time"

	"verifharness/hx"

	eth2client "github.com/attestantio/go-eth2-client"
	"github.com/attestantio/go-eth2-client/api"
	apiv1 "github.com/attestantio/go-eth2-client/api/v1"
	"github.com/attestantio/go-eth2-client/spec"
	"github.com/attestantio/go-eth2-client/spec/altair"
	"github.com/attestantio/go-eth2-client/spec/bellatrix"
	"github.com/attestantio/go-eth2-client/spec/phase0"
	nullmetrics "github.com/attestantio/vouch/services/metrics/null"
	"github.com/attestantio/vouch/services/submitter/immediate"
	"github.com/attestantio/vouch/services/submitter/multinode"
	"github.com/attestantio/vouch/util"
	"github.com/attestantio/vouch/verifmc/mc"
	"github.com/attestantio/vouch/verifmc/mcontext"
	"github.com/attestantio/vouch/verifmc/msync"
	"github.com/attestantio/vouch/verifmc/mtime"
	"github.com/prysmaticlabs/go-bitfield"
	"github.com/rs/zerolog"
)

// C08: a submission reaches every configured node and succeeds iff one accepts.

const c08Timeout = 2 * time.Second

// behaviour of a node for one submission kind
type c08Beh struct {
	name      string
	client    string // what NodeVersion reports
	errText   string // "" = accept
	tolerated bool   // the rejection is one vouch deliberately tolerates from that client for this kind
	// firstChunkErr: the request that carries the payload's first element is rejected with this text instead (the
	// chunks of one payload fare differently at the node)
	firstChunkErr string
}

// c08FirstAtt is the first element of the attestation payload built last.
var c08FirstAtt *phase0.Attestation

var c08Lats = []int{0, 1, 2, 3, -1} // seconds; -1 = hangs forever

type c08Node struct {
	idx         int
	beh         c08Beh
	lat         int
	got         []any // payload elements received
	calls       int
	endAt       []int64
	versionDown bool // the node's version endpoint does not answer at the moment
	aborted     int  // requests abandoned because the request context was cancelled
}

// The node is a client of a beacon node with an address, like the HTTP client vouch uses.
func (n *c08Node) Name() string    { return "c08" }
func (n *c08Node) Address() string { return fmt.Sprintf("http://node%d:5052", n.idx) }
func (n *c08Node) IsActive() bool  { return true }
func (n *c08Node) IsSynced() bool  { return true }

func (n *c08Node) NodeVersion(_ context.Context, _ *api.NodeVersionOpts) (*api.Response[string], error) {
	if n.versionDown {
		return nil, errors.New("version endpoint unavailable")
	}
	return &api.Response[string]{Data: n.beh.client + "/v1.0.0", Metadata: map[string]any{}}, nil
}

// handle serves one request: like an HTTP client it gives up when the request context is cancelled.
func (n *c08Node) handle(ctx context.Context, items []any) error {
	n.calls++
	if c08Lats[n.lat] < 0 {
		mc.Block(0)
		return errors.New("unreachable")
	}
	if ctx.Err() != nil {
		n.aborted++
		return ctx.Err()
	}
	if lat := c08Lats[n.lat]; lat > 0 {
		t := mtime.After(time.Duration(lat) * time.Second)
		if sel := mc.Select(false, mc.RecvCase(ctx.Done()), mc.RecvCase(t)); sel.Index == 0 {
			n.aborted++
			return ctx.Err()
		}
	}
	n.got = append(n.got, items...)
	n.endAt = append(n.endAt, mc.Now())
	if n.beh.firstChunkErr != "" {
		for _, it := range items {
			if a, ok := it.(*phase0.Attestation); ok && a == c08FirstAtt {
				return errors.New(n.beh.firstChunkErr)
			}
		}
	}
	if n.beh.errText != "" {
		return errors.New(n.beh.errText)
	}
	return nil
}

func anys[T any](xs []T) []any {
	out := make([]any, len(xs))
	for i, x := range xs {
		out[i] = x
	}
	return out
}

func (n *c08Node) SubmitAttestations(ctx context.Context, a []*phase0.Attestation) error {
	return n.handle(ctx, anys(a))
}
func (n *c08Node) SubmitProposal(ctx context.Context, o *api.SubmitProposalOpts) error {
	return n.handle(ctx, []any{o.Proposal})
}
func (n *c08Node) SubmitAggregateAttestations(ctx context.Context, a []*phase0.SignedAggregateAndProof) error {
	return n.handle(ctx, anys(a))
}
func (n *c08Node) SubmitProposalPreparations(ctx context.Context, a []*apiv1.ProposalPreparation) error {
	return n.handle(ctx, anys(a))
}
func (n *c08Node) SubmitBeaconCommitteeSubscriptions(ctx context.Context, a []*apiv1.BeaconCommitteeSubscription) error {
	return n.handle(ctx, anys(a))
}
func (n *c08Node) SubmitSyncCommitteeMessages(ctx context.Context, a []*altair.SyncCommitteeMessage) error {
	return n.handle(ctx, anys(a))
}
func (n *c08Node) SubmitSyncCommitteeSubscriptions(ctx context.Context, a []*apiv1.SyncCommitteeSubscription) error {
	return n.handle(ctx, anys(a))
}
func (n *c08Node) SubmitSyncCommitteeContributions(ctx context.Context, a []*altair.SignedContributionAndProof) error {
	return n.handle(ctx, anys(a))
}

const (
	lhPrefix      = "POST failed with status 400: "
	lhDupMsg      = `{"code":400,"message":"BAD_REQUEST: error processing sync committee messages","failures":[{"index":0,"message":"Verification: PriorSyncCommitteeMessageKnown { validator_index: 1, slot: 2 }"}]}`
	lhRealMsg     = `{"code":400,"message":"BAD_REQUEST: error processing sync committee messages","failures":[{"index":0,"message":"Verification: PriorSyncCommitteeMessageKnown { validator_index: 1, slot: 2 }"},{"index":1,"message":"Verification: InvalidSignature"}]}`
	lhRealFirst   = `{"code":400,"message":"BAD_REQUEST: error processing sync committee messages","failures":[{"index":0,"message":"Verification: InvalidSignature"},{"index":1,"message":"Verification: PriorSyncCommitteeMessageKnown { validator_index: 1, slot: 2 }"}]}`
	tekuRealFirst = `{"code":"400","message":"Some items failed","failures":[{"index":"0","message":"Rejecting sync committee message because the signature is invalid"},{"index":"1","message":"Ignoring sync committee message as a duplicate was processed during validation"}]}`
	lhNoFail      = `{"code":400,"message":"BAD_REQUEST: body deserialize error"}`
	lhNullFail    = `{"code":400,"message":"BAD_REQUEST: error","failures":[null]}`
	tekuDupMsg    = `{"code":"400","message":"Some items failed to publish, refer to errors for details","failures":[{"index":"0","message":"Ignoring sync committee message as a duplicate was processed during validation"}]}`
	tekuReal      = `{"code":"400","message":"Some items failed","failures":[{"index":"0","message":"Rejecting sync committee message because the signature is invalid"}]}`
	tekuNoFail    = `{"code":"400","message":"Bad request"}`
	lhAggKnown    = `{"code":400,"message":"BAD_REQUEST: error processing contribution and proofs","failures":[{"index":0,"message":"Verification: AggregatorAlreadyKnown(5)"}]}`
	lhAggReal     = `{"code":400,"message":"BAD_REQUEST: error processing contribution and proofs","failures":[{"index":0,"message":"Verification: InvalidSignature"}]}`
)

type c08Kind struct {
	name    string
	behs    []c08Beh
	scatter bool
	// call submits a payload of the given size through the service and returns the payload elements
	multi func(s *multinode.Service, ctx context.Context, size int) ([]any, error)
	imm   func(n *c08Node, ctx context.Context, size int) ([]any, error)
}

var c08Basic = []c08Beh{{name: "accept", client: "prysm"}, {name: "reject", client: "prysm", errText: "POST failed with status 500: internal error"}}

func immSvc(n *c08Node) *immediate.Service {
	s, err := immediate.New(context.Background(), immediate.WithLogLevel(zerolog.Disabled), immediate.WithClientMonitor(&nullmetrics.Service{}),
		immediate.WithAttestationsSubmitter(n), immediate.WithProposalSubmitter(n), immediate.WithAggregateAttestationsSubmitter(n),
		immediate.WithProposalPreparationsSubmitter(n), immediate.WithBeaconCommitteeSubscriptionsSubmitter(n), immediate.WithSyncCommitteeMessagesSubmitter(n),
		immediate.WithSyncCommitteeSubscriptionsSubmitter(n), immediate.WithSyncCommitteeContributionsSubmitter(n))
	must(err)
	return s
}

func mk[T any](size int) []*T {
	out := make([]*T, size)
	for i := range out {
		out[i] = new(T)
	}
	return out
}

func mkAtts(size int) []*phase0.Attestation {
	out := make([]*phase0.Attestation, size)
	for i := range out {
		out[i] = &phase0.Attestation{AggregationBits: bitfield.NewBitlist(4), Data: c07AttData('A')}
	}
	if size > 0 {
		c08FirstAtt = out[0]
	}
	return out
}

func mkAggs(size int) []*phase0.SignedAggregateAndProof {
	out := make([]*phase0.SignedAggregateAndProof, size)
	for i := range out {
		out[i] = &phase0.SignedAggregateAndProof{Message: &phase0.AggregateAndProof{AggregatorIndex: phase0.ValidatorIndex(i), Aggregate: mkAtts(1)[0]}}
	}
	return out
}

func mkContribs(size int) []*altair.SignedContributionAndProof {
	out := make([]*altair.SignedContributionAndProof, size)
	for i := range out {
		out[i] = &altair.SignedContributionAndProof{Message: &altair.ContributionAndProof{AggregatorIndex: phase0.ValidatorIndex(i),
			Contribution: &altair.SyncCommitteeContribution{Slot: c07Slot, AggregationBits: bitfield.NewBitvector128()}}}
	}
	return out
}

func mkProposal() *api.VersionedSignedProposal {
	return &api.VersionedSignedProposal{Version: spec.DataVersionBellatrix, Bellatrix: &bellatrix.SignedBeaconBlock{Message: &bellatrix.BeaconBlock{Slot: c07Slot,
		Body: &bellatrix.BeaconBlockBody{ETH1Data: &phase0.ETH1Data{BlockHash: make([]byte, 32)}, SyncAggregate: &altair.SyncAggregate{SyncCommitteeBits: bitfield.NewBitvector512()},
			ExecutionPayload: &bellatrix.ExecutionPayload{}}}}}
}

func c08Kinds() []c08Kind {
	att := append(append([]c08Beh{}, c08Basic...),
		c08Beh{name: "lh-known", client: "Lighthouse", errText: "POST failed with status 400: {\"code\":400,\"message\":\"BAD_REQUEST: PriorAttestationKnown\"}", tolerated: true},
		c08Beh{name: "lh-behind", client: "Lighthouse", errText: "POST failed with status 400: UnknownHeadBlock 0x1234", tolerated: true},
		c08Beh{name: "nimbus-target", client: "Nimbus", errText: "POST failed with status 400: Attempt to send attestation for unknown target", tolerated: true},
		c08Beh{name: "teku-known", client: "teku", errText: "POST failed with status 400: PriorAttestationKnown"},
		// the texts tolerated from one client are plain rejections from another
		c08Beh{name: "teku-target", client: "teku", errText: "POST failed with status 400: Attempt to send attestation for unknown target"},
		c08Beh{name: "nimbus-behind", client: "Nimbus", errText: "POST failed with status 400: UnknownHeadBlock 0x1234"},
		// one answer that lists a tolerated and a genuine failure (the node took neither attestation, one of them for
		// good), and one that lists two tolerated ones
		c08Beh{name: "lh-known+invalid", client: "Lighthouse", errText: `POST failed with status 400: {"code":400,"message":"BAD_REQUEST: error processing attestations","failures":[{"index":0,"message":"PriorAttestationKnown"},{"index":1,"message":"InvalidSignature"}]}`},
		c08Beh{name: "lh-known+behind", client: "Lighthouse", errText: `POST failed with status 400: {"code":400,"message":"BAD_REQUEST: error processing attestations","failures":[{"index":0,"message":"PriorAttestationKnown"},{"index":1,"message":"UnknownHeadBlock 0x1234"}]}`, tolerated: true},
		// the chunk with the payload's first attestation meets a server error, the other chunks a tolerated rejection: the
		// node has not taken the payload
		c08Beh{name: "lh-chunks-differ", client: "Lighthouse", firstChunkErr: "POST failed with status 500: internal error",
			errText: "POST failed with status 400: {\"code\":400,\"message\":\"BAD_REQUEST: PriorAttestationKnown\"}"},
	)
	msgs := append(append([]c08Beh{}, c08Basic...),
		c08Beh{name: "lh-alldup", client: "Lighthouse", errText: lhPrefix + lhDupMsg, tolerated: true},
		c08Beh{name: "lh-onereal", client: "Lighthouse", errText: lhPrefix + lhRealMsg},
		c08Beh{name: "lh-realfirst", client: "Lighthouse", errText: lhPrefix + lhRealFirst},
		c08Beh{name: "teku-realfirst", client: "teku", errText: lhPrefix + tekuRealFirst},
		c08Beh{name: "lh-nofailures", client: "Lighthouse", errText: lhPrefix + lhNoFail},
		c08Beh{name: "lh-nullfailure", client: "Lighthouse", errText: lhPrefix + lhNullFail},
		c08Beh{name: "lh-notjson", client: "Lighthouse", errText: "dial tcp: connect {refused"},
		c08Beh{name: "teku-alldup", client: "teku", errText: lhPrefix + tekuDupMsg, tolerated: true},
		c08Beh{name: "teku-onereal", client: "teku", errText: lhPrefix + tekuReal},
		c08Beh{name: "teku-nofailures", client: "teku", errText: lhPrefix + tekuNoFail},
		c08Beh{name: "nimbus-lhdup", client: "Nimbus", errText: lhPrefix + lhDupMsg},
	)
	contribs := append(append([]c08Beh{}, c08Basic...),
		c08Beh{name: "lh-allknown", client: "Lighthouse", errText: lhPrefix + lhAggKnown, tolerated: true},
		c08Beh{name: "lh-onereal", client: "Lighthouse", errText: lhPrefix + lhAggReal},
		c08Beh{name: "lh-nofailures", client: "Lighthouse", errText: lhPrefix + lhNoFail},
		c08Beh{name: "lh-nullfailure", client: "Lighthouse", errText: lhPrefix + lhNullFail},
		c08Beh{name: "teku-allknown", client: "teku", errText: lhPrefix + lhAggKnown},
	)
	return []c08Kind{
		{name: "attestations", behs: att, scatter: true,
			multi: func(s *multinode.Service, ctx context.Context, size int) ([]any, error) {
				p := mkAtts(size)
				return anys(p), s.SubmitAttestations(ctx, p)
			},
			imm: func(n *c08Node, ctx context.Context, size int) ([]any, error) {
				p := mkAtts(size)
				return anys(p), immSvc(n).SubmitAttestations(ctx, p)
			}},
		{name: "proposal", behs: c08Basic,
			multi: func(s *multinode.Service, ctx context.Context, _ int) ([]any, error) {
				p := mkProposal()
				return []any{p}, s.SubmitProposal(ctx, p)
			},
			imm: func(n *c08Node, ctx context.Context, _ int) ([]any, error) {
				p := mkProposal()
				return []any{p}, immSvc(n).SubmitProposal(ctx, p)
			}},
		{name: "aggregates", behs: c08Basic,
			multi: func(s *multinode.Service, ctx context.Context, size int) ([]any, error) {
				p := mkAggs(size)
				return anys(p), s.SubmitAggregateAttestations(ctx, p)
			},
			imm: func(n *c08Node, ctx context.Context, size int) ([]any, error) {
				p := mkAggs(size)
				return anys(p), immSvc(n).SubmitAggregateAttestations(ctx, p)
			}},
		{name: "preparations", behs: c08Basic,
			multi: func(s *multinode.Service, ctx context.Context, size int) ([]any, error) {
				p := mk[apiv1.ProposalPreparation](size)
				return anys(p), s.SubmitProposalPreparations(ctx, p)
			},
			imm: func(n *c08Node, ctx context.Context, size int) ([]any, error) {
				p := mk[apiv1.ProposalPreparation](size)
				return anys(p), immSvc(n).SubmitProposalPreparations(ctx, p)
			}},
		{name: "beaconsubscriptions", behs: c08Basic,
			multi: func(s *multinode.Service, ctx context.Context, size int) ([]any, error) {
				p := mk[apiv1.BeaconCommitteeSubscription](size)
				return anys(p), s.SubmitBeaconCommitteeSubscriptions(ctx, p)
			},
			imm: func(n *c08Node, ctx context.Context, size int) ([]any, error) {
				p := mk[apiv1.BeaconCommitteeSubscription](size)
				return anys(p), immSvc(n).SubmitBeaconCommitteeSubscriptions(ctx, p)
			}},
		{name: "syncmessages", behs: msgs,
			multi: func(s *multinode.Service, ctx context.Context, size int) ([]any, error) {
				p := mk[altair.SyncCommitteeMessage](size)
				return anys(p), s.SubmitSyncCommitteeMessages(ctx, p)
			},
			imm: func(n *c08Node, ctx context.Context, size int) ([]any, error) {
				p := mk[altair.SyncCommitteeMessage](size)
				return anys(p), immSvc(n).SubmitSyncCommitteeMessages(ctx, p)
			}},
		{name: "syncsubscriptions", behs: c08Basic,
			multi: func(s *multinode.Service, ctx context.Context, size int) ([]any, error) {
				p := mk[apiv1.SyncCommitteeSubscription](size)
				return anys(p), s.SubmitSyncCommitteeSubscriptions(ctx, p)
			},
			imm: func(n *c08Node, ctx context.Context, size int) ([]any, error) {
				p := mk[apiv1.SyncCommitteeSubscription](size)
				return anys(p), immSvc(n).SubmitSyncCommitteeSubscriptions(ctx, p)
			}},
		{name: "synccontributions", behs: contribs,
			multi: func(s *multinode.Service, ctx context.Context, size int) ([]any, error) {
				p := mkContribs(size)
				return anys(p), s.SubmitSyncCommitteeContributions(ctx, p)
			},
			imm: func(n *c08Node, ctx context.Context, size int) ([]any, error) {
				p := mkContribs(size)
				return anys(p), immSvc(n).SubmitSyncCommitteeContributions(ctx, p)
			}},
	}
}

type c08State struct {
	nodes   []*c08Node
	payload []any
	conc    int
	size    int
	err     error
	t1      int64
	done    bool
	// scatter clause
	scOK   bool
	scDesc string
	only   bool // nodes beyond the first are configured for the kind under test only
}

func multiSvc(nodes []*c08Node, conc int) *multinode.Service { return multiSvcFor(nodes, conc, "") }

// multiSvcFor builds the multinode submitter.  With only != "" the nodes beyond the first are configured for
// that submission kind alone (vouch's configuration lists beacon nodes per kind; the lists may differ).
func multiSvcFor(nodes []*c08Node, conc int, only string) *multinode.Service {
	ps := map[string]eth2client.ProposalSubmitter{}
	as := map[string]eth2client.AttestationsSubmitter{}
	gs := map[string]eth2client.AggregateAttestationsSubmitter{}
	pp := map[string]eth2client.ProposalPreparationsSubmitter{}
	bs := map[string]eth2client.BeaconCommitteeSubscriptionsSubmitter{}
	sm := map[string]eth2client.SyncCommitteeMessagesSubmitter{}
	ss := map[string]eth2client.SyncCommitteeSubscriptionsSubmitter{}
	sc := map[string]eth2client.SyncCommitteeContributionsSubmitter{}
	for i, n := range nodes {
		n.idx = i
		k := fmt.Sprintf("n%d", i)
		all := only == "" || i == 0
		if all || only == "proposal" {
			ps[k] = n
		}
		if all || only == "attestations" {
			as[k] = n
		}
		if all || only == "aggregates" {
			gs[k] = n
		}
		if all || only == "preparations" {
			pp[k] = n
		}
		if all || only == "beaconsubscriptions" {
			bs[k] = n
		}
		if all || only == "syncmessages" {
			sm[k] = n
		}
		if all || only == "syncsubscriptions" {
			ss[k] = n
		}
		if all || only == "synccontributions" {
			sc[k] = n
		}
	}
	s, err := multinode.New(context.Background(), multinode.WithLogLevel(zerolog.Disabled), multinode.WithClientMonitor(&nullmetrics.Service{}),
		multinode.WithTimeout(c08Timeout), multinode.WithProcessConcurrency(int64(conc)),
		multinode.WithProposalSubmitters(ps), multinode.WithAttestationsSubmitters(as), multinode.WithAggregateAttestationsSubmitters(gs),
		multinode.WithProposalPreparationsSubmitters(pp), multinode.WithBeaconCommitteeSubscriptionsSubmitters(bs), multinode.WithSyncCommitteeMessagesSubmitters(sm),
		multinode.WithSyncCommitteeSubscriptionsSubmitters(ss), multinode.WithSyncCommitteeContributionsSubmitters(sc))
	must(err)
	return s
}

func c08Units(tier string) []hx.Unit {
	var units []hx.Unit
	kinds := c08Kinds()
	for ki := range kinds {
		k := kinds[ki]
		maxN := 3
		for n := 1; n <= maxN; n++ {
			for b0 := range k.behs {
				// thorough, two nodes: one unit per pair of behaviours (the schedule bound of 2 makes a unit that
				// ranges over the second node's behaviour a quarter of an hour's work for one worker)
				b1s := []int{-1}
				if tier == "thorough" && n == 2 {
					b1s = b1s[:0]
					for b1 := range k.behs {
						b1s = append(b1s, b1)
					}
				}
				for _, b1 := range b1s {
					n, b0, b1 := n, b0, b1
					st := &c08State{}
					name := fmt.Sprintf("C08/multinode/%s/n%d/%s", k.name, n, k.behs[b0].name)
					if b1 >= 0 {
						name += "+" + k.behs[b1].name
					}
					u := hx.Unit{Name: name, Cfg: mc.Config{Deviation: true, Horizon: int64(30 * time.Second)}}
					switch {
					case tier == "thorough" && n <= 2:
						u.Bound = 2
					case n <= 2:
						u.Bound = 1
					default:
						u.Bound = 0
					}
					u.Body = func() {
						*st = c08State{}
						lats := len(c08Lats)
						st.nodes = append(st.nodes, &c08Node{beh: k.behs[b0], lat: mc.Choose(lats)})
						for i := 1; i < n; i++ {
							beh := b1
							if beh < 0 {
								beh = mc.Choose(len(k.behs))
							}
							st.nodes = append(st.nodes, &c08Node{beh: k.behs[beh], lat: mc.Choose(lats)})
						}
						st.size = []int{1, 3}[mc.Choose(2)]
						if k.name == "proposal" {
							st.size = 1
						}
						st.conc = []int{1, 2, 4}[mc.Choose(3)]
						// the later nodes are configured for every kind, or for this kind only
						only := ""
						if n == 2 && mc.Choose(2) == 1 {
							only = k.name
						}
						st.only = only != ""
						svc := multiSvcFor(st.nodes, st.conc, only)
						t0 := mc.Now()
						st.payload, st.err = k.multi(svc, context.Background(), st.size)
						st.t1 = mc.Now() - t0
						st.done = true
					}
					u.Check = func(r *mc.Result) mc.Verdict { return c08Check(&k, st, r) }
					units = append(units, u)
				}
			}
		}
		// immediate submitter: one node, the result is the node's
		{
			st := &c08State{}
			u := hx.Unit{Name: "C08/immediate/" + k.name, Cfg: mc.Config{Fixed: true, Horizon: int64(30 * time.Second)}}
			u.Body = func() {
				*st = c08State{}
				nd := &c08Node{beh: c08Basic[mc.Choose(2)], lat: mc.Choose(2)}
				st.nodes = []*c08Node{nd}
				st.size = 1 + mc.Choose(3)
				st.payload, st.err = k.imm(nd, context.Background(), st.size)
				st.done = true
			}
			u.Check = func(r *mc.Result) mc.Verdict {
				v := mc.Verdict{Outcome: fmt.Sprintf("immediate err=%v", st.err != nil), Nontrivial: true}
				nd := st.nodes[0]
				v.Sample = fmt.Sprintf("immediate %s node=%s size=%d -> err=%v", k.name, nd.beh.name, st.size, st.err != nil)
				if r.Panic != "" {
					v.Violation, v.Key = "panic: "+firstLine(r.Panic), "C08/immediate/panic"
				} else if !st.done {
					v.Violation, v.Key = "immediate submit never returned", "C08/immediate/never-returned"
				} else if (st.err == nil) != (nd.beh.errText == "") {
					v.Violation, v.Key = v.Sample+": result differs from the node's answer", "C08/immediate/"+k.name+"/result-differs"
				} else if !sameMultiset(nd.got, st.payload) {
					v.Violation, v.Key = v.Sample+": node did not receive the payload exactly once", "C08/immediate/"+k.name+"/payload"
				}
				return v
			}
			units = append(units, u)
		}
	}
	// histories: two (thorough three) submissions through one service instance to one node whose version
	// endpoint may be down at the time of either: what a submission reports depends on the node's answer
	// to it and on what the node says it is then, not on an earlier submission
	for ki := range kinds {
		k := kinds[ki]
		var tol *c08Beh
		for i := range k.behs {
			if k.behs[i].tolerated && tol == nil {
				tol = &k.behs[i]
			}
		}
		if tol == nil {
			continue
		}
		steps := 2
		if tier == "thorough" {
			steps = 3
		}
		type hstep struct {
			down bool
			beh  c08Beh
			err  error
		}
		var hist []hstep
		doneH := false
		u := hx.Unit{Name: "C08/history/" + k.name, Cfg: mc.Config{Fixed: true, Horizon: int64(60 * time.Second)}}
		u.Body = func() {
			hist, doneH = nil, false
			nd := &c08Node{}
			svc := multiSvc([]*c08Node{nd}, 2)
			behs := []c08Beh{c08Basic[0], *tol, c08Basic[1]}
			for i := 0; i < steps; i++ {
				h := hstep{down: mc.Choose(2) == 1, beh: behs[mc.Choose(len(behs))]}
				nd.versionDown, nd.beh = h.down, h.beh
				_, h.err = k.multi(svc, context.Background(), 2)
				hist = append(hist, h)
			}
			doneH = true
		}
		u.Check = func(r *mc.Result) mc.Verdict {
			var d []string
			for _, h := range hist {
				ver := "version-up"
				if h.down {
					ver = "version-down"
				}
				d = append(d, fmt.Sprintf("%s/%s->err=%v", h.beh.name, ver, h.err != nil))
			}
			v := mc.Verdict{Outcome: "history " + strings.Join(d, " "), Nontrivial: true}
			v.Sample = k.name + " submissions to one node through one service: " + strings.Join(d, ", then ")
			switch {
			case r.Panic != "":
				v.Violation, v.Key = v.Sample+": panic: "+firstLine(r.Panic), "C08/"+k.name+"/panic"
			case !doneH:
				v.Violation, v.Key = v.Sample+": a submission never returned", "C08/"+k.name+"/never-returned"
			}
			for i, h := range hist {
				if v.Violation != "" {
					break
				}
				switch {
				case h.beh.errText == "" && h.err != nil:
					v.Violation, v.Key = fmt.Sprintf("%s: submission %d was accepted by the node but reported as failed", v.Sample, i+1), "C08/"+k.name+"/failure-despite-acceptance"
				case h.beh.errText != "" && !h.beh.tolerated && h.err == nil:
					v.Violation, v.Key = fmt.Sprintf("%s: submission %d was rejected by the node but reported as successful", v.Sample, i+1), "C08/"+k.name+"/success-without-acceptance"
				case h.beh.tolerated && !h.down && h.err != nil:
					// with the version endpoint down the client cannot be identified and either report is admissible
					v.Violation, v.Key = fmt.Sprintf("%s: submission %d was rejected only for a reason tolerated from %s, which the node reported itself to be, but was reported as failed", v.Sample, i+1, h.beh.client), "C08/"+k.name+"/tolerated-rejection-reported-as-failure"
				}
			}
			return v
		}
		units = append(units, u)
	}
	// histories with a node that never answers: three submissions in a row through one service instance to a
	// hanging node and a healthy one (concurrency = number of nodes): each of them reaches the healthy node
	// and succeeds — what an earlier submission left outstanding must not starve a later one
	for ki := range kinds {
		k := kinds[ki]
		var errs []error
		var got []int
		doneH := false
		nSub := 3
		u := hx.Unit{Name: "C08/history-hanging-node/" + k.name, Cfg: mc.Config{Fixed: true, Horizon: int64(120 * time.Second)}}
		u.Body = func() {
			errs, got, doneH = nil, nil, false
			hang := &c08Node{beh: c08Basic[0], lat: len(c08Lats) - 1}
			ok := &c08Node{beh: c08Basic[0]}
			nodes := []*c08Node{hang, ok}
			if mc.Choose(2) == 1 {
				nodes = []*c08Node{ok, hang}
			}
			svc := multiSvc(nodes, 2)
			for i := 0; i < nSub; i++ {
				before := len(ok.got)
				_, err := k.multi(svc, context.Background(), 1)
				errs = append(errs, err)
				mc.Sleep(int64(time.Second))
				got = append(got, len(ok.got)-before)
			}
			doneH = true
		}
		u.Check = func(r *mc.Result) mc.Verdict {
			var d []string
			for i := range errs {
				d = append(d, fmt.Sprintf("err=%v/delivered=%d", errs[i] != nil, got[i]))
			}
			v := mc.Verdict{Outcome: "hanging-node history " + strings.Join(d, " "), Nontrivial: true, Sample: k.name + ": submissions through one service to a hanging and a healthy node: " + strings.Join(d, ", then ")}
			switch {
			case r.Panic != "":
				v.Violation, v.Key = v.Sample+": panic: "+firstLine(r.Panic), "C08/"+k.name+"/panic"
			case !doneH:
				v.Violation, v.Key = v.Sample+": a submission never returned", "C08/"+k.name+"/never-returned"
			}
			for i := range errs {
				if v.Violation != "" {
					break
				}
				if got[i] != 1 {
					v.Violation, v.Key = fmt.Sprintf("%s: submission %d reached the healthy node %d times", v.Sample, i+1, got[i]), "C08/"+k.name+"/payload-not-delivered-exactly-once"
				} else if errs[i] != nil {
					v.Violation, v.Key = fmt.Sprintf("%s: submission %d was accepted by the healthy node but reported as failed", v.Sample, i+1), "C08/"+k.name+"/failure-despite-acceptance"
				}
			}
			return v
		}
		units = append(units, u)
	}
	// Scatter: extents cover the input exactly once, for every (items, concurrency)
	{
		st := &c08State{}
		u := hx.Unit{Name: "C08/scatter/partition", Cfg: mc.Config{Fixed: true}}
		maxItems, maxConc := 24, 6
		if tier == "thorough" {
			maxItems, maxConc = 40, 8
		}
		u.Body = func() {
			*st = c08State{scOK: true}
			items := 1 + mc.Choose(maxItems)
			conc := 1 + mc.Choose(maxConc)
			cover := make([]int, items)
			var mu msync.Mutex
			_, err := util.Scatter(items, conc, func(off, n int, _ *msync.RWMutex) (interface{}, error) {
				mu.Lock()
				for i := off; i < off+n; i++ {
					if i >= 0 && i < items {
						cover[i]++
					} else {
						st.scOK = false
					}
				}
				mu.Unlock()
				return nil, nil
			})
			st.scDesc = fmt.Sprintf("items=%d concurrency=%d", items, conc)
			if err != nil {
				st.scOK = false
			}
			for _, c := range cover {
				if c != 1 {
					st.scOK = false
				}
			}
			st.done = true
		}
		u.Check = func(r *mc.Result) mc.Verdict {
			v := mc.Verdict{Outcome: "scatter", Nontrivial: true, Sample: st.scDesc}
			if r.Panic != "" {
				v.Violation, v.Key = st.scDesc+": panic: "+firstLine(r.Panic), "C08/scatter/panic"
			} else if !st.done || !st.scOK {
				v.Violation, v.Key = st.scDesc+": extents do not cover the input exactly once", "C08/scatter/partition"
			}
			return v
		}
		units = append(units, u)
	}
	// the caller gives up: its context is cancelled half a second or one and a half seconds into the submission
	// (two nodes, accepting or rejecting, answering at once / after 1, 2, 3 s / never).  The call still returns no
	// later than the timeout, reports success only if a node accepted, and reports it if one had accepted before
	// the caller gave up.
	for ki := range kinds {
		k := kinds[ki]
		st := &c08State{}
		var cancelAt int64
		u := hx.Unit{Name: "C08/caller-cancels/" + k.name, Cfg: mc.Config{Deviation: true, Horizon: int64(30 * time.Second)}, Bound: 1}
		if tier == "thorough" {
			u.Bound = 2
		}
		u.Body = func() {
			*st = c08State{}
			for i := 0; i < 2; i++ {
				st.nodes = append(st.nodes, &c08Node{idx: i, beh: c08Basic[mc.Choose(2)], lat: mc.Choose(len(c08Lats))})
			}
			st.size, st.conc = 1, 2
			cancelAt = []int64{int64(500 * time.Millisecond), int64(1500 * time.Millisecond)}[mc.Choose(2)]
			svc := multiSvcFor(st.nodes, st.conc, "")
			ctx, cancel := mcontext.WithCancel(context.Background())
			defer cancel()
			t0 := mc.Now()
			mc.Go(func() {
				mc.Sleep(cancelAt)
				cancel()
			})
			st.payload, st.err = k.multi(svc, ctx, st.size)
			st.t1 = mc.Now() - t0
			st.done = true
		}
		u.Check = func(r *mc.Result) mc.Verdict {
			var d []string
			accepted, acceptedEarly := false, false
			for _, n := range st.nodes {
				lat := "never"
				if c08Lats[n.lat] >= 0 {
					lat = fmt.Sprintf("%ds", c08Lats[n.lat])
				}
				d = append(d, n.beh.name+"@"+lat)
				if n.beh.errText == "" && len(n.endAt) > 0 {
					accepted = true
					if n.endAt[0] < cancelAt && n.endAt[0] <= int64(c08Timeout) {
						acceptedEarly = true
					}
				}
			}
			v := mc.Verdict{Outcome: fmt.Sprintf("caller-cancels err=%v accepted=%v", st.err != nil, accepted), Nontrivial: true,
				Sample: fmt.Sprintf("%s to nodes [%s], caller gives up after %v: returned=%v after %v err=%v", k.name, strings.Join(d, " "), time.Duration(cancelAt), st.done, time.Duration(st.t1), st.err)}
			switch {
			case r.Panic != "":
				v.Violation, v.Key = v.Sample+": panic: "+firstLine(r.Panic), "C08/"+k.name+"/panic"
			case !st.done:
				v.Violation, v.Key = v.Sample+": the submission never returned", "C08/"+k.name+"/never-returned"
			case st.t1 > int64(c08Timeout):
				v.Violation, v.Key = v.Sample+": returned after the timeout", "C08/"+k.name+"/late-return"
			case st.err == nil && !accepted:
				v.Violation, v.Key = v.Sample+": success reported although no node accepted", "C08/"+k.name+"/success-without-acceptance"
			case st.err != nil && acceptedEarly:
				v.Violation, v.Key = v.Sample+": failure reported although a node had accepted before the caller gave up", "C08/"+k.name+"/failure-despite-acceptance"
			}
			return v
		}
		units = append(units, u)
	}
	return units
}

func sameMultiset(a, b []any) bool {
	if len(a) != len(b) {
		return false
	}
	cnt := map[any]int{}
	for _, x := range a {
		cnt[x]++
	}
	for _, x := range b {
		cnt[x]--
	}
	for _, c := range cnt {
		if c != 0 {
			return false
		}
	}
	return true
}

func c08Check(k *c08Kind, st *c08State, r *mc.Result) mc.Verdict {
	var desc []string
	for _, n := range st.nodes {
		desc = append(desc, fmt.Sprintf("%s@%d", n.beh.name, c08Lats[n.lat]))
	}
	v := mc.Verdict{}
	v.Outcome = fmt.Sprintf("err=%v@%d", st.err != nil, st.t1/int64(time.Second))
	cfg := ""
	if st.only {
		cfg = " (later nodes for this kind only)"
	}
	v.Sample = fmt.Sprintf("%s nodes=[%s]%s size=%d concurrency=%d -> %s", k.name, strings.Join(desc, " "), cfg, st.size, st.conc, v.Outcome)
	v.Nontrivial = len(st.nodes) > 1 || r.Touched > 0
	fail := func(key, msg string) mc.Verdict {
		v.Violation = v.Sample + ": " + msg
		v.Key = "C08/" + k.name + "/" + key
		return v
	}
	if r.Panic != "" {
		return fail("panic", "panic: "+firstLine(r.Panic))
	}
	if !st.done {
		return fail("never-returned", "the submission call never returned")
	}
	timeout := int64(c08Timeout)
	if st.t1 > timeout {
		return fail("returned-after-timeout", "returned later than the timeout")
	}
	enough := st.conc >= len(st.nodes) // the proviso of the statement
	// would-be instant at which node i has answered all its calls (calls of one node run in parallel chunks)
	okStrict, okBoundary := false, false
	hang := false
	for _, n := range st.nodes {
		l := c08Lats[n.lat]
		if l < 0 {
			hang = true
			continue
		}
		good := n.beh.errText == "" || n.beh.tolerated
		at := int64(l) * int64(time.Second)
		if good && at < timeout {
			okStrict = true
		}
		if good && at == timeout {
			okBoundary = true
		}
	}
	if st.err == nil && !(okStrict || okBoundary) {
		return fail("success-without-acceptance", "reported success although no node accepted or tolerably rejected within the timeout")
	}
	if st.err != nil && okStrict && enough {
		return fail("failure-despite-acceptance", "reported failure although a node accepted (or tolerably rejected) within the timeout")
	}
	// delivery: every node that is not starved by the semaphore proviso received the payload exactly once
	serial := int64(0)
	for _, n := range st.nodes {
		if l := c08Lats[n.lat]; l > 0 {
			serial += int64(l) * int64(time.Second)
		}
	}
	if enough || !hang {
		for i, n := range st.nodes {
			if c08Lats[n.lat] < 0 {
				if enough && n.calls == 0 {
					return fail("node-not-offered", fmt.Sprintf("node %d was never offered the submission", i))
				}
				continue
			}
			// a node that would answer only at or after the timeout may have had its request abandoned by
			// then (it was offered the submission); one that answers before the timeout must have received
			// everything, whatever the other nodes did and however early the call returned
			at := int64(c08Lats[n.lat]) * int64(time.Second)
			if !enough {
				// with fewer slots than nodes a request may have to queue behind the others
				at = serial
			}
			if at >= timeout {
				if n.calls == 0 {
					return fail("node-not-offered", fmt.Sprintf("node %d was never offered the submission", i))
				}
				if len(n.got) > 0 && !sameMultiset(n.got, st.payload) {
					return fail("payload-not-delivered-exactly-once", fmt.Sprintf("node %d received %d of %d payload elements", i, len(n.got), len(st.payload)))
				}
				continue
			}
			if !sameMultiset(n.got, st.payload) {
				return fail("payload-not-delivered-exactly-once", fmt.Sprintf("node %d received %d of %d payload elements (%d requests abandoned on a cancelled context)", i, len(n.got), len(st.payload), n.aborted))
			}
		}
	}
	return v
}

func init() {
	hx.Register(&hx.Prop{
		ID:    "C08",
		Title: "A submission reaches every configured node and succeeds iff one accepts",
		Rule: "for each of the 8 submission kinds of the multinode submitter and n = 1..2 (thorough 3) scripted nodes: every assignment of behaviour (accept, reject, each client-specific tolerated rejection, error JSON with one real failure (after or before a tolerated one) / without failure list / with a null failure / non-JSON) x latency (0, <timeout, =timeout, >timeout, hang) per node x payload size {1,3} x process concurrency {1,2,4} x later nodes configured for every kind / for this kind only, explored with deviation-bounded schedules (n <= 2: one deviation, thorough two; n = 3: the default schedule with every select tie, in both tiers - one deviation there is 6.7 M executions per unit and did not finish in 40 minutes); plus, for the kinds with tolerated rejections, every history of 2 (thorough 3) submissions through one service instance to a node whose version endpoint is up or down and which accepts, rejects tolerably or rejects; plus, per kind, three submissions in a row through one service to a hanging and a healthy node; plus the immediate submitter per kind and util.Scatter for all (items<=24, concurrency<=6); " +
			"non-trivial = more than one node or a contended scheduling point; distinct = distinct (result, return second) outcomes",
		Assumptions: []string{
			"the set of rejections vouch deliberately tolerates is the one in the code's client/kind table (lighthouse known/behind, nimbus unknown target, lighthouse/teku all-duplicate failures)",
			"a node's calls for chunks of one payload all behave alike; nodes abandon a request when its context is cancelled, as an HTTP client does",
			"acceptance exactly on the timeout instant is admitted both ways; with concurrency below the number of nodes only the 'success implies acceptance' direction is required",
		},
		Units:         c08Units,
		MinNontrivial: 500,
	})
}
