package props

import (
	"context"
	"fmt"
	"strings"
	"time"

	"verifharness/hx"

	eth2client "github.com/attestantio/go-eth2-client"
	"github.com/attestantio/go-eth2-client/api"
	"github.com/attestantio/go-eth2-client/spec/phase0"
	nullmetrics "github.com/attestantio/vouch/services/metrics/null"
	adbest "github.com/attestantio/vouch/strategies/attestationdata/best"
	adfirst "github.com/attestantio/vouch/strategies/attestationdata/first"
	admajority "github.com/attestantio/vouch/strategies/attestationdata/majority"
	"github.com/attestantio/vouch/verifmc/mc"
	"github.com/attestantio/vouch/verifmc/mtime"
	"github.com/rs/zerolog"
)

// C01: a validator never attests twice in an epoch, and only for its duty epoch.
//
// The real attester (real New; in the thorough tier also stacked on the real attestationdata strategies
// first / best / majority over two scripted beacon nodes).  A history is a sequence of up to three Attest
// calls ("runs"); each run either starts after everything before it has returned or is started as a
// goroutine at the same virtual instant as its predecessor (all interleavings within the preemption
// bound).  A run is (slot, validators of the duty); what the beacon node(s) return, what the signer
// does and whether submission works is chosen where the run reaches that seam, so only reachable
// combinations are enumerated.
//
// Discipline (the histories stay inside the quantifier): a run for epoch x is never started after a run
// for an epoch >= x+2 has completed, and runs started at the same instant are for epochs at most one
// apart (the controller starts a slot's job inside that slot; a run marks its validators as its first
// action, so two runs can only overlap if they were started less than an epoch apart).

const (
	c01Good = iota
	c01WrongSlot
	c01SrcAboveTgt
	c01TgtAbove
	c01TgtBelow
	c01FetchErr
)

var c01DataNames = []string{"good", "wrongslot", "src>tgt", "tgt>epoch", "tgt<epoch", "fetcherr"}

const (
	c01SignAll = iota
	c01SignErr
	c01SignZeroOne
)

var c01SignNames = []string{"signs", "signerr", "zero-for-one"}

const (
	c01SubOK = iota
	c01SubErr
)

var c01SubNames = []string{"submitted", "submiterr"}

// c01Data builds the attestation data of a kind for a slot.  Roots depend on (kind, slot) only, so two
// nodes returning the same kind agree.
func c01Data(kind int, slot phase0.Slot, ci phase0.CommitteeIndex) *phase0.AttestationData {
	ep := attEpoch(slot)
	d := &phase0.AttestationData{Slot: slot, Index: ci, BeaconBlockRoot: root(byte(0x10*(kind+1)) + byte(slot)),
		Source: &phase0.Checkpoint{Epoch: ep - 1, Root: root(byte(0x80 + ep - 1))},
		Target: &phase0.Checkpoint{Epoch: ep, Root: root(byte(0x80 + ep))}}
	switch kind {
	case c01WrongSlot:
		d.Slot = slot ^ 1 // the other slot of the same epoch
	case c01SrcAboveTgt:
		d.Source.Epoch = ep + 1
	case c01TgtAbove:
		d.Target.Epoch = ep + 1
		d.Source.Epoch = ep
	case c01TgtBelow:
		d.Target.Epoch = ep - 1
		d.Target.Root = root(byte(0x80 + ep - 1))
		d.Source.Epoch = ep - 1
	}
	return d
}

// c01Defect classifies attestation values against clause (b) for a duty slot.
func c01Defect(dutySlot, slot phase0.Slot, src, tgt phase0.Epoch) string {
	ep := attEpoch(dutySlot)
	switch {
	case slot != dutySlot:
		return "wrong-slot"
	case tgt < ep:
		return "target-below-duty-epoch"
	case tgt > ep:
		return "target-above-duty-epoch"
	case src > tgt:
		return "source-above-target"
	}
	return ""
}

func c01Key(defect string) string {
	if defect == "source-above-target" {
		return "signed-source-above-target"
	}
	return "signed-with-" + defect
}

type c01Class struct {
	name      string
	conc      []bool // conc[i]: run i is started at the same instant as run i-1 (conc[0] is false); len = number of runs
	slots     []phase0.Slot
	vals      [][]phase0.ValidatorIndex // alphabet of the runs after the first
	first     [][]phase0.ValidatorIndex // alphabet of the first run (canonical up to renaming of validators)
	dataKinds []int
	signKinds []int
	subKinds  []int
	strategy  string     // "", "first", "best", "majority"
	lats      [][2]int64 // latency pairs of the two nodes (strategy only)
	bound     int
	split     int  // number of leading runs fixed per unit (default 1)
	deviation bool // deviation cost (every non-default scheduling choice costs 1) instead of preemption cost
}

type c01Run struct {
	slot     phase0.Slot
	vals     []phase0.ValidatorIndex
	group    int
	lat      int   // index into class.lats, -1 = not chosen yet
	nodeKind []int // what each node returned (strategy), or [kind] of the scripted provider
	signKind int
	subKind  int
	started  bool
	done     bool
	err      error
	natts    int
}

type c01State struct {
	env    *attEnv
	runs   []*c01Run
	stuck  bool
	epochs string
}

func c01Strategy(name string, e *attEnv, nodes map[string]eth2client.AttestationDataProvider) eth2client.AttestationDataProvider {
	mon := &nullmetrics.Service{}
	bg := context.Background()
	const timeout = 4 * time.Second
	switch name {
	case "first":
		s, err := adfirst.New(bg, adfirst.WithLogLevel(zerolog.Disabled), adfirst.WithClientMonitor(mon), adfirst.WithTimeout(timeout),
			adfirst.WithAttestationDataProviders(nodes))
		must(err)
		return s
	case "best":
		s, err := adbest.New(bg, adbest.WithLogLevel(zerolog.Disabled), adbest.WithClientMonitor(mon), adbest.WithProcessConcurrency(2),
			adbest.WithTimeout(timeout), adbest.WithChainTime(e.ct), adbest.WithBlockRootToSlotCache(c01Cache{}),
			adbest.WithAttestationDataProviders(nodes))
		must(err)
		return s
	case "majority":
		s, err := admajority.New(bg, admajority.WithLogLevel(zerolog.Disabled), admajority.WithClientMonitor(mon), admajority.WithProcessConcurrency(2),
			admajority.WithTimeout(timeout), admajority.WithChainTime(e.ct), admajority.WithBlockRootToSlotCache(c01Cache{}),
			admajority.WithThreshold(1), admajority.WithAttestationDataProviders(nodes))
		must(err)
		return s
	}
	panic("unknown strategy " + name)
}

// c01Cache: the head block of every returned data is the block of the slot before.
type c01Cache struct{}

func (c01Cache) BlockRootToSlot(_ context.Context, r phase0.Root) (phase0.Slot, error) {
	s := phase0.Slot(r[0] & 0x0f)
	if s > 0 {
		s--
	}
	return s, nil
}

type c01Node struct {
	st  *c01State
	cl  *c01Class
	idx int
}

func (n *c01Node) AttestationData(ctx context.Context, opts *api.AttestationDataOpts) (*api.Response[*phase0.AttestationData], error) {
	run := attRunOf(ctx)
	if run < 0 || run >= len(n.st.runs) {
		panic("C01 harness: beacon node called without a run context")
	}
	r := n.st.runs[run]
	if r.lat < 0 {
		r.lat = mc.Choose(len(n.cl.lats))
	}
	kind := n.cl.dataKinds[mc.Choose(len(n.cl.dataKinds))]
	r.nodeKind[n.idx] = kind
	if lat := n.cl.lats[r.lat][n.idx]; lat > 0 {
		t := mtime.After(time.Duration(lat))
		if sel := mc.Select(false, mc.RecvCase(ctx.Done()), mc.RecvCase(t)); sel.Index == 0 {
			return nil, ctx.Err()
		}
	}
	if kind == c01FetchErr {
		return nil, errAttScripted
	}
	return &api.Response[*phase0.AttestationData]{Data: c01Data(kind, opts.Slot, opts.CommitteeIndex), Metadata: map[string]any{}}, nil
}

type c01Call struct {
	slot phase0.Slot
	vals []phase0.ValidatorIndex
}

// c01Groups numbers the groups of runs started at the same instant.
func c01Groups(conc []bool) []int {
	out := make([]int, len(conc))
	g := 0
	for i := range conc {
		if i > 0 && !conc[i] {
			g++
		}
		out[i] = g
	}
	return out
}

// c01Options lists the calls admissible as run i after the given earlier calls (the discipline).
func c01Options(cl *c01Class, prev []c01Call, groups []int, i int) []c01Call {
	var out []c01Call
	vals := cl.vals
	if i == 0 {
		vals = cl.first
	}
	for _, s := range cl.slots {
		ok := true
		for j, p := range prev {
			pe, se := attEpoch(p.slot), attEpoch(s)
			if groups[j] < groups[i] && pe >= se+2 {
				ok = false // would start after a run two or more epochs ahead has completed
			}
			if groups[j] == groups[i] && (pe > se+1 || se > pe+1) {
				ok = false // started at the same instant: at most one epoch apart
			}
		}
		if ok {
			for _, v := range vals {
				out = append(out, c01Call{s, v})
			}
		}
	}
	return out
}

// c01Prefixes enumerates the admissible choices of the first n runs (one unit each).
func c01Prefixes(cl *c01Class, n int) [][]c01Call {
	groups := c01Groups(cl.conc)
	out := [][]c01Call{nil}
	for i := 0; i < n && i < len(cl.conc); i++ {
		var next [][]c01Call
		for _, p := range out {
			for _, c := range c01Options(cl, p, groups, i) {
				next = append(next, append(append([]c01Call(nil), p...), c))
			}
		}
		out = next
	}
	return out
}

func c01Body(cl *c01Class, pre []c01Call, st *c01State) {
	*st = c01State{}
	env := newAttEnv(1, 2, 3)
	st.env = env
	var strategy eth2client.AttestationDataProvider
	if cl.strategy != "" {
		strategy = c01Strategy(cl.strategy, env, map[string]eth2client.AttestationDataProvider{
			"n0": &c01Node{st: st, cl: cl, idx: 0}, "n1": &c01Node{st: st, cl: cl, idx: 1}})
	}
	svc := newAttester(env, strategy)

	// ---- the history: (slot, validators) of every run, inside the discipline
	groups := c01Groups(cl.conc)
	g := groups[len(groups)-1]
	var calls []c01Call
	for i := range cl.conc {
		var c c01Call
		if i < len(pre) {
			c = pre[i]
		} else {
			opts := c01Options(cl, calls, groups, i)
			c = opts[mc.Choose(len(opts))]
		}
		calls = append(calls, c)
		st.runs = append(st.runs, &c01Run{slot: c.slot, vals: c.vals, group: groups[i], lat: -1, signKind: -1, subKind: -1, nodeKind: []int{-1, -1}})
	}

	// ---- the scripts: choices are made where a run reaches the seam
	env.dataFn = func(_ context.Context, run int, opts *api.AttestationDataOpts) (*phase0.AttestationData, error) {
		kind := cl.dataKinds[mc.Choose(len(cl.dataKinds))]
		st.runs[run].nodeKind[0] = kind
		if kind == c01FetchErr {
			return nil, errAttScripted
		}
		return c01Data(kind, opts.Slot, opts.CommitteeIndex), nil
	}
	env.signFn = func(run int, _ []phase0.ValidatorIndex) (bool, func(int) bool) {
		k := cl.signKinds[mc.Choose(len(cl.signKinds))]
		st.runs[run].signKind = k
		return k == c01SignErr, func(i int) bool { return k == c01SignZeroOne && i == 0 }
	}
	env.submitFn = func(run int, _ int) error {
		k := cl.subKinds[mc.Choose(len(cl.subKinds))]
		st.runs[run].subKind = k
		if k == c01SubErr {
			return errAttScripted
		}
		return nil
	}

	attest := func(i int) {
		r := st.runs[i]
		duty, err := c04Duty(r.slot, r.vals, c01Ref(r.vals), map[phase0.CommitteeIndex]uint64{0: 4, 1: 4}, false)
		must(err)
		r.started = true
		atts, err := svc.Attest(attCtx(i), duty)
		r.err, r.natts, r.done = err, len(atts), true
	}
	wait := int64(1)
	if cl.strategy != "" {
		wait = int64(10 * time.Second)
	}
	for gi := 0; gi <= g && !st.stuck; gi++ {
		var members []int
		for i, r := range st.runs {
			if r.group == gi {
				members = append(members, i)
			}
		}
		// not before the start of the earliest slot of the group, if that is still ahead
		first := st.runs[members[0]].slot
		for _, i := range members {
			if st.runs[i].slot < first {
				first = st.runs[i].slot
			}
		}
		if t := int64(attSlotDur) * int64(first); t > mc.Now() {
			mc.Sleep(t - mc.Now())
		}
		if len(members) == 1 {
			attest(members[0])
		} else {
			for _, i := range members {
				i := i
				mc.Go(func() { attest(i) })
			}
			mc.Sleep(wait)
		}
		for _, i := range members {
			if !st.runs[i].done {
				st.stuck = true
			}
		}
	}
	if !st.stuck {
		st.epochs = fmt.Sprint(svc.VerifAttestedEpochs())
	}
}

// c01Ref gives every validator of a duty an assignment (irrelevant to C01, but the duty must be well formed).
func c01Ref(vals []phase0.ValidatorIndex) map[phase0.ValidatorIndex]c04Entry {
	ref := map[phase0.ValidatorIndex]c04Entry{}
	for _, v := range vals {
		ref[v] = c04Entry{c: phase0.CommitteeIndex(v % 2), p: uint64(v), size: 4}
	}
	return ref
}

func c01Describe(cl *c01Class, st *c01State) string {
	var parts []string
	for i, r := range st.runs {
		sep := ""
		if i > 0 {
			sep = "; then "
			if cl.conc[i] {
				sep = " || "
			}
		}
		var what []string
		if cl.strategy == "" {
			if r.nodeKind[0] >= 0 {
				what = append(what, "data="+c01DataNames[r.nodeKind[0]])
			}
		} else {
			for n, k := range r.nodeKind {
				if k >= 0 {
					l := int64(0)
					if r.lat >= 0 {
						l = cl.lats[r.lat][n] / int64(time.Millisecond)
					}
					what = append(what, fmt.Sprintf("n%d=%s@%dms", n, c01DataNames[k], l))
				}
			}
		}
		if r.signKind >= 0 {
			what = append(what, c01SignNames[r.signKind])
		}
		if r.subKind >= 0 {
			what = append(what, c01SubNames[r.subKind])
		}
		res := "pending"
		if r.done {
			res = fmt.Sprintf("%d attestations", r.natts)
			if r.err != nil {
				res = "error"
			}
		}
		parts = append(parts, fmt.Sprintf("%sAttest(slot %d/epoch %d, validators %v: %s -> %s)", sep, r.slot, attEpoch(r.slot), r.vals, strings.Join(what, ","), res))
	}
	s := strings.Join(parts, "")
	if cl.strategy != "" {
		s = "strategy " + cl.strategy + ": " + s
	}
	return s
}

func c01Check(cl *c01Class, st *c01State, r *mc.Result) mc.Verdict {
	v := mc.Verdict{Sample: c01Describe(cl, st)}
	env := st.env
	// the data each run obtained at the attester's provider seam
	obtained := make([]*attDataCall, len(st.runs))
	if env != nil {
		for i := range env.data {
			d := &env.data[i]
			if d.run >= 0 && d.run < len(st.runs) {
				obtained[d.run] = d
			}
		}
	}
	// non-trivial: a validator offered twice for one epoch, or invalid data obtained
	offered := map[[2]uint64]int{}
	twice, invalid := false, false
	for _, run := range st.runs {
		for _, val := range run.vals {
			k := [2]uint64{uint64(val), uint64(attEpoch(run.slot))}
			offered[k]++
			if offered[k] > 1 {
				twice = true
			}
		}
	}
	for i, d := range obtained {
		if d != nil && d.err == nil && d.data != nil && d.data.Source != nil && d.data.Target != nil &&
			c01Defect(st.runs[i].slot, d.data.Slot, d.data.Source.Epoch, d.data.Target.Epoch) != "" {
			invalid = true
		}
	}
	v.Nontrivial = twice || invalid
	// outcome: per run, class of obtained data, accounts named in sign requests, attestations submitted
	var o []string
	for i := range st.runs {
		dc := "none"
		if d := obtained[i]; d != nil {
			switch {
			case d.err != nil:
				dc = "err"
			case d.data == nil || d.data.Source == nil || d.data.Target == nil:
				dc = "nil"
			default:
				dc = c01Defect(st.runs[i].slot, d.data.Slot, d.data.Source.Epoch, d.data.Target.Epoch)
				if dc == "" {
					dc = "ok"
				}
			}
		}
		ns, na := 0, 0
		if env != nil {
			for _, s := range env.signs {
				if s.run == i {
					ns += len(s.vals)
				}
			}
			for _, s := range env.subs {
				if s.run == i && !s.failed {
					na += len(s.atts)
				}
			}
		}
		o = append(o, fmt.Sprintf("%s/asked%d/sub%d", dc, ns, na))
	}
	v.Outcome = strings.Join(o, " ") + " kept" + st.epochs
	fail := func(key, msg string) mc.Verdict {
		v.Violation, v.Key = v.Sample+": "+msg, "C01/"+key
		return v
	}
	if r.Panic != "" {
		v.Detail = r.Panic
		return fail("panic", "panic: "+firstLine(r.Panic))
	}
	if st.stuck {
		return fail("run-never-returned", "an Attest call never returned")
	}
	// (b) and (c): every sign request, against its run's duty and the data that run obtained
	for _, s := range env.signs {
		if s.run < 0 || s.run >= len(st.runs) {
			return fail("harness/unattributed-sign-request", "a sign request could not be attributed to a run (context values lost)")
		}
		run := st.runs[s.run]
		if d := c01Defect(run.slot, s.slot, s.srcEpoch, s.tgtEpoch); d != "" {
			extra := ""
			if d == "target-below-duty-epoch" {
				// what it means: another signature of one of these validators with that target epoch
				for j := range env.signs {
					s2 := &env.signs[j]
					if s2.run != s.run && s2.tgtEpoch == s.tgtEpoch && s2.blockRoot != s.blockRoot {
						for _, a := range s.vals {
							for _, b := range s2.vals {
								if a == b {
									extra = fmt.Sprintf("; validator %d was thereby asked to sign two different attestations with target epoch %d", a, s.tgtEpoch)
								}
							}
						}
					}
				}
			}
			return fail(c01Key(d), fmt.Sprintf("run %d (duty slot %d, epoch %d) asked the signer for validators %v with slot %d, source epoch %d, target epoch %d%s", s.run, run.slot, attEpoch(run.slot), s.vals, s.slot, s.srcEpoch, s.tgtEpoch, extra))
		}
		d := obtained[s.run]
		if d == nil || d.err != nil || d.data == nil || d.data.Source == nil || d.data.Target == nil {
			return fail("signed-without-data", fmt.Sprintf("run %d asked the signer for validators %v although it obtained no attestation data", s.run, s.vals))
		}
		if df := c01Defect(run.slot, d.data.Slot, d.data.Source.Epoch, d.data.Target.Epoch); df != "" {
			return fail(c01Key(df), fmt.Sprintf("run %d (duty slot %d, epoch %d) obtained data with slot %d, source epoch %d, target epoch %d and still asked the signer for validators %v", s.run, run.slot, attEpoch(run.slot), d.data.Slot, d.data.Source.Epoch, d.data.Target.Epoch, s.vals))
		}
	}
	// (a): per (validator, epoch of the duty slot) at most one sign request names the validator's account
	asked := map[[2]uint64]int{}
	for _, s := range env.signs {
		ep := attEpoch(st.runs[s.run].slot)
		for _, val := range s.vals {
			k := [2]uint64{uint64(val), uint64(ep)}
			asked[k]++
			if asked[k] > 1 {
				return fail("double-sign-request", fmt.Sprintf("the signer was asked %d times for validator %d in epoch %d", asked[k], val, ep))
			}
		}
	}
	return v
}

func c01Units(tier string) []hx.Unit {
	V := func(v ...phase0.ValidatorIndex) []phase0.ValidatorIndex { return v }
	// epochs 1, 2, 3 (epoch 1 and 2: the housekeeping guard "epoch > 1" is on its boundary)
	slots := []phase0.Slot{2, 3, 4, 6}
	allVals := [][]phase0.ValidatorIndex{V(1), V(2), V(3), V(1, 2), V(1, 3), V(2, 3), V(1, 2, 3), V(1, 1, 2)}
	canon := [][]phase0.ValidatorIndex{V(1), V(1, 2), V(1, 2, 3), V(1, 1, 2)}
	someVals := [][]phase0.ValidatorIndex{V(1), V(1, 2), V(2, 3), V(1, 1, 2)}
	fewVals := [][]phase0.ValidatorIndex{V(1), V(1, 2)}
	allData := []int{c01Good, c01WrongSlot, c01SrcAboveTgt, c01TgtAbove, c01TgtBelow, c01FetchErr}
	someData := []int{c01Good, c01TgtBelow, c01FetchErr}
	allSign := []int{c01SignAll, c01SignErr, c01SignZeroOne}
	allSub := []int{c01SubOK, c01SubErr}
	ms := int64(time.Millisecond)
	lats := [][2]int64{{0, 0}, {0, 1000 * ms}, {1000 * ms, 0}}

	concBound := 1
	if tier == "thorough" {
		concBound = 2
	}
	const stratBound = 2 // deviations, for the overlapping runs on top of a strategy (many goroutines)
	full := func(name string, conc []bool, bound int) c01Class {
		return c01Class{name: name, conc: conc, slots: slots, vals: allVals, first: canon, dataKinds: allData, signKinds: allSign, subKinds: allSub, bound: bound}
	}
	classes := []c01Class{
		full("len1", []bool{false}, 0),
		full("len2/seq", []bool{false, false}, 0),
		full("len2/conc", []bool{false, true}, concBound),
	}
	if tier != "thorough" {
		// three sequential runs on reduced alphabets (a failed or refused run between two others)
		classes = append(classes, c01Class{name: "len3/seq-seq", conc: []bool{false, false, false}, slots: slots, vals: fewVals, first: fewVals, dataKinds: someData,
			signKinds: []int{c01SignAll, c01SignErr}, subKinds: allSub, bound: 0, split: 2})
	}
	if tier == "thorough" {
		// three sequential runs: full outcome alphabet, validators of the later runs from 4 representative duties
		c := full("len3/seq-seq", []bool{false, false, false}, 0)
		c.vals, c.split = someVals, 2
		classes = append(classes, c)
		// three runs with overlaps: reduced alphabets
		for _, p := range []struct {
			n string
			c []bool
		}{{"len3/conc-seq", []bool{false, true, false}}, {"len3/seq-conc", []bool{false, false, true}}, {"len3/conc-conc", []bool{false, true, true}}} {
			c := c01Class{name: p.n, conc: p.c, slots: slots, vals: fewVals, first: fewVals, dataKinds: someData, signKinds: []int{c01SignAll, c01SignErr}, subKinds: allSub, bound: 1, split: 2}
			classes = append(classes, c)
		}
		// the attester stacked on the real strategies over two scripted nodes
		for _, s := range []string{"first", "best", "majority"} {
			c := full("strategy-"+s+"/len1", []bool{false}, 0)
			c.strategy, c.lats = s, lats
			classes = append(classes, c)
			c = c01Class{name: "strategy-" + s + "/len2/seq", conc: []bool{false, false}, slots: slots, vals: fewVals, first: fewVals, dataKinds: allData,
				signKinds: []int{c01SignAll, c01SignErr}, subKinds: []int{c01SubOK}, strategy: s, lats: lats[1:], bound: 0}
			classes = append(classes, c)
			for li, lp := range lats[1:] {
				c = c01Class{name: fmt.Sprintf("strategy-%s/len2/conc/lat%d", s, li), conc: []bool{false, true}, slots: slots[:2], vals: fewVals[1:], first: fewVals[1:], dataKinds: someData,
					signKinds: []int{c01SignAll}, subKinds: []int{c01SubOK}, strategy: s, lats: [][2]int64{lp}, bound: stratBound, split: 2, deviation: true}
				classes = append(classes, c)
			}
		}
	}
	var units []hx.Unit
	for ci := range classes {
		cl := &classes[ci]
		anyConc := false
		for _, c := range cl.conc {
			anyConc = anyConc || c
		}
		split := cl.split
		if split == 0 {
			split = 1
		}
		for _, pre := range c01Prefixes(cl, split) {
			pre := pre
			var nm []string
			for _, c := range pre {
				nm = append(nm, fmt.Sprintf("slot%d%v", c.slot, c.vals))
			}
			st := &c01State{}
			u := hx.Unit{Name: fmt.Sprintf("C01/%s/%s", cl.name, strings.Join(nm, ",")), Cfg: mc.Config{Fixed: !anyConc, Deviation: cl.deviation, Horizon: int64(20 * time.Minute)}, Bound: cl.bound}
			u.Body = func() { c01Body(cl, pre, st) }
			u.Check = func(r *mc.Result) mc.Verdict { return c01Check(cl, st, r) }
			units = append(units, u)
		}
	}
	return units
}

func init() {
	hx.Register(&hx.Prop{
		ID:    "C01",
		Title: "A validator never attests twice in an epoch, and only for its duty epoch",
		Rule: "slotsPerEpoch=2, validators {1,2,3}, slots 2,3 (epoch 1), 4 (epoch 2), 6 (epoch 3); a run = Attest(slot, duty validators: any non-empty subset, or [1,1,2]); per run, chosen where the run reaches the seam: data in {good, wrong slot, source>target, target>epoch(slot), target<epoch(slot), fetch error}, signer in {signs all, error, zero signature for one}, submit in {ok, error}. " +
			"quick: all histories of 1 and 2 runs (first run's validators canonical up to renaming), sequential, and the 2 runs started at the same instant with every interleaving of <=1 preemption; sequential histories of 3 runs on reduced alphabets (duties {1},{1,2}; data good/target<epoch/error; signer all/error); " +
			"thorough: <=2 preemptions for the overlapping pair; all sequential histories of 3 runs (later runs' duties from {1},{1,2},{2,3},[1,1,2]); 3 runs with one or two overlaps on reduced alphabets (duties {1},{1,2}; data good/target<epoch/error; signer all/error; <=1 preemption); and the attester stacked on the real strategies first, best, majority over 2 scripted nodes with latencies 0/1s (1 run: full alphabet per node; 2 sequential runs: duties {1},{1,2}, full data alphabet per node; 2 overlapping runs for duty {1,2} in epoch 1, nodes good/target<epoch/error, schedules within 2 deviations from the default schedule). " +
			"Histories respect the controller's discipline: no run for epoch x starts after a run for epoch >= x+2 completed; runs started at the same instant are <=1 epoch apart. " +
			"Oracle over the whole history: per (validator, epoch of duty slot) <=1 sign request naming the validator's account; every sign request has the duty slot, target epoch = epoch(slot), source <= target; a run whose obtained data violates this makes no sign request. " +
			"non-trivial = some validator is offered at least twice for one epoch, or a run obtained invalid data; distinct = distinct per-run (data class, accounts asked, attestations submitted) tuples plus the epochs kept in the attested map",
		Assumptions: []string{
			"code between two synchronisation operations of one goroutine is atomic (justified by C17)",
			"runs that overlap were started less than one epoch apart (a run marks its validators before any I/O; strategies bound the data fetch by their timeout); an overlap of runs two epochs apart is outside the quantifier's discipline",
			"validators are interchangeable: the first run's duty is taken from {1},{1,2},{1,2,3},[1,1,2]",
			"nil attestation data or nil checkpoints are not in the alphabet (the go-eth2-client decoder rejects them; C16 covers malformed responses)",
		},
		Units:         c01Units,
		MinNontrivial: 20000,
	})
}
