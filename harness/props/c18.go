package props

import (
	"context"
	"errors"
	"fmt"
	"strings"
	"time"

	"verifharness/hx"

	"github.com/attestantio/go-eth2-client/api"
	apiv1 "github.com/attestantio/go-eth2-client/api/v1"
	"github.com/attestantio/go-eth2-client/spec"
	"github.com/attestantio/go-eth2-client/spec/altair"
	"github.com/attestantio/go-eth2-client/spec/bellatrix"
	"github.com/attestantio/go-eth2-client/spec/phase0"
	vouchmock "github.com/attestantio/vouch/mock"
	mockaccountmanager "github.com/attestantio/vouch/services/accountmanager/mock"
	mockattestationaggregator "github.com/attestantio/vouch/services/attestationaggregator/mock"
	mockbeaconcommitteesubscriber "github.com/attestantio/vouch/services/beaconcommitteesubscriber/mock"
	standardcache "github.com/attestantio/vouch/services/cache/standard"
	standardcontroller "github.com/attestantio/vouch/services/controller/standard"
	nullmetrics "github.com/attestantio/vouch/services/metrics/null"
	mockproposalpreparer "github.com/attestantio/vouch/services/proposalpreparer/mock"
	"github.com/attestantio/vouch/services/scheduler/advanced"
	"github.com/attestantio/vouch/verifmc/mc"
	"github.com/attestantio/vouch/verifmc/mcontext"
	"github.com/prysmaticlabs/go-bitfield"
	"github.com/rs/zerolog"
)

// C18: a block root always maps to that block's slot.
//
// The real cache service is built with the real scheduler and real chain time on the virtual clock
// (epoch = 15 min, so the periodic clean job runs once per epoch); the header provider is scripted.
// Every sequence of operations up to the depth bound over
//   {block event r, lookup r (provider ok), lookup r (provider failing), clean run}  x  r in {old, mid, new}
// is executed and compared with a reference map after every step.

type c18Headers struct {
	fail    bool
	slots   map[phase0.Root]phase0.Slot
	parents map[phase0.Root]phase0.Root // parent of each block (several slots older: slots were missed in between)
	calls   int
	// heads: what "head" resolves to on successive requests (the chain moves on while vouch starts)
	heads    []phase0.Root
	headReqs int
	// delay: a header request takes this long; failAfterDelay: ... and then fails
	delay          int64
	failAfterDelay bool
}

func (h *c18Headers) resolve(id string) (phase0.Root, bool) {
	if id == "head" {
		r := h.heads[len(h.heads)-1]
		if h.headReqs < len(h.heads) {
			r = h.heads[h.headReqs]
		}
		h.headReqs++
		return r, true
	}
	for r := range h.slots {
		if r.String() == id {
			return r, true
		}
	}
	return phase0.Root{}, false
}

func (h *c18Headers) BeaconBlockHeader(_ context.Context, opts *api.BeaconBlockHeaderOpts) (*api.Response[*apiv1.BeaconBlockHeader], error) {
	h.calls++
	if h.delay > 0 {
		mc.Sleep(h.delay)
		if h.failAfterDelay {
			return nil, errors.New("scripted failure")
		}
	}
	if h.fail {
		return nil, errors.New("scripted failure")
	}
	if r, ok := h.resolve(opts.Block); ok {
		return &api.Response[*apiv1.BeaconBlockHeader]{Data: &apiv1.BeaconBlockHeader{Root: r, Header: &phase0.SignedBeaconBlockHeader{Message: &phase0.BeaconBlockHeader{Slot: h.slots[r], ParentRoot: h.parents[r]}}}, Metadata: map[string]any{}}, nil
	}
	return nil, errors.New("unknown block")
}

// c18Blocks serves the blocks of the same chain (the cache fetches the head block at start and on head events).
type c18Blocks struct{ h *c18Headers }

func (b c18Blocks) SignedBeaconBlock(_ context.Context, opts *api.SignedBeaconBlockOpts) (*api.Response[*spec.VersionedSignedBeaconBlock], error) {
	if b.h == nil {
		return nil, errors.New("no block")
	}
	r, ok := b.h.resolve(opts.Block)
	if !ok {
		return nil, errors.New("no block")
	}
	blk := &bellatrix.SignedBeaconBlock{Message: &bellatrix.BeaconBlock{Slot: b.h.slots[r], ParentRoot: b.h.parents[r], StateRoot: root(0x55),
		Body: &bellatrix.BeaconBlockBody{ETH1Data: &phase0.ETH1Data{BlockHash: make([]byte, 32)}, SyncAggregate: &altair.SyncAggregate{SyncCommitteeBits: bitfield.NewBitvector512()},
			ExecutionPayload: &bellatrix.ExecutionPayload{StateRoot: [32]byte{1}, BlockNumber: uint64(b.h.slots[r]), BlockHash: phase0.Hash32{byte(b.h.slots[r])}, ExtraData: []byte{}}}}}
	return &api.Response[*spec.VersionedSignedBeaconBlock]{Data: &spec.VersionedSignedBeaconBlock{Version: spec.DataVersionBellatrix, Bellatrix: blk}, Metadata: map[string]any{}}, nil
}

type c18State struct {
	log  []string
	fail string
	key  string
	miss int
	cln  int
}

func c18Units(tier string) []hx.Unit {
	depth := 4
	if tier == "thorough" {
		depth = 6
	}
	const slotsPerEpoch = 15
	slotDur := time.Minute
	// virtual time 0 is the start of epoch 66: the retention boundary (current epoch - 64) moves from
	// epoch 2 upwards as clean runs advance the clock by one epoch each.
	genesisOff := -int64(66*slotsPerEpoch) * int64(slotDur)
	roots := []phase0.Root{root(1), root(2), root(3)}
	// the two old blocks sit exactly on the retention boundary of the first and of the second clean run
	// (first slot of epoch 67-64 and of epoch 68-64); each block's parent is the previous root, several
	// slots older.  The newest block belongs to the slot after the one vouch's clock shows when it starts (the
	// beacon node's clock is slightly ahead of vouch's): until the first clean run its events and lookups come
	// before its slot by vouch's clock.
	alignedSlot := map[phase0.Root]phase0.Slot{roots[0]: 3 * slotsPerEpoch, roots[1]: 4 * slotsPerEpoch, roots[2]: 66*slotsPerEpoch + 1}
	// "late phase": vouch starts 400 ms before an epoch begins, so every clean run falls 400 ms before the end of an
	// epoch; the two old blocks then sit in the last slot of the oldest epoch the first / the second run must keep
	lateSlot := map[phase0.Root]phase0.Slot{roots[0]: 3*slotsPerEpoch - 1, roots[1]: 4*slotsPerEpoch - 1, roots[2]: 66 * slotsPerEpoch}
	parents := map[phase0.Root]phase0.Root{roots[1]: roots[0], roots[2]: roots[1], roots[0]: root(9)}
	nOps := 4*len(roots) + 1
	var units []hx.Unit
	for variant := 0; variant < 2*nOps; variant++ {
		first := variant % nOps
		late := variant >= nOps
		trueSlot, genesisOff, tag := alignedSlot, genesisOff, ""
		if late {
			trueSlot, genesisOff, tag = lateSlot, genesisOff+int64(400*time.Millisecond), "late-phase/"
		}
		st := &c18State{}
		u := hx.Unit{Name: fmt.Sprintf("C18/%sfirst-op-%d/depth-%d", tag, first, depth), Cfg: mc.Config{Fixed: true, Horizon: int64(40 * 15 * time.Minute)}, Bound: 0}
		u.Body = func() {
			*st = c18State{}
			ctx, cancel := mcontext.WithCancel(context.Background())
			defer cancel()
			sched, err := advanced.New(ctx, advanced.WithLogLevel(zerolog.Disabled), advanced.WithMonitor(&nullmetrics.Service{}))
			must(err)
			ct := newChainTime(genesisOff, slotDur, slotsPerEpoch)
			// while vouch starts the chain moves on: the first request for "head" sees block 2, later ones block 3
			hp := &c18Headers{slots: trueSlot, parents: parents, heads: []phase0.Root{roots[1], roots[2]}}
			// roots whose slot vouch may already know without a lookup (it has fetched their block)
			mayKnow := map[phase0.Root]bool{roots[1]: true, roots[2]: true}
			ev := &eventsProvider{}
			svc, err := standardcache.New(ctx,
				standardcache.WithLogLevel(zerolog.Disabled),
				standardcache.WithMonitor(&nullmetrics.Service{}),
				standardcache.WithChainTime(ct),
				standardcache.WithScheduler(sched),
				standardcache.WithEventsProvider(ev),
				standardcache.WithSignedBeaconBlockProvider(c18Blocks{hp}),
				standardcache.WithBeaconBlockHeadersProvider(hp),
			)
			must(err)
			ref := map[phase0.Root]phase0.Slot{}
			bad := func(key, f string, a ...any) {
				if st.fail == "" {
					st.fail = fmt.Sprintf(f, a...) + " after [" + strings.Join(st.log, " ") + "]"
					st.key = key
				}
			}
			for step := 0; step < depth && st.fail == ""; step++ {
				op := first
				if step > 0 {
					op = mc.Choose(nOps+1) - 1 // -1: stop here
					if op < 0 {
						break
					}
				}
				if op == nOps-1 {
					// clean: let the periodic job run (every 15 min = one epoch)
					st.log = append(st.log, "clean")
					st.cln++
					mc.Sleep(int64(15*time.Minute) + 1)
					// the epoch by the virtual clock (not by vouch's chain time service)
					cur := phase0.Epoch((mc.Now() - genesisOff) / (int64(slotsPerEpoch) * int64(slotDur)))
					for _, r := range roots {
						s, held := ref[r]
						if !held {
							continue
						}
						present := func() bool {
							hp.fail = true
							_, err := svc.BlockRootToSlot(ctx, r)
							hp.fail = false
							return err == nil
						}()
						old := cur > 64 && s < phase0.Slot(uint64(cur-64)*slotsPerEpoch)
						if !present && !old {
							bad("clean-removed-recent-entry", "clean at epoch %d removed the entry for slot %d, which is inside the 64-epoch window", cur, s)
						}
						if !present {
							delete(ref, r)
						}
					}
					continue
				}
				r := roots[op%len(roots)]
				switch op / len(roots) {
				case 0:
					st.log = append(st.log, fmt.Sprintf("event(r%d)", op%len(roots)))
					ev.deliver("block", &apiv1.BlockEvent{Block: r, Slot: trueSlot[r]})
					ref[r] = trueSlot[r]
				case 1, 2:
					hp.fail = op/len(roots) == 2
					st.log = append(st.log, fmt.Sprintf("lookup(r%d,fail=%v)", op%len(roots), hp.fail))
					before := hp.calls
					slot, err := svc.BlockRootToSlot(ctx, r)
					_, cached := ref[r]
					if !cached {
						st.miss++
					}
					switch {
					case cached && err != nil:
						bad("hit-returned-error", "lookup of a cached root failed: %v", err)
					case cached && slot != trueSlot[r]:
						bad("hit-wrong-slot", "cached lookup returned slot %d, the block's slot is %d", slot, trueSlot[r])
					case cached && hp.calls != before:
						// not required by the statement; informational only
					case !cached && hp.fail && err == nil && mayKnow[r] && slot == trueSlot[r]:
						// vouch had fetched this very block before (at start or on a head event); knowing its slot is fine
					case !cached && hp.fail && err == nil:
						bad("failed-fetch-reported-as-slot", "failed fetch reported as slot %d instead of an error", slot)
					case !cached && !hp.fail && err != nil:
						bad("miss-returned-error", "lookup miss with a working beacon node failed: %v", err)
					case !cached && !hp.fail && slot != trueSlot[r]:
						bad("miss-wrong-slot", "lookup miss returned slot %d, the block's slot is %d", slot, trueSlot[r])
					}
					if !cached && !hp.fail && err == nil {
						ref[r] = trueSlot[r]
					}
					hp.fail = false
				case 3:
					// a head event for the block: the cache fetches the block (for the execution chain head)
					st.log = append(st.log, fmt.Sprintf("head(r%d)", op%len(roots)))
					ev.deliver("head", &apiv1.HeadEvent{Slot: trueSlot[r], Block: r})
					mayKnow[r] = true
				}
			}
		}
		u.Check = func(r *mc.Result) mc.Verdict {
			v := mc.Verdict{Outcome: fmt.Sprintf("miss=%v clean=%v len=%d", st.miss > 0, st.cln > 0, len(st.log)), Nontrivial: st.miss > 0 || st.cln > 0, Sample: strings.Join(st.log, " ")}
			if r.Panic != "" {
				v.Violation, v.Key = "panic: "+firstLine(r.Panic), "C18/panic"
				return v
			}
			if st.fail != "" {
				v.Violation, v.Key = st.fail, "C18/"+st.key
			}
			return v
		}
		units = append(units, u)
	}
	units = append(units, c18CtrlUnit())
	units = append(units, c18OverlapUnit(tier))
	return units
}

// The controller is the cache's other feeder (it hands block events on and is given the cache as its setter): the real
// controller on the real cache, with the real scheduler and chain time.  4 slots per epoch, started at the beginning of
// epoch 2 (slot 8).  The chain: the blocks on which this and the next epoch's duties depend sit in slot 2 / 3 and slot
// 6 / 7 (the last slots of their epochs are empty or not), blocks in slot 8 and 10, the block of slot 9 arrives or is
// missing.  Validator 2 proposes in slot 10 and a proposal delay is configured, so that the controller looks at the
// head before proposing.  Afterwards the cache is asked for every root the chain has.
func c18CtrlUnit() hx.Unit {
	st := &c18State{}
	u := hx.Unit{Name: "C18/controller-feeds-cache", Cfg: mc.Config{Deviation: true, Horizon: int64(20 * c03SlotDur)}, Bound: 0}
	u.Body = func() {
		*st = c18State{}
		ctx, cancel := mcontext.WithCancel(context.Background())
		defer cancel()
		depLast := mc.Choose(2) == 1 // the dependent blocks sit in the last slot of their epoch
		with9 := mc.Choose(2) == 1   // the block of slot 9 arrives
		early10 := mc.Choose(2) == 1 // the block of slot 10 is heard a second before vouch's clock reaches slot 10
		st.log = append(st.log, fmt.Sprintf("dependent-blocks-in-last-slot=%v block-of-slot-9=%v block-of-slot-10-heard-early=%v", depLast, with9, early10))
		hr := func(s phase0.Slot) phase0.Root { return root(byte(100 + s)) }
		prevDep, curDep := root(1), root(2)
		truth := map[phase0.Root]phase0.Slot{prevDep: 2, curDep: 6, hr(8): 8, hr(10): 10}
		if depLast {
			truth[prevDep], truth[curDep] = 3, 7
		}
		if with9 {
			truth[hr(9)] = 9
		}
		parents := map[phase0.Root]phase0.Root{curDep: prevDep, hr(8): curDep, hr(9): hr(8), hr(10): hr(8)}
		if with9 {
			parents[hr(10)] = hr(9)
		}
		hp := &c18Headers{slots: truth, parents: parents, heads: []phase0.Root{hr(8)}}
		ct := newChainTime(-(int64(2*c03SPE) * int64(c03SlotDur)), c03SlotDur, c03SPE)
		sched, err := advanced.New(ctx, advanced.WithLogLevel(zerolog.Disabled), advanced.WithMonitor(&nullmetrics.Service{}))
		must(err)
		ev := &eventsProvider{}
		cch, err := standardcache.New(ctx, standardcache.WithLogLevel(zerolog.Disabled), standardcache.WithMonitor(&nullmetrics.Service{}), standardcache.WithChainTime(ct),
			standardcache.WithScheduler(sched), standardcache.WithEventsProvider(ev), standardcache.WithSignedBeaconBlockProvider(c18Blocks{hp}), standardcache.WithBeaconBlockHeadersProvider(hp))
		must(err)
		w := &c03World{attKinds: [2]string{"E", "E"}, propKinds: [2]string{"A", "A"}, reorgAt: -1}
		byIndex := map[phase0.ValidatorIndex]*hAccount{}
		for i := 1; i <= 3; i++ {
			byIndex[phase0.ValidatorIndex(i)] = newAccount("W", fmt.Sprintf("v%d", i), byte(i))
		}
		ctrl, err := standardcontroller.New(ctx,
			standardcontroller.WithLogLevel(zerolog.Disabled), standardcontroller.WithMonitor(nullmetrics.New()),
			standardcontroller.WithSpecProvider(&specProvider{m: baseSpec(c03SlotDur, c03SPE)}), standardcontroller.WithChainTimeService(ct),
			standardcontroller.WithProposerDutiesProvider(w), standardcontroller.WithAttesterDutiesProvider(w),
			standardcontroller.WithSyncCommitteeDutiesProvider(vouchmock.NewSyncCommitteeDutiesProvider()), standardcontroller.WithEventsProvider(ev),
			standardcontroller.WithValidatingAccountsProvider(&accountsTable{byIndex: byIndex}), standardcontroller.WithProposalsPreparer(mockproposalpreparer.New()),
			standardcontroller.WithScheduler(sched), standardcontroller.WithAttester(w), standardcontroller.WithBeaconBlockProposer(w),
			standardcontroller.WithBeaconCommitteeSubscriber(mockbeaconcommitteesubscriber.New()), standardcontroller.WithAttestationAggregator(mockattestationaggregator.New()),
			standardcontroller.WithAccountsRefresher(mockaccountmanager.NewRefresher()),
			standardcontroller.WithBlockToSlotSetter(cch), standardcontroller.WithBeaconBlockHeadersProvider(hp), standardcontroller.WithSignedBeaconBlockProvider(c18Blocks{hp}),
			standardcontroller.WithMaxAttestationDelay(c03Delay), standardcontroller.WithAttestationAggregationDelay(8*time.Second), standardcontroller.WithMaxProposalDelay(4*time.Second))
		must(err)
		ev.handlers["block"] = append(ev.handlers["block"], ctrl.HandleBlockEvent) // vouch's main wires the block events to the controller as well
		deliver := func(s phase0.Slot) {
			_, there := truth[hr(s)]
			if there && s == 10 && early10 {
				mc.Sleep(ct.StartOfSlot(s).Sub(mc.Base).Nanoseconds() - int64(time.Second) - mc.Now())
				ev.deliver("block", &apiv1.BlockEvent{Slot: s, Block: hr(s)})
			}
			mc.Sleep(ct.StartOfSlot(s).Sub(mc.Base).Nanoseconds() + int64(time.Second) - mc.Now())
			if !there {
				return
			}
			hp.heads = []phase0.Root{hr(s)}
			if !(s == 10 && early10) {
				ev.deliver("block", &apiv1.BlockEvent{Slot: s, Block: hr(s)})
			}
			ev.deliver("head", &apiv1.HeadEvent{Slot: s, Block: hr(s), PreviousDutyDependentRoot: prevDep, CurrentDutyDependentRoot: curDep})
		}
		for s := phase0.Slot(8); s <= 10; s++ {
			deliver(s)
		}
		mc.Sleep(int64(c03SlotDur))
		// every root the chain has: the slot the cache gives is that block's
		for _, r := range []phase0.Root{prevDep, curDep, hr(8), hr(9), hr(10)} {
			want, ok := truth[r]
			if !ok {
				continue
			}
			got, err := cch.BlockRootToSlot(ctx, r)
			if (err != nil || got != want) && st.fail == "" {
				st.key = "controller-fed-wrong-slot"
				st.fail = fmt.Sprintf("after the controller handled the head and block events of slots 8-10 and looked at the head before proposing in slot 10 (%s), the cache gives slot %d (error %v) for the block of slot %d", st.log[0], got, err, want)
			}
		}
		st.miss = 1
	}
	u.Check = func(r *mc.Result) mc.Verdict {
		v := mc.Verdict{Outcome: "controller feeds cache", Nontrivial: true, Sample: strings.Join(st.log, " ")}
		if r.Panic != "" {
			v.Violation, v.Key = "panic: "+firstLine(r.Panic), "C18/panic"
		} else if st.miss == 0 {
			v.Violation, v.Key = "the run did not finish", "C18/controller-run-incomplete"
		} else if st.fail != "" {
			v.Violation, v.Key = st.fail, "C18/"+st.key
		}
		return v
	}
	return u
}

// Two lookups of one root that is not cached overlap (two strategies scoring the same head): the header request
// takes a second and then succeeds or fails.  Each caller gets the block's slot or an error - never a slot the
// block does not have.  (Unsynchronised accesses are C17's matter; here the answers are judged.)
func c18OverlapUnit(tier string) hx.Unit {
	type res struct {
		slot phase0.Slot
		err  error
		done bool
	}
	var rs [3]res
	var fails bool
	u := hx.Unit{Name: "C18/overlapping-lookups-of-one-root", Cfg: mc.Config{Deviation: true, Horizon: int64(60 * time.Second)}, Bound: 1}
	if tier == "thorough" {
		u.Bound = 2
	}
	u.Body = func() {
		rs = [3]res{}
		ctx, cancel := mcontext.WithCancel(context.Background())
		defer cancel()
		fails = mc.Choose(2) == 1
		hp := &c18Headers{slots: map[phase0.Root]phase0.Slot{root(1): 33, root(2): 990}, parents: map[phase0.Root]phase0.Root{root(2): root(1)}, heads: []phase0.Root{root(1)}}
		svc, err := standardcache.New(ctx, standardcache.WithLogLevel(zerolog.Disabled), standardcache.WithMonitor(&nullmetrics.Service{}),
			standardcache.WithChainTime(newChainTime(-int64(66*15*time.Minute), time.Minute, 15)), standardcache.WithScheduler(&nopScheduler{}),
			standardcache.WithEventsProvider(&eventsProvider{}), standardcache.WithSignedBeaconBlockProvider(c18Blocks{hp}), standardcache.WithBeaconBlockHeadersProvider(hp))
		must(err)
		hp.delay, hp.failAfterDelay = int64(time.Second), fails
		for i := 0; i < 2; i++ {
			i := i
			mc.Go(func() {
				rs[i].slot, rs[i].err = svc.BlockRootToSlot(ctx, root(2))
				rs[i].done = true
			})
		}
		mc.Sleep(int64(5 * time.Second))
		// afterwards the node is well again: a third lookup
		hp.delay, hp.failAfterDelay = 0, false
		rs[2].slot, rs[2].err = svc.BlockRootToSlot(ctx, root(2))
		rs[2].done = true
	}
	u.Check = func(r *mc.Result) mc.Verdict {
		v := mc.Verdict{Outcome: fmt.Sprintf("overlap fails=%v", fails), Nontrivial: true,
			Sample: fmt.Sprintf("two overlapping lookups of an uncached root, header request fails=%v: (%d,%v) (%d,%v), later (%d,%v)", fails, rs[0].slot, rs[0].err, rs[1].slot, rs[1].err, rs[2].slot, rs[2].err)}
		if r.Panic != "" {
			v.Violation, v.Key = v.Sample+": panic: "+firstLine(r.Panic), "C18/panic"
			return v
		}
		for i, x := range rs {
			switch {
			case !x.done:
				v.Violation, v.Key = v.Sample+fmt.Sprintf(": lookup %d never returned", i+1), "C18/overlap/never-returned"
			case x.err == nil && x.slot != 990:
				v.Violation, v.Key = v.Sample+fmt.Sprintf(": lookup %d reports slot %d without an error; the block's slot is 990", i+1, x.slot), "C18/overlap/failed-fetch-reported-as-slot"
			case x.err != nil && !(fails && i < 2):
				v.Violation, v.Key = v.Sample+fmt.Sprintf(": lookup %d failed (%v) although the beacon node answered", i+1, x.err), "C18/overlap/miss-returned-error"
			}
			if v.Violation != "" {
				return v
			}
		}
		return v
	}
	return u
}

func init() {
	hx.Register(&hx.Prop{
		ID:    "C18",
		Title: "A block root always maps to that block's slot",
		Rule: "all operation sequences up to the depth bound (quick 4, thorough 6) over {block event, head event, lookup with working provider, lookup with failing provider} x 3 roots, each the parent of the next with missed slots in between (slots exactly on the retention boundary of the first and of the second clean run, and one slot ahead of vouch's clock at the start; and the same started 400 ms before an epoch begins, the old blocks in the last slot of the oldest epoch a clean run must keep) and {clean run}, on the real cache service (started while the chain head moves from the second to the third block between requests) with the real scheduler and chain time on a virtual clock; compared with a reference map after every step; plus the real controller feeding the real cache (block events handed on, the cache as the controller's setter, a proposal delay so that the controller looks at the head before proposing; dependent blocks in or before the last slot of their epoch, the previous slot's block arriving or missing, the newest block heard on time or a second before vouch's clock reaches its slot): afterwards the cache gives every block of the chain its own slot; plus two overlapping lookups of one uncached root whose header request takes a second and succeeds or fails (all schedules with one deviation, thorough two): each caller gets the block's slot or an error; " +
			"non-trivial = the sequence contains a lookup miss or a clean run; distinct = distinct (miss, clean, length) classes",
		Assumptions:   []string{"single caller in the sequence units (unsynchronised accesses under overlap are C17); one unit with two overlapping lookups of one uncached root judges the answers", "block events carry the block's true slot"},
		Units:         c18Units,
		MinNontrivial: 10,
	})
}
