package props

import (
	"context"
	"errors"
	"fmt"
	"math/big"
	"strings"
	"time"

	"verifharness/hx"

	eth2client "github.com/attestantio/go-eth2-client"
	"github.com/attestantio/go-eth2-client/api"
	apiv1 "github.com/attestantio/go-eth2-client/api/v1"
	"github.com/attestantio/go-eth2-client/spec"
	"github.com/attestantio/go-eth2-client/spec/altair"
	"github.com/attestantio/go-eth2-client/spec/bellatrix"
	"github.com/attestantio/go-eth2-client/spec/phase0"
	nullmetrics "github.com/attestantio/vouch/services/metrics/null"
	aabest "github.com/attestantio/vouch/strategies/aggregateattestation/best"
	aafirst "github.com/attestantio/vouch/strategies/aggregateattestation/first"
	adbest "github.com/attestantio/vouch/strategies/attestationdata/best"
	adfirst "github.com/attestantio/vouch/strategies/attestationdata/first"
	admajority "github.com/attestantio/vouch/strategies/attestationdata/majority"
	bhfirst "github.com/attestantio/vouch/strategies/beaconblockheader/first"
	bpbest "github.com/attestantio/vouch/strategies/beaconblockproposal/best"
	bpfirst "github.com/attestantio/vouch/strategies/beaconblockproposal/first"
	brfirst "github.com/attestantio/vouch/strategies/beaconblockroot/first"
	brlatest "github.com/attestantio/vouch/strategies/beaconblockroot/latest"
	brmajority "github.com/attestantio/vouch/strategies/beaconblockroot/majority"
	sbfirst "github.com/attestantio/vouch/strategies/signedbeaconblock/first"
	scbest "github.com/attestantio/vouch/strategies/synccommitteecontribution/best"
	scfirst "github.com/attestantio/vouch/strategies/synccommitteecontribution/first"
	"github.com/attestantio/vouch/verifmc/mc"
	"github.com/attestantio/vouch/verifmc/mtime"
	"github.com/prysmaticlabs/go-bitfield"
	"github.com/rs/zerolog"
)

// C07: multi-node strategies return the right valid answer, in bounded time.
//
// Each of the 17 strategy implementations is built with n scripted beacon nodes.  Per node the
// alphabet is: response kind (A = valid, scores high; B = valid, scores low; I / J = fails the strategy's
// validity rule; E = error) x latency (0, <soft, =soft, between, =hard timeout, never-until-cancelled,
// late-and-ignoring-cancellation).  All assignments are enumerated (mc.Choose) and, for each, all
// orders of simultaneous events and select ties within the schedule bound.

const (
	c07Timeout = 8 * time.Second
	c07Slot    = phase0.Slot(96) // the first slot of epoch 3 (32 slots per epoch): the previous epoch is one slot away
)

type c07Node struct {
	kind byte // 'A','B','I','E'
	lat  int  // index into c07Lats
}

// latencies in seconds; -1 = never (until the request context is cancelled); -2 = 10 s ignoring cancellation
var c07Lats = []int{0, 2, 4, 6, 8, -1, -2}

type c07Env struct {
	nodes     []c07Node
	threshold int
	arrive    []int64 // instant at which node i's answer was handed to vouch (-1: never answered)
	called    []int
	pending   int // requests to silent nodes that are still running (their context has not ended)
	t0, t1    int64
	ret       byte // label returned ('A','B','I','?' unknown, 0 none)
	err       error
	done      bool
	// relabel reads the label off the response object the last call returned, once more
	relabel func() (byte, error)
}

var errScripted = errors.New("scripted node error")

// serve blocks for the node's latency (or until cancelled) and returns the node's kind.
func (e *c07Env) serve(ctx context.Context, i int) (byte, error) {
	nd := e.nodes[i]
	e.called[i]++
	switch lat := c07Lats[nd.lat]; lat {
	case -1:
		// a silent node: the request runs until its context ends
		e.pending++
		d := ctx.Done()
		if d == nil {
			mc.Block(0)
		}
		mc.Block(mc.KeyOfRecv(d))
		e.pending--
		return 0, ctx.Err()
	case -2:
		mc.Sleep(int64(10 * time.Second))
	default:
		t := mtime.After(time.Duration(lat) * time.Second)
		sel := mc.Select(false, mc.RecvCase(ctx.Done()), mc.RecvCase(t))
		if sel.Index == 0 {
			return 0, ctx.Err()
		}
	}
	e.arrive[i] = mc.Now()
	switch nd.kind {
	case 'E':
		return 0, errScripted
	case 'N': // the node does not have the data: HTTP 404 as the client library reports it
		return 0, &api.Error{Method: "GET", Endpoint: "/scripted", StatusCode: 404, Data: []byte("not found")}
	case 'U': // the node cannot serve at present: HTTP 503
		return 0, &api.Error{Method: "GET", Endpoint: "/scripted", StatusCode: 503, Data: []byte("unavailable")}
	}
	return nd.kind, nil
}

// tableCache is the block-root-to-slot cache stub: rA is the later block.
type tableCache struct{}

func (tableCache) BlockRootToSlot(_ context.Context, r phase0.Root) (phase0.Slot, error) {
	switch r {
	case root('A'):
		return c07Slot, nil
	case root('B'):
		return c07Slot - 1, nil
	case root('I'), root('J'):
		return c07Slot, nil
	case root('G'): // the genesis block: its slot, 0, is an answer like any other
		return 0, nil
	}
	return 0, errors.New("unknown root")
}

type c07Strat struct {
	name   string
	fam    string // best, majority, first
	kinds  string // response kinds of the alphabet ('I' only where the strategy has a validity rule)
	thresh bool
	// mk builds the real strategy over the environment's nodes and returns the call.
	mk func(e *c07Env) func(ctx context.Context) (byte, error)
}

func names(n int) []string {
	return []string{"n0", "n1", "n2", "n3"}[:n]
}

// ---- attestation data -------------------------------------------------------------------------

type adProv struct {
	e *c07Env
	i int
}

func c07AttData(k byte) *phase0.AttestationData {
	d := &phase0.AttestationData{Slot: c07Slot, Index: 1, Source: &phase0.Checkpoint{Epoch: 2}, Target: &phase0.Checkpoint{Epoch: 3}}
	switch k {
	case 'A':
		d.BeaconBlockRoot = root('A')
	case 'B': // as A, but voting for the block of the slot before: only the nearness of the head separates them
		d.BeaconBlockRoot = root('B')
	case 'C': // the head of A with another source checkpoint: a different value that agrees with A on the head
		d.BeaconBlockRoot = root('A')
		d.Source.Epoch = 1
	case 'G': // as A, but voting for the genesis block (slot 0): the farthest head the cache knows
		d.BeaconBlockRoot = root('G')
	case 'K': // as A, but voting for a block the cache cannot find: no nearness bonus at all
		d.BeaconBlockRoot = root('K')
	case 'Z':
		d.BeaconBlockRoot = root('Z')
	case 'I':
		d.BeaconBlockRoot = root('I')
		d.Target.Epoch = 2
		d.Source.Epoch = 2
	case 'J': // target epoch ahead of the slot's epoch (would also score highest)
		d.BeaconBlockRoot = root('J')
		d.Target.Epoch = 4
		d.Source.Epoch = 3
	}
	return d
}

func (p adProv) AttestationData(ctx context.Context, _ *api.AttestationDataOpts) (*api.Response[*phase0.AttestationData], error) {
	k, err := p.e.serve(ctx, p.i)
	if err != nil {
		return nil, err
	}
	return &api.Response[*phase0.AttestationData]{Data: c07AttData(k), Metadata: map[string]any{}}, nil
}

func adLabel(r *api.Response[*phase0.AttestationData], err error) (byte, error) {
	if err != nil {
		return 0, err
	}
	if r == nil || r.Data == nil {
		return '?', nil
	}
	if r.Data.BeaconBlockRoot == root('A') && r.Data.Source != nil && r.Data.Source.Epoch == 1 {
		return 'C', nil
	}
	return r.Data.BeaconBlockRoot[0], nil
}

func adProviders(e *c07Env) map[string]eth2client.AttestationDataProvider {
	m := map[string]eth2client.AttestationDataProvider{}
	for i, n := range names(len(e.nodes)) {
		m[n] = adProv{e, i}
	}
	return m
}

// ---- aggregate attestation ---------------------------------------------------------------------

type aaProv struct {
	e *c07Env
	i int
}

func (p aaProv) AggregateAttestation(ctx context.Context, _ *api.AggregateAttestationOpts) (*api.Response[*phase0.Attestation], error) {
	k, err := p.e.serve(ctx, p.i)
	if err != nil {
		return nil, err
	}
	bits := bitfield.NewBitlist(8)
	n := 6
	if k == 'B' {
		n = 2
	}
	if k == 'Z' {
		// an aggregate whose bit list has no positions at all ("0x01"): deliverable, and the emptiest there is
		bits, n = bitfield.NewBitlist(0), 0
	}
	for i := 0; i < n; i++ {
		bits.SetBitAt(uint64(i), true)
	}
	return &api.Response[*phase0.Attestation]{Data: &phase0.Attestation{AggregationBits: bits, Data: c07AttData(k)}, Metadata: map[string]any{}}, nil
}

func aaLabel(r *api.Response[*phase0.Attestation], err error) (byte, error) {
	if err != nil {
		return 0, err
	}
	if r == nil || r.Data == nil || r.Data.Data == nil {
		return '?', nil
	}
	return r.Data.Data.BeaconBlockRoot[0], nil
}

// ---- proposals ----------------------------------------------------------------------------------

type bpProv struct {
	e *c07Env
	i int
}

func (p bpProv) Proposal(ctx context.Context, _ *api.ProposalOpts) (*api.Response[*api.VersionedProposal], error) {
	k, err := p.e.serve(ctx, p.i)
	if err != nil {
		return nil, err
	}
	// values of realistic magnitude, in Wei: A pays 20 ETH for the execution payload (above 2^64 Wei), B 2 ETH,
	// the invalid I 30 ETH; the consensus reward is 0.03 ETH throughout
	fee := bellatrix.ExecutionAddress{1}
	eth := new(big.Int).Exp(big.NewInt(10), big.NewInt(18), nil)
	exec := new(big.Int).Mul(big.NewInt(20), eth)
	switch k {
	case 'B':
		exec = new(big.Int).Mul(big.NewInt(2), eth)
	case 'I':
		fee = bellatrix.ExecutionAddress{}
		exec = new(big.Int).Mul(big.NewInt(30), eth)
	}
	cons := new(big.Int).Div(new(big.Int).Mul(big.NewInt(3), eth), big.NewInt(100))
	if k == 'H' {
		// an answer without error whose contents are missing (the version says Deneb, there is no Deneb block), worth more than any other
		return &api.Response[*api.VersionedProposal]{Data: &api.VersionedProposal{Version: spec.DataVersionDeneb, ConsensusValue: cons,
			ExecutionValue: new(big.Int).Mul(big.NewInt(40), eth)}, Metadata: map[string]any{}}, nil
	}
	blk := &bellatrix.BeaconBlock{Slot: c07Slot, ParentRoot: root(k), Body: &bellatrix.BeaconBlockBody{
		ETH1Data:         &phase0.ETH1Data{BlockHash: make([]byte, 32)},
		SyncAggregate:    &altair.SyncAggregate{SyncCommitteeBits: bitfield.NewBitvector512()},
		ExecutionPayload: &bellatrix.ExecutionPayload{FeeRecipient: fee},
	}}
	return &api.Response[*api.VersionedProposal]{Data: &api.VersionedProposal{Version: spec.DataVersionBellatrix, Bellatrix: blk,
		ConsensusValue: cons, ExecutionValue: exec}, Metadata: map[string]any{}}, nil
}

// bpClientProv is a node that can also be asked for its client name (as vouch's HTTP clients can).
type bpClientProv struct{ bpProv }

func (p bpClientProv) NodeClient(ctx context.Context) (*api.Response[string], error) {
	if c07Lats[p.e.nodes[p.i].lat] == -1 {
		// the node answers nothing at all
		d := ctx.Done()
		if d == nil {
			mc.Block(0)
		}
		mc.Block(mc.KeyOfRecv(d))
		return nil, ctx.Err()
	}
	return &api.Response[string]{Data: fmt.Sprintf("client%d", p.i), Metadata: map[string]any{}}, nil
}

func bpLabel(r *api.Response[*api.VersionedProposal], err error) (byte, error) {
	if err != nil {
		return 0, err
	}
	if r == nil || r.Data == nil || r.Data.Bellatrix == nil {
		return '?', nil
	}
	return r.Data.Bellatrix.ParentRoot[0], nil
}

// ---- sync committee contribution ----------------------------------------------------------------

type scProv struct {
	e *c07Env
	i int
}

func (p scProv) SyncCommitteeContribution(ctx context.Context, _ *api.SyncCommitteeContributionOpts) (*api.Response[*altair.SyncCommitteeContribution], error) {
	k, err := p.e.serve(ctx, p.i)
	if err != nil {
		return nil, err
	}
	if k == 'I' {
		return &api.Response[*altair.SyncCommitteeContribution]{Data: nil, Metadata: map[string]any{}}, nil
	}
	bits := bitfield.NewBitvector128()
	n := 6
	if k == 'B' {
		n = 2
	}
	for i := 0; i < n; i++ {
		bits.SetBitAt(uint64(i), true)
	}
	return &api.Response[*altair.SyncCommitteeContribution]{Data: &altair.SyncCommitteeContribution{Slot: c07Slot, BeaconBlockRoot: root(k), AggregationBits: bits}, Metadata: map[string]any{}}, nil
}

func scLabel(r *api.Response[*altair.SyncCommitteeContribution], err error) (byte, error) {
	if err != nil {
		return 0, err
	}
	if r == nil || r.Data == nil {
		return '?', nil
	}
	return r.Data.BeaconBlockRoot[0], nil
}

// ---- block root / header / signed block ----------------------------------------------------------

type brProv struct {
	e *c07Env
	i int
}

func (p brProv) BeaconBlockRoot(ctx context.Context, _ *api.BeaconBlockRootOpts) (*api.Response[*phase0.Root], error) {
	k, err := p.e.serve(ctx, p.i)
	if err != nil {
		return nil, err
	}
	r := root(k)
	return &api.Response[*phase0.Root]{Data: &r, Metadata: map[string]any{}}, nil
}

func brLabel(r *api.Response[*phase0.Root], err error) (byte, error) {
	if err != nil {
		return 0, err
	}
	if r == nil || r.Data == nil {
		return '?', nil
	}
	return r.Data[0], nil
}

type bhProv struct {
	e *c07Env
	i int
}

func (p bhProv) BeaconBlockHeader(ctx context.Context, _ *api.BeaconBlockHeaderOpts) (*api.Response[*apiv1.BeaconBlockHeader], error) {
	k, err := p.e.serve(ctx, p.i)
	if err != nil {
		return nil, err
	}
	return &api.Response[*apiv1.BeaconBlockHeader]{Data: &apiv1.BeaconBlockHeader{Root: root(k), Header: &phase0.SignedBeaconBlockHeader{Message: &phase0.BeaconBlockHeader{Slot: c07Slot}}}, Metadata: map[string]any{}}, nil
}

type sbProv struct {
	e *c07Env
	i int
}

func (p sbProv) SignedBeaconBlock(ctx context.Context, _ *api.SignedBeaconBlockOpts) (*api.Response[*spec.VersionedSignedBeaconBlock], error) {
	k, err := p.e.serve(ctx, p.i)
	if err != nil {
		return nil, err
	}
	return &api.Response[*spec.VersionedSignedBeaconBlock]{Data: &spec.VersionedSignedBeaconBlock{Version: spec.DataVersionPhase0,
		Phase0: &phase0.SignedBeaconBlock{Message: &phase0.BeaconBlock{Slot: c07Slot, ParentRoot: root(k), Body: &phase0.BeaconBlockBody{ETH1Data: &phase0.ETH1Data{BlockHash: make([]byte, 32)}}}}}, Metadata: map[string]any{}}, nil
}

// The strategies that take a process concurrency are given 1, the value a single-CPU host gets by default (it is
// GOMAXPROCS): asking all nodes at once must not depend on it.
func c07Strats() []c07Strat {
	mon := &nullmetrics.Service{}
	bg := context.Background()
	ct := func() interface {
		SlotToEpoch(phase0.Slot) phase0.Epoch
	} {
		return nil
	}
	_ = ct
	return []c07Strat{
		{name: "attestationdata/best", fam: "best", kinds: "ABGKIJE", mk: func(e *c07Env) func(context.Context) (byte, error) {
			s, err := adbest.New(bg, adbest.WithLogLevel(zerolog.Disabled), adbest.WithClientMonitor(mon), adbest.WithProcessConcurrency(1),
				adbest.WithTimeout(c07Timeout), adbest.WithChainTime(newChainTime(0, 12*time.Second, 32)), adbest.WithBlockRootToSlotCache(tableCache{}),
				adbest.WithAttestationDataProviders(adProviders(e)))
			must(err)
			return func(ctx context.Context) (byte, error) {
				r, err := s.AttestationData(ctx, &api.AttestationDataOpts{Slot: c07Slot, CommitteeIndex: 1})
				e.relabel = func() (byte, error) { return adLabel(r, err) }
				return adLabel(r, err)
			}
		}},
		{name: "attestationdata/majority", fam: "majority", kinds: "ABCIJE", thresh: true, mk: func(e *c07Env) func(context.Context) (byte, error) {
			s, err := admajority.New(bg, admajority.WithLogLevel(zerolog.Disabled), admajority.WithClientMonitor(mon), admajority.WithProcessConcurrency(1),
				admajority.WithTimeout(c07Timeout), admajority.WithChainTime(newChainTime(0, 12*time.Second, 32)), admajority.WithBlockRootToSlotCache(tableCache{}),
				admajority.WithThreshold(e.threshold), admajority.WithAttestationDataProviders(adProviders(e)))
			must(err)
			return func(ctx context.Context) (byte, error) {
				r, err := s.AttestationData(ctx, &api.AttestationDataOpts{Slot: c07Slot, CommitteeIndex: 1})
				e.relabel = func() (byte, error) { return adLabel(r, err) }
				return adLabel(r, err)
			}
		}},
		{name: "attestationdata/first", fam: "first", kinds: "ABE", mk: func(e *c07Env) func(context.Context) (byte, error) {
			s, err := adfirst.New(bg, adfirst.WithLogLevel(zerolog.Disabled), adfirst.WithClientMonitor(mon), adfirst.WithTimeout(c07Timeout),
				adfirst.WithAttestationDataProviders(adProviders(e)))
			must(err)
			return func(ctx context.Context) (byte, error) {
				r, err := s.AttestationData(ctx, &api.AttestationDataOpts{Slot: c07Slot, CommitteeIndex: 1})
				e.relabel = func() (byte, error) { return adLabel(r, err) }
				return adLabel(r, err)
			}
		}},
		{name: "aggregateattestation/best", fam: "best", kinds: "ABZE", mk: func(e *c07Env) func(context.Context) (byte, error) {
			m := map[string]eth2client.AggregateAttestationProvider{}
			for i, n := range names(len(e.nodes)) {
				m[n] = aaProv{e, i}
			}
			s, err := aabest.New(bg, aabest.WithLogLevel(zerolog.Disabled), aabest.WithClientMonitor(mon), aabest.WithProcessConcurrency(1),
				aabest.WithTimeout(c07Timeout), aabest.WithAggregateAttestationProviders(m))
			must(err)
			return func(ctx context.Context) (byte, error) {
				r, err := s.AggregateAttestation(ctx, &api.AggregateAttestationOpts{Slot: c07Slot})
				e.relabel = func() (byte, error) { return aaLabel(r, err) }
				return aaLabel(r, err)
			}
		}},
		{name: "aggregateattestation/first", fam: "first", kinds: "ABE", mk: func(e *c07Env) func(context.Context) (byte, error) {
			m := map[string]eth2client.AggregateAttestationProvider{}
			for i, n := range names(len(e.nodes)) {
				m[n] = aaProv{e, i}
			}
			s, err := aafirst.New(bg, aafirst.WithLogLevel(zerolog.Disabled), aafirst.WithClientMonitor(mon), aafirst.WithTimeout(c07Timeout),
				aafirst.WithAggregateAttestationProviders(m))
			must(err)
			return func(ctx context.Context) (byte, error) {
				r, err := s.AggregateAttestation(ctx, &api.AggregateAttestationOpts{Slot: c07Slot})
				e.relabel = func() (byte, error) { return aaLabel(r, err) }
				return aaLabel(r, err)
			}
		}},
		{name: "beaconblockproposal/best", fam: "best", kinds: "ABIHE", mk: func(e *c07Env) func(context.Context) (byte, error) {
			m := map[string]eth2client.ProposalProvider{}
			for i, n := range names(len(e.nodes)) {
				m[n] = bpProv{e, i}
			}
			s, err := bpbest.New(bg, bpbest.WithLogLevel(zerolog.Disabled), bpbest.WithClientMonitor(mon), bpbest.WithProcessConcurrency(1),
				bpbest.WithTimeout(c07Timeout), bpbest.WithEventsProvider(&eventsProvider{}), bpbest.WithChainTimeService(newChainTime(0, 12*time.Second, 32)),
				bpbest.WithSpecProvider(&specProvider{m: baseSpec(12*time.Second, 32)}), bpbest.WithProposalProviders(m),
				bpbest.WithSignedBeaconBlockProvider(c18Blocks{}), bpbest.WithBlockRootToSlotCache(tableCache{}))
			must(err)
			return func(ctx context.Context) (byte, error) {
				r, err := s.Proposal(ctx, &api.ProposalOpts{Slot: c07Slot})
				e.relabel = func() (byte, error) { return bpLabel(r, err) }
				return bpLabel(r, err)
			}
		}},
		// the same strategy asked with a graffiti that names the node's client ({{CLIENT}}): the strategy asks each node
		// for its client name first; a node that never answers does not answer that question either
		{name: "beaconblockproposal/best+client-graffiti", fam: "best", kinds: "ABE", mk: func(e *c07Env) func(context.Context) (byte, error) {
			m := map[string]eth2client.ProposalProvider{}
			for i, n := range names(len(e.nodes)) {
				m[n] = bpClientProv{bpProv{e, i}}
			}
			s, err := bpbest.New(bg, bpbest.WithLogLevel(zerolog.Disabled), bpbest.WithClientMonitor(mon), bpbest.WithProcessConcurrency(1),
				bpbest.WithTimeout(c07Timeout), bpbest.WithEventsProvider(&eventsProvider{}), bpbest.WithChainTimeService(newChainTime(0, 12*time.Second, 32)),
				bpbest.WithSpecProvider(&specProvider{m: baseSpec(12*time.Second, 32)}), bpbest.WithProposalProviders(m),
				bpbest.WithSignedBeaconBlockProvider(c18Blocks{}), bpbest.WithBlockRootToSlotCache(tableCache{}))
			must(err)
			return func(ctx context.Context) (byte, error) {
				var g [32]byte
				copy(g[:], "vouch {{CLIENT}}")
				r, err := s.Proposal(ctx, &api.ProposalOpts{Slot: c07Slot, Graffiti: g})
				e.relabel = func() (byte, error) { return bpLabel(r, err) }
				return bpLabel(r, err)
			}
		}},
		{name: "beaconblockproposal/first", fam: "first", kinds: "ABE", mk: func(e *c07Env) func(context.Context) (byte, error) {
			m := map[string]eth2client.ProposalProvider{}
			for i, n := range names(len(e.nodes)) {
				m[n] = bpProv{e, i}
			}
			s, err := bpfirst.New(bg, bpfirst.WithLogLevel(zerolog.Disabled), bpfirst.WithClientMonitor(mon), bpfirst.WithTimeout(c07Timeout), bpfirst.WithProposalProviders(m))
			must(err)
			return func(ctx context.Context) (byte, error) {
				r, err := s.Proposal(ctx, &api.ProposalOpts{Slot: c07Slot})
				e.relabel = func() (byte, error) { return bpLabel(r, err) }
				return bpLabel(r, err)
			}
		}},
		{name: "synccommitteecontribution/best", fam: "best", kinds: "ABIE", mk: func(e *c07Env) func(context.Context) (byte, error) {
			m := map[string]eth2client.SyncCommitteeContributionProvider{}
			for i, n := range names(len(e.nodes)) {
				m[n] = scProv{e, i}
			}
			s, err := scbest.New(bg, scbest.WithLogLevel(zerolog.Disabled), scbest.WithClientMonitor(mon), scbest.WithProcessConcurrency(1),
				scbest.WithTimeout(c07Timeout), scbest.WithSyncCommitteeContributionProviders(m))
			must(err)
			return func(ctx context.Context) (byte, error) {
				r, err := s.SyncCommitteeContribution(ctx, &api.SyncCommitteeContributionOpts{Slot: c07Slot})
				e.relabel = func() (byte, error) { return scLabel(r, err) }
				return scLabel(r, err)
			}
		}},
		{name: "synccommitteecontribution/first", fam: "first", kinds: "ABE", mk: func(e *c07Env) func(context.Context) (byte, error) {
			m := map[string]eth2client.SyncCommitteeContributionProvider{}
			for i, n := range names(len(e.nodes)) {
				m[n] = scProv{e, i}
			}
			s, err := scfirst.New(bg, scfirst.WithLogLevel(zerolog.Disabled), scfirst.WithClientMonitor(mon), scfirst.WithTimeout(c07Timeout),
				scfirst.WithSyncCommitteeContributionProviders(m))
			must(err)
			return func(ctx context.Context) (byte, error) {
				r, err := s.SyncCommitteeContribution(ctx, &api.SyncCommitteeContributionOpts{Slot: c07Slot})
				e.relabel = func() (byte, error) { return scLabel(r, err) }
				return scLabel(r, err)
			}
		}},
		{name: "beaconblockroot/first", fam: "first", kinds: "ABE", mk: func(e *c07Env) func(context.Context) (byte, error) {
			m := map[string]eth2client.BeaconBlockRootProvider{}
			for i, n := range names(len(e.nodes)) {
				m[n] = brProv{e, i}
			}
			s, err := brfirst.New(bg, brfirst.WithLogLevel(zerolog.Disabled), brfirst.WithClientMonitor(mon), brfirst.WithTimeout(c07Timeout), brfirst.WithBeaconBlockRootProviders(m))
			must(err)
			return func(ctx context.Context) (byte, error) {
				r, err := s.BeaconBlockRoot(ctx, &api.BeaconBlockRootOpts{Block: "head"})
				e.relabel = func() (byte, error) { return brLabel(r, err) }
				return brLabel(r, err)
			}
		}},
		{name: "beaconblockroot/latest", fam: "best", kinds: "ABE", mk: func(e *c07Env) func(context.Context) (byte, error) {
			m := map[string]eth2client.BeaconBlockRootProvider{}
			for i, n := range names(len(e.nodes)) {
				m[n] = brProv{e, i}
			}
			s, err := brlatest.New(bg, brlatest.WithLogLevel(zerolog.Disabled), brlatest.WithClientMonitor(mon), brlatest.WithProcessConcurrency(1),
				brlatest.WithTimeout(c07Timeout), brlatest.WithBlockRootToSlotCache(tableCache{}), brlatest.WithBeaconBlockRootProviders(m))
			must(err)
			return func(ctx context.Context) (byte, error) {
				r, err := s.BeaconBlockRoot(ctx, &api.BeaconBlockRootOpts{Block: "head"})
				e.relabel = func() (byte, error) { return brLabel(r, err) }
				return brLabel(r, err)
			}
		}},
		{name: "beaconblockroot/majority", fam: "majority", kinds: "ABE", mk: func(e *c07Env) func(context.Context) (byte, error) {
			m := map[string]eth2client.BeaconBlockRootProvider{}
			for i, n := range names(len(e.nodes)) {
				m[n] = brProv{e, i}
			}
			s, err := brmajority.New(bg, brmajority.WithLogLevel(zerolog.Disabled), brmajority.WithClientMonitor(mon), brmajority.WithProcessConcurrency(1),
				brmajority.WithTimeout(c07Timeout), brmajority.WithBlockRootToSlotCache(tableCache{}), brmajority.WithBeaconBlockRootProviders(m))
			must(err)
			return func(ctx context.Context) (byte, error) {
				r, err := s.BeaconBlockRoot(ctx, &api.BeaconBlockRootOpts{Block: "head"})
				e.relabel = func() (byte, error) { return brLabel(r, err) }
				return brLabel(r, err)
			}
		}},
		{name: "beaconblockheader/first", fam: "first", kinds: "ABENU", mk: func(e *c07Env) func(context.Context) (byte, error) {
			m := map[string]eth2client.BeaconBlockHeadersProvider{}
			for i, n := range names(len(e.nodes)) {
				m[n] = bhProv{e, i}
			}
			s, err := bhfirst.New(bg, bhfirst.WithLogLevel(zerolog.Disabled), bhfirst.WithClientMonitor(mon), bhfirst.WithTimeout(c07Timeout), bhfirst.WithBeaconBlockHeadersProviders(m))
			must(err)
			return func(ctx context.Context) (byte, error) {
				r, err := s.BeaconBlockHeader(ctx, &api.BeaconBlockHeaderOpts{Block: "head"})
				if err != nil {
					return 0, err
				}
				e.relabel = func() (byte, error) {
					if r == nil || r.Data == nil {
						return '?', nil
					}
					return r.Data.Root[0], nil
				}
				return e.relabel()
			}
		}},
		{name: "signedbeaconblock/first", fam: "first", kinds: "ABENU", mk: func(e *c07Env) func(context.Context) (byte, error) {
			m := map[string]eth2client.SignedBeaconBlockProvider{}
			for i, n := range names(len(e.nodes)) {
				m[n] = sbProv{e, i}
			}
			s, err := sbfirst.New(bg, sbfirst.WithLogLevel(zerolog.Disabled), sbfirst.WithClientMonitor(mon), sbfirst.WithTimeout(c07Timeout), sbfirst.WithSignedBeaconBlockProviders(m))
			must(err)
			return func(ctx context.Context) (byte, error) {
				r, err := s.SignedBeaconBlock(ctx, &api.SignedBeaconBlockOpts{Block: "head"})
				if err != nil {
					return 0, err
				}
				e.relabel = func() (byte, error) {
					if r == nil || r.Data == nil || r.Data.Phase0 == nil {
						return '?', nil
					}
					return r.Data.Phase0.Message.ParentRoot[0], nil
				}
				return e.relabel()
			}
		}},
	}
}

// score of a valid kind: every strategy's own score function ranks A above B by construction of the data.
func c07Score(k byte) int {
	switch k {
	case 'A', 'C':
		return 4
	case 'B':
		return 3
	case 'G':
		return 2
	case 'K', 'Z':
		return 1
	}
	return 0
}

func c07Units(tier string) []hx.Unit {
	var units []hx.Unit
	for _, st := range c07Strats() {
		st := st
		for n := 1; n <= 3; n++ {
			n := n
			// alphabets: full for n<=2; for n==3 the quick tier restricts latencies
			lats := []int{0, 1, 2, 3, 4, 5, 6}
			if n == 3 {
				if tier == "thorough" {
					lats = []int{0, 1, 2, 3, 4, 5}
				} else {
					lats = []int{0, 2, 3, 5}
				}
			}
			kinds := st.kinds
			for k0 := 0; k0 < len(kinds); k0++ {
				for l0 := range lats {
					k0, l0 := k0, l0
					e := &c07Env{}
					call := new(func(context.Context) (byte, error))
					u := hx.Unit{Name: fmt.Sprintf("C07/%s/n%d/%c%d", st.name, n, kinds[k0], c07Lats[lats[l0]]), Cfg: mc.Config{Horizon: int64(40 * time.Second), Deviation: n == 3, MaxSteps: 20000}}
					switch {
					case n <= 2 && tier == "thorough":
						u.Bound = 2
					case n <= 2:
						u.Bound = 1
					case tier == "thorough":
						u.Bound = 1
					default:
						u.Bound = 0
					}
					u.Body = func() {
						*e = c07Env{nodes: make([]c07Node, n), arrive: make([]int64, n), called: make([]int, n)}
						e.nodes[0] = c07Node{kind: kinds[k0], lat: lats[l0]}
						for i := 1; i < n; i++ {
							// symmetry: later nodes are ordered after node 0 in the alphabet only by index, no reduction
							e.nodes[i] = c07Node{kind: kinds[mc.Choose(len(kinds))], lat: lats[mc.Choose(len(lats))]}
						}
						for i := range e.arrive {
							e.arrive[i] = -1
						}
						e.threshold = 1
						if st.thresh {
							e.threshold = 1 + mc.Choose(n)
						}
						*call = st.mk(e)
						e.t0 = mc.Now()
						e.ret, e.err = (*call)(context.Background())
						e.t1 = mc.Now()
						e.done = true
					}
					u.Check = func(r *mc.Result) mc.Verdict { return c07Check(&st, e, r) }
					units = append(units, u)
				}
			}
		}
	}
	// the value a call returned stays what it was: a second call on the same strategy instance, answered with
	// other data, must not change the object the first caller holds (the attester validates the data it
	// obtained and signs it later)
	for _, st := range c07Strats() {
		st := st
		e := &c07Env{}
		var first, again, second byte
		var done bool
		u := hx.Unit{Name: "C07/" + st.name + "/second-call-keeps-first-result", Cfg: mc.Config{Fixed: true, Horizon: int64(60 * time.Second), MaxSteps: 20000}}
		u.Body = func() {
			// two nodes: the second answers the first call only after 10 s, whatever happens to the request (a
			// late answer left over from the first call must not be taken for an answer to the second)
			*e = c07Env{nodes: []c07Node{{kind: 'A', lat: 0}, {kind: 'A', lat: 6}}, arrive: []int64{-1, -1}, called: make([]int, 2), threshold: 1}
			first, again, second, done = 0, 0, 0, false
			call := st.mk(e)
			first, _ = call(context.Background())
			held := e.relabel
			mc.Sleep(int64(12 * time.Second))
			e.nodes[0].kind, e.nodes[1].kind, e.nodes[1].lat = 'B', 'B', 0
			second, _ = call(context.Background())
			if held != nil {
				again, _ = held()
			}
			done = true
		}
		u.Check = func(r *mc.Result) mc.Verdict {
			v := mc.Verdict{Outcome: fmt.Sprintf("reuse:%c%c%c", first, second, again), Nontrivial: true, Sample: fmt.Sprintf("%s: first call -> %c, second call (node now answers B) -> %c, the first result read again -> %c", st.name, first, second, again)}
			switch {
			case r.Panic != "":
				v.Violation, v.Key = v.Sample+": panic: "+firstLine(r.Panic), "C07/"+st.name+"/panic"
			case !done:
				v.Violation, v.Key = v.Sample+": a call never returned", "C07/"+st.name+"/never-returned"
			case first != 'A' || second != 'B':
				v.Violation, v.Key = v.Sample+": a call did not return what its nodes gave", "C07/"+st.name+"/value-nobody-gave"
			case again != first:
				v.Violation, v.Key = v.Sample+": the response returned by the first call was changed by the second call on the same strategy", "C07/"+st.name+"/returned-value-overwritten-by-later-call"
			}
			return v
		}
		units = append(units, u)
	}
	units = append(units, c07SlowCacheUnits()...)
	return units
}

// slowCache answers like tableCache, ten seconds later (the root is not cached and the header has to be fetched from
// beacon nodes that are slow); like an HTTP client it gives up when its context ends.
type slowCache struct{}

func (slowCache) BlockRootToSlot(ctx context.Context, r phase0.Root) (phase0.Slot, error) {
	t := mtime.After(10 * time.Second)
	if sel := mc.Select(false, mc.RecvCase(ctx.Done()), mc.RecvCase(t)); sel.Index == 0 {
		return 0, ctx.Err()
	}
	return tableCache{}.BlockRootToSlot(ctx, r)
}

// The majority strategies consult the block-root-to-slot cache; a lookup that has to go to slow beacon nodes must
// not take the strategy past its configured timeout.  Two nodes give the same value at once; the caller's context
// has no deadline (a job's context).
func c07SlowCacheUnits() []hx.Unit {
	var units []hx.Unit
	for _, which := range []string{"attestationdata/majority", "beaconblockroot/majority"} {
		which := which
		var ret byte
		var rerr error
		var t1 int64
		var done bool
		u := hx.Unit{Name: "C07/" + which + "/slow-block-root-lookup", Cfg: mc.Config{Horizon: int64(200 * time.Second)}, Bound: 0}
		u.Body = func() {
			ret, rerr, t1, done = 0, nil, 0, false
			e := &c07Env{nodes: []c07Node{{kind: 'A', lat: 0}, {kind: 'A', lat: 0}}, threshold: 2, arrive: []int64{-1, -1}, called: make([]int, 2)}
			mon := &nullmetrics.Service{}
			bg := context.Background()
			t0 := mc.Now()
			if which == "attestationdata/majority" {
				s, err := admajority.New(bg, admajority.WithLogLevel(zerolog.Disabled), admajority.WithClientMonitor(mon), admajority.WithProcessConcurrency(1),
					admajority.WithTimeout(c07Timeout), admajority.WithChainTime(newChainTime(0, 12*time.Second, 32)), admajority.WithBlockRootToSlotCache(slowCache{}),
					admajority.WithThreshold(2), admajority.WithAttestationDataProviders(adProviders(e)))
				must(err)
				ret, rerr = adLabel(s.AttestationData(bg, &api.AttestationDataOpts{Slot: c07Slot, CommitteeIndex: 1}))
			} else {
				m := map[string]eth2client.BeaconBlockRootProvider{}
				for i, n := range names(len(e.nodes)) {
					m[n] = brProv{e, i}
				}
				s, err := brmajority.New(bg, brmajority.WithLogLevel(zerolog.Disabled), brmajority.WithClientMonitor(mon), brmajority.WithProcessConcurrency(1),
					brmajority.WithTimeout(c07Timeout), brmajority.WithBlockRootToSlotCache(slowCache{}), brmajority.WithBeaconBlockRootProviders(m))
				must(err)
				ret, rerr = brLabel(s.BeaconBlockRoot(bg, &api.BeaconBlockRootOpts{Block: "head"}))
			}
			t1 = mc.Now() - t0
			done = true
		}
		u.Check = func(r *mc.Result) mc.Verdict {
			v := mc.Verdict{Outcome: which + " slow lookup", Nontrivial: true,
				Sample: fmt.Sprintf("%s, two nodes give A at once, every block-root lookup takes 10 s, timeout %v: returned %q (error %v) after %v", which, c07Timeout, string(ret), rerr, time.Duration(t1))}
			switch {
			case r.Panic != "":
				v.Violation, v.Key = v.Sample+": panic: "+firstLine(r.Panic), "C07/"+which+"/panic"
			case !done:
				v.Violation, v.Key = v.Sample+": the call never returned", "C07/"+which+"/never-returned"
			case t1 > int64(c07Timeout):
				v.Violation, v.Key = v.Sample+": returned after the configured timeout", "C07/"+which+"/returned-after-timeout"
			case rerr != nil || ret != 'A':
				v.Violation, v.Key = v.Sample+": the value both nodes gave was not returned", "C07/"+which+"/error-despite-acceptable-response"
			}
			return v
		}
		units = append(units, u)
	}
	return units
}

func c07Check(st *c07Strat, e *c07Env, r *mc.Result) mc.Verdict {
	var desc []string
	for _, nd := range e.nodes {
		desc = append(desc, fmt.Sprintf("%c@%d", nd.kind, c07Lats[nd.lat]))
	}
	v := mc.Verdict{}
	res := "err"
	if e.err == nil {
		res = string(rune(e.ret))
	}
	v.Outcome = fmt.Sprintf("%s:%s@%d", st.fam, res, (e.t1-e.t0)/int64(time.Second))
	v.Sample = fmt.Sprintf("%s nodes=[%s] threshold=%d -> %s", st.name, strings.Join(desc, " "), e.threshold, v.Outcome)
	v.Nontrivial = r.SelTies > 0 || len(e.nodes) > 1
	fail := func(key, msg string) mc.Verdict {
		v.Violation = fmt.Sprintf("%s nodes=[%s] threshold=%d: %s (returned %s at %+.1fs)", st.name, strings.Join(desc, " "), e.threshold, msg, res, float64(e.t1-e.t0)/1e9)
		v.Key = "C07/" + st.name + "/" + key
		return v
	}
	if r.Panic != "" {
		return fail("panic", "panic: "+firstLine(r.Panic))
	}
	if !e.done {
		return fail("never-returned", "the strategy call never returned")
	}
	timeout := int64(c07Timeout)
	soft := timeout / 2
	t1 := e.t1 - e.t0
	if t1 > timeout {
		return fail("returned-after-timeout", "returned after the configured timeout")
	}
	valid := func(k byte) bool {
		return k == 'A' || k == 'B' || k == 'C' || k == 'G' || k == 'K' || k == 'Z' || ((k == 'I' || k == 'J') && !strings.Contains(st.kinds, "I"))
	}
	// arrival sets
	type arr struct {
		k byte
		t int64
	}
	var arrs []arr
	allBy := int64(0) // instant by which every node has answered or failed (timeout if some never does)
	for i, nd := range e.nodes {
		if e.called[i] != 1 {
			return fail("node-not-asked-once", fmt.Sprintf("node %d was asked %d times", i, e.called[i]))
		}
		// scripted would-be arrival: the strategy's own cancellation may cut a later answer short, which
		// must not count in the strategy's favour
		var t int64
		switch lat := c07Lats[nd.lat]; lat {
		case -1:
			allBy = timeout
			continue
		case -2:
			t = int64(10 * time.Second)
		default:
			t = int64(lat) * int64(time.Second)
		}
		if e.arrive[i] >= 0 && e.arrive[i]-e.t0 != t {
			return fail("node-asked-late", fmt.Sprintf("node %d's answer arrived %.1f s after the call although it answers %.1f s after being asked: the strategy did not send its requests to all nodes at once", i, float64(e.arrive[i]-e.t0)/1e9, float64(t)/1e9))
		}
		if t > allBy {
			allBy = t
		}
		arrs = append(arrs, arr{nd.kind, t})
	}
	if allBy > timeout {
		allBy = timeout
	}
	if e.err == nil {
		if !valid(e.ret) {
			return fail("invalid-response-returned", "a response failing the strategy's validity rules (or unknown data) was returned")
		}
		given := false
		for _, a := range arrs {
			if a.k == e.ret && a.t <= t1 {
				given = true
			}
		}
		if !given {
			return fail("value-nobody-gave", "returned a value no node had given by then")
		}
	} else {
		// an error is only correct when no acceptable response arrived strictly before the timeout
		switch st.fam {
		case "best", "first":
			for _, a := range arrs {
				if valid(a.k) && a.t < timeout {
					return fail("error-despite-acceptable-response", "returned an error although an acceptable response arrived in time")
				}
			}
		case "majority":
			cnt := map[byte]int{}
			for _, a := range arrs {
				if valid(a.k) && a.t < timeout {
					cnt[a.k]++
				}
			}
			for _, k := range []byte("ABCGKZIJH") { // fixed order: the message must not depend on map iteration
				if c := cnt[k]; c >= e.threshold && e.threshold > 0 {
					return fail("error-despite-threshold-reached", fmt.Sprintf("returned an error although %d nodes reported %c within the timeout (threshold %d)", c, k, e.threshold))
				}
			}
		}
		return v
	}
	switch st.fam {
	case "best":
		for _, a := range arrs {
			if valid(a.k) && a.t < t1 && c07Score(a.k) > c07Score(e.ret) {
				return fail("not-the-best", fmt.Sprintf("returned %c although the higher-scoring %c had arrived at %+.1fs", e.ret, a.k, float64(a.t)/1e9))
			}
		}
		// decision point: not before the soft timeout unless every node has answered
		if t1 < soft && t1 < allBy {
			return fail("returned-before-decision-point", "returned before the soft timeout while nodes were still pending")
		}
	case "majority":
		cntLE := map[byte]int{}
		cntLT := map[byte]int{}
		for _, a := range arrs {
			if !valid(a.k) {
				continue
			}
			if a.t <= t1 {
				cntLE[a.k]++
			}
			if a.t < t1 {
				cntLT[a.k]++
			}
		}
		if st.thresh && cntLE[e.ret] < e.threshold {
			return fail("below-threshold", fmt.Sprintf("used a value reported by %d node(s), below the threshold", cntLE[e.ret]))
		}
		for _, k := range []byte("ABCGKZIJH") { // fixed order: the message must not depend on map iteration
			if c := cntLT[k]; c > cntLE[e.ret] {
				return fail("not-most-frequent", fmt.Sprintf("returned %c (%d) although %c had been reported %d times", e.ret, cntLE[e.ret], k, c))
			}
		}
	}
	return v
}

func init() {
	hx.Register(&hx.Prop{
		ID:    "C07",
		Title: "Multi-node strategies return the right valid answer, in bounded time",
		Rule: "for each of the strategy implementations and n = 1..3 scripted beacon nodes: every assignment of response kind (valid-high, valid-low, for the attestation data majority also a value sharing the head of valid-high but differing in its source, invalid where the strategy has a validity rule, error; for the header and signed-block strategies also the API errors 404 and 503, which they tell apart) and latency (0, <soft, =soft, between, =timeout, never, late ignoring cancellation) per node, and for majority every threshold 1..n; per strategy also two calls in a row on one instance, a late answer to the first arriving in between (the second returns what its nodes give, the response object of the first is unchanged by it); " +
			"per assignment every order of same-instant events and every select tie within the schedule bound (n<=2: preemption bound 1 quick / 2 thorough; n=3: deviation bound 0 quick / 1 thorough); oracle on the observed return instant against the arrival sets; non-trivial = more than one node or a select tie; distinct = distinct (family, result, return second) outcomes",
		Assumptions: []string{
			"nodes honour request cancellation except the explicit 'late ignoring cancellation' latency",
			"valid-high outranks valid-low under each strategy's own score function by construction of the data",
			"responses exactly on a timeout boundary are admitted both ways",
		},
		Units:         c07Units,
		MinNontrivial: 1000,
	})
}
