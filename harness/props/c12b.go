package props

import (
	"context"
	"fmt"
	"strings"
	"time"

	"verifharness/hx"

	"github.com/attestantio/go-eth2-client/spec/bellatrix"
	"github.com/attestantio/go-eth2-client/spec/phase0"
	"github.com/attestantio/vouch/services/blockrelay"
	standardblockrelay "github.com/attestantio/vouch/services/blockrelay/standard"
	nullmetrics "github.com/attestantio/vouch/services/metrics/null"
	"github.com/attestantio/vouch/util"
	"github.com/attestantio/vouch/verifmc/mc"
	"github.com/attestantio/vouch/verifmc/mcontext"
	"github.com/rs/zerolog"
)

// C12, part "history": longer sequential histories.  The configuration source goes through four outcomes; after
// each fetch a registration round is made and both validators' settings are looked up.  Every step must return (a
// round that re-signs, finds an earlier registration again or keeps the last one touches the registration cache and
// its lock in different ways), and the settings are those of the last good document.

func c12HistoryUnits(_ string) []hx.Unit {
	var units []hx.Unit
	alpha := []string{"A", "B", "err"}
	for code := 0; code < 81; code++ {
		seq := []string{alpha[code%3], alpha[(code/3)%3], alpha[(code/9)%3], alpha[(code/27)%3]}
		steps, rounds := 0, 0
		var last [2]c12Req
		u := hx.Unit{Name: "C12/history/fetch+round[" + strings.Join(seq, ",") + "]", Cfg: mc.Config{Fixed: true, Horizon: int64(120 * time.Second)}}
		u.Body = func() {
			steps, rounds, last = 0, 0, [2]c12Req{}
			md := &c12Majordomo{docs: seq}
			util.VerifResetBuilderClients()
			util.VerifSetBuilderClient(c12Relay, c12Relays{})
			ctx, cancel := mcontext.WithCancel(context.Background())
			defer cancel()
			v1, v2 := newAccount("W", "v1", 1), newAccount("W", "v2", 2)
			accts := &accountsTable{byIndex: map[phase0.ValidatorIndex]*hAccount{1: v1, 2: v2}}
			var fb bellatrix.ExecutionAddress
			for i := range fb {
				fb[i] = 0xff
			}
			svc, err := standardblockrelay.New(ctx,
				standardblockrelay.WithLogLevel(zerolog.Disabled), standardblockrelay.WithMonitor(&nullmetrics.Service{}), standardblockrelay.WithMajordomo(md),
				standardblockrelay.WithScheduler(&nopScheduler{}), standardblockrelay.WithListenAddress("127.0.0.1:18550"),
				standardblockrelay.WithChainTime(newChainTime(-int64(100*12*time.Second), 12*time.Second, 32)), standardblockrelay.WithConfigURL("file:///config.json"),
				standardblockrelay.WithFallbackFeeRecipient(fb), standardblockrelay.WithFallbackGasLimit(30000000),
				standardblockrelay.WithAccountsProvider(accts), standardblockrelay.WithValidatorsProvider(c12Validators{}), standardblockrelay.WithValidatingAccountsProvider(accts),
				standardblockrelay.WithValidatorRegistrationSigner(c12Signer{}), standardblockrelay.WithReleaseVersion("test"),
				standardblockrelay.WithBuilderBidProvider(c12Bids{}), standardblockrelay.WithBuilderConfigs(map[phase0.BLSPubKey]*blockrelay.BuilderConfig{}))
			must(err)
			mc.Sleep(int64(time.Second)) // the round started by the constructor
			mc.Go(func() {
				for i := 1; i < len(seq); i++ {
					svc.VerifFetchExecutionConfig(ctx)
					steps++
					svc.VerifSubmitValidatorRegistrations(ctx)
					rounds++
				}
				for k, a := range []*hAccount{v1, v2} {
					pc, err := svc.ProposerConfig(ctx, a, a.pubkey())
					last[k].err = err
					if err == nil && pc != nil {
						last[k].fee, last[k].nrel = strings.ToLower(pc.FeeRecipient.String()), len(pc.Relays)
					}
					last[k].done = true
				}
			})
			mc.Sleep(int64(60 * time.Second))
		}
		u.Check = func(r *mc.Result) mc.Verdict {
			v := mc.Verdict{Outcome: fmt.Sprintf("history fetches=%d rounds=%d", steps, rounds), Nontrivial: true,
				Sample: fmt.Sprintf("history %v: %d fetches, %d registration rounds returned", seq, steps, rounds)}
			fail := func(key, msg string) mc.Verdict {
				v.Violation, v.Key = v.Sample+": "+msg, "C12/"+key
				return v
			}
			if r.Panic != "" {
				return fail("panic", "panic: "+firstLine(r.Panic))
			}
			if steps < len(seq)-1 && steps == rounds {
				return fail("refresh-never-returned", fmt.Sprintf("the fetch after outcome %d never returned", steps+1))
			}
			if rounds < len(seq)-1 {
				return fail("request-never-returned/register", fmt.Sprintf("the registration round after outcome %d (%s) never returned", rounds+2, seq[rounds+1]))
			}
			if !last[0].done || !last[1].done {
				return fail("request-never-returned/lookup", "a lookup after the history never returned")
			}
			lastGood := ""
			for _, d := range seq {
				if d == "A" || d == "B" {
					lastGood = d
				}
			}
			for k := range last {
				fee, nrel, isErr := c12Expect(lastGood, k+1)
				if isErr {
					continue
				}
				if last[k].err != nil || last[k].fee != fee || last[k].nrel != nrel {
					return fail("not-last-good-config", fmt.Sprintf("validator %d got fee recipient %s with %d relays (error %v); last good document %q says %s with %d", k+1, last[k].fee, last[k].nrel, last[k].err, lastGood, fee, nrel))
				}
			}
			return v
		}
		units = append(units, u)
	}
	return units
}

func init() {
	p := hx.Get("C12")
	if p == nil {
		return
	}
	base := p.Units
	p.Units = func(tier string) []hx.Unit { return append(base(tier), c12HistoryUnits(tier)...) }
	p.Rule += "; (history) every sequence of four outcomes over {doc A, doc B, error}, a registration round and lookups after each fetch, sequentially: every fetch and round returns, the settings are those of the last good document"
}
