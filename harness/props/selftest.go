package props

import (
	"context"
	"fmt"
	"time"

	"verifharness/hx"

	"github.com/attestantio/vouch/verifmc/matomic"
	"github.com/attestantio/vouch/verifmc/mc"
	"github.com/attestantio/vouch/verifmc/mcontext"
	"github.com/attestantio/vouch/verifmc/msync"
	"github.com/attestantio/vouch/verifmc/mtime"
)

// SELF: a self-test of the shims that vouch does not use at present (timers, tickers, typed atomics, the
// newer context helpers, Once): they exist so that a changed tree using them is still explored.  Not a
// property; not in the manifest.  `./check SELF quick`.
func init() {
	hx.Register(&hx.Prop{
		ID:    "SELF",
		Title: "self-test of the runtime shims",
		Rule:  "timers, tickers, AfterFunc, typed atomics, context.AfterFunc / WithoutCancel, Once under every schedule with one preemption",
		Units: func(string) []hx.Unit {
			var fail string
			u := hx.Unit{Name: "SELF/shims", Cfg: mc.Config{Horizon: int64(time.Minute)}, Bound: 1}
			u.Body = func() {
				fail = ""
				bad := func(f string, a ...any) {
					if fail == "" {
						fail = fmt.Sprintf(f, a...)
					}
				}
				t0 := mc.Now()
				tm := mtime.NewTimer(2 * time.Second)
				mc.Recv(tm.C)
				if mc.Now()-t0 != int64(2*time.Second) {
					bad("NewTimer fired after %d ns", mc.Now()-t0)
				}
				if tm.Stop() {
					bad("Stop of a fired timer returned true")
				}
				tm.Reset(time.Second)
				mc.Recv(tm.C)
				if mc.Now()-t0 != int64(3*time.Second) {
					bad("Reset timer fired at %d ns", mc.Now()-t0)
				}
				var n matomic.Int64
				done := make(chan struct{}, 2)
				mtime.AfterFunc(time.Second, func() { n.Add(1); mc.Send(done, struct{}{}) })
				stopped := mtime.AfterFunc(time.Second, func() { n.Add(100) })
				if !stopped.Stop() {
					bad("Stop of a pending AfterFunc returned false")
				}
				mc.Go(func() { n.Add(1); mc.Send(done, struct{}{}) })
				mc.Recv(done)
				mc.Recv(done)
				if n.Load() != 2 {
					bad("atomic counter is %d", n.Load())
				}
				tk := mtime.NewTicker(time.Second)
				t1 := mc.Now()
				for i := 0; i < 3; i++ {
					mc.Recv(tk.C)
				}
				tk.Stop()
				if mc.Now()-t1 != int64(3*time.Second) {
					bad("three ticks took %d ns", mc.Now()-t1)
				}
				ctx, cancel := mcontext.WithCancel(context.Background())
				ran := make(chan struct{}, 1)
				mcontext.AfterFunc(ctx, func() { mc.Send(ran, struct{}{}) })
				wc := mcontext.WithoutCancel(ctx)
				cancel()
				mc.Recv(ran)
				if wc.Err() != nil || wc.Done() != nil {
					bad("WithoutCancel context is cancelled")
				}
				if mcontext.Cause(ctx) == nil {
					bad("Cause of a cancelled context is nil")
				}
				var once msync.Once
				cnt := 0
				fin := make(chan struct{}, 2)
				for i := 0; i < 2; i++ {
					mc.Go(func() {
						once.Do(func() { mc.Yield(); cnt++ })
						if cnt != 1 {
							bad("Once.Do returned before the function had run")
						}
						mc.Send(fin, struct{}{})
					})
				}
				mc.Recv(fin)
				mc.Recv(fin)
				if cnt != 1 {
					bad("Once ran %d times", cnt)
				}
				// unbuffered channel: two senders hold their values out, the receiver takes them in arrival
				// order (plain receive and select), and no sender gets past its send before its value is taken
				ub := make(chan int)
				var passed matomic.Int64
				for i := 1; i <= 2; i++ {
					i := i
					mc.Go(func() { mc.Send(ub, i); passed.Add(1) })
				}
				mc.Sleep(int64(time.Second))
				if passed.Load() != 0 {
					bad("a send on an unbuffered channel returned before a receive")
				}
				a := mc.Recv(ub)
				sel := mc.Select(false, mc.RecvCase[int](ub))
				b, ok := mc.Got2[int](ub, sel)
				if a+b != 3 || !ok {
					bad("unbuffered channel delivered %d and %d (ok=%v)", a, b, ok)
				}
				mc.Sleep(int64(time.Second))
				if passed.Load() != 2 {
					bad("%d of 2 senders on the unbuffered channel returned", passed.Load())
				}
				// a send on an unbuffered channel inside a select: not ready while nobody receives, ready once a
				// receiver is parked (in a plain receive or in a select), and the value reaches that receiver
				ub2 := make(chan int)
				if sel := mc.Select(true, mc.SendCase[int](ub2, 1)); sel.Index != -1 {
					bad("select sent on an unbuffered channel nobody receives from")
				}
				var got1, got2 matomic.Int64
				mc.Go(func() { got1.Store(int64(mc.Recv(ub2))) })
				mc.Sleep(int64(time.Second))
				if sel := mc.Select(true, mc.SendCase[int](ub2, 7)); sel.Index != 0 {
					bad("select did not send to a parked receiver")
				}
				mc.Sleep(int64(time.Second))
				if got1.Load() != 7 {
					bad("the parked receiver got %d instead of 7", got1.Load())
				}
				other := make(chan int, 1)
				mc.Go(func() {
					sel := mc.Select(false, mc.RecvCase[int](other), mc.RecvCase[int](ub2))
					if sel.Index == 1 {
						v, _ := mc.Got2[int](ub2, sel)
						got2.Store(int64(v))
					}
				})
				mc.Sleep(int64(time.Second))
				mc.Select(false, mc.SendCase[int](ub2, 9))
				mc.Sleep(int64(time.Second))
				if got2.Load() != 9 {
					bad("the receiver parked in a select got %d instead of 9", got2.Load())
				}
			}
			u.Check = func(r *mc.Result) mc.Verdict {
				v := mc.Verdict{Outcome: "ok", Nontrivial: true, Sample: "shims"}
				if r.Panic != "" {
					v.Violation, v.Key = "panic: "+firstLine(r.Panic), "SELF/panic"
				} else if fail != "" {
					v.Violation, v.Key = fail, "SELF/shim"
				}
				for _, b := range r.Blocked {
					if b.Class == "blocked" && v.Violation == "" {
						v.Violation, v.Key = fmt.Sprintf("goroutine g%d blocked at %s", b.G, b.Kind), "SELF/blocked"
					}
				}
				return v
			}
			return []hx.Unit{u}
		},
	})
}
