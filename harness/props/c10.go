package props

import (
	"context"
	"encoding/hex"
	"encoding/json"
	"fmt"
	"math/big"
	"regexp"
	"sort"
	"strings"

	"verifharness/hx"

	"github.com/attestantio/go-eth2-client/spec/bellatrix"
	"github.com/attestantio/go-eth2-client/spec/phase0"
	"github.com/attestantio/vouch/services/beaconblockproposer"
	"github.com/attestantio/vouch/services/blockrelay"
	v1 "github.com/attestantio/vouch/services/blockrelay/v1"
	v2 "github.com/attestantio/vouch/services/blockrelay/v2"
	"github.com/attestantio/vouch/verifmc/mc"
	"github.com/google/uuid"
	e2types "github.com/wealdtech/go-eth2-types/v2"
	e2wtypes "github.com/wealdtech/go-eth2-wallet-types/v2"
)

// C10: proposer settings follow the documented precedence of the execution config.
//
// Every configuration of a bounded space is written out as a JSON document, delivered through the real
// blockrelay.UnmarshalJSON (version dispatch) and resolved with the real ProposerConfig for every
// validator of a small population.  The result is compared, field by field, with a reference resolver
// (c10Ref / c10RefV1 below) that was written from docs/executionconfig.md "Processing and precedence",
// docs/execlayer.md "Precedence of configuration values" and the property statement only; it never
// calls the vouch resolver.  Second oracle: the document produced by marshalling the delivered
// configuration resolves, for every validator, to the same settings.
//
// Where the documentation leaves the outcome open the reference accepts every admissible outcome:
//   * order of the relays in the result (compared as a set keyed by address);
//   * a relay listed both in the base set and in a proposer entry with reset_relays: the relay is
//     required, its values may or may not take the discarded base relay's values into account;
//   * v1: public key of a relay (carried in the URL, not resolved here).
// Left out of the input space because undocumented: JSON null relay/proposer entries, gas limit "0", validators
// without a wallet.  (Expressions with alternation were left out until round 8; the documentation promises
// implicit anchors for the expression, so one is in the alphabet now.)

// ---------------------------------------------------------------------------------------------------
// Population: validators, relays, fallbacks, value encoding.

const (
	c10T = 1 // top level of the execution config
	c10B = 2 // base relay
	c10P = 4 // proposer entry
	c10R = 8 // relay inside a proposer entry
)

var (
	c10Addr   = [3]string{"https://relay1.com/", "https://relay2.com/", "https://relay3.com/"}
	c10PkA    = "0x" + strings.Repeat("aa", 48)
	c10PkB    = "0x" + strings.Repeat("bb", 48)
	c10FbFee  = bellatrix.ExecutionAddress{0xfb, 0xfb, 0xfb, 0xfb, 0xfb, 0xfb, 0xfb, 0xfb, 0xfb, 0xfb, 0xfb, 0xfb, 0xfb, 0xfb, 0xfb, 0xfb, 0xfb, 0xfb, 0xfb, 0xfb}
	c10FbGas  = uint64(29_000_000)
	c10Vals6  = c10Validators()
	c10ReMemo = map[string]*regexp.Regexp{}
	// proposer alphabet: public keys, account expressions with both, one or no explicit anchor.  The last
	// four match nothing when fully anchored and something when an anchor is dropped (two of them carry
	// one explicit anchor, so the other one must still be added).
	// The last one is an alternation: anchored as a whole it matches nothing; if the anchors only bind its outer
	// alternatives it matches W1/A2.
	c10Matchers = []string{c10PkA, c10PkB, "W1/.*", "^W1/A1$", "^W2/.*", ".*/A2$", "W1/A", "1/A2", "^W1/A", "1/A2$", "W2/A9|1/A2"}
)

type c10Validator struct {
	pkHex, wallet, account string
	pk                     phase0.BLSPubKey
	acct                   e2wtypes.Account
}

func (v c10Validator) String() string { return v.pkHex[:6] + ":" + v.wallet + "/" + v.account }

// c10Account is an account that knows its wallet, which is all the resolver looks at.
type c10Account struct {
	name   string
	wallet *c10Wallet
}

func (a *c10Account) ID() uuid.UUID                { return uuid.UUID{} }
func (a *c10Account) Name() string                 { return a.name }
func (a *c10Account) PublicKey() e2types.PublicKey { return nil }
func (a *c10Account) Wallet() e2wtypes.Wallet      { return a.wallet }

type c10Wallet struct{ name string }

func (w *c10Wallet) ID() uuid.UUID { return uuid.UUID{} }
func (w *c10Wallet) Type() string  { return "verif" }
func (w *c10Wallet) Name() string  { return w.name }
func (w *c10Wallet) Version() uint { return 1 }
func (w *c10Wallet) Accounts(_ context.Context) <-chan e2wtypes.Account {
	ch := make(chan e2wtypes.Account)
	close(ch)
	return ch
}

func c10Validators() []c10Validator {
	var out []c10Validator
	for _, pk := range []string{c10PkA, c10PkB} {
		for _, n := range [][2]string{{"W1", "A1"}, {"W1", "A2"}, {"W2", "A1"}} {
			v := c10Validator{pkHex: pk, wallet: n[0], account: n[1]}
			b, _ := hex.DecodeString(pk[2:])
			copy(v.pk[:], b)
			v.acct = &c10Account{name: n[1], wallet: &c10Wallet{name: n[0]}}
			out = append(out, v)
		}
	}
	return out
}

// A value is an id: 0 = absent, -1 = explicit zero (grace and min value only), >0 = a value that is
// unique to the place (level, relay, proposer entry) it was written at.
func c10Fee(id int) string { return "0x" + strings.Repeat(fmt.Sprintf("%02x", id), 20) }
func c10Gas(id int) string { return fmt.Sprintf("%d", 30_000_000+1000*id) }
func c10Pk(id int) string  { return "0x" + strings.Repeat(fmt.Sprintf("%02x", id), 48) }
func c10GraceMs(id int) int64 {
	if id < 0 {
		return 0
	}
	return int64(id) * 10
}
func c10MinEth(id int) string {
	if id < 0 {
		return "0"
	}
	return fmt.Sprintf("0.%03d", id)
}
func c10MinWei(id int) string {
	if id <= 0 {
		return "0"
	}
	return new(big.Int).Mul(big.NewInt(int64(id)), big.NewInt(1_000_000_000_000_000)).String()
}

// ---------------------------------------------------------------------------------------------------
// Configuration model (version 2) and its JSON form.

type c10Vals struct{ fee, gas, grace, minv, pk int }

type c10PRelay struct {
	v        c10Vals
	disabled bool
}

type c10Entry struct {
	match  string
	v      c10Vals
	reset  bool
	relays [3]*c10PRelay
}

type c10Cfg struct {
	top   c10Vals
	base  [3]*c10Vals
	props []*c10Entry
	// minOverride replaces the rendering of min_value ids (round-trip unit): id -> ETH string, wei string
	minEth, minWei map[int]string
}

func (c *c10Cfg) eth(id int) string {
	if s, ok := c.minEth[id]; ok {
		return s
	}
	return c10MinEth(id)
}

func (c *c10Cfg) wei(id int) string {
	if s, ok := c.minWei[id]; ok {
		return s
	}
	return c10MinWei(id)
}

func (c *c10Cfg) put(m map[string]any, v c10Vals, relay bool) {
	if v.fee != 0 {
		m["fee_recipient"] = c10Fee(v.fee)
	}
	if v.gas != 0 {
		m["gas_limit"] = c10Gas(v.gas)
	}
	if v.grace != 0 {
		m["grace"] = fmt.Sprintf("%d", c10GraceMs(v.grace))
	}
	if v.minv != 0 {
		m["min_value"] = c.eth(v.minv)
	}
	if relay && v.pk != 0 {
		m["public_key"] = c10Pk(v.pk)
	}
}

func (c *c10Cfg) json() []byte {
	m := map[string]any{"version": 2}
	c.put(m, c.top, false)
	relays := map[string]any{}
	for i, b := range c.base {
		if b != nil {
			r := map[string]any{}
			c.put(r, *b, true)
			relays[c10Addr[i]] = r
		}
	}
	if len(relays) > 0 {
		m["relays"] = relays
	}
	var props []any
	for _, e := range c.props {
		p := map[string]any{"proposer": e.match}
		c.put(p, e.v, false)
		if e.reset {
			p["reset_relays"] = true
		}
		prs := map[string]any{}
		for i, pr := range e.relays {
			if pr != nil {
				r := map[string]any{}
				c.put(r, pr.v, true)
				if pr.disabled {
					r["disabled"] = true
				}
				prs[c10Addr[i]] = r
			}
		}
		if len(prs) > 0 {
			p["relays"] = prs
		}
		props = append(props, p)
	}
	if len(props) > 0 {
		m["proposers"] = props
	}
	b, err := json.Marshal(m)
	must(err)
	return b
}

// ---------------------------------------------------------------------------------------------------
// Reference resolver, version 2 (docs/executionconfig.md "Processing and precedence" + statement).

type c10Relay struct{ fee, gas, grace, minv, pk string }

type c10Res struct {
	fee    string
	relays map[string]c10Relay
}

type c10Info struct {
	entry                                            int // index of the first matching entry, -1 none
	byKey                                            bool
	inherited, overridden, disabled, added, resetOff int
}

// c10Matches: a proposer is a public key (0x…) or an account expression that must match the whole of
// "wallet/account" (implicit ^ and $).
func c10Matches(match string, val c10Validator) bool {
	if strings.HasPrefix(match, "0x") {
		return strings.EqualFold(match, val.pkHex)
	}
	re := c10ReMemo[match]
	if re == nil {
		re = regexp.MustCompile("^(?:" + strings.TrimSuffix(strings.TrimPrefix(match, "^"), "$") + ")$")
		c10ReMemo[match] = re
	}
	return re.MatchString(val.wallet + "/" + val.account)
}

func c10First(ids ...int) int {
	for _, id := range ids {
		if id != 0 {
			return id
		}
	}
	return 0
}

func (c *c10Cfg) relay(r, p, b, t c10Vals) c10Relay {
	out := c10Relay{fee: fmt.Sprintf("%#x", c10FbFee), gas: fmt.Sprintf("%d", c10FbGas), grace: "0", minv: "0", pk: ""}
	if id := c10First(r.fee, p.fee, b.fee, t.fee); id != 0 {
		out.fee = c10Fee(id)
	}
	if id := c10First(r.gas, p.gas, b.gas, t.gas); id != 0 {
		out.gas = c10Gas(id)
	}
	if id := c10First(r.grace, p.grace, b.grace, t.grace); id != 0 {
		out.grace = fmt.Sprintf("%d", c10GraceMs(id))
	}
	if id := c10First(r.minv, p.minv, b.minv, t.minv); id != 0 {
		out.minv = c.wei(id)
	}
	if id := c10First(r.pk, b.pk); id != 0 {
		out.pk = c10Pk(id)
	}
	return out
}

// c10Ref returns the required settings, plus, per relay, an alternative that is also admissible.
func c10Ref(c *c10Cfg, val c10Validator) (c10Res, map[string]c10Relay, c10Info) {
	for i, cand := range c.props {
		if c10Matches(cand.match, val) {
			return c10RefEntry(c, i) // the first match is the only one used
		}
	}
	return c10RefEntry(c, -1)
}

// c10RefEntry resolves with proposer entry number entry (-1: none) taken as the matching one.
func c10RefEntry(c *c10Cfg, entry int) (c10Res, map[string]c10Relay, c10Info) {
	info := c10Info{entry: entry}
	var e *c10Entry
	if entry >= 0 {
		e = c.props[entry]
		info.byKey = strings.HasPrefix(e.match, "0x")
	}
	res := c10Res{fee: fmt.Sprintf("%#x", c10FbFee), relays: map[string]c10Relay{}}
	alt := map[string]c10Relay{}
	var pv c10Vals
	if e != nil {
		pv = e.v
	}
	if id := c10First(pv.fee, c.top.fee); id != 0 {
		res.fee = c10Fee(id)
	}
	for i, addr := range c10Addr {
		var b, r c10Vals
		inBase := c.base[i] != nil
		keep := inBase && (e == nil || !e.reset)
		var pr *c10PRelay
		if e != nil {
			pr = e.relays[i]
		}
		if inBase && !keep {
			info.resetOff++
		}
		switch {
		case pr != nil && pr.disabled:
			info.disabled++
			continue // a disabled relay is never part of the result
		case pr == nil && !keep:
			continue
		case pr != nil && keep:
			info.overridden++
		case pr != nil:
			info.added++
		default:
			info.inherited++
		}
		if pr != nil {
			r = pr.v
		}
		if keep {
			b = *c.base[i]
		}
		res.relays[addr] = c.relay(r, pv, b, c.top)
		if pr != nil && inBase && !keep {
			// reset_relays discarded the inherited relay and the entry lists it again: whether the values of the
			// discarded base relay still count is not documented; both readings are accepted.
			alt[addr] = c.relay(r, pv, *c.base[i], c.top)
		}
	}
	return res, alt, info
}

// ---------------------------------------------------------------------------------------------------
// Observation and comparison.

func c10Canon(pc *beaconblockproposer.ProposerConfig) (c10Res, string) {
	res := c10Res{fee: fmt.Sprintf("%#x", pc.FeeRecipient), relays: map[string]c10Relay{}}
	dup := ""
	for _, r := range pc.Relays {
		if r == nil {
			dup = "<nil relay>"
			continue
		}
		if _, seen := res.relays[r.Address]; seen {
			dup = r.Address
		}
		x := c10Relay{fee: fmt.Sprintf("%#x", r.FeeRecipient), gas: fmt.Sprintf("%d", r.GasLimit), minv: r.MinValue.String()}
		if r.Grace%1_000_000 == 0 {
			x.grace = fmt.Sprintf("%d", r.Grace.Milliseconds())
		} else {
			x.grace = r.Grace.String()
		}
		if r.PublicKey != nil {
			x.pk = fmt.Sprintf("%#x", *r.PublicKey)
		}
		res.relays[r.Address] = x
	}
	return res, dup
}

func (r c10Res) String() string {
	addrs := make([]string, 0, len(r.relays))
	for a := range r.relays {
		addrs = append(addrs, a)
	}
	sort.Strings(addrs)
	var sb strings.Builder
	fmt.Fprintf(&sb, "fee=%s", c10Short(r.fee))
	for _, a := range addrs {
		x := r.relays[a]
		fmt.Fprintf(&sb, " %s{fee=%s gas=%s grace=%sms min=%swei pk=%s}", strings.TrimSuffix(strings.TrimPrefix(a, "https://"), ".com/"), c10Short(x.fee), x.gas, x.grace, x.minv, c10Short(x.pk))
	}
	return sb.String()
}

func c10Short(h string) string {
	if len(h) > 6 {
		return h[:6] + "…"
	}
	if h == "" {
		return "-"
	}
	return h
}

// failure keys, most specific first; when one execution shows several, the first in this list is
// reported so that a broad finding does not hide a narrow one.
var c10Rank = []string{
	"panic", "config-rejected", "version-dispatch", "resolve-error", "duplicate-relay", "first-match",
	"fee-recipient",
	"reset-relay-present", "unexpected-relay", "inherited-relay-missing", "overridden-relay-missing", "new-relay-missing",
	"relay-fee-recipient/inherited", "relay-gas-limit/inherited", "relay-grace/inherited", "relay-min-value/inherited", "relay-public-key/inherited",
	"relay-fee-recipient/new", "relay-gas-limit/new", "relay-grace/new", "relay-min-value/new", "relay-public-key/new",
	"entry-without-fee-recipient-rejected", "entry-value-not-from-default", "relays", "relay-gas-limit", "relay-grace", "relay-fee-recipient", "relay-min-value",
	"roundtrip-marshal-error", "roundtrip-unmarshal-error", "roundtrip-meaning-changed", "roundtrip-min-value-precision",
	"disabled-relay-present", "disabled-new-relay-present",
}

type c10State struct {
	doc     string
	fails   map[string]string
	nontriv bool
	outcome map[string]bool
	sample  string
}

func (st *c10State) bad(key, f string, a ...any) {
	if st.fails == nil {
		st.fails = map[string]string{}
	}
	if _, dup := st.fails[key]; !dup {
		st.fails[key] = fmt.Sprintf(f, a...)
	}
}

func (st *c10State) tag(s string) {
	if st.outcome == nil {
		st.outcome = map[string]bool{}
	}
	st.outcome[s] = true
}

func (st *c10State) verdict(ver string, r *mc.Result) mc.Verdict {
	tags := make([]string, 0, len(st.outcome))
	for t := range st.outcome {
		tags = append(tags, t)
	}
	sort.Strings(tags)
	v := mc.Verdict{Outcome: ver + ":" + strings.Join(tags, ","), Nontrivial: st.nontriv, Sample: st.sample}
	if r.Panic != "" {
		v.Violation, v.Key = "panic: "+firstLine(r.Panic)+" on "+st.doc, "C10/"+ver+"/panic"
		return v
	}
	for _, k := range c10Rank {
		if msg, ok := st.fails[k]; ok {
			v.Violation, v.Key = msg+"; config "+st.doc, "C10/"+ver+"/"+k
			return v
		}
	}
	rest := make([]string, 0, len(st.fails)) // keys missing from the rank list
	for k := range st.fails {
		rest = append(rest, k)
	}
	sort.Strings(rest)
	if len(rest) > 0 {
		v.Violation, v.Key = st.fails[rest[0]]+"; config "+st.doc, "C10/"+ver+"/"+rest[0]
	}
	return v
}

// c10Compare checks one resolved configuration against the reference.
func c10Compare(st *c10State, c *c10Cfg, val c10Validator, got c10Res, dup string, ref c10Res, alt map[string]c10Relay, info c10Info) {
	who := fmt.Sprintf("validator %s (first matching entry: %d)", val, info.entry)
	if dup != "" {
		st.bad("duplicate-relay", "%s: relay %s is listed twice in the result", who, dup)
	}
	if got.fee != ref.fee {
		st.bad("fee-recipient", "%s: fee recipient %s, documented precedence gives %s", who, got.fee, ref.fee)
	}
	var e *c10Entry
	if info.entry >= 0 {
		e = c.props[info.entry]
	}
	for i, addr := range c10Addr {
		g, have := got.relays[addr]
		w, want := ref.relays[addr]
		inBase := c.base[i] != nil
		var pr *c10PRelay
		if e != nil {
			pr = e.relays[i]
		}
		switch {
		case have && !want && pr != nil && pr.disabled && inBase && !e.reset:
			st.bad("disabled-relay-present", "%s: relay %s is disabled by the matching proposer entry but is part of the result", who, addr)
		case have && !want && pr != nil && pr.disabled:
			st.bad("disabled-new-relay-present", "%s: relay %s is marked disabled in the matching proposer entry and is not inherited (not a base relay, or reset_relays), yet it is part of the result: %v", who, addr, g)
		case have && !want && inBase && e != nil && e.reset:
			st.bad("reset-relay-present", "%s: base relay %s is part of the result although the matching proposer entry has reset_relays", who, addr)
		case have && !want:
			st.bad("unexpected-relay", "%s: relay %s is part of the result but is neither inherited nor added", who, addr)
		case !have && want && pr == nil:
			st.bad("inherited-relay-missing", "%s: base relay %s is neither disabled nor reset but is missing from the result", who, addr)
		case !have && want && inBase && !e.reset:
			st.bad("overridden-relay-missing", "%s: base relay %s is overridden (not disabled) by the matching proposer entry but is missing from the result", who, addr)
		case !have && want:
			st.bad("new-relay-missing", "%s: relay %s is added by the matching proposer entry but is missing from the result", who, addr)
		case have && want:
			kind := "inherited"
			if !inBase || (e != nil && e.reset) {
				kind = "new"
			}
			if a, ok := alt[addr]; ok && g == a {
				continue
			}
			if g.fee != w.fee {
				st.bad("relay-fee-recipient/"+kind, "%s: relay %s fee recipient %s, documented precedence gives %s", who, addr, g.fee, w.fee)
			}
			if g.gas != w.gas {
				st.bad("relay-gas-limit/"+kind, "%s: relay %s gas limit %s, documented precedence gives %s", who, addr, g.gas, w.gas)
			}
			if g.grace != w.grace {
				st.bad("relay-grace/"+kind, "%s: relay %s grace %sms, documented precedence gives %sms", who, addr, g.grace, w.grace)
			}
			if g.minv != w.minv {
				st.bad("relay-min-value/"+kind, "%s: relay %s min value %s wei, documented precedence gives %s wei", who, addr, g.minv, w.minv)
			}
			if g.pk != w.pk {
				st.bad("relay-public-key/"+kind, "%s: relay %s public key %q, documented precedence gives %q", who, addr, g.pk, w.pk)
			}
		}
	}
	var unknown []string
	for addr := range got.relays {
		if addr != c10Addr[0] && addr != c10Addr[1] && addr != c10Addr[2] {
			unknown = append(unknown, addr)
		}
	}
	if sort.Strings(unknown); len(unknown) > 0 {
		st.bad("unexpected-relay", "%s: relays %v are part of the result but appear nowhere in the configuration", who, unknown)
	}
}

// c10Admissible: got is ref, up to the per-relay alternatives.
func c10Admissible(got, ref c10Res, alt map[string]c10Relay) bool {
	if got.fee != ref.fee || len(got.relays) != len(ref.relays) {
		return false
	}
	for k, x := range got.relays {
		y, ok := ref.relays[k]
		if !ok {
			return false
		}
		if x == y {
			continue
		}
		if a, isAlt := alt[k]; isAlt && x == a {
			continue
		}
		return false
	}
	return true
}

// c10OtherEntry tells whether got is exactly what another proposer entry (or none) would give.
func c10OtherEntry(c *c10Cfg, got c10Res, first int) (int, bool) {
	for k := -1; k < len(c.props); k++ {
		if k == first {
			continue
		}
		if ref, alt, _ := c10RefEntry(c, k); c10Admissible(got, ref, alt) {
			return k, true
		}
	}
	return 0, false
}

func c10Same(a, b c10Res) bool {
	if a.fee != b.fee || len(a.relays) != len(b.relays) {
		return false
	}
	for k, x := range a.relays {
		if y, ok := b.relays[k]; !ok || x != y {
			return false
		}
	}
	return true
}

// c10RunV2 delivers one version-2 configuration and checks every validator.
func c10RunV2(st *c10State, c *c10Cfg, precisionKey bool) {
	ctx := context.Background()
	doc := c.json()
	st.doc = string(doc)
	ec, err := blockrelay.UnmarshalJSON(doc)
	if err != nil {
		st.bad("config-rejected", "a configuration built from documented elements only was rejected: %v", err)
		return
	}
	if _, ok := ec.(*v2.ExecutionConfig); !ok {
		st.bad("version-dispatch", "a version 2 document was delivered as %T", ec)
		return
	}
	// Round trip, taken before anything is resolved.
	var ec2 blockrelay.ExecutionConfigurator
	doc2, err := json.Marshal(ec)
	if err != nil {
		st.bad("roundtrip-marshal-error", "marshalling the delivered configuration failed: %v", err)
	} else if ec2, err = blockrelay.UnmarshalJSON(doc2); err != nil {
		st.bad("roundtrip-unmarshal-error", "the marshalled configuration %s is rejected: %v", doc2, err)
		ec2 = nil
	}
	for _, val := range c10Vals6 {
		ref, alt, info := c10Ref(c, val)
		pc, err := ec.ProposerConfig(ctx, val.acct, val.pk, c10FbFee, c10FbGas)
		if err != nil || pc == nil {
			st.bad("resolve-error", "validator %s: resolution failed: %v", val, err)
			continue
		}
		got, dup := c10Canon(pc)
		tmp := &c10State{}
		c10Compare(tmp, c, val, got, dup, ref, alt, info)
		_, dis1 := tmp.fails["disabled-relay-present"]
		_, dis2 := tmp.fails["disabled-new-relay-present"]
		// wrong entry applied?  Only asked when the difference is not a disabled relay showing up, which
		// could make the result coincide with that of another entry.
		k, other := 0, false
		if len(tmp.fails) > 0 && !dis1 && !dis2 {
			k, other = c10OtherEntry(c, got, info.entry)
		}
		if other {
			st.bad("first-match", "validator %s: the settings are those of proposer entry %d (-1: none), but the first entry that matches is %d: got %s, documented precedence gives %s", val, k, info.entry, got, ref)
		} else {
			for key, msg := range tmp.fails {
				st.bad(key, "%s", msg)
			}
		}
		// evidence bookkeeping
		switch {
		case info.entry < 0:
			st.tag("nomatch")
		case info.byKey:
			st.tag(fmt.Sprintf("key@%d", info.entry))
		default:
			st.tag(fmt.Sprintf("acct@%d", info.entry))
		}
		for n, t := range map[string]int{"inh": info.inherited, "ovr": info.overridden, "dis": info.disabled, "add": info.added, "rst": info.resetOff} {
			if t > 0 {
				st.tag(n)
			}
		}
		if info.entry >= 0 || info.inherited+info.overridden+info.disabled > 0 {
			st.nontriv = true
		}
		if st.sample == "" && info.entry >= 0 {
			st.sample = fmt.Sprintf("%s | %s -> %s", st.doc, val, got)
		}
		if ec2 != nil {
			pc2, err := ec2.ProposerConfig(ctx, val.acct, val.pk, c10FbFee, c10FbGas)
			if err != nil || pc2 == nil {
				st.bad("roundtrip-meaning-changed", "validator %s: resolution fails after a marshal/unmarshal round trip (%s): %v", val, doc2, err)
				continue
			}
			got2, _ := c10Canon(pc2)
			if !c10Same(got, got2) {
				key := "roundtrip-meaning-changed"
				if precisionKey {
					key = "roundtrip-min-value-precision"
				}
				st.bad(key, "validator %s: settings change across a marshal/unmarshal round trip: before %s, after %s; marshalled form %s", val, got, got2, doc2)
			}
		}
	}
}

// ---------------------------------------------------------------------------------------------------
// Enumeration, version 2.

// multiplication by x in GF(16) (x^4+x+1): used to build orthogonal arrays over 16-level factors.
func c10MulX(b int) int {
	b <<= 1
	if b&16 != 0 {
		b ^= 0x13
	}
	return b & 15
}

// c10Masks lists rows (fee, gas, grace, min value, public key, variant): each of the first four is a
// set of levels {T,B,P,R}, the fifth a subset of {B,R} encoded as bit 0 / bit 1, the sixth a value
// variant 0..3.  The rows are orthogonal arrays over GF(16) (columns 5 and 6 are 2-bit projections):
// quick: 256 rows, every pair of columns takes all combinations (strength 2);
// thorough: 4096 rows, every triple of columns takes all combinations (strength 3).
func c10Masks(tier string) [][6]int {
	pow := func(k, v int) int {
		for ; k > 0; k-- {
			v = c10MulX(v)
		}
		return v
	}
	var rows [][6]int
	if tier == "thorough" {
		for a := 0; a < 16; a++ {
			for b := 0; b < 16; b++ {
				for c := 0; c < 16; c++ {
					// columns (1,x,x^2) for x = 0, 1, α, α², α³ and (0,0,1): any three are independent
					rows = append(rows, [6]int{a, c, a ^ b ^ c, a ^ pow(1, b) ^ pow(2, c), (a ^ pow(2, b) ^ pow(4, c)) & 3, (a ^ pow(3, b) ^ pow(6, c)) & 3})
				}
			}
		}
		return rows
	}
	for a := 0; a < 16; a++ {
		for b := 0; b < 16; b++ {
			// columns a + x·b for distinct x (and b itself): any two are independent
			rows = append(rows, [6]int{a, b, a ^ b, a ^ pow(1, b), (a ^ pow(2, b)) & 3, (a ^ pow(3, b)) & 3})
		}
	}
	return rows
}

// c10Shape is everything about a configuration except the proposer list.
type c10Shape struct {
	inBase  [3]bool
	prop    [3]int // proposer-side state of each relay in entry 0: 0 not listed, 1 listed, 2 listed and disabled
	reset   bool
	mask    [6]int // presence of fee, gas, grace, min value over {T,B,P,R}; public key over {B,R}; [5] unused here
	variant int    // 0 plain; 1 staggered presence across relays and entries; 2 explicit zeros at relay levels; 3 explicit zeros at top/proposer level
}

func c10Bit(mask, level int, flip bool) bool { return (mask&level != 0) != flip }

// build makes the configuration for a shape and a list of proposers.  Entry j repeats the shape with
// the proposer-side relay states rotated by j, reset_relays inverted for odd j and values of its own.
func (s c10Shape) build(matchers []string) *c10Cfg {
	c := &c10Cfg{}
	val := func(field, level, id int, flip bool) int {
		var present bool
		if field == 4 {
			present = (level == c10B && s.mask[4]&1 != 0) || (level == c10R && s.mask[4]&2 != 0)
			present = present != flip
		} else {
			present = c10Bit(s.mask[field], level, flip)
		}
		if !present {
			return 0
		}
		if (field == 2 || field == 3) && ((s.variant == 2 && (level == c10B || level == c10R)) || (s.variant == 3 && (level == c10T || level == c10P))) {
			return -1
		}
		return id
	}
	vals := func(level, id int, flip bool) c10Vals {
		return c10Vals{fee: val(0, level, id, flip), gas: val(1, level, id, flip), grace: val(2, level, id, flip), minv: val(3, level, id, flip), pk: val(4, level, id, flip)}
	}
	c.top = vals(c10T, 1, false)
	c.top.pk = 0
	for i := range c.base {
		if s.inBase[i] {
			v := vals(c10B, 10+i, s.variant == 1 && i%2 == 1)
			c.base[i] = &v
		}
	}
	for j, m := range matchers {
		e := &c10Entry{match: m, reset: s.reset != (j%2 == 1)}
		e.v = vals(c10P, 20+j, s.variant == 1 && j%2 == 1)
		e.v.pk = 0
		for i := range e.relays {
			if ps := s.prop[(i+j)%3]; ps != 0 {
				e.relays[i] = &c10PRelay{v: vals(c10R, 30+10*j+i, s.variant == 1 && (i+j)%2 == 1), disabled: ps == 2}
			}
		}
		c.props = append(c.props, e)
	}
	return c
}

func c10Layout(n int) (inBase [3]bool, prop [3]int) {
	for i := 0; i < 3; i++ {
		d := n % 6
		n /= 6
		inBase[i] = d >= 3
		prop[i] = d % 3
	}
	return
}

func c10LayoutName(n int) string {
	names := [6]string{"none", "new", "disnew", "base", "both", "disabled"}
	var parts []string
	for i := 0; i < 3; i++ {
		parts = append(parts, names[n%6])
		n /= 6
	}
	return strings.Join(parts, "-")
}

func c10UnitV2(name string, gen func() (*c10Cfg, bool)) hx.Unit {
	st := &c10State{}
	return hx.Unit{
		Name: name, Cfg: mc.Config{Fixed: true}, Bound: 0,
		Body: func() {
			*st = c10State{}
			c, precision := gen()
			c10RunV2(st, c, precision)
		},
		Check: func(r *mc.Result) mc.Verdict { return st.verdict("v2", r) },
	}
}

func c10Units(tier string) []hx.Unit {
	var units []hx.Unit
	masks := c10Masks(tier)

	// Part A: the precedence lattice.  One unit per relay layout; inside: reset_relays x variant x
	// presence rows x three proposer lists (public key; unanchored account expression; a list of three
	// mixing both kinds, where each validator meets its first match at a different position).
	listsA := [][]string{{c10PkA}, {"W1/.*"}, {c10PkB, "^W1/A1$", c10PkA}}
	for lay := 0; lay < 216; lay++ {
		lay := lay
		units = append(units, c10UnitV2(fmt.Sprintf("C10/v2/lattice/%s", c10LayoutName(lay)), func() (*c10Cfg, bool) {
			s := c10Shape{}
			s.inBase, s.prop = c10Layout(lay)
			s.reset = mc.Choose(2) == 1
			s.mask = masks[mc.Choose(len(masks))]
			s.variant = s.mask[5]
			return s.build(listsA[mc.Choose(len(listsA))]), false
		}))
	}

	// Part B: proposer lists.  Every list of up to three proposers over the alphabet (repetition
	// allowed, every order); one unit per choice of the first two; inside: the third, a sample of relay
	// layouts in which every pair of relays takes every pair of states, reset_relays, and presence rows.
	var laysB []int
	for a := 0; a < 6; a++ {
		for b := 0; b < 6; b++ {
			laysB = append(laysB, a+6*b+36*((a+b)%6)) // 36 rows, strength 2 over three 6-level factors
		}
	}
	rowsB := 4
	if tier == "thorough" {
		rowsB = 16
	}
	nm := len(c10Matchers)
	for first := -1; first < nm; first++ {
		for second := -1; second < nm; second++ {
			if first < 0 && second >= 0 {
				continue
			}
			first, second := first, second
			units = append(units, c10UnitV2(fmt.Sprintf("C10/v2/lists/%d-%d", first, second), func() (*c10Cfg, bool) {
				var list []string
				if first >= 0 {
					list = append(list, c10Matchers[first])
				}
				if second >= 0 {
					list = append(list, c10Matchers[second])
					if third := mc.Choose(nm+1) - 1; third >= 0 {
						list = append(list, c10Matchers[third])
					}
				}
				s := c10Shape{}
				s.inBase, s.prop = c10Layout(laysB[mc.Choose(len(laysB))])
				s.reset = mc.Choose(2) == 1
				// rows spread over the array; bit P of the fee recipient is forced so that every entry is told apart
				k := mc.Choose(rowsB)
				s.mask = masks[(k*(len(masks)/rowsB)+7*k+5)%len(masks)]
				s.mask[0] |= c10P
				s.variant = s.mask[5]
				return s.build(list), false
			}))
		}
	}

	// Part C: values whose textual form is not the one the marshaller writes (round trip).
	units = append(units, c10UnitV2("C10/v2/roundtrip-values", func() (*c10Cfg, bool) {
		eth := []string{"1", "1.50", "0.10", "32", "0.000001", "1234.5678"}
		wei := []string{"1000000000000000000", "1500000000000000000", "100000000000000000", "32000000000000000000", "1000000000000", "1234567800000000000000"}
		k := mc.Choose(len(eth))
		s := c10Shape{inBase: [3]bool{true, true, false}, prop: [3]int{1, 0, 1}, mask: [6]int{15, 15, 15, 1 << mc.Choose(4), 3}}
		c := s.build([]string{c10PkA})
		c.minEth, c.minWei = map[int]string{}, map[int]string{}
		for _, id := range []int{1, 10, 11, 20, 30, 32} {
			c.minEth[id], c.minWei[id] = eth[k], wei[k]
		}
		return c, false
	}))
	// Part D: minimum values with wei granularity (17 and 18 decimal places of an Ether).
	units = append(units, c10UnitV2("C10/v2/roundtrip-min-value-wei", func() (*c10Cfg, bool) {
		eth := []string{"0.000000000000000001", "0.12345678901234567", "1.000000000000000001"}
		wei := []string{"1", "123456789012345670", "1000000000000000001"}
		k := mc.Choose(len(eth))
		s := c10Shape{inBase: [3]bool{true, true, false}, prop: [3]int{1, 0, 1}, mask: [6]int{0, 0, 0, 1 << mc.Choose(4), 0}}
		c := s.build([]string{c10PkA})
		c.minEth, c.minWei = map[int]string{}, map[int]string{}
		for _, id := range []int{1, 10, 11, 20, 30, 32} {
			c.minEth[id], c.minWei[id] = eth[k], wei[k]
		}
		return c, true
	}))

	return append(units, c10UnitsV1()...)
}

// ---------------------------------------------------------------------------------------------------
// Legacy (unversioned) configuration: docs/execlayer.md "Precedence of configuration values".

type c10V1Builder struct {
	enabled bool
	grace   int
	relays  []string
}

type c10V1Entry struct {
	fee, gas int
	builder  *c10V1Builder
}

func (e *c10V1Entry) json() map[string]any {
	m := map[string]any{}
	if e.fee != 0 {
		m["fee_recipient"] = c10Fee(e.fee)
	}
	if e.gas != 0 {
		m["gas_limit"] = c10Gas(e.gas)
	}
	if e.builder != nil {
		b := map[string]any{"enabled": e.builder.enabled}
		if e.builder.grace != 0 {
			b["grace"] = fmt.Sprintf("%d", c10GraceMs(e.builder.grace))
		}
		if len(e.builder.relays) > 0 {
			b["relays"] = e.builder.relays
		}
		m["builder"] = b
	}
	return m
}

// c10V1EntryN: entry shape n of 16, with values marked by id; n<0: no entry.
func c10V1EntryN(n, id int, relays []string) *c10V1Entry {
	if n < 0 {
		return nil
	}
	e := &c10V1Entry{}
	if n&1 == 0 {
		e.fee = id
	}
	if n&2 != 0 {
		e.gas = id
	}
	switch n >> 2 {
	case 1:
		e.builder = &c10V1Builder{enabled: true, relays: relays}
	case 2:
		e.builder = &c10V1Builder{enabled: true, grace: id, relays: relays}
	case 3:
		e.builder = &c10V1Builder{enabled: false}
	}
	return e
}

// c10RefV1: each value comes from the validator's proposer_config entry if it is given there,
// otherwise from default_config if given there, otherwise from the fallback.
func c10RefV1(def *c10V1Entry, ent *c10V1Entry) c10Res {
	pick := func(f func(*c10V1Entry) int) int {
		if ent != nil && f(ent) != 0 {
			return f(ent)
		}
		if def != nil {
			return f(def)
		}
		return 0
	}
	res := c10Res{fee: fmt.Sprintf("%#x", c10FbFee), relays: map[string]c10Relay{}}
	gas := fmt.Sprintf("%d", c10FbGas)
	if id := pick(func(e *c10V1Entry) int { return e.fee }); id != 0 {
		res.fee = c10Fee(id)
	}
	if id := pick(func(e *c10V1Entry) int { return e.gas }); id != 0 {
		gas = c10Gas(id)
	}
	var b *c10V1Builder
	if ent != nil && ent.builder != nil {
		b = ent.builder
	} else if def != nil {
		b = def.builder
	}
	if b != nil && b.enabled {
		for _, a := range b.relays {
			res.relays[a] = c10Relay{fee: res.fee, gas: gas, grace: fmt.Sprintf("%d", c10GraceMs(b.grace)), minv: "0"}
		}
	}
	return res
}

func c10UnitsV1() []hx.Unit {
	var units []hx.Unit
	pks := []string{c10PkA, c10PkB}
	for defN := 0; defN < 16; defN += 2 { // default_config always has a fee recipient (it is mandatory there)
		defN := defN
		st := &c10State{}
		u := hx.Unit{Name: fmt.Sprintf("C10/v1/default-%d", defN), Cfg: mc.Config{Fixed: true}, Bound: 0}
		u.Body = func() {
			*st = c10State{}
			ctx := context.Background()
			def := c10V1EntryN(defN, 1, []string{c10Addr[0], c10Addr[1]})
			ents := [2]*c10V1Entry{c10V1EntryN(mc.Choose(17)-1, 2, []string{c10Addr[2]}), c10V1EntryN(mc.Choose(17)-1, 3, []string{c10Addr[1], c10Addr[2]})}
			m := map[string]any{"default_config": def.json()}
			pcs := map[string]any{}
			documentedOnly := true
			for i, e := range ents {
				if e != nil {
					pcs[pks[i]] = e.json()
					if e.fee == 0 {
						documentedOnly = false
					}
				}
			}
			if len(pcs) > 0 {
				m["proposer_config"] = pcs
			}
			doc, err := json.Marshal(m)
			must(err)
			st.doc = string(doc)
			ec, err := blockrelay.UnmarshalJSON(doc)
			if err != nil {
				if documentedOnly {
					st.bad("config-rejected", "a legacy configuration built from documented elements only was rejected: %v", err)
				} else {
					st.bad("entry-without-fee-recipient-rejected", "docs/execlayer.md shows a proposer_config entry without fee_recipient (it takes the default's); such a configuration is rejected as a whole: %v", err)
				}
				return
			}
			if _, ok := ec.(*v1.ExecutionConfig); !ok {
				st.bad("version-dispatch", "an unversioned document was delivered as %T", ec)
				return
			}
			var ec2 blockrelay.ExecutionConfigurator
			doc2, err := json.Marshal(ec)
			if err != nil {
				st.bad("roundtrip-marshal-error", "marshalling the delivered configuration failed: %v", err)
			} else if ec2, err = blockrelay.UnmarshalJSON(doc2); err != nil {
				st.bad("roundtrip-unmarshal-error", "the marshalled configuration %s is rejected: %v", doc2, err)
				ec2 = nil
			}
			for i, val := range []c10Validator{c10Vals6[0], c10Vals6[3]} {
				ent := ents[i]
				who := fmt.Sprintf("validator %s", val)
				ref := c10RefV1(def, ent)
				pc, err := ec.ProposerConfig(ctx, val.acct, val.pk, c10FbFee, c10FbGas)
				if err != nil || pc == nil {
					st.bad("resolve-error", "%s: resolution failed: %v", who, err)
					continue
				}
				got, dup := c10Canon(pc)
				if dup != "" {
					st.bad("duplicate-relay", "%s: relay %s is listed twice", who, dup)
				}
				if ent != nil {
					st.nontriv = true
					st.tag("entry")
				} else {
					st.tag("default")
				}
				if len(ref.relays) > 0 {
					st.tag("relays")
				}
				if st.sample == "" && ent != nil {
					st.sample = fmt.Sprintf("%s | %s -> %s", st.doc, val, got)
				}
				if got.fee != ref.fee {
					st.bad("fee-recipient", "%s: fee recipient %s, documented precedence gives %s", who, got.fee, ref.fee)
				}
				sameSet := len(got.relays) == len(ref.relays)
				for a := range ref.relays {
					if _, ok := got.relays[a]; !ok {
						sameSet = false
					}
				}
				if !sameSet {
					if ent != nil && ent.builder == nil && def.builder != nil && def.builder.enabled && len(got.relays) == 0 {
						st.bad("entry-value-not-from-default", "%s: its proposer_config entry has no builder section, so the documented precedence takes the builder section of default_config (relays %v); the result has no relays", who, def.builder.relays)
					} else {
						st.bad("relays", "%s: relays %s, documented precedence gives %s", who, got, ref)
					}
					continue
				}
				for _, a := range c10Addr {
					w, ok := ref.relays[a]
					if !ok {
						continue
					}
					g := got.relays[a]
					if g.gas != w.gas {
						if ent != nil && ent.gas == 0 && def.gas != 0 && g.gas == fmt.Sprintf("%d", c10FbGas) {
							st.bad("entry-value-not-from-default", "%s: its proposer_config entry has no gas_limit, so the documented precedence takes default_config's %s; relay %s got the fallback %s", who, w.gas, a, g.gas)
						} else {
							st.bad("relay-gas-limit", "%s: relay %s gas limit %s, documented precedence gives %s", who, a, g.gas, w.gas)
						}
					}
					if g.fee != w.fee {
						st.bad("relay-fee-recipient", "%s: relay %s fee recipient %s, documented precedence gives %s", who, a, g.fee, w.fee)
					}
					if g.grace != w.grace {
						st.bad("relay-grace", "%s: relay %s grace %sms, the builder section in force says %sms", who, a, g.grace, w.grace)
					}
					if g.minv != "0" {
						st.bad("relay-min-value", "%s: relay %s min value %s; the legacy configuration has no minimum value", who, a, g.minv)
					}
				}
				if ec2 != nil {
					pc2, err := ec2.ProposerConfig(ctx, val.acct, val.pk, c10FbFee, c10FbGas)
					if err != nil || pc2 == nil {
						st.bad("roundtrip-meaning-changed", "%s: resolution fails after a marshal/unmarshal round trip (%s): %v", who, doc2, err)
						continue
					}
					if got2, _ := c10Canon(pc2); !c10Same(got, got2) {
						st.bad("roundtrip-meaning-changed", "%s: settings change across a marshal/unmarshal round trip: before %s, after %s; marshalled form %s", who, got, got2, doc2)
					}
				}
			}
		}
		u.Check = func(r *mc.Result) mc.Verdict { return st.verdict("v1", r) }
		units = append(units, u)
	}
	return units
}

func init() {
	hx.Register(&hx.Prop{
		ID:    "C10",
		Title: "Proposer settings follow the documented precedence of the execution config",
		Rule: "version 2, JSON documents through blockrelay.UnmarshalJSON: (A) all 216 layouts of three relays over {absent, new, disabled-and-new, base only, base and overridden, base and disabled} x reset_relays x rows of an orthogonal array whose columns are the presence of fee recipient, gas limit, grace, min value at {top, base relay, proposer, proposer relay}, of the public key at {base relay, proposer relay} and a value variant {plain, presence staggered across relays and entries, explicit zeros at the relay levels, explicit zeros at top/proposer level} (quick: 256 rows, every pair of columns complete; thorough: 4096 rows, every triple complete) x 3 proposer lists (public key; unanchored account expression; three entries of both kinds); " +
			"(B) every ordered list of up to 3 proposers, repetition allowed, over 2 public keys and 9 account expressions (no, one or both explicit anchors; four that match only if an anchor is dropped, two of them half-anchored; one alternation that matches only if the anchors do not bind all of it) x 36 layouts (every pair of relays in every pair of states) x reset_relays x 4 (thorough 16) presence rows; entry j of a list repeats the shape with relay states rotated by j, reset_relays inverted for odd j and values of its own; (C, D) other textual forms and wei-granular minimum values for the round trip; " +
			"legacy: 8 default_config shapes x 17 x 17 proposer_config entries (fee recipient, gas limit present/absent; builder absent, enabled, enabled with grace, disabled) for two validators; " +
			"every configuration is resolved for 2 public keys x 3 wallet/account names, compared with an independent reference resolver written from the documentation, and resolved again after marshal/unmarshal; " +
			"non-trivial = some validator matched a proposer entry or a relay was inherited, overridden or disabled; distinct = distinct sets of (matching position and kind, relay roles) met in one configuration",
		Assumptions: []string{
			"fallback fee recipient and gas limit are the two values handed to ExecutionConfigurator.ProposerConfig by blockrelay/standard (its ProposerConfig passes them through unchanged)",
			"validators have a wallet and an account name",
		},
		Units:         c10Units,
		MinNontrivial: 200000,
	})
}
