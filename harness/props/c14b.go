package props

import (
	"context"
	"fmt"
	"strings"
	"time"

	"verifharness/hx"

	"github.com/attestantio/go-eth2-client/api"
	apiv1 "github.com/attestantio/go-eth2-client/api/v1"
	"github.com/attestantio/go-eth2-client/spec/phase0"
	vouchmock "github.com/attestantio/vouch/mock"
	mockaccountmanager "github.com/attestantio/vouch/services/accountmanager/mock"
	"github.com/attestantio/vouch/services/attestationaggregator"
	"github.com/attestantio/vouch/services/attester"
	"github.com/attestantio/vouch/services/beaconcommitteesubscriber"
	standardsubscriber "github.com/attestantio/vouch/services/beaconcommitteesubscriber/standard"
	"github.com/attestantio/vouch/services/cache"
	mockcache "github.com/attestantio/vouch/services/cache/mock"
	standardcontroller "github.com/attestantio/vouch/services/controller/standard"
	nullmetrics "github.com/attestantio/vouch/services/metrics/null"
	mockproposalpreparer "github.com/attestantio/vouch/services/proposalpreparer/mock"
	"github.com/attestantio/vouch/services/scheduler/advanced"
	"github.com/attestantio/vouch/verifmc/mc"
	"github.com/attestantio/vouch/verifmc/mcontext"
	"github.com/rs/zerolog"
	e2wtypes "github.com/wealdtech/go-eth2-wallet-types/v2"
)

// C14, part "reorg": subscriptions and aggregation jobs follow the duties obtained after a reorg.
//
// The C03 controller world (real controller, real scheduler, real chain time) with the REAL beacon
// committee subscriber, an aggregator stand-in that selects validators 1 and 3 but not 2, and a recording submitter.
// One head event announces changed dependent roots and switches the beacon node to the second duty table.

type c14rSub struct {
	at        int64
	slot      phase0.Slot
	committee phase0.CommitteeIndex
}

type c14rAgg struct {
	at   int64
	slot phase0.Slot
	val  phase0.ValidatorIndex
}

type c14rWorld struct {
	*c03World
	subs []c14rSub
	aggs []c14rAgg
	// slow parts: the beacon node takes subDelay to answer the subscriber's duty request; subRet records
	// when each Subscribe call returned its information to the controller
	subDelay int64
	subRet   []c14rSubRet
	// allLate: none of the validators is active before the second epoch after the one vouch starts in
	allLate bool
	// lateAccount: the account of validator 1 (alone in its committee) becomes known to the account manager one slot after vouch started
	lateAccount bool
	// waitedG: vouch was started before genesis and begins with the chain (its epoch ticker then runs for epoch 0 too)
	waitedG bool
}

type c14rSubRet struct {
	epoch phase0.Epoch
	at    int64
}

// c14rSlowDuties is the beacon node as the subscriber sees it.
type c14rSlowDuties struct{ w *c14rWorld }

func (d c14rSlowDuties) AttesterDuties(ctx context.Context, opts *api.AttesterDutiesOpts) (*api.Response[[]*apiv1.AttesterDuty], error) {
	if d.w.subDelay > 0 {
		mc.Sleep(d.w.subDelay)
	}
	return d.w.c03World.AttesterDuties(ctx, opts)
}

// c14rSubscriber is the real subscriber; it notes when its answer reaches the controller.
type c14rSubscriber struct {
	real *standardsubscriber.Service
	w    *c14rWorld
}

func (s *c14rSubscriber) Subscribe(ctx context.Context, epoch phase0.Epoch, accounts map[phase0.ValidatorIndex]e2wtypes.Account) (map[phase0.Slot]map[phase0.CommitteeIndex]*beaconcommitteesubscriber.Subscription, error) {
	info, err := s.real.Subscribe(ctx, epoch, accounts)
	if err == nil {
		s.w.subRet = append(s.w.subRet, c14rSubRet{epoch: epoch, at: mc.Now()})
	}
	return info, err
}

func (w *c14rWorld) Attest(ctx context.Context, duty *attester.Duty) ([]*phase0.Attestation, error) {
	_, _ = w.c03World.Attest(ctx, duty)
	var out []*phase0.Attestation
	for i := range duty.ValidatorIndices() {
		out = append(out, &phase0.Attestation{Data: &phase0.AttestationData{Slot: duty.Slot(), Index: duty.CommitteeIndices()[i], Source: &phase0.Checkpoint{}, Target: &phase0.Checkpoint{}}})
	}
	return out, nil
}

func (w *c14rWorld) SubmitBeaconCommitteeSubscriptions(_ context.Context, subs []*apiv1.BeaconCommitteeSubscription) error {
	for _, s := range subs {
		w.subs = append(w.subs, c14rSub{at: mc.Now(), slot: s.Slot, committee: s.CommitteeIndex})
	}
	return nil
}

func (w *c14rWorld) Aggregate(_ context.Context, d *attestationaggregator.Duty) {
	w.aggs = append(w.aggs, c14rAgg{at: mc.Now(), slot: d.Slot, val: d.ValidatorIndex})
}

func (w *c14rWorld) AggregatorsAndSignatures(_ context.Context, accounts []e2wtypes.Account, _ phase0.Slot, _ []uint64) ([]phase0.BLSSignature, []bool, error) {
	sigs := make([]phase0.BLSSignature, len(accounts))
	sel := make([]bool, len(accounts))
	for i, a := range accounts {
		// validators 1 and 3 are selected as aggregators, validator 2 is not; the slot signature names the account
		sigs[i] = phase0.BLSSignature{7}
		copy(sigs[i][1:], a.Name())
		sel[i] = a.Name() != "v2"
	}
	return sigs, sel, nil
}

func c14rBody(w *c14rWorld, startAt int64, ap [2]string, attestDur, subDelay int64) {
	*w = c14rWorld{c03World: &c03World{attKinds: ap, propKinds: [2]string{"A", "A"}, startAt: startAt, reorgAt: -1, attestDur: attestDur}, subDelay: subDelay, allLate: w.allLate, lateAccount: w.lateAccount, waitedG: w.waitedG}
	ctx, cancel := mcontext.WithCancel(context.Background())
	defer cancel()
	ct := newChainTime(-(int64(c03Epoch0*c03SPE)*int64(c03SlotDur) + startAt), c03SlotDur, c03SPE)
	sched, err := advanced.New(ctx, advanced.WithLogLevel(zerolog.Disabled), advanced.WithMonitor(&nullmetrics.Service{}))
	must(err)
	byIndex := map[phase0.ValidatorIndex]*hAccount{}
	for i := 1; i <= 3; i++ {
		byIndex[phase0.ValidatorIndex(i)] = newAccount("W", fmt.Sprintf("v%d", i), byte(i))
	}
	// validator 3 becomes active with the epoch after the one vouch starts in: the accounts of the two epochs differ
	accts := &accountsTable{byIndex: byIndex, activeFrom: map[phase0.ValidatorIndex]phase0.Epoch{3: phase0.Epoch(c03Epoch0 + 1)}}
	if w.lateAccount {
		accts.knownFrom = map[phase0.ValidatorIndex]int64{1: int64(c03SlotDur)}
	}
	if w.allLate {
		late := phase0.Epoch(c03Epoch0 + 2)
		accts.activeFrom = map[phase0.ValidatorIndex]phase0.Epoch{1: late, 2: late, 3: late}
	}
	ev := &eventsProvider{}
	subscriber, err := standardsubscriber.New(ctx, standardsubscriber.WithLogLevel(zerolog.Disabled), standardsubscriber.WithMonitor(&nullmetrics.Service{}),
		standardsubscriber.WithProcessConcurrency(2), standardsubscriber.WithChainTimeService(ct), standardsubscriber.WithAttesterDutiesProvider(c14rSlowDuties{w}),
		standardsubscriber.WithAttestationAggregator(w), standardsubscriber.WithBeaconCommitteeSubmitter(w))
	must(err)
	w.fastTrack = mc.Choose(2) == 1
	_, err = standardcontroller.New(ctx,
		standardcontroller.WithWaitedForGenesis(w.waitedG),
		standardcontroller.WithFastTrackAttestations(w.fastTrack), standardcontroller.WithFastTrackSyncCommittees(w.fastTrack), standardcontroller.WithFastTrackGrace(c03Grace),
		standardcontroller.WithLogLevel(zerolog.Disabled), standardcontroller.WithMonitor(nullmetrics.New()),
		standardcontroller.WithSpecProvider(&specProvider{m: baseSpec(c03SlotDur, c03SPE)}), standardcontroller.WithChainTimeService(ct),
		standardcontroller.WithProposerDutiesProvider(w), standardcontroller.WithAttesterDutiesProvider(w),
		standardcontroller.WithSyncCommitteeDutiesProvider(vouchmock.NewSyncCommitteeDutiesProvider()), standardcontroller.WithEventsProvider(ev),
		standardcontroller.WithValidatingAccountsProvider(accts), standardcontroller.WithProposalsPreparer(mockproposalpreparer.New()),
		standardcontroller.WithScheduler(sched), standardcontroller.WithAttester(w), standardcontroller.WithBeaconBlockProposer(w),
		standardcontroller.WithBeaconCommitteeSubscriber(&c14rSubscriber{real: subscriber, w: w}), standardcontroller.WithAttestationAggregator(w),
		standardcontroller.WithAccountsRefresher(mockaccountmanager.NewRefresher()),
		standardcontroller.WithBlockToSlotSetter(mockcache.New(map[phase0.Root]phase0.Slot{}).(cache.BlockRootToSlotSetter)),
		standardcontroller.WithBeaconBlockHeadersProvider(vouchmock.NewBeaconBlockHeadersProvider()), standardcontroller.WithSignedBeaconBlockProvider(vouchmock.NewSignedBeaconBlockProvider()),
		standardcontroller.WithMaxAttestationDelay(c03Delay), standardcontroller.WithAttestationAggregationDelay(8*time.Second))
	must(err)
	deliver := func(kind string, prev, cur byte) {
		s := w.slotAt(mc.Now())
		w.events = append(w.events, fmt.Sprintf("%s@slot%d+%ds", kind, s, (mc.Now()-w.slotStart(s))/int64(time.Second)))
		ev.deliver("head", &apiv1.HeadEvent{Slot: s, Block: root(byte(s)), PreviousDutyDependentRoot: root(prev), CurrentDutyDependentRoot: root(cur)})
	}
	mc.Sleep(int64(500 * time.Millisecond))
	prev, cur := byte(0x10), byte(0x20)
	deliver("baseline", prev, cur)
	// one reorg event in one of the next five slots, one or six seconds into the slot
	slotOff := int(w.slotAt(mc.Now())) - c03Epoch0*c03SPE + mc.Choose(5)
	secs := []int64{1, 6}[mc.Choose(2)]
	kind := []string{"prev", "cur"}[mc.Choose(2)]
	at := w.slotStart(phase0.Slot(c03Epoch0*c03SPE+slotOff)) + secs*int64(time.Second)
	if at <= mc.Now() {
		slotOff++
		at = w.slotStart(phase0.Slot(c03Epoch0*c03SPE+slotOff)) + secs*int64(time.Second)
	}
	mc.Sleep(at - mc.Now())
	if slotOff/c03SPE != 0 {
		prev, cur = cur, cur+1
	}
	if c03Epoch0 == 0 {
		// the duties of the first two epochs depend on the genesis state: no reorg can change them
		kind = "same"
	}
	switch kind {
	case "prev":
		prev += 0x40
	case "cur":
		cur += 0x40
	}
	if kind != "same" {
		w.version = 1
		w.reorgAt = mc.Now()
	}
	deliver(kind, prev, cur)
	mc.Sleep(w.slotStart(phase0.Slot((c03Epoch0+3)*c03SPE)) + int64(time.Second) - mc.Now())
	w.done = true
}

func c14rCheck(w *c14rWorld, r *mc.Result) mc.Verdict {
	v := mc.Verdict{}
	desc := fmt.Sprintf("reorg: start=epoch%d+%.0fs attester duties %s->%s events=[%s]", c03Epoch0, float64(w.startAt)/1e9, w.attKinds[0], w.attKinds[1], strings.Join(w.events, " "))
	v.Outcome = fmt.Sprintf("reorg: attests=%d subscriptions=%d aggregations=%d", len(w.attests), len(w.subs), len(w.aggs))
	v.Sample = desc + " -> " + v.Outcome
	v.Nontrivial = w.attKinds[0] != w.attKinds[1]
	fail := func(key, msg string) mc.Verdict {
		v.Violation = desc + ": " + msg
		v.Key = "C14/reorg/" + key
		return v
	}
	if r.Panic != "" {
		return fail("panic/"+panicSite(r.Panic), "panic: "+firstLine(r.Panic))
	}
	if !w.done {
		return fail("never-finished", "the scenario never finished")
	}
	// every duty the beacon node handed out for a slot that was still in the future must have been subscribed
	// (at the time of that answer or later, before the slot) ...
	for i := range w.attF {
		if w.subDelay > 0 {
			// the beacon node is slow towards the subscriber: whether a subscription can be made in time is the
			// environment's doing; only the aggregation clause is judged in these runs
			break
		}
		f := &w.attF[i]
		fs := w.slotAt(f.at)
		for _, d := range f.duties {
			if uint64(d.slot)/c03SPE != uint64(f.epoch) || d.slot <= fs {
				continue
			}
			// only the answer that is still the latest one for its epoch when the slot starts counts
			latest := true
			for j := range w.attF {
				g := &w.attF[j]
				if g.epoch == f.epoch && g.at > f.at && g.at < w.slotStart(d.slot) {
					still := false
					for _, d2 := range g.duties {
						if d2 == d {
							still = true
						}
					}
					if !still {
						latest = false
					}
				}
			}
			if !latest {
				continue
			}
			ok := false
			for _, s := range w.subs {
				if s.slot == d.slot && s.committee == c03Committee(d.val) && s.at < w.slotStart(d.slot) {
					ok = true
				}
			}
			if !ok {
				return fail("future-duty-not-subscribed", fmt.Sprintf("validator %d's duty in slot %d committee %d (obtained in slot %d) was never subscribed", d.val, d.slot, c03Committee(d.val), fs))
			}
		}
	}
	if w.allLate {
		// vouch ran through an epoch without any active validator; the duties of the epoch in which they become
		// active (the same in both duty tables of these runs) are all in future slots when that epoch is prepared
		late := phase0.Epoch(c03Epoch0 + 2)
		for _, d := range c03AttTable(w.attKinds[0], late) {
			ok := false
			for _, s := range w.subs {
				if s.slot == d.slot && s.committee == c03Committee(d.val) && s.at < w.slotStart(d.slot) {
					ok = true
				}
			}
			if !ok {
				return fail("activation-epoch-not-subscribed", fmt.Sprintf("validator %d becomes active in epoch %d; its duty in slot %d committee %d was never subscribed", d.val, late, d.slot, c03Committee(d.val)))
			}
		}
	}
	// ... and every attestation made for a slot that was in the future when its duties were last obtained must be
	// followed by one aggregation per committee with a selected aggregator (here: validators 1 and 3)
	for _, c := range w.attests {
		epoch := phase0.Epoch(uint64(c.slot) / c03SPE)
		var lf *c03Fetch
		for i := range w.attF {
			f := &w.attF[i]
			if f.epoch == epoch && f.at <= c.at {
				lf = f
			}
		}
		if lf == nil || w.slotAt(lf.at) >= c.slot {
			continue
		}
		// aggregation jobs are set up from the subscription information of the epoch, after attesting: the
		// information must have reached the controller by then (an answer landing on that very instant
		// leaves both outcomes open)
		attestEnd := c.at + w.attestDur
		have, tie := false, false
		for _, sr := range w.subRet {
			if sr.epoch == epoch && sr.at < attestEnd {
				have = true
			}
			if sr.epoch == epoch && sr.at == attestEnd {
				tie = true
			}
		}
		if !have || tie {
			continue
		}
		if attestEnd >= w.slotStart(c.slot+1) {
			continue // the attestations were only made once the slot was over: nothing is left to aggregate
		}
		committees := map[phase0.CommitteeIndex]bool{}
		for _, val := range c.vals {
			if val != 2 { // validator 2 is never selected as aggregator
				committees[c03Committee(val)] = true
			}
		}
		got := map[phase0.CommitteeIndex]int{}
		for _, a := range w.aggs {
			if a.slot == c.slot {
				got[c03Committee(a.val)]++
				wantAt := w.slotStart(c.slot) + int64(8*time.Second)
				if attestEnd > wantAt {
					wantAt = attestEnd // the attester took longer than the aggregation delay: the job runs at once
				}
				if a.at != wantAt {
					return fail("aggregation-wrong-time", fmt.Sprintf("aggregation for slot %d ran %+.1fs after the slot start instead of +8.0s", c.slot, float64(a.at-w.slotStart(c.slot))/1e9))
				}
			}
		}
		for _, cm := range keysSorted(committees) {
			if got[cm] != 1 {
				return fail("aggregation-job-missing", fmt.Sprintf("slot %d committee %d was attested by a selected aggregator but %d aggregations ran for it", c.slot, cm, got[cm]))
			}
		}
		for _, cm := range keysSorted(got) {
			if n := got[cm]; !committees[cm] && n > 0 {
				return fail("aggregation-job-unexpected", fmt.Sprintf("an aggregation ran for slot %d committee %d, in which no selected aggregator of ours attested", c.slot, cm))
			}
		}
	}
	return v
}

func init() {
	p := hx.Get("C14")
	if p == nil {
		return
	}
	base := p.Units
	p.Units = func(tier string) []hx.Unit {
		units := base(tier)
		starts := []int64{0, int64(c03SlotDur) + int64(time.Second)}
		for si, sa := range starts {
			for _, ap := range [][2]string{{"A", "B"}, {"A", "C"}, {"E", "B"}, {"B", "E"}, {"A", "A"}, {"E", "F"}} {
				sa, ap := sa, ap
				w := &c14rWorld{}
				u := hx.Unit{Name: fmt.Sprintf("C14/reorg/start%d/att%s%s", si, ap[0], ap[1]), Cfg: mc.Config{Deviation: true, Horizon: int64(40 * c03SlotDur)}, Bound: 0}
				if tier == "thorough" {
					u.Bound = 1
				}
				u.Body = func() { c14rBody(w, sa, ap, 0, 0) }
				u.Check = func(r *mc.Result) mc.Verdict { return c14rCheck(w, r) }
				units = append(units, u)
			}
			// genesis: vouch runs in the first epochs of a chain (epoch arithmetic on unsigned values)
			{
				sa := sa
				w := &c14rWorld{}
				u := hx.Unit{Name: fmt.Sprintf("C14/reorg/start%d/genesis", si), Cfg: mc.Config{Deviation: true, Horizon: int64(40 * c03SlotDur)}, Bound: 0}
				u.Body = func() {
					c03Epoch0 = 0
					c14rBody(w, sa, [2]string{"E", "E"}, 0, 0)
				}
				u.Check = func(r *mc.Result) mc.Verdict {
					v := c14rCheck(w, r)
					v.Nontrivial = true
					c03Epoch0 = 2
					return v
				}
				units = append(units, u)
			}
			// all validators become active two epochs after the one vouch starts in: an epoch goes by without any
			{
				sa := sa
				w := &c14rWorld{allLate: true}
				u := hx.Unit{Name: fmt.Sprintf("C14/reorg/start%d/all-activate-later", si), Cfg: mc.Config{Deviation: true, Horizon: int64(40 * c03SlotDur)}, Bound: 0}
				u.Body = func() { c14rBody(w, sa, [2]string{"E", "E"}, 0, 0) }
				u.Check = func(r *mc.Result) mc.Verdict {
					v := c14rCheck(w, r)
					v.Nontrivial = len(w.subs) > 0
					return v
				}
				units = append(units, u)
			}
			// validator 1's account turns up one slot after the start (start-up has subscribed the next epoch without it)
			{
				sa := sa
				w := &c14rWorld{lateAccount: true}
				u := hx.Unit{Name: fmt.Sprintf("C14/reorg/start%d/account-added-after-start", si), Cfg: mc.Config{Deviation: true, Horizon: int64(40 * c03SlotDur)}, Bound: 0}
				u.Body = func() { c14rBody(w, sa, [2]string{"E", "E"}, 0, 0) }
				u.Check = func(r *mc.Result) mc.Verdict {
					v := c14rCheck(w, r)
					v.Nontrivial = true
					return v
				}
				units = append(units, u)
			}
			// ... and the same at the start of a chain, vouch having waited for genesis
			if si == 0 {
				w := &c14rWorld{lateAccount: true, waitedG: true}
				u := hx.Unit{Name: "C14/reorg/genesis-waited/account-added-after-start", Cfg: mc.Config{Deviation: true, Horizon: int64(40 * c03SlotDur)}, Bound: 0}
				u.Body = func() {
					c03Epoch0 = 0
					c14rBody(w, 0, [2]string{"E", "E"}, 0, 0)
				}
				u.Check = func(r *mc.Result) mc.Verdict {
					v := c14rCheck(w, r)
					v.Nontrivial = true
					c03Epoch0 = 2
					return v
				}
				units = append(units, u)
			}
			// a slow attester (7 s) and a beacon node that takes its time over the subscriber's duty request: the
			// subscription information reaches the controller before, while or after a slot's attestations are made
			for _, sd := range []int64{10, 20, 40} {
				sa, sd := sa, sd
				w := &c14rWorld{}
				u := hx.Unit{Name: fmt.Sprintf("C14/reorg/start%d/slow-attester/subscription+%ds", si, sd), Cfg: mc.Config{Deviation: true, Horizon: int64(40 * c03SlotDur)}, Bound: 0}
				u.Body = func() { c14rBody(w, sa, [2]string{"E", "E"}, int64(7*time.Second), sd*int64(time.Second)) }
				u.Check = func(r *mc.Result) mc.Verdict {
					v := c14rCheck(w, r)
					v.Nontrivial = true
					return v
				}
				units = append(units, u)
			}
		}
		return units
	}
	p.Rule += "; (reorg) the real controller (fast track off / on) + scheduler + subscriber run for three epochs with a head event announcing changed dependent roots in one of the next five slots (1 s or 6 s into the slot, previous or current root) and duty tables that move, drop or add duties: every duty handed out for a future slot is subscribed, and every attestation is followed by one aggregation per committee with a selected aggregator (validators 1 and 3 are selected, 2 is not) at slot start + aggregation delay; the same from the first epoch of the chain (epoch 0); the same with an account that the account manager only knows from one slot after the start; the same with validators that all become active two epochs after the start (an epoch passes without any active validator; every duty of the activation epoch must be subscribed); the same with an attester that takes 7 s and a beacon node that takes 10 / 20 / 40 s over the subscriber's duty request: an aggregation is owed whenever the subscription information reached the controller before the attestations were made"
}
