package props

import (
	"context"
	"fmt"
	"strings"
	"time"

	"verifharness/hx"

	"github.com/attestantio/go-block-relay/services/blockauctioneer"
	builderclient "github.com/attestantio/go-builder-client"
	"github.com/attestantio/go-eth2-client/api"
	apiv1bellatrix "github.com/attestantio/go-eth2-client/api/v1/bellatrix"
	"github.com/attestantio/go-eth2-client/spec"
	"github.com/attestantio/go-eth2-client/spec/bellatrix"
	"github.com/attestantio/go-eth2-client/spec/phase0"
	"github.com/attestantio/vouch/services/beaconblockproposer"
	"github.com/attestantio/vouch/services/blockrelay"
	standardblockrelay "github.com/attestantio/vouch/services/blockrelay/standard"
	nullmetrics "github.com/attestantio/vouch/services/metrics/null"
	"github.com/attestantio/vouch/util"
	"github.com/attestantio/vouch/verifmc/mc"
	"github.com/attestantio/vouch/verifmc/mcontext"
	"github.com/rs/zerolog"
)

// C10, part "service": the relays the block relay service *uses* for a validator are the resolved ones.
//
// The other parts compare the resolver with the documentation; this one drives the real service with a version 2
// document in which the proposer's own entry - selected by public key or by account expression - replaces the relay
// set, and records which relays are asked to unblind a block of that proposer (vouch acting as the beacon node's
// builder) and which are asked for a bid.

func c10ServiceUnits(_ string) []hx.Unit {
	var units []hx.Unit
	for _, by := range []string{"public-key", "account-expression", "no-entry"} {
		by := by
		var asked, askedBid []string
		var done bool
		var uerr error
		u := hx.Unit{Name: "C10/service/relays-used/entry-by-" + by, Cfg: mc.Config{Fixed: true, Horizon: int64(120 * time.Second)}}
		u.Body = func() {
			asked, askedBid, done, uerr = nil, nil, false, nil
			e := &c05Env{version: spec.DataVersionBellatrix, blinded: true, acct: newAccount("W", "proposer", 7)}
			for i := 0; i < 2; i++ {
				e.relays = append(e.relays, &c05Relay{idx: i, env: e, beh: "full"})
			}
			util.VerifResetBuilderClients()
			for _, r := range e.relays {
				util.VerifSetBuilderClient(r.Address(), r)
			}
			// top level: relay 0; the proposer's entry resets the relays and names relay 1
			entry := ""
			switch by {
			case "public-key":
				entry = `,"proposers":[{"proposer":"` + e.acct.pubkey().String() + `","reset_relays":true,"relays":{"` + e.relays[1].Address() + `":{}}}]`
			case "account-expression":
				entry = `,"proposers":[{"proposer":"^W/proposer$","reset_relays":true,"relays":{"` + e.relays[1].Address() + `":{}}}]`
			}
			doc := `{"version":2,"fee_recipient":"` + feeA + `","relays":{"` + e.relays[0].Address() + `":{}}` + entry + `}`
			ctx0, cancel0 := mcontext.WithCancel(context.Background())
			defer cancel0()
			accts := &accountsTable{byIndex: map[phase0.ValidatorIndex]*hAccount{7: e.acct}}
			svc, err := standardblockrelay.New(ctx0,
				standardblockrelay.WithLogLevel(zerolog.Disabled), standardblockrelay.WithMonitor(&nullmetrics.Service{}),
				standardblockrelay.WithMajordomo(&c09Majordomo{doc: doc}),
				standardblockrelay.WithScheduler(&nopScheduler{}), standardblockrelay.WithListenAddress("127.0.0.1:18550"),
				standardblockrelay.WithChainTime(newChainTime(0, 12*time.Second, 32)), standardblockrelay.WithConfigURL("file:///config.json"),
				standardblockrelay.WithFallbackFeeRecipient(bellatrix.ExecutionAddress{0xff}), standardblockrelay.WithFallbackGasLimit(30000000),
				standardblockrelay.WithAccountsProvider(accts), standardblockrelay.WithValidatorsProvider(c20Validators{e.acct}), standardblockrelay.WithValidatingAccountsProvider(accts),
				standardblockrelay.WithValidatorRegistrationSigner(c12Signer{}), standardblockrelay.WithReleaseVersion("test"),
				standardblockrelay.WithBuilderBidProvider(c10RecBids{&askedBid}), standardblockrelay.WithBuilderConfigs(map[phase0.BLSPubKey]*blockrelay.BuilderConfig{}))
			must(err)
			mc.Sleep(int64(time.Second)) // the registration round of the constructor
			p := c05Proposal(e.version, true, c05Slot)
			block := &api.VersionedSignedBlindedBeaconBlock{Version: e.version, Bellatrix: &apiv1bellatrix.SignedBlindedBeaconBlock{Message: p.BellatrixBlinded, Signature: phase0.BLSSignature{0x77}}}
			ctx, cancel := mcontext.WithTimeout(ctx0, 8*time.Second)
			defer cancel()
			_, _ = svc.AuctionBlock(ctx, c05Slot, phase0.Hash32{9}, e.acct.pubkey())
			// the beacon node asks vouch's builder endpoint for the bid on another parent: no auction was held for it,
			// vouch holds one on the spot
			_, _ = svc.BuilderBid(ctx, c05Slot, phase0.Hash32{8}, e.acct.pubkey())
			_, uerr = svc.UnblindBlock(ctx, block)
			for _, r := range e.relays {
				if r.n > 0 {
					asked = append(asked, r.Address())
				}
			}
			done = true
		}
		u.Check = func(r *mc.Result) mc.Verdict {
			want := "https://relay1.example.com/"
			if by == "no-entry" {
				want = "https://relay0.example.com/"
			}
			v := mc.Verdict{Outcome: "service/" + by, Nontrivial: by != "no-entry",
				Sample: fmt.Sprintf("proposer entry by %s: bid asked of [%s], unblinding asked of [%s]", by, strings.Join(askedBid, " "), strings.Join(asked, " "))}
			switch {
			case r.Panic != "":
				v.Violation, v.Key = v.Sample+": panic: "+firstLine(r.Panic), "C10/service/panic"
			case !done:
				v.Violation, v.Key = v.Sample+": the calls never returned", "C10/service/never-returned"
			case len(askedBid) != 2 || askedBid[0] != want || askedBid[1] != want:
				v.Violation, v.Key = v.Sample+fmt.Sprintf(": the proposer's auction and the auction held for the beacon node's bid request must each use exactly the resolved relay %s", want), "C10/service/auction-relays-not-the-resolved-ones"
			case len(asked) != 1 || asked[0] != want:
				v.Violation, v.Key = v.Sample+fmt.Sprintf(": the unblinding must use exactly the resolved relay %s (unblinding error: %v)", want, uerr), "C10/service/unblinding-relays-not-the-resolved-ones"
			}
			return v
		}
		units = append(units, u)
	}
	return units
}

// c10RecBids is the builder-bid strategy stand-in: it records the relays of the configuration it is handed.
type c10RecBids struct{ asked *[]string }

func (b c10RecBids) BuilderBid(_ context.Context, _ phase0.Slot, _ phase0.Hash32, _ phase0.BLSPubKey, pc *beaconblockproposer.ProposerConfig, _ map[phase0.BLSPubKey]*blockrelay.BuilderConfig) (*blockauctioneer.Results, error) {
	for _, r := range pc.Relays {
		*b.asked = append(*b.asked, r.Address)
	}
	return &blockauctioneer.Results{Participation: map[string]*blockauctioneer.Participation{}, AllProviders: []builderclient.BuilderBidProvider{}, Providers: []builderclient.BuilderBidProvider{}}, nil
}

func init() {
	p := hx.Get("C10")
	if p == nil {
		return
	}
	base := p.Units
	p.Units = func(tier string) []hx.Unit { return append(base(tier), c10ServiceUnits(tier)...) }
	p.Rule += "; (service) the real block relay service with a version 2 document whose proposer entry (by public key / by account expression / none) replaces the relay set: the auction and the unblinding of that proposer's block (vouch as the beacon node's builder) use exactly the resolved relays"
}
