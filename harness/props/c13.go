package props

import (
	"bytes"
	"context"
	"crypto/sha256"
	"errors"
	"fmt"
	"regexp"
	"sort"
	"strings"
	"time"

	"verifharness/hx"

	eth2client "github.com/attestantio/go-eth2-client"
	"github.com/attestantio/go-eth2-client/api"
	apiv1 "github.com/attestantio/go-eth2-client/api/v1"
	"github.com/attestantio/go-eth2-client/spec/phase0"
	dirkam "github.com/attestantio/vouch/services/accountmanager/dirk"
	walletam "github.com/attestantio/vouch/services/accountmanager/wallet"
	"github.com/attestantio/vouch/services/chaintime"
	nullmetrics "github.com/attestantio/vouch/services/metrics/null"
	"github.com/attestantio/vouch/services/validatorsmanager"
	standardvm "github.com/attestantio/vouch/services/validatorsmanager/standard"
	"github.com/attestantio/vouch/verifmc/mc"
	"github.com/google/uuid"
	"github.com/rs/zerolog"
	e2types "github.com/wealdtech/go-eth2-types/v2"
	e2wtypes "github.com/wealdtech/go-eth2-wallet-types/v2"
)

// C13: only configured accounts validate, and only while their validator is active.
//
// Three groups of units, all on the real account managers (dirk, wallet) and the real validators
// manager, closed by harness wallets (stand-ins implementing the wallet interfaces) and a scripted
// beacon node:
//
//   spec/…     every specifier list of length <= 2 x every offered wallet/account name: what the
//              manager admits is compared with a reference full match built with Go's regexp from the
//              property statement (one direction: admitted => some specifier fully matches).
//   state/…    every validator record (activation, exit, withdrawable in {past, =epoch, future,
//              far-future}, slashed) x epoch 0..3: Validating…/SyncCommittee…AccountsForEpoch[ByIndex]
//              against the state-at-epoch rule of the statement.
//   refresh/…  every sequence of refresh outcomes {set A, set B, empty, error} of the validators
//              manager, and of the dirk manager's Refresh (accounts x validators): a refresh that
//              returns nothing never wipes what is known.

const c13FFE = phase0.Epoch(0xffffffffffffffff)

// ---------------------------------------------------------------------------------------------
// stand-ins

type c13Pub phase0.BLSPubKey

func (k c13Pub) Marshal() []byte               { b := make([]byte, 48); copy(b, k[:]); return b }
func (k c13Pub) Aggregate(_ e2types.PublicKey) {}
func (k c13Pub) Copy() e2types.PublicKey       { return k }

func c13Key(wallet, name string) phase0.BLSPubKey {
	h := sha256.Sum256([]byte(wallet + "/" + name))
	var k phase0.BLSPubKey
	copy(k[:], h[:])
	copy(k[32:], h[:16])
	return k
}

// c13Account is an account as a wallet or Dirk hands it out: id, name, public key; it can be unlocked
// with the passphrase "pw" (the wallet manager only uses accounts it can unlock).
type c13Account struct {
	wallet, name string
	key          phase0.BLSPubKey
	unlocked     bool
}

func (a *c13Account) ID() uuid.UUID                { return uuid.NewSHA1(uuid.Nil, []byte(a.wallet+"/"+a.name)) }
func (a *c13Account) Name() string                 { return a.name }
func (a *c13Account) Wallet() e2wtypes.Wallet      { return &c13Wallet{name: a.wallet} } // as the dirk client's accounts do
func (a *c13Account) PublicKey() e2types.PublicKey { return c13Pub(a.key) }
func (a *c13Account) Lock(context.Context) error   { a.unlocked = false; return nil }
func (a *c13Account) Unlock(_ context.Context, p []byte) error {
	if string(p) != "pw" {
		return errors.New("incorrect passphrase")
	}
	a.unlocked = true
	return nil
}
func (a *c13Account) IsUnlocked(context.Context) (bool, error) { return a.unlocked, nil }

func c13NewAccount(wallet, name string) *c13Account {
	return &c13Account{wallet: wallet, name: name, key: c13Key(wallet, name)}
}

// c13Wallet offers a scripted list of accounts.  Like the real dirk wallet it returns a buffered channel
// that is filled and closed (an unreachable signer shows as a channel closed without accounts).
type c13Wallet struct {
	name    string
	offer   []e2wtypes.Account
	fetches int
}

func (w *c13Wallet) ID() uuid.UUID { return uuid.NewSHA1(uuid.Nil, []byte(w.name)) }
func (w *c13Wallet) Type() string  { return "verif" }
func (w *c13Wallet) Name() string  { return w.name }
func (w *c13Wallet) Version() uint { return 1 }
func (w *c13Wallet) Accounts(context.Context) <-chan e2wtypes.Account {
	w.fetches++
	ch := make(chan e2wtypes.Account, len(w.offer)+1)
	for _, a := range w.offer {
		mc.Send(ch, a)
	}
	mc.Close(ch)
	return ch
}

func c13WalletWith(wallet string, names ...string) *c13Wallet {
	w := &c13Wallet{name: wallet}
	for _, n := range names {
		w.offer = append(w.offer, c13NewAccount(wallet, n))
	}
	return w
}

// c13Provider is the scripted beacon node: it knows the validators in table and answers a request for
// public keys with the matching entries (as a beacon node does), or with nothing, or fails.
type c13Provider struct {
	table     map[phase0.BLSPubKey]*apiv1.Validator
	mode      int // 0 answer, 1 empty map, 2 nil map, 3 error
	calls     int
	delivered []map[phase0.ValidatorIndex]*apiv1.Validator // successful answers, in order
}

const (
	c13Answer = iota
	c13EmptyMap
	c13NilMap
	c13Error
)

func (p *c13Provider) Validators(_ context.Context, opts *api.ValidatorsOpts) (*api.Response[map[phase0.ValidatorIndex]*apiv1.Validator], error) {
	p.calls++
	switch p.mode {
	case c13Error:
		return nil, errors.New("scripted beacon node failure")
	case c13NilMap:
		p.delivered = append(p.delivered, nil)
		return &api.Response[map[phase0.ValidatorIndex]*apiv1.Validator]{Data: nil, Metadata: map[string]any{}}, nil
	case c13EmptyMap:
		p.delivered = append(p.delivered, nil)
		return &api.Response[map[phase0.ValidatorIndex]*apiv1.Validator]{Data: map[phase0.ValidatorIndex]*apiv1.Validator{}, Metadata: map[string]any{}}, nil
	}
	data := map[phase0.ValidatorIndex]*apiv1.Validator{}
	kept := map[phase0.ValidatorIndex]*apiv1.Validator{}
	add := func(v *apiv1.Validator) {
		cp := *v.Validator
		data[v.Index] = &apiv1.Validator{Index: v.Index, Balance: v.Balance, Status: v.Status, Validator: &cp}
		kept[v.Index] = v
	}
	if len(opts.PubKeys) == 0 && len(opts.Indices) == 0 {
		for _, v := range p.table {
			add(v)
		}
	}
	for _, pk := range opts.PubKeys {
		if v, ok := p.table[pk]; ok {
			add(v)
		}
	}
	p.delivered = append(p.delivered, kept)
	return &api.Response[map[phase0.ValidatorIndex]*apiv1.Validator]{Data: data, Metadata: map[string]any{}}, nil
}

var _ eth2client.ValidatorsProvider = (*c13Provider)(nil)

type c13Rec struct {
	act, exit, wd phase0.Epoch
	slashed       bool
	emptied       bool // the effective balance is zero (after the withdrawable epoch: the withdrawal is done)
}

func c13Ep(e phase0.Epoch) string {
	if e == c13FFE {
		return "far"
	}
	return fmt.Sprint(uint64(e))
}

func (r c13Rec) String() string {
	bal := ""
	if r.emptied {
		bal = " balance=0"
	}
	return fmt.Sprintf("{activation=%s exit=%s withdrawable=%s slashed=%v%s}", c13Ep(r.act), c13Ep(r.exit), c13Ep(r.wd), r.slashed, bal)
}

func c13Validator(pk phase0.BLSPubKey, idx phase0.ValidatorIndex, r c13Rec) *apiv1.Validator {
	bal := phase0.Gwei(32_000_000_000)
	if r.emptied {
		bal = 0
	}
	return &apiv1.Validator{Index: idx, Balance: bal, Validator: &phase0.Validator{
		PublicKey:                  pk,
		WithdrawalCredentials:      make([]byte, 32),
		EffectiveBalance:           bal,
		Slashed:                    r.slashed,
		ActivationEligibilityEpoch: 0,
		ActivationEpoch:            r.act,
		ExitEpoch:                  r.exit,
		WithdrawableEpoch:          r.wd,
	}}
}

func c13NewVM(p *c13Provider) *standardvm.Service {
	vm, err := standardvm.New(context.Background(),
		standardvm.WithLogLevel(zerolog.Disabled),
		standardvm.WithMonitor(nullmetrics.New()),
		standardvm.WithClientMonitor(nullmetrics.New()),
		standardvm.WithFarFutureEpoch(c13FFE),
		standardvm.WithValidatorsProvider(p),
	)
	must(err)
	return vm
}

func c13ChainTime() chaintime.Service { return newChainTime(0, 12*time.Second, 32) }

// ---------------------------------------------------------------------------------------------
// reference (written from the property statement; never calls the code under test)

// c13StripAnchors removes one explicit leading ^ and trailing $: with a full match they are redundant.
func c13StripAnchors(s string) string {
	return strings.TrimSuffix(strings.TrimPrefix(s, "^"), "$")
}

// c13RefAdmits: some configured specifier fully matches wallet/account.  A specifier is
// "wallet[/account]", both parts regular expressions; a missing or empty account part means every
// account of that wallet.  Explicit anchors are accepted both literally and as redundant (the union of
// the two readings), so the reference never rejects what a reasonable reading of the specifier admits.
func c13RefAdmits(specs []string, wallet, account string) bool {
	name := wallet + "/" + account
	for _, s := range specs {
		w, a, _ := strings.Cut(s, "/")
		if a == "" {
			a = ".*"
		}
		for _, v := range [][2]string{{w, a}, {c13StripAnchors(w), c13StripAnchors(a)}} {
			if v[0] == "" || v[1] == "" {
				continue
			}
			re, err := regexp.Compile("^(?:" + v[0] + ")/(?:" + v[1] + ")$")
			if err != nil {
				continue
			}
			if re.MatchString(name) {
				return true
			}
		}
	}
	return false
}

// c13Shape is the structural class of a specifier (used in finding keys).
func c13Shape(s string) string {
	w, a, has := strings.Cut(s, "/")
	switch {
	case strings.Contains(s, "|"):
		return "alternation"
	case !has:
		return "wallet-only"
	case a == "":
		return "wallet-slash"
	case strings.HasPrefix(w, "^") || strings.HasPrefix(a, "^") || strings.HasSuffix(a, "$"):
		return "anchored"
	case strings.ContainsAny(a, `.*+?[](){}\`):
		return "regex"
	}
	return "plain"
}

func c13SpecNontrivial(specs []string) bool {
	for _, s := range specs {
		switch c13Shape(s) {
		case "alternation", "anchored", "regex":
			return true
		}
	}
	return false
}

type c13Tri int

const (
	c13Out c13Tri = iota
	c13In
	c13Open
)

// c13RefValidating: "active and not slashed in that epoch (activation epoch reached, exit epoch not
// reached)".  A slashed validator without an exit epoch is a record the chain cannot produce (slashing
// initiates the exit); statement and spec do not say what it is, so both outcomes are accepted.
func c13RefValidating(r c13Rec, e phase0.Epoch) c13Tri {
	if !(r.act <= e && e < r.exit) {
		return c13Out
	}
	if !r.slashed {
		return c13In
	}
	if r.exit == c13FFE {
		return c13Open
	}
	return c13Out
}

// c13RefSync: the validating set, and additionally exited and slashed validators until the withdrawable
// epoch is reached and, from then on, until the withdrawal is done (the balance is gone).  Exit or slashing
// before activation, or a withdrawable epoch before the exit epoch, cannot be produced by the chain: open.
func c13RefSync(r c13Rec, e phase0.Epoch) c13Tri {
	if r.act > e {
		if r.slashed || r.exit <= e {
			return c13Open
		}
		return c13Out
	}
	if e < r.exit || e < r.wd {
		return c13In
	}
	if r.wd < r.exit {
		return c13Open
	}
	if r.emptied {
		return c13Out
	}
	return c13In
}

// c13Class names the lifecycle phase of a record at an epoch (finding keys, outcomes).
func c13Class(r c13Rec, e phase0.Epoch) string {
	switch {
	case r.act > e:
		return "pending"
	case e < r.exit && r.slashed:
		return "active-slashed"
	case e < r.exit && r.exit == c13FFE:
		return "active-ongoing"
	case e < r.exit:
		return "active-exiting"
	case e < r.wd && r.slashed:
		return "exited-slashed"
	case e < r.wd:
		return "exited-unslashed"
	}
	return "withdrawable"
}

// ---------------------------------------------------------------------------------------------
// shared state / verdict

type c13Fail struct{ key, msg string }

type c13State struct {
	fails      []c13Fail
	outcome    string
	nontrivial bool
	sample     string
}

func (st *c13State) bad(key, f string, a ...any) {
	st.fails = append(st.fails, c13Fail{key, fmt.Sprintf(f, a...)})
}

func c13Verdict(st *c13State, r *mc.Result) mc.Verdict {
	v := mc.Verdict{Outcome: st.outcome, Nontrivial: st.nontrivial, Sample: st.sample}
	if r.Panic != "" {
		v.Violation, v.Key = "panic: "+firstLine(r.Panic)+" in "+st.sample, "C13/panic"
		return v
	}
	for _, b := range r.Blocked {
		if b.Class == "blocked" {
			v.Violation, v.Key = "a goroutine is left blocked in "+st.sample, "C13/blocked"
			return v
		}
	}
	if len(st.fails) == 0 {
		return v
	}
	// report a failure that is not of the alternation class first, so that the recorded finding can
	// never hide another one that occurs in the same execution
	pick := st.fails[0]
	for _, f := range st.fails {
		if !strings.HasSuffix(f.key, "/alternation") {
			pick = f
			break
		}
	}
	v.Violation, v.Key = pick.msg, pick.key
	return v
}

type c13Manager interface {
	ValidatingAccountsForEpoch(ctx context.Context, epoch phase0.Epoch) (map[phase0.ValidatorIndex]e2wtypes.Account, error)
	ValidatingAccountsForEpochByIndex(ctx context.Context, epoch phase0.Epoch, indices []phase0.ValidatorIndex) (map[phase0.ValidatorIndex]e2wtypes.Account, error)
	SyncCommitteeAccountsForEpoch(ctx context.Context, epoch phase0.Epoch) (map[phase0.ValidatorIndex]e2wtypes.Account, error)
	SyncCommitteeAccountsForEpochByIndex(ctx context.Context, epoch phase0.Epoch, indices []phase0.ValidatorIndex) (map[phase0.ValidatorIndex]e2wtypes.Account, error)
	AccountByPublicKey(ctx context.Context, pubkey phase0.BLSPubKey) (e2wtypes.Account, error)
}

// ---------------------------------------------------------------------------------------------
// group 1: specifiers x names

var c13Specs = []string{"W", "W/", "W/Val1", "W/Val.*", "W/Val.*[02]", "^W/Val1$", "W/^Val1", "W/Val1$", "W/a|b", "W/(Val1)|(xb)", "X/.*", "W/Val1/x"}
var c13Wallets = []string{"W", "Wx", "xW", "X"}
var c13Names = []string{"Val1", "Val12", "Val2", "xVal1", "a", "xb"}

// c13Admitted runs the manager's own admission for the accounts of the given wallets and returns the
// admitted "wallet/account" names, sorted.  mode: "dirk" / "wallet" call fetchAccountsForWallet for one
// wallet; "dirk-refresh" runs refreshAccounts with all wallets already open.
func c13Admitted(mode string, specs []string, wallets []string) (admitted []string, regexes []string) {
	ctx := context.Background()
	var got map[phase0.BLSPubKey]e2wtypes.Account
	switch mode {
	case "dirk":
		svc := dirkam.VerifNewService(specs, nil, nil, nil, c13FFE, 2)
		got = svc.VerifFetchAccountsForWallet(ctx, c13WalletWith(wallets[0], c13Names...))
		regexes = svc.VerifRegexStrings()
	case "dirk-refresh":
		open := map[string]e2wtypes.Wallet{}
		for _, w := range wallets {
			open[w] = c13WalletWith(w, c13Names...)
		}
		svc := dirkam.VerifNewService(specs, open, nil, nil, c13FFE, 2)
		svc.VerifRefreshAccounts(ctx)
		got = svc.VerifAccounts()
		regexes = svc.VerifRegexStrings()
	case "wallet":
		svc := walletam.VerifNewService(specs, [][]byte{[]byte("other"), []byte("pw")}, nil, nil, c13FFE, 2)
		got = svc.VerifFetchAccountsForWallet(ctx, c13WalletWith(wallets[0], c13Names...))
		regexes = svc.VerifRegexStrings()
	}
	for pk, a := range got {
		ca, ok := a.(*c13Account)
		if !ok || ca.key != pk {
			admitted = append(admitted, fmt.Sprintf("<account stored under a foreign public key %x>", pk[:4]))
			continue
		}
		admitted = append(admitted, ca.wallet+"/"+ca.name)
	}
	sort.Strings(admitted)
	return admitted, regexes
}

func c13SpecUnits(tier string) []hx.Unit {
	var units []hx.Unit
	for _, mode := range []string{"dirk", "dirk-refresh", "wallet"} {
		// first = -1: the empty list; more = false: the list [first] alone (no choice points, so that the
		// smallest counterexample is the one reported); more = true: [first, second(, third)].
		for first := -1; first < len(c13Specs); first++ {
			for _, more := range []bool{false, true} {
				if first < 0 && more {
					continue
				}
				mode, first, more := mode, first, more
				st := &c13State{}
				name := "none"
				if first >= 0 {
					name = fmt.Sprintf("%d", first)
				}
				if more {
					name += "+more"
				}
				u := hx.Unit{Name: fmt.Sprintf("C13/spec/%s/first=%s", mode, name), Cfg: mc.Config{Fixed: true}, Bound: 0}
				u.Body = func() {
					*st = c13State{}
					var specs []string
					if first >= 0 {
						specs = append(specs, c13Specs[first])
					}
					if more {
						specs = append(specs, c13Specs[mc.Choose(len(c13Specs))])
						if tier == "thorough" {
							if third := mc.Choose(len(c13Specs)+1) - 1; third >= 0 {
								specs = append(specs, c13Specs[third])
							}
						}
					}
					mgr := strings.TrimSuffix(mode, "-refresh")
					st.sample = fmt.Sprintf("%s: specifiers %q, wallets %v each offering %v", mode, specs, c13Wallets, c13Names)
					st.nontrivial = c13SpecNontrivial(specs)
					// dirk-refresh has all wallets open at once; the fetch modes are given one wallet after the other
					rounds := [][]string{c13Wallets}
					if mode != "dirk-refresh" {
						rounds = nil
						for _, w := range c13Wallets {
							rounds = append(rounds, []string{w})
						}
					}
					nAdmitted, nRef := 0, 0
					overBy := map[string][]string{}
					var regexes []string
					for _, wallets := range rounds {
						admitted, rx := c13Admitted(mode, specs, wallets)
						regexes = rx
						nAdmitted += len(admitted)
						for _, w := range wallets {
							for _, n := range c13Names {
								if c13RefAdmits(specs, w, n) {
									nRef++
								}
							}
						}
						for _, full := range admitted {
							w, n, _ := strings.Cut(full, "/")
							if c13RefAdmits(specs, w, n) {
								continue
							}
							// attribute the over-admission to the specifier that admits the name on its own
							cause := ""
							if len(specs) == 1 {
								cause = c13Shape(specs[0])
							} else {
								for _, s := range specs {
									alone, _ := c13Admitted(mode, []string{s}, wallets)
									for _, x := range alone {
										if x == full && cause == "" {
											cause = c13Shape(s)
										}
									}
								}
								if cause == "" {
									cause = "combination"
								}
							}
							overBy[cause] = append(overBy[cause], full)
						}
					}
					causes := make([]string, 0, len(overBy))
					for c := range overBy {
						causes = append(causes, c)
					}
					sort.Strings(causes)
					for _, c := range causes {
						sort.Strings(overBy[c])
						st.bad("C13/"+mgr+"/specifier-overadmits/"+c,
							"%s manager (%s) with specifiers %q admitted %q although no configured specifier fully matches; generated regexes %q", mgr, mode, specs, overBy[c], regexes)
					}
					st.outcome = fmt.Sprintf("spec: admitted=%d reference=%d over=%v", nAdmitted, nRef, len(overBy) > 0)
				}
				u.Check = func(r *mc.Result) mc.Verdict { return c13Verdict(st, r) }
				units = append(units, u)
			}
		}
	}
	return units
}

// ---------------------------------------------------------------------------------------------
// group 2: validator records x epochs

type c13Sub struct {
	name   string
	key    phase0.BLSPubKey
	idx    phase0.ValidatorIndex
	rec    c13Rec
	hasRec bool // the beacon node knows a validator for this account
	open   bool // the record in force is not determined (refresh group): accept both
}

// c13Compare checks one result map against the reference.  restrict (nil = no restriction) is the set
// of requested indices for the ...ByIndex calls.
func c13Compare(st *c13State, keyPrefix, what string, e phase0.Epoch, got map[phase0.ValidatorIndex]e2wtypes.Account, err error, subs []c13Sub, want func(c13Rec, phase0.Epoch) c13Tri, restrict map[phase0.ValidatorIndex]bool, missKey func(c13Sub) string) {
	variant := ""
	if restrict != nil {
		variant = "by-index-"
	}
	if err != nil {
		st.bad(keyPrefix+variant+"error", "%s(epoch %d) failed: %v", what, e, err)
		return
	}
	byIdx := map[phase0.ValidatorIndex]c13Sub{}
	for _, s := range subs {
		if s.hasRec {
			byIdx[s.idx] = s
		}
	}
	idxs := make([]phase0.ValidatorIndex, 0, len(got))
	for i := range got {
		idxs = append(idxs, i)
	}
	sort.Slice(idxs, func(i, j int) bool { return idxs[i] < idxs[j] })
	for _, i := range idxs {
		s, ok := byIdx[i]
		a, _ := got[i].(*c13Account)
		switch {
		case !ok:
			st.bad(keyPrefix+variant+"unknown-index-reported", "%s(epoch %d) reports index %d, which is not the index of any known account's validator", what, e, i)
		case a == nil || a.key != s.key || a.name != s.name:
			n := "<nil>"
			if a != nil {
				n = a.name
			}
			st.bad(keyPrefix+variant+"wrong-index", "%s(epoch %d) reports account %s under validator index %d, which is the index of %s's validator", what, e, n, i, s.name)
		case restrict != nil && !restrict[i]:
			st.bad(keyPrefix+variant+"unrequested-index-reported", "%s(epoch %d) reports index %d, which was not requested", what, e, i)
		}
	}
	for _, s := range subs {
		if !s.hasRec {
			for _, i := range idxs {
				if a, _ := got[i].(*c13Account); a != nil && a.name == s.name {
					st.bad(keyPrefix+variant+"account-without-validator-reported", "%s(epoch %d) reports account %s, for which no validator is known", what, e, s.name)
				}
			}
			continue
		}
		if s.open {
			continue
		}
		t := want(s.rec, e)
		if restrict != nil && !restrict[s.idx] {
			t = c13Out
		}
		_, in := got[s.idx]
		cls := c13Class(s.rec, e)
		switch {
		case t == c13In && !in:
			k := keyPrefix + variant + cls + "-missing"
			if missKey != nil {
				if mk := missKey(s); mk != "" {
					k = mk
				}
			}
			st.bad(k, "%s(epoch %d) does not report account %s (validator index %d, record %v: %s)", what, e, s.name, s.idx, s.rec, cls)
		case t == c13Out && in && (restrict == nil || restrict[s.idx]):
			st.bad(keyPrefix+variant+cls+"-reported", "%s(epoch %d) reports account %s (validator index %d, record %v: %s)", what, e, s.name, s.idx, s.rec, cls)
		}
	}
}

// c13CheckQueries runs the four query functions for one epoch.
func c13CheckQueries(st *c13State, mgrName string, mgr c13Manager, e phase0.Epoch, subs []c13Sub, byIndex bool, missKey func(c13Sub) string) {
	ctx := context.Background()
	got, err := mgr.ValidatingAccountsForEpoch(ctx, e)
	c13Compare(st, "C13/validating/"+mgrName+"/", "ValidatingAccountsForEpoch", e, got, err, subs, c13RefValidating, nil, missKey)
	got, err = mgr.SyncCommitteeAccountsForEpoch(ctx, e)
	c13Compare(st, "C13/sync/"+mgrName+"/", "SyncCommitteeAccountsForEpoch", e, got, err, subs, c13RefSync, nil, missKey)
	if !byIndex {
		return
	}
	var all []phase0.ValidatorIndex
	for _, s := range subs {
		if s.hasRec {
			all = append(all, s.idx)
		}
	}
	// as many (and one more) indices as there are known validators, only one of them known: an account removed after
	// the duties were obtained leaves the attester asking for indices the manager no longer has
	padded := []phase0.ValidatorIndex{all[len(all)-1]}
	for i := 0; len(padded) < len(all)+1; i++ {
		padded = append(padded, phase0.ValidatorIndex(90+i))
	}
	sets := [][]phase0.ValidatorIndex{all, {all[0]}, {all[len(all)-1], 99}, {99}, nil, padded[:len(all)], padded}
	for _, set := range sets {
		restrict := map[phase0.ValidatorIndex]bool{}
		for _, i := range set {
			restrict[i] = true
		}
		got, err = mgr.ValidatingAccountsForEpochByIndex(ctx, e, set)
		c13Compare(st, "C13/validating/"+mgrName+"/", fmt.Sprintf("ValidatingAccountsForEpochByIndex%v", set), e, got, err, subs, c13RefValidating, restrict, missKey)
		got, err = mgr.SyncCommitteeAccountsForEpochByIndex(ctx, e, set)
		c13Compare(st, "C13/sync/"+mgrName+"/", fmt.Sprintf("SyncCommitteeAccountsForEpochByIndex%v", set), e, got, err, subs, c13RefSync, restrict, missKey)
	}
}

// c13RelEpochs are the values of {past, =epoch, future, far-future} for query epoch e; width 2 adds
// the epochs two before and two after.
func c13RelEpochs(e phase0.Epoch, width int) []phase0.Epoch {
	var out []phase0.Epoch
	for d := width; d >= 1; d-- {
		if e >= phase0.Epoch(d) {
			out = append(out, e-phase0.Epoch(d))
		}
	}
	out = append(out, e)
	for d := 1; d <= width; d++ {
		out = append(out, e+phase0.Epoch(d))
	}
	return append(out, c13FFE)
}

func c13ChooseRec(e phase0.Epoch, act phase0.Epoch, width int) c13Rec {
	rel := c13RelEpochs(e, width)
	r := c13Rec{act: act}
	r.exit = rel[mc.Choose(len(rel))]
	r.wd = rel[mc.Choose(len(rel))]
	r.slashed = mc.Choose(2) == 1
	if r.wd <= e && r.exit <= e {
		r.emptied = mc.Choose(2) == 1
	}
	return r
}

func c13Boundary(r c13Rec, e phase0.Epoch) bool { return r.act == e || r.exit == e || r.wd == e }

func c13StateUnits(tier string) []hx.Unit {
	var units []hx.Unit
	width := 1
	if tier == "thorough" {
		width = 2
	}
	for _, mgrName := range []string{"dirk", "wallet"} {
		for e := phase0.Epoch(0); e <= 3; e++ {
			for ai, act := range c13RelEpochs(e, width) {
				mgrName, e, act := mgrName, e, act
				st := &c13State{}
				u := hx.Unit{Name: fmt.Sprintf("C13/state/%s/epoch=%d/activation=%d", mgrName, e, ai), Cfg: mc.Config{Fixed: true}, Bound: 0}
				u.Body = func() {
					*st = c13State{}
					ctx := context.Background()
					// S, T: two validators with every record (S: thorough also two epochs before / after);
					// A: active bystander; N: an account the beacon node knows no validator for.
					relT := c13RelEpochs(e, 1)
					subs := []c13Sub{
						{name: "S", idx: 7, hasRec: true, rec: c13ChooseRec(e, act, width)},
						{name: "T", idx: 3, hasRec: true, rec: c13ChooseRec(e, relT[mc.Choose(len(relT))], 1)},
						{name: "A", idx: 11, hasRec: true, rec: c13Rec{act: 0, exit: c13FFE, wd: c13FFE}},
						{name: "N"},
					}
					prov := &c13Provider{table: map[phase0.BLSPubKey]*apiv1.Validator{}}
					w := &c13Wallet{name: "W"}
					for i := range subs {
						subs[i].key = c13Key("W", subs[i].name)
						w.offer = append(w.offer, c13NewAccount("W", subs[i].name))
						if subs[i].hasRec {
							prov.table[subs[i].key] = c13Validator(subs[i].key, subs[i].idx, subs[i].rec)
						}
					}
					st.sample = fmt.Sprintf("%s manager, epoch %d, S=%v T=%v", mgrName, e, subs[0].rec, subs[1].rec)
					st.nontrivial = c13Boundary(subs[0].rec, e) || c13Boundary(subs[1].rec, e)
					tri := []string{"out", "in", "open"}
					st.outcome = fmt.Sprintf("state: S %s validating=%s sync=%s; T %s", c13Class(subs[0].rec, e), tri[c13RefValidating(subs[0].rec, e)], tri[c13RefSync(subs[0].rec, e)], c13Class(subs[1].rec, e))
					vm := c13NewVM(prov)
					ct := c13ChainTime()
					var mgr c13Manager
					if mgrName == "dirk" {
						svc := dirkam.VerifNewService([]string{"W"}, map[string]e2wtypes.Wallet{"W": w}, vm, ct, c13FFE, 2)
						svc.Refresh(ctx)
						mgr = svc
					} else {
						svc := walletam.VerifNewService([]string{"W"}, [][]byte{[]byte("pw")}, vm, ct, c13FFE, 2)
						svc.VerifMirrorRefreshAccounts(ctx, []e2wtypes.Wallet{w})
						must(svc.VerifRefreshValidators(ctx))
						mgr = svc
					}
					for _, s := range subs {
						if a, err := mgr.AccountByPublicKey(ctx, s.key); err != nil || a.Name() != s.name {
							// the plain specifier W did not take the account up: under-admission is not judged by
							// this property; the execution does not count (a run of only these is vacuous, exit 2)
							st.outcome, st.nontrivial = "state: account not taken up; not judged", false
							return
						}
					}
					c13CheckQueries(st, mgrName, mgr, e, subs, true, nil)
				}
				u.Check = func(r *mc.Result) mc.Verdict { return c13Verdict(st, r) }
				units = append(units, u)
			}
		}
	}
	return units
}

// ---------------------------------------------------------------------------------------------
// group 3a: refresh outcomes of the validators manager

func c13SameRecord(a *phase0.Validator, b *phase0.Validator) bool {
	return a != nil && b != nil && a.PublicKey == b.PublicKey && a.ActivationEpoch == b.ActivationEpoch && a.ExitEpoch == b.ExitEpoch &&
		a.WithdrawableEpoch == b.WithdrawableEpoch && a.Slashed == b.Slashed
}

func c13VMUnits(tier string) []hx.Unit {
	depth := 4
	if tier == "thorough" {
		depth = 6
	}
	ops := []string{"setA", "setB", "empty-map", "nil-map", "error"}
	var units []hx.Unit
	for first := range ops {
		first := first
		st := &c13State{}
		u := hx.Unit{Name: fmt.Sprintf("C13/refresh/vm/first=%s/depth-%d", ops[first], depth), Cfg: mc.Config{Fixed: true}, Bound: 0}
		u.Body = func() {
			*st = c13State{}
			ctx := context.Background()
			pk := []phase0.BLSPubKey{c13Key("W", "v1"), c13Key("W", "v2"), c13Key("W", "v3")}
			idx := []phase0.ValidatorIndex{3, 7, 11}
			const idxB1 = phase0.ValidatorIndex(8)
			setA := map[phase0.BLSPubKey]*apiv1.Validator{
				pk[0]: c13Validator(pk[0], idx[0], c13Rec{act: 0, exit: c13FFE, wd: c13FFE}),
				pk[1]: c13Validator(pk[1], idx[1], c13Rec{act: 1, exit: c13FFE, wd: c13FFE}),
			}
			setB := map[phase0.BLSPubKey]*apiv1.Validator{
				// in set B the second key is reported under another index (its deposit was re-ordered by a reorg)
				pk[1]: c13Validator(pk[1], idxB1, c13Rec{act: 1, exit: 3, wd: 5}),
				pk[2]: c13Validator(pk[2], idx[2], c13Rec{act: 2, exit: c13FFE, wd: c13FFE}),
			}
			prov := &c13Provider{}
			vm := c13NewVM(prov)
			var log []string
			last := map[phase0.BLSPubKey]*apiv1.Validator{} // last non-empty answer
			ever := map[phase0.BLSPubKey]bool{}
			gaveNothing := false
			for step := 0; step < depth; step++ {
				op := first
				if step > 0 {
					if op = mc.Choose(len(ops)+1) - 1; op < 0 {
						break
					}
				}
				log = append(log, ops[op])
				prov.mode = c13Answer
				switch op {
				case 0:
					prov.table = setA
				case 1:
					prov.table = setB
				case 2:
					prov.mode = c13EmptyMap
				case 3:
					prov.mode = c13NilMap
				case 4:
					prov.mode = c13Error
				}
				_ = vm.RefreshValidatorsFromBeaconNode(ctx, pk)
				if op <= 1 {
					last = prov.table
					for k := range last {
						ever[k] = true
					}
				} else {
					gaveNothing = true
				}
				cause := "new-set-not-applied"
				if op > 1 {
					cause = "wiped-on-" + map[int]string{2: "empty", 3: "empty", 4: "error"}[op]
				}
				where := fmt.Sprintf("after validators-manager refreshes %v", log)
				check := func(what string, res map[phase0.ValidatorIndex]*phase0.Validator) {
					for i := range pk {
						want, must := last[pk[i]]
						wi := idx[i]
						if must {
							wi = want.Index // the index under which the key was last delivered
						}
						got, in := res[wi]
						switch {
						case must && !in:
							st.bad("C13/refresh/vm-"+cause, "%s does not return validator %d %s", what, idx[i], where)
						case must && !c13SameRecord(got, want.Validator):
							st.bad("C13/refresh/vm-stale-or-wrong-record", "%s returns for index %d a record that is not the one last delivered for it %s", what, idx[i], where)
						case !ever[pk[i]] && in:
							st.bad("C13/refresh/vm-unknown-validator", "%s returns validator %d, which the beacon node never delivered, %s", what, idx[i], where)
						case in && got != nil && got.PublicKey != pk[i]:
							st.bad("C13/refresh/vm-wrong-index", "%s returns under index %d the validator with another public key %s", what, idx[i], where)
						}
					}
					for i := range res {
						if i != idx[0] && i != idx[1] && i != idx[2] && i != idxB1 {
							st.bad("C13/refresh/vm-wrong-index", "%s returns index %d, which no delivered validator has, %s", what, i, where)
						}
					}
				}
				check("ValidatorsByPubKey", vm.ValidatorsByPubKey(ctx, pk))
				// the same key may be asked for twice (an account offered by two wallets): every key is still looked up
				check("ValidatorsByPubKey with the first key repeated", vm.ValidatorsByPubKey(ctx, append([]phase0.BLSPubKey{pk[0], pk[0]}, pk...)))
				check("ValidatorsByIndex", vm.ValidatorsByIndex(ctx, append(append([]phase0.ValidatorIndex{}, idx...), idxB1)))
				// a key is reported under one index only: the one of the last delivery
				if v, both := last[pk[1]]; both {
					other := idx[1]
					if v.Index == idx[1] {
						other = idxB1
					}
					if got, in := vm.ValidatorsByPubKey(ctx, pk)[other]; in && got != nil && got.PublicKey == pk[1] {
						st.bad("C13/refresh/vm-stale-index", "ValidatorsByPubKey reports the second key under index %d; the beacon node last delivered it under index %d, %s", other, v.Index, where)
					}
				}
				for i := range pk {
					if want, must := last[pk[i]]; must {
						r := c13Rec{want.Validator.ActivationEpoch, want.Validator.ExitEpoch, want.Validator.WithdrawableEpoch, want.Validator.Slashed, want.Validator.EffectiveBalance == 0}
						for e := phase0.Epoch(0); e <= 3; e++ {
							state, err := vm.ValidatorStateAtEpoch(ctx, want.Index, e)
							if err != nil {
								st.bad("C13/refresh/vm-"+cause, "ValidatorStateAtEpoch(%d, %d) fails (%v) %s", idx[i], e, err, where)
								break
							}
							active := state == apiv1.ValidatorStateActiveOngoing || state == apiv1.ValidatorStateActiveExiting
							if t := c13RefValidating(r, e); (t == c13In && !active) || (t == c13Out && active) {
								st.bad("C13/refresh/vm-state-at-epoch", "ValidatorStateAtEpoch(%d, %d) = %v for record %v %s", idx[i], e, state, r, where)
							}
						}
					}
				}
			}
			st.sample = "validators manager refreshes " + strings.Join(log, ",")
			st.nontrivial = gaveNothing
			st.outcome = fmt.Sprintf("vm-refresh: known=%d nothing-returned=%v", len(last), gaveNothing)
		}
		u.Check = func(r *mc.Result) mc.Verdict { return c13Verdict(st, r) }
		units = append(units, u)
	}
	return units
}

// ---------------------------------------------------------------------------------------------
// group 3b: refresh outcomes of the dirk manager (accounts from the signer x validators from the node)

func c13DirkRefreshUnits(tier string) []hx.Unit {
	depth := 3
	if tier == "thorough" {
		depth = 4
	}
	accOps := []string{"A", "B", "empty", "error"} // wallet W: offers {Val1,Val2} / {Val2,Val3} / nothing / cannot be opened
	valOps := []string{"answer", "empty", "error"} // beacon node
	xOps := []string{"ok", "empty"}                // wallet X (second configuration only): offers {Val9} / nothing
	recs := map[string]struct {
		idx phase0.ValidatorIndex
		rec c13Rec
	}{
		"W/Val1": {3, c13Rec{act: 0, exit: c13FFE, wd: c13FFE}},
		"W/Val2": {7, c13Rec{act: 0, exit: 3, wd: 5}},
		"W/Val3": {11, c13Rec{act: 2, exit: c13FFE, wd: c13FFE}},
		"X/Val9": {13, c13Rec{act: 1, exit: 2, wd: 3, slashed: true}},
	}
	allNames := []string{"W/Val1", "W/Val2", "W/Val3", "X/Val9"}
	var units []hx.Unit
	for cfg := 0; cfg < 2; cfg++ {
		for fa := range accOps {
			for fv := range valOps {
				cfg, fa, fv := cfg, fa, fv
				st := &c13State{}
				u := hx.Unit{Name: fmt.Sprintf("C13/refresh/dirk/cfg=%d/first=%s+%s/depth-%d", cfg, accOps[fa], valOps[fv], depth), Cfg: mc.Config{Fixed: true}, Bound: 0}
				u.Body = func() {
					*st = c13State{}
					ctx := context.Background()
					specs := []string{"W"}
					if cfg == 1 {
						specs = []string{"W/Val.*", "X"}
					}
					prov := &c13Provider{table: map[phase0.BLSPubKey]*apiv1.Validator{}}
					keyOf := map[string]phase0.BLSPubKey{}
					var allKeys []phase0.BLSPubKey
					for _, n := range allNames {
						w, a, _ := strings.Cut(n, "/")
						keyOf[n] = c13Key(w, a)
						allKeys = append(allKeys, keyOf[n])
						prov.table[keyOf[n]] = c13Validator(keyOf[n], recs[n].idx, recs[n].rec)
					}
					vm := c13NewVM(prov)
					wW, wX := &c13Wallet{name: "W"}, &c13Wallet{name: "X"}
					open := map[string]e2wtypes.Wallet{"W": wW}
					if cfg == 1 {
						open["X"] = wX
					}
					svc := dirkam.VerifNewService(specs, open, vm, c13ChainTime(), c13FFE, 2)
					observe := func() map[string]bool {
						out := map[string]bool{}
						for _, n := range allNames {
							if a, err := svc.AccountByPublicKey(ctx, keyOf[n]); err == nil && a != nil {
								out[n] = true
							}
						}
						return out
					}
					var log []string
					everOffered := map[string]bool{}
					vmLast := map[phase0.BLSPubKey]bool{}
					vmEver := map[phase0.BLSPubKey]bool{}
					nothing := false
					lostAt := map[phase0.BLSPubKey]string{}
					for step := 0; step < depth; step++ {
						a, v, x := fa, fv, 0
						if step > 0 {
							c := mc.Choose(len(accOps)*len(valOps)+1) - 1
							if c < 0 {
								break
							}
							a, v = c/len(valOps), c%len(valOps)
						}
						if cfg == 1 {
							x = mc.Choose(len(xOps))
						}
						// script the environment for this refresh
						var offered []string
						svc.VerifSetWallet("W", wW)
						switch accOps[a] {
						case "A":
							wW.offer = []e2wtypes.Account{c13NewAccount("W", "Val1"), c13NewAccount("W", "Val2")}
							offered = append(offered, "W/Val1", "W/Val2")
						case "B":
							wW.offer = []e2wtypes.Account{c13NewAccount("W", "Val2"), c13NewAccount("W", "Val3")}
							offered = append(offered, "W/Val2", "W/Val3")
						case "empty":
							wW.offer = nil
						case "error":
							wW.offer = nil
							svc.VerifSetWallet("W", nil)
						}
						wX.offer = nil
						if cfg == 1 && xOps[x] == "ok" {
							wX.offer = []e2wtypes.Account{c13NewAccount("X", "Val9")}
							offered = append(offered, "X/Val9")
						}
						for _, n := range offered {
							everOffered[n] = true
						}
						prov.mode = []int{c13Answer, c13EmptyMap, c13Error}[v]
						desc := accOps[a] + "+" + valOps[v]
						if cfg == 1 {
							desc += "+X:" + xOps[x]
						}
						log = append(log, desc)
						where := fmt.Sprintf("after dirk manager refreshes %v (W-accounts+validators) with specifiers %q", log, specs)
						before := observe()
						nDelivered := len(prov.delivered)
						svc.Refresh(ctx)
						after := observe()
						if accOps[a] == "empty" || accOps[a] == "error" || v != 0 {
							nothing = true
						}
						// (a) nothing is known that was never offered or is not configured
						for _, n := range allNames {
							w, acc, _ := strings.Cut(n, "/")
							if after[n] && (!everOffered[n] || !c13RefAdmits(specs, w, acc)) {
								st.bad("C13/refresh/dirk-unknown-account", "account %s is known to the dirk manager although it was never offered or matches no specifier, %s", n, where)
							}
						}
						// (b) a refresh in which the signer returned no account at all keeps what was known
						if len(offered) == 0 {
							why := "empty"
							if accOps[a] == "error" {
								why = "error"
							}
							for _, n := range allNames {
								if before[n] && !after[n] {
									st.bad("C13/refresh/dirk-accounts-wiped-on-"+why, "account %s was known and is no longer known %s: the last refresh returned no accounts", n, where)
								}
							}
						}
						// (b') ... and so does a refresh in which one of two wallets came back with nothing (its listing failed,
						// which is what an empty listing from the remote signer means) while the other answered
						if cfg == 1 && len(offered) > 0 {
							if xOps[x] == "empty" && before["X/Val9"] && !after["X/Val9"] {
								st.bad("C13/refresh/dirk-wallet-accounts-wiped-on-empty", "account X/Val9 was known and is no longer known %s: in the last refresh wallet X returned no accounts", where)
							}
							if accOps[a] == "empty" || accOps[a] == "error" {
								for _, n := range []string{"W/Val1", "W/Val2", "W/Val3"} {
									if before[n] && !after[n] {
										st.bad("C13/refresh/dirk-wallet-accounts-wiped-on-"+accOps[a], "account %s was known and is no longer known %s: in the last refresh wallet W returned no accounts", n, where)
									}
								}
							}
						}
						// the validators the manager must know: the last non-empty answer of the node
						for _, d := range prov.delivered[nDelivered:] {
							if len(d) == 0 {
								continue
							}
							vmLast = map[phase0.BLSPubKey]bool{}
							for _, val := range d {
								vmLast[val.Validator.PublicKey] = true
								vmEver[val.Validator.PublicKey] = true
							}
						}
						// (c) the validating / sync sets are exactly the known accounts with an active validator
						var subs []c13Sub
						for _, n := range allNames {
							if !after[n] {
								continue
							}
							k := keyOf[n]
							s := c13Sub{name: strings.SplitN(n, "/", 2)[1], key: k, idx: recs[n].idx, rec: recs[n].rec}
							switch {
							case vmLast[k]:
								s.hasRec = true
							case vmEver[k]:
								s.hasRec, s.open = true, true
							}
							subs = append(subs, s)
						}
						// at which refresh did the validators manager lose a validator it must know?  (it is asked
						// directly, so that the cause in the finding key is the refresh that lost it, not the one
						// after which an account manager query shows it)
						stillThere := map[phase0.BLSPubKey]bool{}
						for _, val := range vm.ValidatorsByPubKey(ctx, allKeys) {
							stillThere[val.PublicKey] = true
						}
						for _, k := range allKeys {
							switch {
							case !vmLast[k] || stillThere[k]:
								delete(lostAt, k)
							case lostAt[k] == "":
								lostAt[k] = valOps[v]
							}
						}
						missKey := func(s c13Sub) string {
							if c := lostAt[s.key]; c == "empty" || c == "error" {
								return "C13/refresh/dirk-validators-wiped-on-" + c
							}
							return ""
						}
						for _, e := range []phase0.Epoch{1, 2, 3} {
							got, err := svc.ValidatingAccountsForEpoch(ctx, e)
							for _, i := range keysSorted(got) {
								acc := got[i]
								if ca, _ := acc.(*c13Account); ca == nil || !after[ca.wallet+"/"+ca.name] {
									st.bad("C13/refresh/dirk-unknown-account-validating", "ValidatingAccountsForEpoch(%d) reports under index %d an account that is not known %s", e, i, where)
								}
							}
							pre := len(st.fails)
							c13Compare(st, "C13/refresh/dirk-validating-", "ValidatingAccountsForEpoch", e, got, err, subs, c13RefValidating, nil, missKey)
							got, err = svc.SyncCommitteeAccountsForEpoch(ctx, e)
							c13Compare(st, "C13/refresh/dirk-sync-", "SyncCommitteeAccountsForEpoch", e, got, err, subs, c13RefSync, nil, missKey)
							// the same through the by-index queries, asked for every index the beacon node ever used
							var allIdx []phase0.ValidatorIndex
							for _, n := range allNames {
								allIdx = append(allIdx, recs[n].idx)
							}
							for qi, q := range []func(context.Context, phase0.Epoch, []phase0.ValidatorIndex) (map[phase0.ValidatorIndex]e2wtypes.Account, error){svc.ValidatingAccountsForEpochByIndex, svc.SyncCommitteeAccountsForEpochByIndex} {
								name := []string{"ValidatingAccountsForEpochByIndex", "SyncCommitteeAccountsForEpochByIndex"}[qi]
								gotI, errI := q(ctx, e, allIdx)
								for _, i := range keysSorted(gotI) {
									acc := gotI[i]
									if ca, _ := acc.(*c13Account); ca == nil || !after[ca.wallet+"/"+ca.name] {
										st.bad("C13/refresh/dirk-unknown-account-by-index", "%s(%d, all indices) reports under index %d an account that is not known (or no account at all) %s", name, e, i, where)
									}
								}
								if qi == 0 {
									c13Compare(st, "C13/refresh/dirk-validating-by-index-", name, e, gotI, errI, subs, c13RefValidating, nil, missKey)
								} else {
									c13Compare(st, "C13/refresh/dirk-sync-by-index-", name, e, gotI, errI, subs, c13RefSync, nil, missKey)
								}
							}
							for i := pre; i < len(st.fails); i++ {
								st.fails[i].msg += " " + where
							}
						}
					}
					st.sample = fmt.Sprintf("dirk manager, specifiers %q, refreshes %v", specs, log)
					st.nontrivial = nothing
					st.outcome = fmt.Sprintf("dirk-refresh: known=%d nothing-returned=%v", len(observe()), nothing)
				}
				u.Check = func(r *mc.Result) mc.Verdict { return c13Verdict(st, r) }
				units = append(units, u)
			}
		}
	}
	return units
}

// group 3c: refresh histories of the wallet manager.  Its refreshAccounts reads wallets from filesystem stores; from
// the point where the wallets are open it is driven through the in-package hook, the validator refresh and all
// queries are the manager's own.  Per step the wallet offers {Val1,Val2} or {Val2,Val3} and the beacon node
// answers, answers with nothing or fails: whatever is reported, directly or by index, is an account the manager
// holds at that moment, and the by-index queries (asked for every index) agree with the direct ones.
func c13WalletRefreshUnits(tier string) []hx.Unit {
	depth := 3
	if tier == "thorough" {
		depth = 4
	}
	// the wallet offers {Val1,Val2}, {Val2,Val3}, or {Val1 and Val2's key re-filed under the name old2, which the
	// specifier W/Val.* does not cover}
	accOps := []string{"A", "B", "C"}
	// beacon node: answers with Val2 active for ever / with Val2 exited from epoch 3 (a voluntary exit seen since the
	// last refresh) / answers nothing / fails
	valOps := []string{"answer", "answer-exited", "empty", "error"}
	recs := map[string]struct {
		idx phase0.ValidatorIndex
		rec c13Rec
	}{
		"W/Val1": {3, c13Rec{act: 0, exit: c13FFE, wd: c13FFE}},
		"W/Val2": {7, c13Rec{act: 0, exit: c13FFE, wd: c13FFE}},
		"W/Val3": {11, c13Rec{act: 0, exit: c13FFE, wd: c13FFE}},
	}
	allNames := []string{"W/Val1", "W/Val2", "W/Val3"}
	var units []hx.Unit
	for fa := range accOps {
		for fv := range valOps {
			fa, fv := fa, fv
			st := &c13State{}
			u := hx.Unit{Name: fmt.Sprintf("C13/refresh/wallet/first=%s+%s/depth-%d", accOps[fa], valOps[fv], depth), Cfg: mc.Config{Fixed: true}, Bound: 0}
			u.Body = func() {
				*st = c13State{}
				ctx := context.Background()
				prov := &c13Provider{table: map[phase0.BLSPubKey]*apiv1.Validator{}}
				var allIdx []phase0.ValidatorIndex
				for _, n := range allNames {
					k := c13Key("W", strings.TrimPrefix(n, "W/"))
					prov.table[k] = c13Validator(k, recs[n].idx, recs[n].rec)
					allIdx = append(allIdx, recs[n].idx)
				}
				vm := c13NewVM(prov)
				wW := &c13Wallet{name: "W"}
				svc := walletam.VerifNewService([]string{"W/Val.*"}, [][]byte{[]byte("pw")}, vm, c13ChainTime(), c13FFE, 2)
				var log []string
				failed := false
				val2Exited, val2Known := false, false // Val2's record as the beacon node last delivered it
				for step := 0; step < depth; step++ {
					a, v := fa, fv
					if step > 0 {
						c := mc.Choose(len(accOps)*len(valOps)+1) - 1
						if c < 0 {
							break
						}
						a, v = c/len(valOps), c%len(valOps)
					}
					switch accOps[a] {
					case "A":
						wW.offer = []e2wtypes.Account{c13NewAccount("W", "Val1"), c13NewAccount("W", "Val2")}
					case "B":
						wW.offer = []e2wtypes.Account{c13NewAccount("W", "Val2"), c13NewAccount("W", "Val3")}
					default:
						wW.offer = []e2wtypes.Account{c13NewAccount("W", "Val1"), &c13Account{wallet: "W", name: "old2", key: c13Key("W", "Val2")}}
					}
					offeredMatching := map[phase0.BLSPubKey]bool{}
					for _, acc := range wW.offer {
						if ca := acc.(*c13Account); strings.HasPrefix(ca.name, "Val") {
							offeredMatching[ca.key] = true
						}
					}
					prov.mode = []int{c13Answer, c13Answer, c13EmptyMap, c13Error}[v]
					k2 := c13Key("W", "Val2")
					if valOps[v] == "answer-exited" {
						prov.table[k2] = c13Validator(k2, recs["W/Val2"].idx, c13Rec{act: 0, exit: 3, wd: 9})
					} else {
						prov.table[k2] = c13Validator(k2, recs["W/Val2"].idx, c13Rec{act: 0, exit: c13FFE, wd: c13FFE})
					}
					if !offeredMatching[k2] {
						// Val2 is not an account in this refresh: the beacon node is not asked about it, and what it said
						// earlier may rightly be forgotten
						val2Known = false
					} else if v <= 1 {
						val2Exited, val2Known = valOps[v] == "answer-exited", true
					}
					failed = failed || v > 1
					log = append(log, accOps[a]+"+"+valOps[v])
					where := fmt.Sprintf("after wallet manager refreshes %v (accounts offered + beacon node)", log)
					svc.VerifMirrorRefreshAccounts(ctx, []e2wtypes.Wallet{wW})
					_ = svc.VerifRefreshValidators(ctx)
					held := svc.VerifAccounts()
					for _, k := range keysSortedPub(held) {
						if !offeredMatching[k] {
							st.bad("C13/refresh/wallet-account-not-offered-under-matching-name", "the wallet manager holds an account for a key that the wallet did not offer under a name matching W/Val.* in this refresh, %s", where)
						}
					}
					isHeld := func(acc e2wtypes.Account) bool {
						if acc == nil {
							return false
						}
						var k phase0.BLSPubKey
						copy(k[:], acc.PublicKey().Marshal())
						_, ok := held[k]
						return ok
					}
					// while Val2 is offered by the wallet: at epoch 4 it validates exactly if the record the beacon node last
					// delivered for it (since it was last absent) has no exit before then
					if val2Known {
						d4, err4 := svc.ValidatingAccountsForEpoch(ctx, 4)
						_, in := d4[recs["W/Val2"].idx]
						if err4 == nil && in == val2Exited {
							st.bad("C13/refresh/wallet-stale-validator-record", "ValidatingAccountsForEpoch(4) reports Val2=%v; the record the beacon node last delivered says exited-from-epoch-3=%v, %s", in, val2Exited, where)
						}
					}
					type q struct {
						name   string
						direct func(context.Context, phase0.Epoch) (map[phase0.ValidatorIndex]e2wtypes.Account, error)
						byIdx  func(context.Context, phase0.Epoch, []phase0.ValidatorIndex) (map[phase0.ValidatorIndex]e2wtypes.Account, error)
					}
					for _, e := range []phase0.Epoch{1, 4} {
						for _, qq := range []q{{"ValidatingAccountsForEpoch", svc.ValidatingAccountsForEpoch, svc.ValidatingAccountsForEpochByIndex},
							{"SyncCommitteeAccountsForEpoch", svc.SyncCommitteeAccountsForEpoch, svc.SyncCommitteeAccountsForEpochByIndex}} {
							d, errD := qq.direct(ctx, e)
							bi, errI := qq.byIdx(ctx, e, allIdx)
							if errD != nil || errI != nil {
								continue
							}
							for _, i := range keysSorted(d) {
								if acc := d[i]; !isHeld(acc) {
									st.bad("C13/refresh/wallet-unknown-account", "%s(%d) reports under index %d an account the manager does not hold (or no account) %s", qq.name, e, i, where)
								}
							}
							for _, i := range keysSorted(bi) {
								if acc := bi[i]; !isHeld(acc) {
									st.bad("C13/refresh/wallet-unknown-account-by-index", "%sByIndex(%d, all indices) reports under index %d an account the manager does not hold (or no account) %s", qq.name, e, i, where)
								}
							}
							for _, i := range keysSorted(d) {
								if _, ok := bi[i]; !ok {
									st.bad("C13/refresh/wallet-by-index-differs", "%sByIndex(%d, all indices) lacks index %d, which %s(%d) reports, %s", qq.name, e, i, qq.name, e, where)
								}
							}
							for _, i := range keysSorted(bi) {
								if _, ok := d[i]; !ok {
									st.bad("C13/refresh/wallet-by-index-differs", "%sByIndex(%d, all indices) reports index %d, which %s(%d) does not, %s", qq.name, e, i, qq.name, e, where)
								}
							}
						}
					}
				}
				st.sample = fmt.Sprintf("wallet manager refreshes %v", log)
				st.nontrivial = failed || len(log) > 1
				st.outcome = fmt.Sprintf("wallet-refresh: held=%d node-failed=%v", len(svc.VerifAccounts()), failed)
			}
			u.Check = func(r *mc.Result) mc.Verdict { return c13Verdict(st, r) }
			units = append(units, u)
		}
	}
	return units
}

// group 3d: a large collection: one wallet offering 501 / 1200 accounts (thorough also 499, 500, 2001), all with an
// active validator: the dirk manager's Refresh makes every one of them a validating account (directly and by
// index), and the same through the wallet manager.
func keysSortedPub[V any](m map[phase0.BLSPubKey]V) []phase0.BLSPubKey {
	out := make([]phase0.BLSPubKey, 0, len(m))
	for k := range m {
		out = append(out, k)
	}
	sort.Slice(out, func(i, j int) bool { return bytes.Compare(out[i][:], out[j][:]) < 0 })
	return out
}

func c13ManyAccountsUnits(tier string) []hx.Unit {
	sizes := []int{501, 1200}
	if tier == "thorough" {
		sizes = []int{499, 500, 501, 1200, 2001}
	}
	var units []hx.Unit
	for _, mgr := range []string{"dirk", "wallet"} {
		mgr := mgr
		st := &c13State{}
		u := hx.Unit{Name: "C13/refresh/" + mgr + "/many-accounts", Cfg: mc.Config{Fixed: true}, Bound: 0}
		u.Body = func() {
			*st = c13State{}
			ctx := context.Background()
			n := sizes[mc.Choose(len(sizes))]
			prov := &c13Provider{table: map[phase0.BLSPubKey]*apiv1.Validator{}, mode: c13Answer}
			wW := &c13Wallet{name: "W"}
			var allIdx []phase0.ValidatorIndex
			for i := 0; i < n; i++ {
				name := fmt.Sprintf("Val%d", i)
				k := c13Key("W", name)
				prov.table[k] = c13Validator(k, phase0.ValidatorIndex(1000+i), c13Rec{act: 0, exit: c13FFE, wd: c13FFE})
				wW.offer = append(wW.offer, c13NewAccount("W", name))
				allIdx = append(allIdx, phase0.ValidatorIndex(1000+i))
			}
			vm := c13NewVM(prov)
			var direct, byIdx map[phase0.ValidatorIndex]e2wtypes.Account
			var err1, err2 error
			if mgr == "dirk" {
				svc := dirkam.VerifNewService([]string{"W"}, map[string]e2wtypes.Wallet{"W": wW}, vm, c13ChainTime(), c13FFE, 2)
				svc.VerifSetWallet("W", wW)
				svc.Refresh(ctx)
				direct, err1 = svc.ValidatingAccountsForEpoch(ctx, 1)
				byIdx, err2 = svc.ValidatingAccountsForEpochByIndex(ctx, 1, allIdx)
			} else {
				svc := walletam.VerifNewService([]string{"W"}, [][]byte{[]byte("pw")}, vm, c13ChainTime(), c13FFE, 2)
				svc.VerifMirrorRefreshAccounts(ctx, []e2wtypes.Wallet{wW})
				_ = svc.VerifRefreshValidators(ctx)
				direct, err1 = svc.ValidatingAccountsForEpoch(ctx, 1)
				byIdx, err2 = svc.ValidatingAccountsForEpochByIndex(ctx, 1, allIdx)
			}
			if err1 != nil || err2 != nil || len(direct) != n || len(byIdx) != n {
				st.bad("C13/refresh/"+mgr+"-many-accounts", "the %s manager was offered %d accounts, each with an active validator: ValidatingAccountsForEpoch(1) reports %d (err %v), ...ByIndex(1, all indices) %d (err %v)", mgr, n, len(direct), err1, len(byIdx), err2)
			}
			st.sample = fmt.Sprintf("%s manager with %d accounts", mgr, n)
			st.nontrivial = true
			st.outcome = fmt.Sprintf("%s-many: %d", mgr, n)
		}
		u.Check = func(r *mc.Result) mc.Verdict { return c13Verdict(st, r) }
		units = append(units, u)
	}
	return units
}

func c13Units(tier string) []hx.Unit {
	var units []hx.Unit
	units = append(units, c13SpecUnits(tier)...)
	units = append(units, c13StateUnits(tier)...)
	units = append(units, c13VMUnits(tier)...)
	units = append(units, c13DirkRefreshUnits(tier)...)
	units = append(units, c13WalletRefreshUnits(tier)...)
	units = append(units, c13ManyAccountsUnits(tier)...)
	return units
}

var _ validatorsmanager.Service = (*standardvm.Service)(nil)

func init() {
	hx.Register(&hx.Prop{
		ID:    "C13",
		Title: "Only configured accounts validate, and only while their validator is active",
		Rule: "(spec) every specifier list of length <= 2 (thorough <= 3) over {W, W/, W/Val1, W/Val.*, W/Val.*[02], ^W/Val1$, W/^Val1, W/Val1$, W/a|b, X/.*} x wallets {W, Wx, xW, X} each offering accounts {Val1, Val12, Val2, xVal1, a, xb}, through fetchAccountsForWallet of both managers and through the dirk manager's refreshAccounts with all four wallets open; admitted => reference full match ^(?:wallet)/(?:account)$ of some specifier (explicit anchors read literally or as redundant; under-admission is not judged). " +
			"(state) two validators, each with every record activation/exit/withdrawable in {past, =epoch, future, far-future} (thorough: one of them also +-2 epochs) x slashed x (once exited and withdrawable) balance {kept, gone}, x query epoch 0..3, plus an active bystander and an account without validator, on both managers over the real validators manager: Validating/SyncCommittee AccountsForEpoch and ...ByIndex (five index sets) against the statement's state-at-epoch rule, keyed by the validator's own index; sync eligibility lasts from the withdrawable epoch on until the balance is gone (withdrawal done); a slashed validator without exit epoch, exit or slashing before activation, and a withdrawable epoch before the exit epoch are left open. " +
			"(refresh) every sequence of refresh outcomes: validators manager {set A, set B, empty map, nil map, error} up to 4 (thorough 6) refreshes; dirk manager Refresh with signer outcome {accounts A, accounts B, none, wallet cannot be opened} x beacon node {answer, empty, error} (x second wallet {accounts, none} in the two-wallet configuration) up to 3 (thorough 4) refreshes; after a refresh in which the signer / the node returned nothing every account and validator known before is still known and reported, after a non-empty one the delivered records are in force; the validating and sync sets are queried directly and by index (all indices the node ever used). " +
			"non-trivial = a specifier with regex metacharacters or anchors was evaluated / a record lies on an epoch boundary / some refresh returned nothing or failed; distinct = distinct (admitted, reference, over-admitted) counts, lifecycle classes of the two validators, refresh result classes",
		Assumptions: []string{
			"wallets and Dirk are replaced by stand-ins that offer scripted accounts over the same channel interface; account names are non-empty (all wallet implementations reject empty names)",
			"single caller; concurrent access to the account maps is C17",
			"the state at an epoch is computed by go-eth2-client's ValidatorToState (outside the instrumented tree); vouch's filters over those states are what is checked",
			"the wallet manager's refreshAccounts reads wallets from filesystem stores; the part after the wallets are opened is driven through an in-package hook",
		},
		Units:         c13Units,
		MinNontrivial: 20000,
	})
}
