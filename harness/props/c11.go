package props

import (
	"context"
	"encoding/binary"
	"encoding/json"
	"errors"
	"fmt"
	"sort"
	"strings"
	"time"

	"verifharness/hx"

	relaytypes "github.com/attestantio/go-block-relay/types"
	builderapi "github.com/attestantio/go-builder-client/api"
	eth2client "github.com/attestantio/go-eth2-client"
	consensusapi "github.com/attestantio/go-eth2-client/api"
	apiv1 "github.com/attestantio/go-eth2-client/api/v1"
	"github.com/attestantio/go-eth2-client/spec/bellatrix"
	"github.com/attestantio/go-eth2-client/spec/phase0"
	"github.com/attestantio/vouch/services/blockrelay"
	standardblockrelay "github.com/attestantio/vouch/services/blockrelay/standard"
	nullmetrics "github.com/attestantio/vouch/services/metrics/null"
	standardpreparer "github.com/attestantio/vouch/services/proposalpreparer/standard"
	"github.com/attestantio/vouch/util"
	"github.com/attestantio/vouch/verifmc/mc"
	"github.com/attestantio/vouch/verifmc/mcontext"
	"github.com/attestantio/vouch/verifmc/mtime"
	"github.com/rs/zerolog"
	e2wtypes "github.com/wealdtech/go-eth2-wallet-types/v2"
	httpconfidant "github.com/wealdtech/go-majordomo/confidants/http"
)

// C11: relays and beacon nodes are told exactly what the configuration says.
//
// The real blockrelay service (registration rounds, REST registrations) and the real proposal preparer
// over three validators, two relays, two beacon nodes.  A history is <=3 rounds; each round picks the
// configuration document in force (a refresh precedes the round) and a failing party.

const (
	c11R1 = "https://relay1.example.com/"
	c11R2 = "https://relay2.example.com/"
)

// expectation for one validator under one document: fee recipient for preparations, and per relay
// (fee recipient, gas limit); nil = unresolvable
type c11Exp struct {
	fee    string
	relays map[string][2]string // address -> {fee recipient, gas limit}
}

type c11DocT struct {
	name string
	json func(p [4]phase0.BLSPubKey) string
	exp  func(v int) *c11Exp // v in 1..3
}

const (
	feeC    = "0xcccccccccccccccccccccccccccccccccccccccc"
	gasDef  = "30000000"
	gasHigh = "40000000"
)

func c11Docs() []c11DocT {
	both := func(fee, g1, g2 string) map[string][2]string {
		return map[string][2]string{c11R1: {fee, g1}, c11R2: {fee, g2}}
	}
	return []c11DocT{
		{name: "D1", json: func(_ [4]phase0.BLSPubKey) string {
			return `{"version":2,"fee_recipient":"` + feeA + `","relays":{"` + c11R1 + `":{},"` + c11R2 + `":{}}}`
		}, exp: func(int) *c11Exp { return &c11Exp{fee: feeA, relays: both(feeA, gasDef, gasDef)} }},
		{name: "D2", json: func(_ [4]phase0.BLSPubKey) string {
			return `{"version":2,"fee_recipient":"` + feeA + `","relays":{"` + c11R1 + `":{"gas_limit":"` + gasHigh + `"},"` + c11R2 + `":{}}}`
		}, exp: func(int) *c11Exp { return &c11Exp{fee: feeA, relays: both(feeA, gasHigh, gasDef)} }},
		// D3: the entry for validator 2 names it by its account (wallet/account expression), not by its public key
		{name: "D3", json: func(_ [4]phase0.BLSPubKey) string {
			return `{"version":2,"fee_recipient":"` + feeA + `","relays":{"` + c11R1 + `":{},"` + c11R2 + `":{}},"proposers":[{"proposer":"^W/v2$","fee_recipient":"` + feeC + `","relays":{"` + c11R2 + `":{"disabled":true}}}]}`
		}, exp: func(v int) *c11Exp {
			if v == 2 {
				return &c11Exp{fee: feeC, relays: map[string][2]string{c11R1: {feeC, gasDef}}}
			}
			return &c11Exp{fee: feeA, relays: both(feeA, gasDef, gasDef)}
		}},
		{name: "D4", json: func(_ [4]phase0.BLSPubKey) string {
			return `{"version":2,"fee_recipient":"` + feeB + `","relays":{"` + c11R1 + `":{}}}`
		}, exp: func(int) *c11Exp { return &c11Exp{fee: feeB, relays: map[string][2]string{c11R1: {feeB, gasDef}}} }},
		{name: "DU", json: func(p [4]phase0.BLSPubKey) string {
			// validators 2 and 3 match an entry; for validator 1 the zero-pubkey entry cannot be applied
			return `{"version":2,"fee_recipient":"` + feeA + `","relays":{"` + c11R1 + `":{},"` + c11R2 + `":{}},"proposers":[{"proposer":"` + p[2].String() + `"},{"proposer":"` + p[3].String() + `"},{"proposer":"0x` + strings.Repeat("00", 48) + `"}]}`
		}, exp: func(v int) *c11Exp {
			if v == 1 {
				return nil
			}
			return &c11Exp{fee: feeA, relays: both(feeA, gasDef, gasDef)}
		}},
		// D5: what a dynamic configuration source answers: entries of their own only for the validators it was asked
		// about (here: validator 3, the one that becomes active with the next epoch, if its key was among those sent)
		{name: "D5", json: func(p [4]phase0.BLSPubKey) string {
			own := ""
			for _, k := range c11Posted {
				if k == p[3].String() {
					own = `,"proposers":[{"proposer":"` + p[3].String() + `","fee_recipient":"` + feeC + `"}]`
				}
			}
			return `{"version":2,"fee_recipient":"` + feeA + `","relays":{"` + c11R1 + `":{},"` + c11R2 + `":{}}` + own + `}`
		}, exp: func(v int) *c11Exp {
			if v == 3 {
				return &c11Exp{fee: feeC, relays: both(feeC, gasDef, gasDef)}
			}
			return &c11Exp{fee: feeA, relays: both(feeA, gasDef, gasDef)}
		}},
	}
}

// c11Posted: the public keys vouch sent with its last request to the (dynamic) configuration source.
var c11Posted []string

type c11Reg struct {
	round     int
	pubkey    phase0.BLSPubKey
	fee       string
	gas       uint64
	timestamp time.Time
	sig       phase0.BLSSignature
}

type c11Relay struct {
	addr string
	env  *c11Env
	regs []c11Reg
}

func (r *c11Relay) Name() string              { return "relay" }
func (r *c11Relay) Address() string           { return r.addr }
func (r *c11Relay) Pubkey() *phase0.BLSPubKey { return nil }
func (r *c11Relay) SubmitValidatorRegistrations(ctx context.Context, opts *builderapi.SubmitValidatorRegistrationsOpts) error {
	mc.Yield()
	if r.env.failing == "relay1" && r.addr == c11R1 {
		return errors.New("scripted relay failure")
	}
	if r.addr == c11R2 {
		// the second relay takes a second to answer and, like an HTTP client, gives up when its request
		// context is cancelled
		t := mtime.After(time.Second)
		if sel := mc.Select(false, mc.RecvCase(ctx.Done()), mc.RecvCase(t)); sel.Index == 0 {
			return ctx.Err()
		}
	}
	for _, x := range opts.Registrations {
		if x == nil || x.V1 == nil || x.V1.Message == nil {
			r.env.malformed = true
			continue
		}
		m := x.V1.Message
		r.regs = append(r.regs, c11Reg{round: r.env.round, pubkey: m.Pubkey, fee: strings.ToLower(m.FeeRecipient.String()), gas: m.GasLimit, timestamp: m.Timestamp, sig: x.V1.Signature})
	}
	return nil
}

type c11Node struct {
	name  string
	env   *c11Env
	regs  []c11Reg
	preps []c11Prep
}

type c11Prep struct {
	round int
	index phase0.ValidatorIndex
	fee   string
}

func (n *c11Node) Name() string    { return n.name }
func (n *c11Node) Address() string { return n.name }
func (n *c11Node) IsActive() bool  { return true }
func (n *c11Node) IsSynced() bool  { return true }
func (n *c11Node) SubmitValidatorRegistrations(ctx context.Context, regs []*consensusapi.VersionedSignedValidatorRegistration) error {
	mc.Yield()
	if n.env.failing == "node1" && n.name == "node1" {
		return errors.New("scripted node failure")
	}
	if n.name == "node2" {
		// the second node takes a second over the request and, like an HTTP client, gives up when the request's context
		// is cancelled
		t := mtime.After(time.Second)
		if sel := mc.Select(false, mc.RecvCase(ctx.Done()), mc.RecvCase(t)); sel.Index == 0 {
			return ctx.Err()
		}
	}
	var back []*relaytypes.SignedValidatorRegistration
	for _, x := range regs {
		if x == nil || x.V1 == nil || x.V1.Message == nil {
			n.env.malformed = true
			continue
		}
		m := x.V1.Message
		n.regs = append(n.regs, c11Reg{round: n.env.round, pubkey: m.Pubkey, fee: strings.ToLower(m.FeeRecipient.String()), gas: m.GasLimit, timestamp: m.Timestamp, sig: x.V1.Signature})
		back = append(back, &relaytypes.SignedValidatorRegistration{Message: &relaytypes.ValidatorRegistration{FeeRecipient: m.FeeRecipient, GasLimit: m.GasLimit, Timestamp: m.Timestamp, Pubkey: m.Pubkey}, Signature: x.V1.Signature})
	}
	if n.env.loopback && n.name == "node2" && n.env.svc != nil && len(back) > 0 {
		// this beacon node has vouch configured as its builder: it passes the registrations it is given on to
		// its builder endpoint, i.e. back to vouch, at once
		_, _ = n.env.svc.ValidatorRegistrations(ctx, back)
	}
	return nil
}
func (n *c11Node) SubmitProposalPreparations(_ context.Context, preps []*apiv1.ProposalPreparation) error {
	mc.Yield()
	if n.env.failing == "node1" && n.name == "node1" {
		return errors.New("scripted node failure")
	}
	if n.env.failing == "node1-inactive" && n.name == "node1" {
		return eth2client.ErrNotActive
	}
	for _, p := range preps {
		n.preps = append(n.preps, c11Prep{round: n.env.round, index: p.ValidatorIndex, fee: strings.ToLower(p.FeeRecipient.String())})
	}
	return nil
}

type c11Env struct {
	round     int
	failing   string // "", relay1, node1, signer2
	docs      []string
	fails     []string
	relays    map[string]*c11Relay
	nodes     []*c11Node
	accts     [4]*hAccount
	signed    int
	malformed bool
	doc       string
	fwd       bool
	done      bool
	loopback  bool // beacon node 2 passes the registrations it receives back to vouch (its builder endpoint)
	svc       *standardblockrelay.Service
}

// c11Sig is the signature the signer stand-in produces: it encodes exactly what was signed.
func c11Sig(pub phase0.BLSPubKey, fee string, gas uint64, ts time.Time) phase0.BLSSignature {
	var s phase0.BLSSignature
	s[0] = 0x5a
	s[1] = pub[1]
	copy(s[2:22], []byte(fee)[2:22])
	binary.LittleEndian.PutUint64(s[24:], gas)
	binary.LittleEndian.PutUint64(s[32:], uint64(ts.Unix()))
	return s
}

func (e *c11Env) SignValidatorRegistration(_ context.Context, a e2wtypes.Account, r *builderapi.VersionedValidatorRegistration) (phase0.BLSSignature, error) {
	e.signed++
	if e.failing == "signer2" && a.Name() == "v2" {
		return phase0.BLSSignature{}, errors.New("scripted signer failure")
	}
	if e.failing == "signer-high" && fmt.Sprint(r.V1.GasLimit) == gasHigh {
		// the signer refuses exactly the registrations that carry the raised gas limit (one relay's, under D2)
		return phase0.BLSSignature{}, errors.New("scripted signer failure for one relay's registration")
	}
	m := r.V1
	if a.(*hAccount).pubkey() != m.Pubkey {
		e.malformed = true
	}
	return c11Sig(m.Pubkey, strings.ToLower(m.FeeRecipient.String()), m.GasLimit, m.Timestamp), nil
}

type c11Majordomo struct{ e *c11Env }

func (m *c11Majordomo) Fetch(ctx context.Context, _ string) ([]byte, error) {
	// the source is a dynamic one (an http URL): vouch posts the public keys it wants settings for
	c11Posted = nil
	if body, ok := ctx.Value(&httpconfidant.Body{}).([]byte); ok {
		_ = json.Unmarshal(body, &c11Posted)
	}
	var pk [4]phase0.BLSPubKey
	for i := 1; i <= 3; i++ {
		pk[i] = m.e.accts[i].pubkey()
	}
	for _, d := range c11Docs() {
		if d.name == m.e.doc {
			return []byte(d.json(pk)), nil
		}
	}
	return nil, errors.New("no document")
}

func c11Units(tier string) []hx.Unit {
	docs := c11Docs()
	// "accounts": the account manager cannot say which accounts validate while the round runs (the round and the
	// preparation update end early, nothing is owed in them; the next round is owed in full)
	fails := []string{"", "relay1", "node1", "signer2", "node1-inactive", "signer-high", "accounts"}
	rounds := 3
	var units []hx.Unit
	for d0 := range docs {
		for f0 := range fails {
			d0, f0 := d0, f0
			e := &c11Env{}
			u := hx.Unit{Name: fmt.Sprintf("C11/first[%s,%s]/rounds<=%d", docs[d0].name, fails[f0], rounds), Cfg: mc.Config{Deviation: true, Horizon: int64(3 * time.Hour)}}
			u.Bound = 0
			if tier == "thorough" {
				u.Bound = 1
			}
			u.Body = func() {
				*e = c11Env{relays: map[string]*c11Relay{}, loopback: mc.Choose(2) == 1}
				util.VerifResetBuilderClients()
				for _, a := range []string{c11R1, c11R2} {
					r := &c11Relay{addr: a, env: e}
					e.relays[a] = r
					util.VerifSetBuilderClient(a, r)
				}
				e.nodes = []*c11Node{{name: "node1", env: e}, {name: "node2", env: e}}
				byIndex := map[phase0.ValidatorIndex]*hAccount{}
				for i := 1; i <= 3; i++ {
					e.accts[i] = newAccount("W", fmt.Sprintf("v%d", i), byte(i))
					byIndex[phase0.ValidatorIndex(i)] = e.accts[i]
				}
				// validator 3 is about to be active: its activation epoch is the next epoch (the current slot is
				// 100, epoch 3); registrations and preparations are owed for it as for the others
				accts := &accountsTable{byIndex: byIndex, activeFrom: map[phase0.ValidatorIndex]phase0.Epoch{3: 4}}
				e.doc = docs[d0].name
				ctx, cancel := mcontext.WithCancel(context.Background())
				defer cancel()
				var fb bellatrix.ExecutionAddress
				for i := range fb {
					fb[i] = 0xff
				}
				ct := newChainTime(-int64(100*12*time.Second), 12*time.Second, 32)
				svc, err := standardblockrelay.New(ctx,
					standardblockrelay.WithLogLevel(zerolog.Disabled), standardblockrelay.WithMonitor(&nullmetrics.Service{}), standardblockrelay.WithMajordomo(&c11Majordomo{e}),
					standardblockrelay.WithScheduler(&nopScheduler{}), standardblockrelay.WithListenAddress("127.0.0.1:18550"), standardblockrelay.WithChainTime(ct),
					standardblockrelay.WithConfigURL("https://config.example.com/vouch"), standardblockrelay.WithFallbackFeeRecipient(fb), standardblockrelay.WithFallbackGasLimit(30000000),
					standardblockrelay.WithAccountsProvider(accts), standardblockrelay.WithValidatorsProvider(c12Validators{}), standardblockrelay.WithValidatingAccountsProvider(accts),
					standardblockrelay.WithValidatorRegistrationSigner(e), standardblockrelay.WithReleaseVersion("test"), standardblockrelay.WithBuilderBidProvider(c12Bids{}),
					standardblockrelay.WithBuilderConfigs(map[phase0.BLSPubKey]*blockrelay.BuilderConfig{}),
					standardblockrelay.WithSecondaryValidatorRegistrationsSubmitters([]eth2client.ValidatorRegistrationsSubmitter{e.nodes[0], e.nodes[1]}))
				must(err)
				e.svc = svc
				prep, err := standardpreparer.New(ctx, standardpreparer.WithLogLevel(zerolog.Disabled), standardpreparer.WithMonitor(&nullmetrics.Service{}), standardpreparer.WithChainTimeService(ct),
					standardpreparer.WithValidatingAccountsProvider(accts), standardpreparer.WithExecutionConfigProvider(svc),
					standardpreparer.WithProposalPreparationsSubmitters([]eth2client.ProposalPreparationsSubmitter{e.nodes[0], e.nodes[1]}))
				must(err)
				// the round New itself started (round 0) uses the first document without failures
				e.docs = append(e.docs, e.doc)
				e.fails = append(e.fails, "")
				mc.Sleep(int64(time.Minute))
				for rd := 1; rd <= rounds; rd++ {
					di, fi := d0, f0
					if rd > 1 {
						c := mc.Choose(len(docs) + 1)
						if c == len(docs) {
							break
						}
						di, fi = c, mc.Choose(len(fails))
					}
					e.round = rd
					e.doc = docs[di].name
					e.failing = fails[fi]
					e.docs = append(e.docs, e.doc)
					e.fails = append(e.fails, e.failing)
					svc.VerifFetchExecutionConfig(ctx)
					// settings are also looked up without an account (vouch's REST handlers know only the public key):
					// what such a lookup resolves to must not colour the lookups with the account that follow
					for vi := 1; vi <= 3; vi++ {
						_, _ = svc.ProposerConfig(ctx, nil, e.accts[vi].pubkey())
					}
					if e.failing == "accounts" {
						accts.err = errors.New("scripted account manager failure")
					}
					svc.VerifSubmitValidatorRegistrations(ctx)
					_ = prep.UpdatePreparations(ctx)
					accts.err = nil
					mc.Sleep(int64(7 * time.Minute))
				}
				// registrations arriving over REST from a validator vouch does not control, and from one it does
				e.round = 99
				e.failing = ""
				e.fwd = true
				ext := newAccount("X", "ext", 9)
				_, _ = svc.ValidatorRegistrations(ctx, []*relaytypes.SignedValidatorRegistration{
					{Message: &relaytypes.ValidatorRegistration{FeeRecipient: bellatrix.ExecutionAddress{0xee}, GasLimit: 12345, Timestamp: mc.Base, Pubkey: ext.pubkey()}, Signature: phase0.BLSSignature{0xe1}},
					{Message: &relaytypes.ValidatorRegistration{FeeRecipient: bellatrix.ExecutionAddress{0xee}, GasLimit: 12345, Timestamp: mc.Base, Pubkey: e.accts[3].pubkey()}, Signature: phase0.BLSSignature{0xe2}},
					{Message: &relaytypes.ValidatorRegistration{FeeRecipient: bellatrix.ExecutionAddress{0xee}, GasLimit: 12345, Timestamp: mc.Base, Pubkey: newAccount("X", "ext2", 10).pubkey()}, Signature: phase0.BLSSignature{0xe3}},
				})
				mc.Sleep(int64(time.Minute))
				e.done = true
			}
			u.Check = func(r *mc.Result) mc.Verdict { return c11Check(e, r) }
			units = append(units, u)
		}
	}
	return units
}

func c11Check(e *c11Env, r *mc.Result) mc.Verdict {
	v := mc.Verdict{}
	var hist []string
	for i := range e.docs {
		hist = append(hist, e.docs[i]+"/"+e.fails[i])
	}
	v.Outcome = fmt.Sprintf("rounds=%d signed=%d", len(e.docs)-1, e.signed)
	v.Sample = "rounds [" + strings.Join(hist, " ") + "] -> " + v.Outcome
	if e.loopback {
		v.Sample = "(beacon node 2 passes registrations back to vouch) " + v.Sample
	}
	v.Nontrivial = len(e.docs) > 2 || (len(e.fails) > 1 && e.fails[1] != "") || e.docs[0] == "DU" || e.docs[0] == "D3"
	fail := func(key, msg string) mc.Verdict {
		v.Violation = "rounds [" + strings.Join(hist, " ") + "]: " + msg
		v.Key = "C11/" + key
		return v
	}
	if r.Panic != "" {
		return fail("panic/"+panicSite(r.Panic), "panic: "+firstLine(r.Panic))
	}
	if !e.done {
		return fail("never-returned", "a registration round or preparation update never returned")
	}
	if e.malformed {
		return fail("malformed-registration", "a registration without message was sent, or the signer was asked with another validator's key")
	}
	docs := map[string]c11DocT{}
	for _, d := range c11Docs() {
		docs[d.name] = d
	}
	for i, dn := range e.docs {
		rd := i // round 0 is the one the constructor started
		failing := e.fails[i]
		if failing == "accounts" {
			continue // nothing can be done in this round; what it must not do is stop the later ones
		}
		// the secondary beacon nodes are handed the round's registrations as well: a node that fails does not keep them
		// from the other
		toRelays, toNode2 := 0, 0
		for _, addr := range []string{c11R1, c11R2} {
			for _, g := range e.relays[addr].regs {
				if g.round == rd {
					toRelays++
				}
			}
		}
		for _, g := range e.nodes[1].regs {
			if g.round == rd {
				toNode2++
			}
		}
		// (not judged when a signing request fails: the registration handed to the beacon nodes may be the very one
		// that could not be signed)
		if toRelays > 0 && toNode2 == 0 && failing != "signer2" && failing != "signer-high" {
			return fail("registrations-not-handed-to-secondary-node", fmt.Sprintf("round %d: the relays received %d registrations, the second beacon node none (failing party: %q)", rd, toRelays, failing))
		}
		// ... and per validator: whoever was registered with some relay in this round is announced to the beacon nodes
		// too (a signing request that fails for one of its relays does not undo that)
		for vi := 1; vi <= 3; vi++ {
			pub := e.accts[vi].pubkey()
			withRelay, withNode2 := false, false
			for _, addr := range []string{c11R1, c11R2} {
				for _, g := range e.relays[addr].regs {
					if g.round == rd && g.pubkey == pub {
						withRelay = true
					}
				}
			}
			for _, g := range e.nodes[1].regs {
				if g.round == rd && g.pubkey == pub {
					withNode2 = true
				}
			}
			if withRelay && !withNode2 {
				return fail("validator-not-announced-to-secondary-node", fmt.Sprintf("round %d: validator %d was registered with a relay but no registration of it was handed to the second beacon node (failing party: %q)", rd, vi, failing))
			}
		}
		for vi := 1; vi <= 3; vi++ {
			exp := docs[dn].exp(vi)
			pub := e.accts[vi].pubkey()
			if failing == "signer2" && vi == 2 {
				// a validator whose signing fails may or may not be served from an earlier signature; not judged
				continue
			}
			for _, addr := range []string{c11R1, c11R2} {
				var got []c11Reg
				for _, g := range e.relays[addr].regs {
					if g.round == rd && g.pubkey == pub {
						got = append(got, g)
					}
				}
				want, listed := [2]string{}, false
				if exp != nil {
					want, listed = exp.relays[addr]
				}
				relayDown := failing == "relay1" && addr == c11R1
				if failing == "signer-high" && listed && want[1] == gasHigh {
					// this one registration cannot be signed in this round: it may be missing or served from an
					// earlier signature; the validator's registrations with the other relays are judged as usual
					continue
				}
				switch {
				case !listed || relayDown:
					if len(got) > 0 && !relayDown {
						return fail("registration-to-unconfigured-relay", fmt.Sprintf("round %d: validator %d was registered with %s, which is not in its resolved settings", rd, vi, addr))
					}
				case len(got) == 0:
					why := "a-party"
					switch {
					case docs[dn].name == "DU":
						why = "unresolvable-validator"
					case failing == "relay1":
						why = "failing-relay"
					case failing == "node1":
						why = "failing-node"
					case failing == "signer2", failing == "signer-high":
						why = "failing-signer"
					}
					return fail("registration-missing/other-party-"+why, fmt.Sprintf("round %d: validator %d was not registered with %s although its settings resolve to it (failing party: %q, document %s)", rd, vi, addr, failing, dn))
				case len(got) > 1:
					return fail("registration-duplicated", fmt.Sprintf("round %d: validator %d was registered %d times with %s", rd, vi, len(got), addr))
				default:
					g := got[0]
					if g.fee != want[0] || fmt.Sprint(g.gas) != want[1] {
						return fail("registration-wrong-content", fmt.Sprintf("round %d: validator %d registered with %s as fee recipient %s gas limit %d; resolved settings say %s / %s", rd, vi, addr, g.fee, g.gas, want[0], want[1]))
					}
					if g.sig != c11Sig(g.pubkey, g.fee, g.gas, g.timestamp) {
						return fail("registration-signature-mismatch", fmt.Sprintf("round %d: validator %d's registration with %s carries a signature that was not produced for its content", rd, vi, addr))
					}
				}
			}
			// proposal preparations to every beacon node (the rounds driven by the harness)
			for _, n := range e.nodes {
				if rd == 0 {
					break
				}
				if (failing == "node1" || failing == "node1-inactive") && n.name == "node1" {
					continue
				}
				var got []c11Prep
				for _, p := range n.preps {
					if p.round == rd && p.index == phase0.ValidatorIndex(vi) {
						got = append(got, p)
					}
				}
				if exp == nil {
					if len(got) > 0 {
						return fail("preparation-for-unresolvable-validator", fmt.Sprintf("round %d: %s received a preparation for validator %d whose settings are unresolvable", rd, n.name, vi))
					}
					continue
				}
				if len(got) != 1 {
					return fail("preparation-missing", fmt.Sprintf("round %d: %s received %d preparations for validator %d", rd, n.name, len(got), vi))
				}
				if got[0].fee != exp.fee {
					return fail("preparation-wrong-fee-recipient", fmt.Sprintf("round %d: %s was told fee recipient %s for validator %d; resolved settings say %s", rd, n.name, got[0].fee, vi, exp.fee))
				}
			}
		}
	}
	// REST registrations: the uncontrolled validator's registration is forwarded unchanged to the relays of its
	// resolved settings; the controlled validator's is dropped
	if e.fwd {
		last := docs[e.docs[len(e.docs)-1]]
		extPub, ext2Pub := newAccount("X", "ext", 9).pubkey(), newAccount("X", "ext2", 10).pubkey()
		for _, addr := range []string{c11R1, c11R2} {
			var ext, ext2, own []c11Reg
			for _, g := range e.relays[addr].regs {
				if g.round == 99 && g.pubkey == extPub {
					ext = append(ext, g)
				}
				if g.round == 99 && g.pubkey == ext2Pub {
					ext2 = append(ext2, g)
				}
				if g.round == 99 && g.pubkey == e.accts[3].pubkey() {
					own = append(own, g)
				}
			}
			if len(own) > 0 {
				return fail("controlled-registration-forwarded", "a REST registration for a validator vouch controls was forwarded to a relay")
			}
			// an unknown validator matches no proposer entry; DU makes it unresolvable
			exp := last.exp(1)
			if last.name == "D3" {
				exp = last.exp(1)
			}
			_, listed := map[string][2]string{}[addr]
			if exp != nil {
				_, listed = exp.relays[addr]
			}
			if listed && len(ext) != 1 {
				return fail("uncontrolled-registration-not-forwarded", fmt.Sprintf("the REST registration of a validator vouch does not control reached %s %d times", addr, len(ext)))
			}
			if listed && len(ext2) != 1 {
				return fail("uncontrolled-registration-not-forwarded", fmt.Sprintf("the REST registration of a validator vouch does not control, which came after a controlled validator's in the same request, reached %s %d times", addr, len(ext2)))
			}
			if len(ext) == 1 {
				g := ext[0]
				if g.gas != 12345 || g.sig != (phase0.BLSSignature{0xe1}) || !strings.HasPrefix(g.fee, "0xee") {
					return fail("uncontrolled-registration-altered", "the forwarded REST registration was altered")
				}
			}
			if len(ext2) == 1 {
				g := ext2[0]
				if g.gas != 12345 || g.sig != (phase0.BLSSignature{0xe3}) || !strings.HasPrefix(g.fee, "0xee") {
					return fail("uncontrolled-registration-altered", "the forwarded REST registration was altered")
				}
			}
		}
	}
	return v
}

func init() {
	_ = sort.Strings
	hx.Register(&hx.Prop{
		ID:    "C11",
		Title: "Relays and beacon nodes are told exactly what the configuration says",
		Rule: "histories of 1..3 registration rounds on the real block relay + proposal preparer with 3 validators (one of them pending, active from the next epoch), 2 relays (the second answering after 1 s and giving up on a cancelled request), 2 beacon nodes (the second optionally passing the registrations it receives back to vouch, its builder endpoint): per round the configuration in force (5 documents: plain, relay gas-limit override, proposer entry with own fee recipient and a disabled relay, single relay, one validator unresolvable) x failing party (none, relay 1, node 1, signer for validator 2, signer for the registrations that carry the raised gas limit of one relay, node 1 reporting not-active), a refresh preceding each round; then REST registrations for a controlled and an uncontrolled validator; fan-out goroutines under deviation-bounded schedules (quick 0, thorough 1); " +
			"oracle: per round and relay exactly one registration per resolved validator with the resolved fee recipient / gas limit and a signature produced for exactly that content, a preparation per validator and node with the resolved fee recipient, other parties unaffected by a failing one; non-trivial = more than one round, a failing party or a proposer-specific document",
		Assumptions: []string{
			"expected settings per document are written out by hand from the documented precedence (C10 checks the resolver itself)",
			"the signer stand-in encodes the signed content in the signature, so reuse of a cached signature for changed content is visible",
			"a validator whose own signing fails is not judged in that round",
		},
		Units:         c11Units,
		MinNontrivial: 50,
	})
}
