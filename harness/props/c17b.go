package props

import (
	"context"
	"fmt"
	"strings"
	"time"

	apiv1 "github.com/attestantio/go-eth2-client/api/v1"
	"github.com/attestantio/go-eth2-client/spec"
	"github.com/attestantio/go-eth2-client/spec/phase0"
	vouchmock "github.com/attestantio/vouch/mock"
	dirkam "github.com/attestantio/vouch/services/accountmanager/dirk"
	mockaccountmanager "github.com/attestantio/vouch/services/accountmanager/mock"
	walletam "github.com/attestantio/vouch/services/accountmanager/wallet"
	"github.com/attestantio/vouch/services/attestationaggregator"
	mockattestationaggregator "github.com/attestantio/vouch/services/attestationaggregator/mock"
	"github.com/attestantio/vouch/services/attester"
	standardattester "github.com/attestantio/vouch/services/attester/standard"
	"github.com/attestantio/vouch/services/beaconblockproposer"
	"github.com/attestantio/vouch/services/beaconcommitteesubscriber"
	mockbeaconcommitteesubscriber "github.com/attestantio/vouch/services/beaconcommitteesubscriber/mock"
	standardsubscriber "github.com/attestantio/vouch/services/beaconcommitteesubscriber/standard"
	"github.com/attestantio/vouch/services/cache"
	mockcache "github.com/attestantio/vouch/services/cache/mock"
	standardcontroller "github.com/attestantio/vouch/services/controller/standard"
	nullmetrics "github.com/attestantio/vouch/services/metrics/null"
	mockproposalpreparer "github.com/attestantio/vouch/services/proposalpreparer/mock"
	"github.com/attestantio/vouch/services/scheduler/advanced"
	standardsyncaggregator "github.com/attestantio/vouch/services/synccommitteeaggregator/standard"
	"github.com/attestantio/vouch/services/synccommitteemessenger"
	standardsyncmessenger "github.com/attestantio/vouch/services/synccommitteemessenger/standard"
	"github.com/attestantio/vouch/util"
	"github.com/attestantio/vouch/verifmc/mc"
	"github.com/attestantio/vouch/verifmc/mcontext"
	"github.com/rs/zerolog"
	"github.com/spf13/viper"
	e2wtypes "github.com/wealdtech/go-eth2-wallet-types/v2"
)

// More overlap scenarios for C17: account managers, validators manager, attester, sync committee messenger,
// controller event handling, proposal unblinding.

func c17MoreScenarios() []c17Scn {
	var scns []c17Scn

	// validators manager: refresh from the beacon node vs lookups
	scns = append(scns, c17Scn{name: "validatorsmanager/refresh-lookups", setup: func(ctx context.Context) []func() {
		k1, k2 := c13Key("W", "Val1"), c13Key("W", "Val2")
		prov := &c13Provider{table: map[phase0.BLSPubKey]*apiv1.Validator{
			k1: c13Validator(k1, 3, c13Rec{act: 0, exit: c13FFE, wd: c13FFE}),
			k2: c13Validator(k2, 7, c13Rec{act: 0, exit: c13FFE, wd: c13FFE})}}
		vm := c13NewVM(prov)
		must(vm.RefreshValidatorsFromBeaconNode(ctx, []phase0.BLSPubKey{k1}))
		return []func(){
			func() { _ = vm.RefreshValidatorsFromBeaconNode(ctx, []phase0.BLSPubKey{k1, k2}) },
			func() {
				// as the account managers do: take the validators, then read them (the lock is long released)
				for _, v := range vm.ValidatorsByPubKey(ctx, []phase0.BLSPubKey{k1, k2}) {
					if v != nil && v.ExitEpoch < v.ActivationEpoch && v.Slashed {
						panic("harness: inconsistent record")
					}
				}
			},
			func() {
				for _, v := range vm.ValidatorsByIndex(ctx, []phase0.ValidatorIndex{3, 7}) {
					if v != nil && v.WithdrawableEpoch < v.ExitEpoch {
						panic("harness: inconsistent record")
					}
				}
				_, _ = vm.ValidatorStateAtEpoch(ctx, 3, 1)
			},
		}
	}})

	// dirk account manager: refresh vs validating-account queries
	scns = append(scns, c17Scn{name: "dirk/refresh-queries", setup: func(ctx context.Context) []func() {
		k1, k2 := c13Key("W", "Val1"), c13Key("W", "Val2")
		prov := &c13Provider{table: map[phase0.BLSPubKey]*apiv1.Validator{
			k1: c13Validator(k1, 3, c13Rec{act: 0, exit: c13FFE, wd: c13FFE}),
			k2: c13Validator(k2, 7, c13Rec{act: 0, exit: c13FFE, wd: c13FFE})}}
		vm := c13NewVM(prov)
		w := c13WalletWith("W", "Val1")
		svc := dirkam.VerifNewService([]string{"W"}, map[string]e2wtypes.Wallet{"W": w}, vm, c13ChainTime(), c13FFE, 2)
		// a first complete refresh (accounts and their validators) has happened; the periodic one runs next to the queries
		svc.Refresh(ctx)
		w.offer = append(w.offer, c13NewAccount("W", "Val2"))
		return []func(){
			func() { svc.Refresh(ctx) },
			func() { _, _ = svc.ValidatingAccountsForEpoch(ctx, 1) },
			func() {
				_, _ = svc.ValidatingAccountsForEpochByIndex(ctx, 1, []phase0.ValidatorIndex{3, 7})
				_, _ = svc.AccountByPublicKey(ctx, k2)
			},
		}
	}})

	// dirk account manager: the refresh finds one account fewer (the operator has moved a validator elsewhere)
	scns = append(scns, c17Scn{name: "dirk/refresh-drops-account+queries", setup: func(ctx context.Context) []func() {
		k1, k2 := c13Key("W", "Val1"), c13Key("W", "Val2")
		prov := &c13Provider{table: map[phase0.BLSPubKey]*apiv1.Validator{
			k1: c13Validator(k1, 3, c13Rec{act: 0, exit: c13FFE, wd: c13FFE}),
			k2: c13Validator(k2, 7, c13Rec{act: 0, exit: c13FFE, wd: c13FFE})}}
		vm := c13NewVM(prov)
		w := c13WalletWith("W", "Val1", "Val2")
		svc := dirkam.VerifNewService([]string{"W"}, map[string]e2wtypes.Wallet{"W": w}, vm, c13ChainTime(), c13FFE, 2)
		svc.Refresh(ctx)
		w.offer = w.offer[:1]
		return []func(){
			func() { svc.Refresh(ctx) },
			func() { _, _ = svc.ValidatingAccountsForEpoch(ctx, 1) },
			func() {
				accts, _ := svc.ValidatingAccountsForEpochByIndex(ctx, 1, []phase0.ValidatorIndex{3, 7})
				for _, i := range keysSorted(accts) {
					if accts[i] == nil {
						panic(fmt.Sprintf("ValidatingAccountsForEpochByIndex reports validator %d with no account at all", i))
					}
				}
			},
		}
	}})
	// ... and the same for the wallet manager
	scns = append(scns, c17Scn{name: "wallet/refresh-drops-account+queries", setup: func(ctx context.Context) []func() {
		k1, k2 := c13Key("W", "Val1"), c13Key("W", "Val2")
		prov := &c13Provider{table: map[phase0.BLSPubKey]*apiv1.Validator{
			k1: c13Validator(k1, 3, c13Rec{act: 0, exit: c13FFE, wd: c13FFE}),
			k2: c13Validator(k2, 7, c13Rec{act: 0, exit: c13FFE, wd: c13FFE})}}
		vm := c13NewVM(prov)
		svc := walletam.VerifNewService([]string{"W"}, nil, vm, c13ChainTime(), c13FFE, 2)
		svc.VerifMirrorRefreshAccounts(ctx, []e2wtypes.Wallet{c13WalletWith("W", "Val1", "Val2")})
		_ = svc.VerifRefreshValidators(ctx)
		w2 := c13WalletWith("W", "Val1")
		return []func(){
			func() { svc.VerifMirrorRefreshAccounts(ctx, []e2wtypes.Wallet{w2}) },
			func() { _, _ = svc.ValidatingAccountsForEpoch(ctx, 1) },
			func() {
				accts, _ := svc.ValidatingAccountsForEpochByIndex(ctx, 1, []phase0.ValidatorIndex{3, 7})
				for _, i := range keysSorted(accts) {
					if accts[i] == nil {
						panic(fmt.Sprintf("ValidatingAccountsForEpochByIndex reports validator %d with no account at all", i))
					}
				}
			},
		}
	}})

	// wallet account manager: refresh vs validating-account queries
	scns = append(scns, c17Scn{name: "wallet/refresh-queries", setup: func(ctx context.Context) []func() {
		k1, k2 := c13Key("W", "Val1"), c13Key("W", "Val2")
		prov := &c13Provider{table: map[phase0.BLSPubKey]*apiv1.Validator{
			k1: c13Validator(k1, 3, c13Rec{act: 0, exit: c13FFE, wd: c13FFE}),
			k2: c13Validator(k2, 7, c13Rec{act: 0, exit: c13FFE, wd: c13FFE})}}
		vm := c13NewVM(prov)
		w := c13WalletWith("W", "Val1")
		svc := walletam.VerifNewService([]string{"W"}, nil, vm, c13ChainTime(), c13FFE, 2)
		svc.VerifMirrorRefreshAccounts(ctx, []e2wtypes.Wallet{w})
		_ = svc.VerifRefreshValidators(ctx)
		w2 := c13WalletWith("W", "Val1", "Val2")
		return []func(){
			func() {
				svc.VerifMirrorRefreshAccounts(ctx, []e2wtypes.Wallet{w2})
				_ = svc.VerifRefreshValidators(ctx)
			},
			func() { _, _ = svc.ValidatingAccountsForEpoch(ctx, 1) },
			func() {
				_, _ = svc.ValidatingAccountsForEpochByIndex(ctx, 1, []phase0.ValidatorIndex{3, 7})
				_, _ = svc.AccountByPublicKey(ctx, k2)
			},
		}
	}})

	// attester: two attestation runs of one epoch overlapping (re-delivery / two slots)
	scns = append(scns, c17Scn{name: "attester/attest-attest", setup: func(ctx context.Context) []func() {
		env := &c20AttEnv{mode: "ok"}
		byIndex := map[phase0.ValidatorIndex]*hAccount{1: newAccount("W", "v1", 1), 2: newAccount("W", "v2", 2)}
		svc, err := standardattester.New(ctx, standardattester.WithLogLevel(zerolog.Disabled), standardattester.WithMonitor(&nullmetrics.Service{}),
			standardattester.WithProcessConcurrency(2), standardattester.WithChainTime(newChainTime(0, 12*time.Second, 2)), standardattester.WithSpecProvider(&specProvider{m: baseSpec(12*time.Second, 2)}),
			standardattester.WithAttestationDataProvider(env), standardattester.WithAttestationsSubmitter(env), standardattester.WithValidatingAccountsProvider(&accountsTable{byIndex: byIndex}),
			standardattester.WithBeaconAttestationsSigner(env))
		must(err)
		mk := func(slot phase0.Slot, vals []phase0.ValidatorIndex) *attester.Duty {
			ci := make([]phase0.CommitteeIndex, len(vals))
			vci := make([]uint64, len(vals))
			for i := range vals {
				ci[i], vci[i] = phase0.CommitteeIndex(i), uint64(i)
			}
			d, err := attester.NewDuty(ctx, slot, 4, vals, ci, vci, map[phase0.CommitteeIndex]uint64{0: 4, 1: 4})
			must(err)
			return d
		}
		return []func(){
			func() { _, _ = svc.Attest(ctx, mk(4, []phase0.ValidatorIndex{1, 2})) },
			func() { _, _ = svc.Attest(ctx, mk(5, []phase0.ValidatorIndex{2})) },
			// (a run two epochs later never overlaps: the controller starts a slot's job inside that slot)
			func() { _, _ = svc.Attest(ctx, mk(6, []phase0.ValidatorIndex{1})) },
		}
	}})

	// sync committee messenger: message generation vs the head-event path reading / pruning its slot records
	scns = append(scns, c17Scn{name: "synccommitteemessenger/message-verify-prune", setup: func(ctx context.Context) []func() {
		env := &c20SyncEnv{sigSel: c20FindSig(8, true), sigNot: c20FindSig(8, false)}
		sp := &specProvider{m: baseSpec(12*time.Second, 32)}
		ct := newChainTime(0, 12*time.Second, 32)
		accts := &accountsTable{byIndex: map[phase0.ValidatorIndex]*hAccount{1: newAccount("W", "v1", 1)}}
		agg, err := standardsyncaggregator.New(ctx, standardsyncaggregator.WithLogLevel(zerolog.Disabled), standardsyncaggregator.WithMonitor(nullmetrics.New()), standardsyncaggregator.WithSpecProvider(sp),
			standardsyncaggregator.WithBeaconBlockRootProvider(env), standardsyncaggregator.WithContributionAndProofSigner(env), standardsyncaggregator.WithValidatingAccountsProvider(accts),
			standardsyncaggregator.WithSyncCommitteeContributionProvider(env), standardsyncaggregator.WithSyncCommitteeContributionsSubmitter(env), standardsyncaggregator.WithChainTime(ct))
		must(err)
		msgr, err := standardsyncmessenger.New(ctx, standardsyncmessenger.WithLogLevel(zerolog.Disabled), standardsyncmessenger.WithMonitor(nullmetrics.New()), standardsyncmessenger.WithProcessConcurrency(2),
			standardsyncmessenger.WithChainTimeService(ct), standardsyncmessenger.WithSyncCommitteeAggregator(agg), standardsyncmessenger.WithSpecProvider(sp), standardsyncmessenger.WithBeaconBlockRootProvider(env),
			standardsyncmessenger.WithSyncCommitteeMessagesSubmitter(env), standardsyncmessenger.WithSyncCommitteeSubscriptionsSubmitter(env), standardsyncmessenger.WithValidatingAccountsProvider(accts),
			standardsyncmessenger.WithSyncCommitteeSelectionSigner(env), standardsyncmessenger.WithSyncCommitteeRootSigner(env))
		must(err)
		duty := func(slot phase0.Slot) *synccommitteemessenger.Duty {
			d := synccommitteemessenger.NewDuty(slot, map[phase0.ValidatorIndex][]phase0.CommitteeIndex{1: {3}})
			d.SetAccount(1, accts.byIndex[1])
			return d
		}
		_, _ = msgr.Message(ctx, duty(10))
		return []func(){
			func() { _, _ = msgr.Message(ctx, duty(11)) },
			func() { _, _ = msgr.GetDataUsedForSlot(10); msgr.RemoveHistoricDataUsedForSlotVerification(11) },
		}
	}})

	// the same with more than a hundred slot records held, so that the clean-up run by the head event handler
	// really removes old ones while the message job records a new slot and the verification looks one up
	scns = append(scns, c17Scn{name: "synccommitteemessenger/record-lookup-cleanup-over-threshold", setup: func(ctx context.Context) []func() {
		env := &c20SyncEnv{sigSel: c20FindSig(8, true), sigNot: c20FindSig(8, false)}
		sp := &specProvider{m: baseSpec(12*time.Second, 32)}
		ct := newChainTime(0, 12*time.Second, 32)
		accts := &accountsTable{byIndex: map[phase0.ValidatorIndex]*hAccount{1: newAccount("W", "v1", 1)}}
		agg, err := standardsyncaggregator.New(ctx, standardsyncaggregator.WithLogLevel(zerolog.Disabled), standardsyncaggregator.WithMonitor(nullmetrics.New()), standardsyncaggregator.WithSpecProvider(sp),
			standardsyncaggregator.WithBeaconBlockRootProvider(env), standardsyncaggregator.WithContributionAndProofSigner(env), standardsyncaggregator.WithValidatingAccountsProvider(accts),
			standardsyncaggregator.WithSyncCommitteeContributionProvider(env), standardsyncaggregator.WithSyncCommitteeContributionsSubmitter(env), standardsyncaggregator.WithChainTime(ct))
		must(err)
		msgr, err := standardsyncmessenger.New(ctx, standardsyncmessenger.WithLogLevel(zerolog.Disabled), standardsyncmessenger.WithMonitor(nullmetrics.New()), standardsyncmessenger.WithProcessConcurrency(2),
			standardsyncmessenger.WithChainTimeService(ct), standardsyncmessenger.WithSyncCommitteeAggregator(agg), standardsyncmessenger.WithSpecProvider(sp), standardsyncmessenger.WithBeaconBlockRootProvider(env),
			standardsyncmessenger.WithSyncCommitteeMessagesSubmitter(env), standardsyncmessenger.WithSyncCommitteeSubscriptionsSubmitter(env), standardsyncmessenger.WithValidatingAccountsProvider(accts),
			standardsyncmessenger.WithSyncCommitteeSelectionSigner(env), standardsyncmessenger.WithSyncCommitteeRootSigner(env))
		must(err)
		members := map[phase0.ValidatorIndex][]phase0.CommitteeIndex{1: {3}}
		for s := phase0.Slot(1); s <= 110; s++ {
			msgr.UpdateSyncCommitteeDataRecord(s, root(byte(s)), members)
		}
		return []func(){
			func() { msgr.RemoveHistoricDataUsedForSlotVerification(150) },
			func() {
				msgr.UpdateSyncCommitteeDataRecord(151, root(151), members)
				_, _ = msgr.GetDataUsedForSlot(5)
				_, _ = msgr.GetDataUsedForSlot(149)
			},
		}
	}})

	// controller: a head event (possibly a reorg) arriving while an attestation job runs and while shutdown
	// asks for pending attestations
	for _, variant := range []string{"false", "true", "true/real-subscriber"} {
		reorg, realSub := variant != "false", strings.HasSuffix(variant, "real-subscriber")
		tb := 0
		if reorg {
			tb = 1 // two deviations in a controller that handles a reorg: 0.8 M executions in 25 - 40+ minutes per unit
		}
		scns = append(scns, c17Scn{name: "controller/headevent-attest-pending/reorg=" + variant, deviation: true, thoroughBound: tb, tail: int64(10 * time.Second), settle: int64(c03SlotDur) + int64(c03Delay) - int64(time.Second),
			setup: func(ctx context.Context) []func() {
				w := &c03World{attKinds: [2]string{"E", "C"}, propKinds: [2]string{"A", "A"}, reorgAt: -1}
				ct := newChainTime(-(int64(c03Epoch0*c03SPE) * int64(c03SlotDur)), c03SlotDur, c03SPE)
				sched, err := advanced.New(ctx, advanced.WithLogLevel(zerolog.Disabled), advanced.WithMonitor(&nullmetrics.Service{}))
				must(err)
				byIndex := map[phase0.ValidatorIndex]*hAccount{}
				for i := 1; i <= 3; i++ {
					byIndex[phase0.ValidatorIndex(i)] = newAccount("W", fmt.Sprintf("v%d", i), byte(i))
				}
				ev := &eventsProvider{}
				// with the real committee subscriber the subscription information is real and the attester stand-in
				// hands back attestations, so that the attestation job looks its committees up in it
				var att attester.Service = w
				var sub beaconcommitteesubscriber.Service = mockbeaconcommitteesubscriber.New()
				var agg attestationaggregator.Service = mockattestationaggregator.New()
				if realSub {
					rw := &c14rWorld{c03World: w}
					subscriber, err := standardsubscriber.New(ctx, standardsubscriber.WithLogLevel(zerolog.Disabled), standardsubscriber.WithMonitor(&nullmetrics.Service{}),
						standardsubscriber.WithProcessConcurrency(2), standardsubscriber.WithChainTimeService(ct), standardsubscriber.WithAttesterDutiesProvider(w),
						standardsubscriber.WithAttestationAggregator(rw), standardsubscriber.WithBeaconCommitteeSubmitter(rw))
					must(err)
					att, sub, agg = rw, subscriber, rw
				}
				ctrl, err := standardcontroller.New(ctx,
					standardcontroller.WithLogLevel(zerolog.Disabled), standardcontroller.WithMonitor(nullmetrics.New()),
					standardcontroller.WithSpecProvider(&specProvider{m: baseSpec(c03SlotDur, c03SPE)}), standardcontroller.WithChainTimeService(ct),
					standardcontroller.WithProposerDutiesProvider(w), standardcontroller.WithAttesterDutiesProvider(w),
					standardcontroller.WithSyncCommitteeDutiesProvider(vouchmock.NewSyncCommitteeDutiesProvider()), standardcontroller.WithEventsProvider(ev),
					standardcontroller.WithValidatingAccountsProvider(&accountsTable{byIndex: byIndex}), standardcontroller.WithProposalsPreparer(mockproposalpreparer.New()),
					standardcontroller.WithScheduler(sched), standardcontroller.WithAttester(att), standardcontroller.WithBeaconBlockProposer(w),
					standardcontroller.WithBeaconCommitteeSubscriber(sub), standardcontroller.WithAttestationAggregator(agg),
					standardcontroller.WithAccountsRefresher(mockaccountmanager.NewRefresher()),
					standardcontroller.WithBlockToSlotSetter(mockcache.New(map[phase0.Root]phase0.Slot{}).(cache.BlockRootToSlotSetter)),
					standardcontroller.WithBeaconBlockHeadersProvider(vouchmock.NewBeaconBlockHeadersProvider()), standardcontroller.WithSignedBeaconBlockProvider(vouchmock.NewSignedBeaconBlockProvider()),
					standardcontroller.WithMaxAttestationDelay(c03Delay), standardcontroller.WithAttestationAggregationDelay(8*time.Second))
				must(err)
				// baseline event in the first slot (delivered by the single event stream, sequentially)
				first := phase0.Slot(c03Epoch0 * c03SPE)
				ev.deliver("head", &apiv1.HeadEvent{Slot: first, Block: root(1), PreviousDutyDependentRoot: root(0x10), CurrentDutyDependentRoot: root(0x20)})
				prev := byte(0x10)
				if reorg {
					prev = 0x50
				}
				// the actors start one second before the attestation job of the second slot fires
				return []func(){
					func() {
						mc.Sleep(int64(time.Second))
						ev.deliver("head", &apiv1.HeadEvent{Slot: first + 1, Block: root(2), PreviousDutyDependentRoot: root(prev), CurrentDutyDependentRoot: root(0x20)})
					},
					func() {
						mc.Sleep(int64(time.Second))
						_ = ctrl.HasPendingAttestations(ctx, first+1)
						_ = ctrl.HasPendingAttestations(ctx, first+2)
					},
					func() { mc.Sleep(int64(2 * time.Second)) },
				}
			}})
	}

	// block proposer: two relays unblinding the same proposal
	scns = append(scns, c17Scn{name: "proposer/unblind-two-relays", deviation: true, setup: func(ctx context.Context) []func() {
		e := &c05Env{version: spec.DataVersionDeneb, blinded: true, auction: "winner2", acct: newAccount("W", "proposer", 7), graffiti: "none", sign: "ok", submit: "ok"}
		for i := 0; i < 2; i++ {
			e.relays = append(e.relays, &c05Relay{idx: i, env: e, beh: "full"})
		}
		svc := c05Build(e)
		return []func(){
			func() {
				duty := beaconblockproposer.NewDuty(c05Slot, 7)
				c, cancel := mcontext.WithTimeout(ctx, 8*time.Second)
				defer cancel()
				if err := svc.Prepare(c, duty); err == nil {
					svc.Propose(c, duty)
				}
			},
		}
	}})
	// the process-wide table of relay clients: the goroutines of a registration round (one per relay), REST
	// requests and auctions obtain their clients from it; one relay is known already, the other is met for the
	// first time (a refreshed configuration names a new relay)
	scns = append(scns, c17Scn{name: "util/relay-client-table/known+new", setup: func(ctx context.Context) []func() {
		util.VerifResetBuilderClients()
		util.VerifSetBuilderClient(c12Relay, c12Relays{})
		viper.Set("timeout", "2s")
		return []func(){
			func() { _, _ = util.FetchBuilderClient(ctx, c12Relay, nil, "test") },
			func() { _, _ = util.FetchBuilderClient(ctx, "http://localhost:18551/", nil, "test") },
			func() { _, _ = util.FetchBuilderClient(ctx, c12Relay, nil, "test") },
		}
	}})
	// block relay as the beacon node's builder: unblinding a signed blinded block with two relays (both hand the
	// block over at once; one does and the other fails and tries again a quarter of a second later)
	for _, behs := range [][2]string{{"full", "full"}, {"full", "err3"}, {"err3", "full"}} {
		behs := behs
		scns = append(scns, c17Scn{name: "blockrelay/unblind-two-relays/" + behs[0] + "+" + behs[1], deviation: true, settle: int64(time.Second), setup: func(ctx context.Context) []func() {
			e := &c05Env{version: spec.DataVersionDeneb, blinded: true, acct: newAccount("W", "proposer", 7)}
			for i := 0; i < 2; i++ {
				e.relays = append(e.relays, &c05Relay{idx: i, env: e, beh: behs[i]})
			}
			svc, block := c20RelayUnblindSetup(ctx, e)
			return []func(){
				func() {
					c, cancel := mcontext.WithTimeout(ctx, 8*time.Second)
					defer cancel()
					_, _ = svc.UnblindBlock(c, block)
				},
			}
		}})
	}
	return scns
}
