package props

import (
	"fmt"
	"sort"
	"strings"

	"verifharness/hx"

	"github.com/attestantio/vouch/util"
	"github.com/attestantio/vouch/verifmc/mc"
	"github.com/spf13/viper"
)

// C19, part "strategy addresses": the helpers that collect the beacon node addresses of the configured
// attestation-data and block-proposal strategies (util.BeaconNodeAddressesForAttesting / ForProposing) resolve
// each strategy's addresses hierarchically from its style level upwards, as docs/configuration.md describes.
// Every subset of the four levels {top, strategies, strategies.<strategy>, strategies.<strategy>.<style>} holds
// a distinct address, for every style.

func c19StratRef(set map[string]string, strategy, style string) string {
	path := ""
	if style != "" {
		path = "strategies." + strategy + "." + style
	}
	for {
		key := "beacon-node-addresses"
		if path != "" {
			key = path + ".beacon-node-addresses"
		}
		if v, ok := set[key]; ok {
			return v
		}
		if path == "" {
			return ""
		}
		if i := strings.LastIndex(path, "."); i >= 0 {
			path = path[:i]
		} else {
			path = ""
		}
	}
}

func init() {
	p := hx.Get("C19")
	if p == nil {
		return
	}
	base := p.Units
	p.Units = func(tier string) []hx.Unit {
		units := base(tier)
		type cs struct {
			fn       string
			strats   []string
			styles   []string
			got, exp []string
			desc     string
		}
		for _, c := range []*cs{
			{fn: "ForAttesting", strats: []string{"attestationdata"}, styles: []string{"", "best", "first", "majority", "unknown"}},
			{fn: "ForProposing", strats: []string{"beaconblockproposal", "blindedbeaconblockproposal"}, styles: []string{"", "best", "first", "unknown"}},
		} {
			c := c
			u := hx.Unit{Name: "C19/strategy-addresses/" + c.fn, Cfg: mc.Config{Fixed: true}, Bound: 0}
			u.Body = func() {
				viper.Reset()
				set := map[string]string{}
				var lines []string
				styles := map[string]string{}
				for _, sname := range c.strats {
					style := c.styles[mc.Choose(len(c.styles))]
					styles[sname] = style
					if style != "" {
						viper.Set("strategies."+sname+".style", style)
						lines = append(lines, fmt.Sprintf("strategies.%s.style=%s", sname, style))
					}
				}
				put := func(path, addr string) {
					if mc.Choose(2) == 0 {
						return
					}
					key := "beacon-node-addresses"
					if path != "" {
						key = path + "." + key
					}
					viper.Set(key, []string{addr})
					set[key] = addr
					lines = append(lines, key+"=["+addr+"]")
				}
				put("", "top:1")
				put("strategies", "strategies:2")
				for i, sname := range c.strats {
					put("strategies."+sname, fmt.Sprintf("%s:3%d", sname, i))
					if st := styles[sname]; st != "" && st != "unknown" {
						put("strategies."+sname+"."+st, fmt.Sprintf("%s.%s:4%d", sname, st, i))
					}
				}
				if c.fn == "ForAttesting" {
					c.got = util.BeaconNodeAddressesForAttesting()
				} else {
					c.got = util.BeaconNodeAddressesForProposing()
				}
				want := map[string]bool{}
				for _, sname := range c.strats {
					st := styles[sname]
					if st == "unknown" {
						st = "" // an unrecognised style falls back to the top level
					}
					if a := c19StratRef(set, sname, st); a != "" {
						want[a] = true
					}
				}
				c.exp = nil
				for a := range want {
					c.exp = append(c.exp, a)
				}
				sort.Strings(c.exp)
				c.desc = strings.Join(lines, "; ")
				viper.Reset()
			}
			u.Check = func(r *mc.Result) mc.Verdict {
				v := mc.Verdict{Outcome: fmt.Sprintf("strategy-addresses/%s/%d", c.fn, len(c.exp)), Nontrivial: true,
					Sample: fmt.Sprintf("BeaconNodeAddresses%s with {%s} -> %v", c.fn, c.desc, c.got)}
				if r.Panic != "" {
					v.Violation, v.Key = v.Sample+": panic: "+firstLine(r.Panic), "C19/strategy-addresses/panic"
				} else if fmt.Sprint(c.got) != fmt.Sprint(c.exp) {
					v.Violation = fmt.Sprintf("BeaconNodeAddresses%s with {%s} returns %v; resolving each strategy's addresses from its style level upwards gives %v", c.fn, c.desc, c.got, c.exp)
					v.Key = "C19/strategy-addresses/" + strings.ToLower(c.fn)
				}
				return v
			}
			units = append(units, u)
		}
		return units
	}
	p.Rule += "; (strategy addresses) util.BeaconNodeAddressesForAttesting / ForProposing for every style of the strategies concerned x every subset of the levels {top, strategies, strategies.<strategy>, strategies.<strategy>.<style>} holding a distinct address: each strategy's addresses are those of the longest configured prefix of its style path (no or unknown style: the top level)"
}
