package props

import (
	"bytes"
	"context"
	"fmt"
	"reflect"
	"sort"
	"strings"
	"time"

	"verifharness/hx"

	"github.com/attestantio/vouch/util"
	"github.com/attestantio/vouch/verifmc/mc"
	"github.com/rs/zerolog"
	"github.com/spf13/viper"
)

// C19, part "builder client": the client vouch builds for a relay address takes its timeout and log level from the
// path builderclient.<address>, resolved hierarchically.  The address is used as written: with and without a
// trailing slash are two paths, each with its own configured values.
var c19RelayForms = []string{"https://relay-a.example.com", "https://relay-a.example.com/", "http://localhost:18550/"}

type c19BuilderCase struct {
	addr            string
	desc            string
	wantTO, gotTO   time.Duration
	wantLvl, gotLvl zerolog.Level
	lookTO          time.Duration
	lookLvl         zerolog.Level
	err             string
}

func c19BuilderBody(c *c19BuilderCase) {
	*c = c19BuilderCase{}
	c.addr = c19RelayForms[mc.Choose(len(c19RelayForms))]
	// levels: top, builderclient, builderclient.<address in each form>
	levels := []string{"", "builderclient"}
	for _, a := range c19RelayForms {
		levels = append(levels, "builderclient."+a)
	}
	tos := []time.Duration{7 * time.Second, 5 * time.Second, 900 * time.Millisecond, 800 * time.Millisecond, 700 * time.Millisecond}
	lvls := []string{"warn", "error", "debug", "trace", "info"}
	lvlVals := []zerolog.Level{zerolog.WarnLevel, zerolog.ErrorLevel, zerolog.DebugLevel, zerolog.TraceLevel, zerolog.InfoLevel}
	// the top level always carries both (vouch's defaults); the others are present or absent independently
	hasTO, hasLvl := make([]bool, len(levels)), make([]bool, len(levels))
	hasTO[0], hasLvl[0] = true, true
	for i := 1; i < len(levels); i++ {
		k := mc.Choose(4)
		hasTO[i], hasLvl[i] = k&1 != 0, k&2 != 0
	}
	var y strings.Builder
	fmt.Fprintf(&y, "timeout: '%s'\nlog-level: '%s'\n", tos[0], lvls[0])
	y.WriteString("builderclient:\n")
	if hasTO[1] {
		fmt.Fprintf(&y, "  timeout: '%s'\n", tos[1])
	}
	if hasLvl[1] {
		fmt.Fprintf(&y, "  log-level: '%s'\n", lvls[1])
	}
	for i := 2; i < len(levels); i++ {
		if !hasTO[i] && !hasLvl[i] {
			continue
		}
		fmt.Fprintf(&y, "  '%s':\n", c19RelayForms[i-2])
		if hasTO[i] {
			fmt.Fprintf(&y, "    timeout: '%s'\n", tos[i])
		}
		if hasLvl[i] {
			fmt.Fprintf(&y, "    log-level: '%s'\n", lvls[i])
		}
	}
	c.desc = strings.ReplaceAll(strings.TrimSpace(y.String()), "\n", " | ")
	viper.Reset()
	viper.SetConfigType("yaml")
	must(viper.ReadConfig(bytes.NewBufferString(y.String())))
	defer viper.Reset()
	// reference: own level, then builderclient, then top
	own := 0
	for i := 2; i < len(levels); i++ {
		if c19RelayForms[i-2] == c.addr {
			own = i
		}
	}
	c.wantTO, c.wantLvl = tos[0], lvlVals[0]
	for _, i := range []int{1, own} {
		if hasTO[i] {
			c.wantTO = tos[i]
		}
		if hasLvl[i] {
			c.wantLvl = lvlVals[i]
		}
	}
	c.lookTO, c.lookLvl = util.Timeout("builderclient."+c.addr), util.LogLevel("builderclient."+c.addr)
	util.VerifResetBuilderClients()
	ctx, cancel := context.WithCancel(context.Background())
	defer cancel()
	client, err := util.FetchBuilderClient(ctx, c.addr, nil, "test")
	if err != nil {
		c.err = err.Error()
		return
	}
	v := reflect.ValueOf(client)
	if v.Kind() != reflect.Ptr || !v.Elem().FieldByName("timeout").IsValid() || !v.Elem().FieldByName("log").FieldByName("level").IsValid() {
		c.err = "the builder client's fields cannot be read"
		return
	}
	c.gotTO = time.Duration(v.Elem().FieldByName("timeout").Int())
	c.gotLvl = zerolog.Level(v.Elem().FieldByName("log").FieldByName("level").Int())
	util.VerifResetBuilderClients()
}

func c19BuilderCheck(c *c19BuilderCase, r *mc.Result) mc.Verdict {
	v := mc.Verdict{Outcome: fmt.Sprintf("builder-client/%s/%s", c.wantTO, c.wantLvl), Nontrivial: true,
		Sample: fmt.Sprintf("builder client for %s with {%s}: timeout %s log level %s", c.addr, c.desc, c.gotTO, c.gotLvl)}
	switch {
	case r.Panic != "":
		v.Violation, v.Key = v.Sample+": panic: "+firstLine(r.Panic), "C19/builder-client/panic"
	case c.err != "":
		v.Violation, v.Key = fmt.Sprintf("builder client for %s with {%s}: %s", c.addr, c.desc, c.err), "C19/builder-client/not-built"
	case c.lookTO != c.wantTO || c.lookLvl != c.wantLvl:
		v.Violation = fmt.Sprintf("with {%s}, util.Timeout / util.LogLevel for builderclient.%s give %s / %s; the longest configured prefix holds %s / %s", c.desc, c.addr, c.lookTO, c.lookLvl, c.wantTO, c.wantLvl)
		v.Key = "C19/builder-client/lookup"
	case c.gotTO != c.wantTO:
		v.Violation = fmt.Sprintf("with {%s}, the builder client for %s is built with timeout %s; the longest configured prefix of builderclient.%s holds %s", c.desc, c.addr, c.gotTO, c.addr, c.wantTO)
		v.Key = "C19/builder-client/timeout"
	case c.gotLvl != c.wantLvl:
		v.Violation = fmt.Sprintf("with {%s}, the builder client for %s is built with log level %s; the longest configured prefix of builderclient.%s holds %s", c.desc, c.addr, c.gotLvl, c.addr, c.wantLvl)
		v.Key = "C19/builder-client/log-level"
	}
	return v
}

// C19, part "strategy addresses": the helpers that collect the beacon node addresses of the configured
// attestation-data and block-proposal strategies (util.BeaconNodeAddressesForAttesting / ForProposing) resolve
// each strategy's addresses hierarchically from its style level upwards, as docs/configuration.md describes.
// Every subset of the four levels {top, strategies, strategies.<strategy>, strategies.<strategy>.<style>} holds
// a distinct address, for every style.

func c19StratRef(set map[string]string, strategy, style string) string {
	path := ""
	if style != "" {
		path = "strategies." + strategy + "." + style
	}
	for {
		key := "beacon-node-addresses"
		if path != "" {
			key = path + ".beacon-node-addresses"
		}
		if v, ok := set[key]; ok {
			return v
		}
		if path == "" {
			return ""
		}
		if i := strings.LastIndex(path, "."); i >= 0 {
			path = path[:i]
		} else {
			path = ""
		}
	}
}

func init() {
	p := hx.Get("C19")
	if p == nil {
		return
	}
	base := p.Units
	p.Units = func(tier string) []hx.Unit {
		units := base(tier)
		type cs struct {
			fn       string
			strats   []string
			styles   []string
			got, exp []string
			desc     string
		}
		for _, c := range []*cs{
			{fn: "ForAttesting", strats: []string{"attestationdata"}, styles: []string{"", "best", "first", "majority", "unknown"}},
			{fn: "ForProposing", strats: []string{"beaconblockproposal", "blindedbeaconblockproposal"}, styles: []string{"", "best", "first", "unknown"}},
		} {
			c := c
			u := hx.Unit{Name: "C19/strategy-addresses/" + c.fn, Cfg: mc.Config{Fixed: true}, Bound: 0}
			u.Body = func() {
				viper.Reset()
				set := map[string]string{}
				var lines []string
				styles := map[string]string{}
				for _, sname := range c.strats {
					style := c.styles[mc.Choose(len(c.styles))]
					styles[sname] = style
					if style != "" {
						viper.Set("strategies."+sname+".style", style)
						lines = append(lines, fmt.Sprintf("strategies.%s.style=%s", sname, style))
					}
				}
				put := func(path, addr string) {
					if mc.Choose(2) == 0 {
						return
					}
					key := "beacon-node-addresses"
					if path != "" {
						key = path + "." + key
					}
					viper.Set(key, []string{addr})
					set[key] = addr
					lines = append(lines, key+"=["+addr+"]")
				}
				put("", "top:1")
				put("strategies", "strategies:2")
				for i, sname := range c.strats {
					put("strategies."+sname, fmt.Sprintf("%s:3%d", sname, i))
					if st := styles[sname]; st != "" && st != "unknown" {
						put("strategies."+sname+"."+st, fmt.Sprintf("%s.%s:4%d", sname, st, i))
					}
				}
				if c.fn == "ForAttesting" {
					c.got = util.BeaconNodeAddressesForAttesting()
				} else {
					c.got = util.BeaconNodeAddressesForProposing()
				}
				want := map[string]bool{}
				for _, sname := range c.strats {
					st := styles[sname]
					if st == "unknown" {
						st = "" // an unrecognised style falls back to the top level
					}
					if a := c19StratRef(set, sname, st); a != "" {
						want[a] = true
					}
				}
				c.exp = nil
				for a := range want {
					c.exp = append(c.exp, a)
				}
				sort.Strings(c.exp)
				c.desc = strings.Join(lines, "; ")
				viper.Reset()
			}
			u.Check = func(r *mc.Result) mc.Verdict {
				v := mc.Verdict{Outcome: fmt.Sprintf("strategy-addresses/%s/%d", c.fn, len(c.exp)), Nontrivial: true,
					Sample: fmt.Sprintf("BeaconNodeAddresses%s with {%s} -> %v", c.fn, c.desc, c.got)}
				if r.Panic != "" {
					v.Violation, v.Key = v.Sample+": panic: "+firstLine(r.Panic), "C19/strategy-addresses/panic"
				} else if fmt.Sprint(c.got) != fmt.Sprint(c.exp) {
					v.Violation = fmt.Sprintf("BeaconNodeAddresses%s with {%s} returns %v; resolving each strategy's addresses from its style level upwards gives %v", c.fn, c.desc, c.got, c.exp)
					v.Key = "C19/strategy-addresses/" + strings.ToLower(c.fn)
				}
				return v
			}
			units = append(units, u)
		}
		{
			c := &c19BuilderCase{}
			u := hx.Unit{Name: "C19/builder-client", Cfg: mc.Config{Fixed: true}, Bound: 0}
			u.Body = func() { c19BuilderBody(c) }
			u.Check = func(r *mc.Result) mc.Verdict { return c19BuilderCheck(c, r) }
			units = append(units, u)
		}
		return units
	}
	p.Rule += "; (builder client) the real util.FetchBuilderClient for a relay address written in three forms (without and with trailing slash, host:port with slash) x every subset of {builderclient, builderclient.<each form>} carrying a timeout and / or a log level, from a YAML document: the client is built with the values at the longest configured prefix of builderclient.<address as written> (read from the client)"
	p.Rule += "; (strategy addresses) util.BeaconNodeAddressesForAttesting / ForProposing for every style of the strategies concerned x every subset of the levels {top, strategies, strategies.<strategy>, strategies.<strategy>.<style>} holding a distinct address: each strategy's addresses are those of the longest configured prefix of its style path (no or unknown style: the top level)"
}
