package props

import (
	"bytes"
	"context"
	"crypto/sha256"
	"encoding/binary"
	"encoding/hex"
	"errors"
	"fmt"
	"strings"
	"time"

	"verifharness/hx"

	builderapi "github.com/attestantio/go-builder-client/api"
	builderapiv1 "github.com/attestantio/go-builder-client/api/v1"
	builderspec "github.com/attestantio/go-builder-client/spec"
	"github.com/attestantio/go-eth2-client/spec/altair"
	"github.com/attestantio/go-eth2-client/spec/bellatrix"
	"github.com/attestantio/go-eth2-client/spec/phase0"
	nullmetrics "github.com/attestantio/vouch/services/metrics/null"
	standardsigner "github.com/attestantio/vouch/services/signer/standard"
	"github.com/attestantio/vouch/verifmc/mc"
	"github.com/google/uuid"
	"github.com/herumi/bls-eth-go-binary/bls"
	bitfield "github.com/prysmaticlabs/go-bitfield"
	"github.com/rs/zerolog"
	e2types "github.com/wealdtech/go-eth2-types/v2"
	e2wtypes "github.com/wealdtech/go-eth2-wallet-types/v2"
)

// C06: every signature is over the consensus-spec signing root for that duty and key.
//
// The real signer/standard service is driven through all ten signing entry points.  The accounts are
// harness implementations of the wallet interfaces that hold real BLS secret keys and behave like the
// three account kinds vouch meets in production:
//
//	L  local wallet account          plain AccountSigner: signs the 32 bytes it is given
//	O  ordinary remote (dirk) account protecting single + multi signer: receives the object root (or the
//	                                  attestation / proposal fields) and the domain, builds
//	                                  hash_tree_root(SigningData) itself; multi requests must contain
//	                                  ordinary accounts only (dirk: "account not of required type")
//	D  distributed remote account     as O, plus DistributedAccount; the signature is produced by
//	                                  threshold signing with the participants' key shares and Lagrange
//	                                  recovery, exactly as the dirk client library does, so it is the
//	                                  signature of the *composite* key; multi requests must contain
//	                                  distributed accounts only
//
// "The requested account's public key" is the validator key of the account: PublicKey() for L and O,
// CompositePublicKey() for D (PublicKey() of a distributed account is the key share of one participant;
// vouch itself identifies the validator of an account this way, util.ValidatorPubkey, and it is the key
// the beacon chain verifies against).
//
// The domain provider is a stand-in for the beacon-node client: compute_domain(domain_type,
// fork_version(epoch), genesis_validators_root) with the fork schedule
//
//	epoch 0: version v0 (genesis) ; epoch 0: version v1 (second fork at genesis) ; epoch 10: version v2
//
// so that a wrong epoch on either side of slot 80 and Domain(.., epoch 0) instead of GenesisDomain(..)
// give different domains.  Like the real client it uses the zero genesis validators root for the
// application (builder) domain type.
//
// Oracle: the harness recomputes root_i = hash_tree_root(spec object i) with the go-eth2-client spec
// types, the domain from the duty's domain type constant and the fork version of the duty's epoch, and
// the signing root sha256(root_i || domain) (= hash_tree_root(SigningData)), and verifies sig[i] under
// the validator key of account i with the standard eth2 BLS verification.  No vouch code is used.

const (
	c06SlotsPerEpoch = 8
	c06ForkEpoch     = 10 // v1 -> v2 at slot 80
)

var (
	c06V0  = phase0.Version{0x10, 0x00, 0x00, 0x00} // genesis fork version
	c06V1  = phase0.Version{0x10, 0x00, 0x00, 0x01} // second fork scheduled at epoch 0
	c06V2  = phase0.Version{0x10, 0x00, 0x00, 0x02} // fork at c06ForkEpoch
	c06GVR = phase0.Root{0x47, 0x56, 0x52, 0x01, 0x02, 0x03, 0x04, 0x05, 0x06, 0x07, 0x08, 0x09, 0x0a, 0x0b, 0x0c, 0x0d,
		0x0e, 0x0f, 0x10, 0x11, 0x12, 0x13, 0x14, 0x15, 0x16, 0x17, 0x18, 0x19, 0x1a, 0x1b, 0x1c, 0x1d}
)

// Domain types of the consensus and builder specifications (constants of the specs, not read from the
// spec map that is handed to vouch).
var (
	c06DomProposer     = phase0.DomainType{0x00, 0x00, 0x00, 0x00}
	c06DomAttester     = phase0.DomainType{0x01, 0x00, 0x00, 0x00}
	c06DomRandao       = phase0.DomainType{0x02, 0x00, 0x00, 0x00}
	c06DomSelection    = phase0.DomainType{0x05, 0x00, 0x00, 0x00}
	c06DomAggregate    = phase0.DomainType{0x06, 0x00, 0x00, 0x00}
	c06DomSyncComm     = phase0.DomainType{0x07, 0x00, 0x00, 0x00}
	c06DomSyncSel      = phase0.DomainType{0x08, 0x00, 0x00, 0x00}
	c06DomContribution = phase0.DomainType{0x09, 0x00, 0x00, 0x00}
	c06DomBuilder      = phase0.DomainType{0x00, 0x00, 0x00, 0x01}
)

var c06DomainNames = []struct {
	t phase0.DomainType
	n string
}{
	{c06DomProposer, "BEACON_PROPOSER"}, {c06DomAttester, "BEACON_ATTESTER"}, {c06DomRandao, "RANDAO"},
	{phase0.DomainType{0x03, 0, 0, 0}, "DEPOSIT"}, {phase0.DomainType{0x04, 0, 0, 0}, "VOLUNTARY_EXIT"},
	{c06DomSelection, "SELECTION_PROOF"}, {c06DomAggregate, "AGGREGATE_AND_PROOF"}, {c06DomSyncComm, "SYNC_COMMITTEE"},
	{c06DomSyncSel, "SYNC_COMMITTEE_SELECTION_PROOF"}, {c06DomContribution, "CONTRIBUTION_AND_PROOF"},
	{c06DomBuilder, "APPLICATION_BUILDER"},
}

func c06DomainName(t phase0.DomainType) string {
	for _, d := range c06DomainNames {
		if d.t == t {
			return d.n
		}
	}
	return fmt.Sprintf("%#x", t[:])
}

// ---------------------------------------------------------------------------------------------------
// Reference (oracle side): written directly from the specifications.

// c06RefDomain is compute_domain(domain_type, fork_version, genesis_validators_root):
// domain_type ++ hash_tree_root(ForkData{fork_version, genesis_validators_root})[:28]; the ForkData
// container has two leaves, so its root is sha256(pad32(version) || gvr).
func c06RefDomain(t phase0.DomainType, v phase0.Version, gvr phase0.Root) phase0.Domain {
	var buf [64]byte
	copy(buf[:4], v[:])
	copy(buf[32:], gvr[:])
	h := sha256.Sum256(buf[:])
	var d phase0.Domain
	copy(d[:4], t[:])
	copy(d[4:], h[:28])
	return d
}

// c06RefVersion is the fork version get_domain uses for an epoch under the harness fork schedule.
func c06RefVersion(epoch phase0.Epoch) phase0.Version {
	if epoch >= c06ForkEpoch {
		return c06V2
	}
	return c06V1
}

// c06RefSigningRoot is compute_signing_root: hash_tree_root(SigningData{object_root, domain}).
func c06RefSigningRoot(root phase0.Root, domain phase0.Domain) []byte {
	var buf [64]byte
	copy(buf[:32], root[:])
	copy(buf[32:], domain[:])
	h := sha256.Sum256(buf[:])
	return h[:]
}

// c06Uint64Root is hash_tree_root of a uint64.
func c06Uint64Root(v uint64) phase0.Root {
	var r phase0.Root
	binary.LittleEndian.PutUint64(r[:8], v)
	return r
}

func c06Verify(sig *bls.Sign, pub *bls.PublicKey, msg []byte) bool { return sig.VerifyByte(pub, msg) }

// ---------------------------------------------------------------------------------------------------
// Environment stand-ins.

// c06Domains stands in for the beacon-node client's domain provider (go-eth2-client http/domain.go).
type c06Domains struct {
	asked []string
	fail  bool // the beacon node cannot be reached: every domain request fails
	yield bool // the request to the beacon node is a scheduling point (units with two requests at once)
}

type c06Fork struct {
	epoch   phase0.Epoch
	version phase0.Version
}

var c06Schedule = []c06Fork{{0, c06V0}, {0, c06V1}, {c06ForkEpoch, c06V2}}

func c06ProviderDomain(t phase0.DomainType, v phase0.Version) (phase0.Domain, error) {
	fd := &phase0.ForkData{CurrentVersion: v}
	if t != c06DomBuilder {
		fd.GenesisValidatorsRoot = c06GVR
	}
	r, err := fd.HashTreeRoot()
	if err != nil {
		return phase0.Domain{}, err
	}
	var d phase0.Domain
	copy(d[:], t[:])
	copy(d[4:], r[:])
	return d, nil
}

func (d *c06Domains) Domain(_ context.Context, t phase0.DomainType, epoch phase0.Epoch) (phase0.Domain, error) {
	d.asked = append(d.asked, fmt.Sprintf("Domain(%s, epoch %d)", c06DomainName(t), epoch))
	if d.yield {
		mc.Yield()
	}
	if d.fail {
		return phase0.Domain{}, errors.New("beacon node unavailable")
	}
	cur := c06Schedule[0]
	for _, f := range c06Schedule {
		if f.epoch > epoch {
			break
		}
		cur = f
	}
	return c06ProviderDomain(t, cur.version)
}

func (d *c06Domains) GenesisDomain(_ context.Context, t phase0.DomainType) (phase0.Domain, error) {
	d.asked = append(d.asked, fmt.Sprintf("GenesisDomain(%s)", c06DomainName(t)))
	if d.fail {
		return phase0.Domain{}, errors.New("beacon node unavailable")
	}
	return c06ProviderDomain(t, c06Schedule[0].version)
}

// Accounts.

type c06Base struct {
	id   uuid.UUID
	name string
}

func (b *c06Base) ID() uuid.UUID { return b.id }
func (b *c06Base) Name() string  { return b.name }

// c06Local: account of a local (nd/hd) wallet.
type c06Local struct {
	c06Base
	key *e2types.BLSPrivateKey
}

func (a *c06Local) PublicKey() e2types.PublicKey { return a.key.PublicKey() }
func (a *c06Local) Sign(_ context.Context, data []byte) (e2types.Signature, error) {
	if c06Refuse {
		return nil, errors.New("refused by the account")
	}
	if c06FailOnce > 0 {
		c06FailOnce--
		return nil, errors.New("transient failure of the account")
	}
	mc.Yield() // unlocking a key, a hardware signer: other requests may run before the data is read
	return a.key.Sign(data), nil
}

// c06Refuse makes every account refuse to sign (slashing protection, a locked account, a remote signer that
// is down) for as long as it is set.
var c06Refuse bool

// c06FailOnce makes the next signing attempt (of whichever account) fail; the one after it works again.
var c06FailOnce int

// c06Decline names one account for which a remote signer returns no signature in a batch request (as dirk does when
// its slashing protection denies one of several accounts): the batch succeeds, that account's entry is empty.
var c06Decline string

// c06RootSigner is the remote signer's side of an account: it is handed the object root and the domain.
type c06RootSigner interface {
	signRoot(root, domain []byte) (e2types.Signature, error)
}

func c06SigningData(root, domain []byte) ([]byte, error) {
	if len(root) != 32 {
		return nil, errors.New("data must be 32 bytes in length")
	}
	if len(domain) != 32 {
		return nil, errors.New("domain must be 32 bytes in length")
	}
	sd := &phase0.SigningData{}
	copy(sd.ObjectRoot[:], root)
	copy(sd.Domain[:], domain)
	r, err := sd.HashTreeRoot()
	if err != nil {
		return nil, err
	}
	return r[:], nil
}

func c06Root32(b []byte) (phase0.Root, error) {
	var r phase0.Root
	if len(b) != 32 {
		return r, errors.New("root must be 32 bytes in length")
	}
	copy(r[:], b)
	return r, nil
}

func c06SignProposal(s c06RootSigner, slot, proposerIndex uint64, parentRoot, stateRoot, bodyRoot, domain []byte) (e2types.Signature, error) {
	pr, err := c06Root32(parentRoot)
	if err != nil {
		return nil, err
	}
	sr, err := c06Root32(stateRoot)
	if err != nil {
		return nil, err
	}
	br, err := c06Root32(bodyRoot)
	if err != nil {
		return nil, err
	}
	h := &phase0.BeaconBlockHeader{Slot: phase0.Slot(slot), ProposerIndex: phase0.ValidatorIndex(proposerIndex), ParentRoot: pr, StateRoot: sr, BodyRoot: br}
	r, err := h.HashTreeRoot()
	if err != nil {
		return nil, err
	}
	return s.signRoot(r[:], domain)
}

func c06SignAttestation(s c06RootSigner, slot, committeeIndex uint64, blockRoot []byte, sourceEpoch uint64, sourceRoot []byte, targetEpoch uint64, targetRoot, domain []byte) (e2types.Signature, error) {
	br, err := c06Root32(blockRoot)
	if err != nil {
		return nil, err
	}
	sr, err := c06Root32(sourceRoot)
	if err != nil {
		return nil, err
	}
	tr, err := c06Root32(targetRoot)
	if err != nil {
		return nil, err
	}
	d := &phase0.AttestationData{Slot: phase0.Slot(slot), Index: phase0.CommitteeIndex(committeeIndex), BeaconBlockRoot: br,
		Source: &phase0.Checkpoint{Epoch: phase0.Epoch(sourceEpoch), Root: sr}, Target: &phase0.Checkpoint{Epoch: phase0.Epoch(targetEpoch), Root: tr}}
	r, err := d.HashTreeRoot()
	if err != nil {
		return nil, err
	}
	return s.signRoot(r[:], domain)
}

// c06Ordinary: ordinary account of a remote signer.
type c06Ordinary struct {
	c06Base
	key *e2types.BLSPrivateKey
}

func (a *c06Ordinary) PublicKey() e2types.PublicKey { return a.key.PublicKey() }
func (a *c06Ordinary) signRoot(root, domain []byte) (e2types.Signature, error) {
	if c06Refuse {
		return nil, errors.New("refused by the remote signer")
	}
	if c06FailOnce > 0 {
		c06FailOnce--
		return nil, errors.New("transient failure of the remote signer")
	}
	msg, err := c06SigningData(root, domain)
	if err != nil {
		return nil, err
	}
	return a.key.Sign(msg), nil
}
func (a *c06Ordinary) SignGeneric(_ context.Context, data, domain []byte) (e2types.Signature, error) {
	return a.signRoot(data, domain)
}
func (a *c06Ordinary) SignBeaconProposal(_ context.Context, slot, proposerIndex uint64, parentRoot, stateRoot, bodyRoot, domain []byte) (e2types.Signature, error) {
	return c06SignProposal(a, slot, proposerIndex, parentRoot, stateRoot, bodyRoot, domain)
}
func (a *c06Ordinary) SignBeaconAttestation(_ context.Context, slot, committeeIndex uint64, blockRoot []byte, sourceEpoch uint64, sourceRoot []byte, targetEpoch uint64, targetRoot, domain []byte) (e2types.Signature, error) {
	return c06SignAttestation(a, slot, committeeIndex, blockRoot, sourceEpoch, sourceRoot, targetEpoch, targetRoot, domain)
}
func (*c06Ordinary) SignBeaconAttestations(_ context.Context, slot uint64, accounts []e2wtypes.Account, committeeIndices []uint64, blockRoot []byte, sourceEpoch uint64, sourceRoot []byte, targetEpoch uint64, targetRoot, domain []byte) ([]e2types.Signature, error) {
	if len(committeeIndices) != len(accounts) {
		return nil, errors.New("number of committee indices does not match number of accounts")
	}
	sigs := make([]e2types.Signature, len(accounts))
	for i := range accounts {
		o, ok := accounts[i].(*c06Ordinary)
		if !ok {
			return nil, errors.New("non-account provided in list")
		}
		if c06Decline != "" && o.name == c06Decline {
			continue // the remote signer declines this account (its slashing protection): no signature for it, no error
		}
		var err error
		if sigs[i], err = c06SignAttestation(o, slot, committeeIndices[i], blockRoot, sourceEpoch, sourceRoot, targetEpoch, targetRoot, domain); err != nil {
			return nil, err
		}
	}
	return sigs, nil
}
func (*c06Ordinary) SignGenericMulti(_ context.Context, accounts []e2wtypes.Account, data [][]byte, domain []byte) ([]e2types.Signature, error) {
	if len(data) != len(accounts) {
		return nil, errors.New("number of data items does not match number of accounts")
	}
	sigs := make([]e2types.Signature, len(accounts))
	for i := range accounts {
		o, ok := accounts[i].(*c06Ordinary)
		if !ok {
			return nil, errors.New("account not of required type")
		}
		if c06Decline != "" && o.name == c06Decline {
			continue // the remote signer declines this account (its slashing protection): no signature for it, no error
		}
		var err error
		if sigs[i], err = o.signRoot(data[i], domain); err != nil {
			return nil, err
		}
	}
	return sigs, nil
}

// c06Distributed: distributed account of a remote signer cluster (3 participants, threshold 2).
type c06Distributed struct {
	c06Base
	ids       []bls.ID
	shares    []bls.SecretKey
	threshold uint32
	sharePub  e2types.PublicKey // key share of the first participant
	composite e2types.PublicKey
}

func (a *c06Distributed) PublicKey() e2types.PublicKey          { return a.sharePub }
func (a *c06Distributed) CompositePublicKey() e2types.PublicKey { return a.composite }
func (a *c06Distributed) SigningThreshold() uint32              { return a.threshold }
func (a *c06Distributed) Participants() map[uint64]string {
	return map[uint64]string{1: "signer-1:13141", 2: "signer-2:13141", 3: "signer-3:13141"}
}

// signRoot: each of the last `threshold` participants signs the signing root with its key share; the
// client recovers the composite signature (dirk: thresholdSign).
func (a *c06Distributed) signRoot(root, domain []byte) (e2types.Signature, error) {
	if c06Refuse {
		return nil, errors.New("refused by the remote signer")
	}
	if c06FailOnce > 0 {
		c06FailOnce--
		return nil, errors.New("transient failure of the remote signer")
	}
	msg, err := c06SigningData(root, domain)
	if err != nil {
		return nil, err
	}
	t := int(a.threshold)
	from := len(a.shares) - t
	sigs := make([]bls.Sign, t)
	for i := 0; i < t; i++ {
		sigs[i] = *a.shares[from+i].SignByte(msg)
	}
	var sig bls.Sign
	if err := sig.Recover(sigs, a.ids[from:]); err != nil {
		return nil, err
	}
	return e2types.BLSSignatureFromSig(sig)
}
func (a *c06Distributed) SignGeneric(_ context.Context, data, domain []byte) (e2types.Signature, error) {
	return a.signRoot(data, domain)
}
func (a *c06Distributed) SignBeaconProposal(_ context.Context, slot, proposerIndex uint64, parentRoot, stateRoot, bodyRoot, domain []byte) (e2types.Signature, error) {
	return c06SignProposal(a, slot, proposerIndex, parentRoot, stateRoot, bodyRoot, domain)
}
func (a *c06Distributed) SignBeaconAttestation(_ context.Context, slot, committeeIndex uint64, blockRoot []byte, sourceEpoch uint64, sourceRoot []byte, targetEpoch uint64, targetRoot, domain []byte) (e2types.Signature, error) {
	return c06SignAttestation(a, slot, committeeIndex, blockRoot, sourceEpoch, sourceRoot, targetEpoch, targetRoot, domain)
}
func (*c06Distributed) SignBeaconAttestations(_ context.Context, slot uint64, accounts []e2wtypes.Account, committeeIndices []uint64, blockRoot []byte, sourceEpoch uint64, sourceRoot []byte, targetEpoch uint64, targetRoot, domain []byte) ([]e2types.Signature, error) {
	if len(committeeIndices) != len(accounts) {
		return nil, errors.New("number of committee indices does not match number of accounts")
	}
	sigs := make([]e2types.Signature, len(accounts))
	for i := range accounts {
		d, ok := accounts[i].(*c06Distributed)
		if !ok {
			return nil, errors.New("non-distributed account provided in list")
		}
		if c06Decline != "" && d.name == c06Decline {
			continue // the remote signer declines this account: no signature for it, no error
		}
		var err error
		if sigs[i], err = c06SignAttestation(d, slot, committeeIndices[i], blockRoot, sourceEpoch, sourceRoot, targetEpoch, targetRoot, domain); err != nil {
			return nil, err
		}
	}
	return sigs, nil
}
func (*c06Distributed) SignGenericMulti(_ context.Context, accounts []e2wtypes.Account, data [][]byte, domain []byte) ([]e2types.Signature, error) {
	if len(data) != len(accounts) {
		return nil, errors.New("number of data items does not match number of accounts")
	}
	sigs := make([]e2types.Signature, len(accounts))
	for i := range accounts {
		d, ok := accounts[i].(*c06Distributed)
		if !ok {
			return nil, errors.New("account not of required type")
		}
		if c06Decline != "" && d.name == c06Decline {
			continue // the remote signer declines this account (its slashing protection): no signature for it, no error
		}
		var err error
		if sigs[i], err = d.signRoot(data[i], domain); err != nil {
			return nil, err
		}
	}
	return sigs, nil
}

var (
	_ e2wtypes.Account                      = (*c06Local)(nil)
	_ e2wtypes.AccountSigner                = (*c06Local)(nil)
	_ e2wtypes.Account                      = (*c06Ordinary)(nil)
	_ e2wtypes.AccountProtectingSigner      = (*c06Ordinary)(nil)
	_ e2wtypes.AccountProtectingMultiSigner = (*c06Ordinary)(nil)
	_ e2wtypes.Account                      = (*c06Distributed)(nil)
	_ e2wtypes.DistributedAccount           = (*c06Distributed)(nil)
	_ e2wtypes.AccountProtectingSigner      = (*c06Distributed)(nil)
	_ e2wtypes.AccountProtectingMultiSigner = (*c06Distributed)(nil)
)

// c06Acct is an account together with what the harness knows about it.
type c06Acct struct {
	kind  byte // 'L', 'O', 'D'
	label string
	acct  e2wtypes.Account
	pub   *bls.PublicKey   // the validator key: the key the signature has to verify under
	pub48 phase0.BLSPubKey // the same, serialised
}

const c06MaxBatch = 4

// c06Ring holds the key material; it is immutable after c06Setup and shared by all executions.
var c06Ring map[byte][]*c06Acct

func c06Secret(tag, n, j byte) bls.SecretKey {
	b := make([]byte, 32) // big-endian scalar, far below the group order
	b[0] = 0x01
	b[1] = tag
	b[2] = n
	b[3] = j
	for i := 4; i < 32; i++ {
		b[i] = byte(i)*37 + tag + 11*n + 5*j
	}
	var sk bls.SecretKey
	must(sk.Deserialize(b))
	return sk
}

func c06Setup() {
	if c06Ring != nil {
		return
	}
	must(e2types.InitBLS())
	ring := map[byte][]*c06Acct{}
	mk := func(kind byte, n int, acct e2wtypes.Account, pub *bls.PublicKey) {
		a := &c06Acct{kind: kind, label: fmt.Sprintf("%c%d", kind, n), acct: acct, pub: pub}
		copy(a.pub48[:], pub.Serialize())
		ring[kind] = append(ring[kind], a)
	}
	for n := 0; n < c06MaxBatch; n++ {
		for _, kind := range []byte{'L', 'O'} {
			sk := c06Secret(kind, byte(n), 0)
			key, err := e2types.BLSPrivateKeyFromBytes(sk.Serialize())
			must(err)
			base := c06Base{id: uuid.NewSHA1(uuid.Nil, []byte(fmt.Sprintf("c06-%c%d", kind, n))), name: fmt.Sprintf("%c%d", kind, n)}
			if kind == 'L' {
				mk(kind, n, &c06Local{c06Base: base, key: key}, sk.GetPublicKey())
			} else {
				mk(kind, n, &c06Ordinary{c06Base: base, key: key}, sk.GetPublicKey())
			}
		}
		// distributed: polynomial of degree threshold-1 with the composite secret as constant term;
		// participant p holds the evaluation at p.
		const threshold, participants = 2, 3
		msk := make([]bls.SecretKey, threshold)
		for j := range msk {
			msk[j] = c06Secret('D', byte(n), byte(j))
		}
		d := &c06Distributed{c06Base: c06Base{id: uuid.NewSHA1(uuid.Nil, []byte(fmt.Sprintf("c06-D%d", n))), name: fmt.Sprintf("D%d", n)}, threshold: threshold}
		for p := 1; p <= participants; p++ {
			var id bls.ID
			buf := [8]byte{}
			binary.LittleEndian.PutUint64(buf[:], uint64(p))
			must(id.SetLittleEndian(buf[:]))
			var share bls.SecretKey
			must(share.Set(msk, &id))
			d.ids = append(d.ids, id)
			d.shares = append(d.shares, share)
		}
		sp, err := e2types.BLSPublicKeyFromBytes(d.shares[0].GetPublicKey().Serialize())
		must(err)
		cp, err := e2types.BLSPublicKeyFromBytes(msk[0].GetPublicKey().Serialize())
		must(err)
		d.sharePub, d.composite = sp, cp
		mk('D', n, d, msk[0].GetPublicKey())
	}
	c06SelfTest(ring)
	c06Ring = ring
}

// c06SelfTest checks the harness's own reference and stand-ins against known answers, so that a broken
// harness ends the run (exit 2) instead of producing verdicts.
func c06SelfTest(ring map[byte][]*c06Acct) {
	fail := func(f string, a ...any) { panic("C06 harness self-test: " + fmt.Sprintf(f, a...)) }
	// 1. BLS: "sign" case of the consensus-spec BLS test vectors.
	skb, _ := hex.DecodeString("263dbd792f5b1be47ed85f8938c0f29586af0d3ac7b977f21c278fe1462040e3")
	msg := bytes.Repeat([]byte{0x56}, 32)
	want, _ := hex.DecodeString("882730e5d03f6b42c3abc26d3372625034e1d871b65a8a6b900a56dae22da98abbe1b68f85e49fe7652a55ec3d0591c20767677e33e5cbb1207315c41a9ac03be39c2e7668edc043d6cb1d9fd93033caa8a1c5b0e84bedaeb6c64972503a43eb")
	var sk bls.SecretKey
	must(sk.Deserialize(skb))
	var sig bls.Sign
	must(sig.Deserialize(want))
	if !c06Verify(&sig, sk.GetPublicKey(), msg) || c06Verify(&sig, sk.GetPublicKey(), bytes.Repeat([]byte{0x57}, 32)) {
		fail("BLS verification does not reproduce the consensus-spec test vector")
	}
	key, err := e2types.BLSPrivateKeyFromBytes(skb)
	must(err)
	if !bytes.Equal(key.Sign(msg).Marshal(), want) {
		fail("BLS signing does not reproduce the consensus-spec test vector")
	}
	// 2. compute_domain: the well-known mainnet deposit domain (version 0, zero root).
	if d := c06RefDomain(phase0.DomainType{3, 0, 0, 0}, phase0.Version{}, phase0.Root{}); hex.EncodeToString(d[:]) != "03000000f5a5fd42d16a20302798ef6ed309979b43003d2320d9f0e8ea9831a9" {
		fail("compute_domain reference wrong: %x", d[:])
	}
	// 3. the provider stand-in (SSZ library) and the reference (plain sha256) agree with each other.
	for _, dn := range c06DomainNames {
		for _, v := range []phase0.Version{c06V0, c06V1, c06V2} {
			gvr := c06GVR
			if dn.t == c06DomBuilder {
				gvr = phase0.Root{}
			}
			pd, err := c06ProviderDomain(dn.t, v)
			must(err)
			if pd != c06RefDomain(dn.t, v, gvr) {
				fail("domain provider stand-in and reference disagree for %s", dn.n)
			}
		}
	}
	sd, err := c06SigningData(c06GVR[:], bytes.Repeat([]byte{7}, 32))
	must(err)
	var d7 phase0.Domain
	copy(d7[:], bytes.Repeat([]byte{7}, 32))
	if !bytes.Equal(sd, c06RefSigningRoot(c06GVR, d7)) {
		fail("SigningData root of the stand-in accounts and the reference disagree")
	}
	// 4. every stand-in account signs so that its validator key verifies; a distributed account's
	// threshold signature equals the signature of the composite secret and does not verify under a share.
	for _, kind := range []byte{'L', 'O', 'D'} {
		for _, a := range ring[kind] {
			var s e2types.Signature
			switch x := a.acct.(type) {
			case *c06Local:
				s, err = x.Sign(context.Background(), c06RefSigningRoot(c06GVR, d7))
			case c06RootSigner:
				s, err = x.signRoot(c06GVR[:], d7[:])
			}
			must(err)
			var bs bls.Sign
			must(bs.Deserialize(s.Marshal()))
			if !c06Verify(&bs, a.pub, c06RefSigningRoot(c06GVR, d7)) {
				fail("account %s does not sign for its validator key", a.label)
			}
			if x, ok := a.acct.(*c06Distributed); ok {
				var share bls.PublicKey
				must(share.Deserialize(x.PublicKey().Marshal()))
				if c06Verify(&bs, &share, c06RefSigningRoot(c06GVR, d7)) || bytes.Equal(x.PublicKey().Marshal(), x.CompositePublicKey().Marshal()) {
					fail("distributed account %s: share key and composite key are not distinct", a.label)
				}
			}
		}
	}
}

// ---------------------------------------------------------------------------------------------------
// Requests.

type c06Req struct {
	ep       string
	desc     string // the request, written out
	accts    []*c06Acct
	roots    []phase0.Root     // reference object roots, one per account
	domType  phase0.DomainType // reference domain type of the duty
	builder  bool              // builder domain: genesis fork version, zero genesis validators root
	epoch    phase0.Epoch      // the duty's epoch
	sigs     []phase0.BLSSignature
	err      error
	asked    []string
	done     bool
	history  string
	refused  bool // every account refused to sign during the judged request
	failOnce bool // the first signing attempt of the judged request fails, later ones work
	decline  int  // 1 + index of the one account the remote signer declines in the judged batch request (0: none)
	batch    bool
	specGap  bool // the beacon node's spec does not list the domain type of this duty (builder domain only)
}

func (rq *c06Req) domain() phase0.Domain {
	if rq.builder {
		return c06RefDomain(rq.domType, c06V0, phase0.Root{})
	}
	return c06RefDomain(rq.domType, c06RefVersion(rq.epoch), c06GVR)
}

func c06Labels(as []*c06Acct) string {
	l := make([]string, len(as))
	for i, a := range as {
		l[i] = a.label
	}
	return "[" + strings.Join(l, " ") + "]"
}

func c06E2(as []*c06Acct) []e2wtypes.Account {
	out := make([]e2wtypes.Account, len(as))
	for i, a := range as {
		out[i] = a.acct
	}
	return out
}

// c06RootSet returns one of two sets of three distinct roots.
func c06RootSet(variant int) (a, b, c phase0.Root) {
	if variant == 0 {
		return root(0x11), root(0x12), root(0x13)
	}
	a, b, c = root(0xe1), root(0xe2), root(0xe3)
	for i := 1; i < 31; i++ {
		a[i], b[i], c[i] = 0xff, byte(i), byte(255-i)
	}
	return a, b, c
}

func c06Sig(b byte) phase0.BLSSignature {
	var s phase0.BLSSignature
	for i := range s {
		s[i] = b + byte(i)
	}
	return s
}

// c06Fixed makes c06Pick take the first value (used for the history request, whose content is irrelevant).
var c06Fixed bool

func c06Pick[T any](vals ...T) T {
	if c06Fixed {
		return vals[0]
	}
	return vals[mc.Choose(len(vals))]
}

// sourceEpoch picks a source epoch before the target epoch (clamped at genesis).
func c06SourceEpoch(target phase0.Epoch) phase0.Epoch {
	back := phase0.Epoch(c06Pick(1, 3))
	if back > target {
		back = target
	}
	return target - back
}

type c06EP struct {
	name    string
	batch   bool
	slotted bool
	// perPos: the messages of a batch differ per position by caller-supplied fields, so the same account
	// may legitimately appear more than once (one validator in several sync subcommittees).
	perPos bool
	run    func(ctx context.Context, svc *standardsigner.Service, slot phase0.Slot, accts []*c06Acct, rq *c06Req)
}

var c06EPs = []c06EP{
	{name: "attestation", slotted: true, run: func(ctx context.Context, svc *standardsigner.Service, slot phase0.Slot, accts []*c06Acct, rq *c06Req) {
		epoch := phase0.Epoch(slot / c06SlotsPerEpoch)
		ci := c06Pick[phase0.CommitteeIndex](0, 63)
		br, sr, tr := c06RootSet(mc.Choose(2))
		se := c06SourceEpoch(epoch)
		data := &phase0.AttestationData{Slot: slot, Index: ci, BeaconBlockRoot: br, Source: &phase0.Checkpoint{Epoch: se, Root: sr}, Target: &phase0.Checkpoint{Epoch: epoch, Root: tr}}
		r, err := data.HashTreeRoot()
		must(err)
		rq.roots, rq.domType, rq.epoch = []phase0.Root{r}, c06DomAttester, data.Target.Epoch
		rq.desc = fmt.Sprintf("SignBeaconAttestation(%s, slot %d, committee %d, block %#x.., source %d/%#x.., target %d/%#x..)", accts[0].label, slot, ci, br[:2], se, sr[:2], epoch, tr[:2])
		sig, err := svc.SignBeaconAttestation(ctx, accts[0].acct, slot, ci, br, se, sr, epoch, tr)
		rq.sigs, rq.err = []phase0.BLSSignature{sig}, err
	}},
	{name: "attestations", batch: true, slotted: true, run: func(ctx context.Context, svc *standardsigner.Service, slot phase0.Slot, accts []*c06Acct, rq *c06Req) {
		epoch := phase0.Epoch(slot / c06SlotsPerEpoch)
		br, sr, tr := c06RootSet(mc.Choose(2))
		se := c06SourceEpoch(epoch)
		cis := make([]phase0.CommitteeIndex, len(accts))
		for i := range accts {
			cis[i] = c06Pick[phase0.CommitteeIndex](0, 63)
			data := &phase0.AttestationData{Slot: slot, Index: cis[i], BeaconBlockRoot: br, Source: &phase0.Checkpoint{Epoch: se, Root: sr}, Target: &phase0.Checkpoint{Epoch: epoch, Root: tr}}
			r, err := data.HashTreeRoot()
			must(err)
			rq.roots = append(rq.roots, r)
		}
		rq.domType, rq.epoch = c06DomAttester, epoch
		rq.desc = fmt.Sprintf("SignBeaconAttestations(%s, slot %d, committees %v, block %#x.., source %d/%#x.., target %d/%#x..)", c06Labels(accts), slot, cis, br[:2], se, sr[:2], epoch, tr[:2])
		rq.sigs, rq.err = svc.SignBeaconAttestations(ctx, c06E2(accts), slot, cis, br, se, sr, epoch, tr)
	}},
	{name: "proposal", slotted: true, run: func(ctx context.Context, svc *standardsigner.Service, slot phase0.Slot, accts []*c06Acct, rq *c06Req) {
		pi := c06Pick[phase0.ValidatorIndex](1, 1<<40+7)
		pr, sr, br := c06RootSet(mc.Choose(2))
		h := &phase0.BeaconBlockHeader{Slot: slot, ProposerIndex: pi, ParentRoot: pr, StateRoot: sr, BodyRoot: br}
		r, err := h.HashTreeRoot()
		must(err)
		rq.roots, rq.domType, rq.epoch = []phase0.Root{r}, c06DomProposer, phase0.Epoch(slot/c06SlotsPerEpoch)
		rq.desc = fmt.Sprintf("SignBeaconBlockProposal(%s, slot %d, proposer %d, parent %#x.., state %#x.., body %#x..)", accts[0].label, slot, pi, pr[:2], sr[:2], br[:2])
		sig, err := svc.SignBeaconBlockProposal(ctx, accts[0].acct, slot, pi, pr, sr, br)
		rq.sigs, rq.err = []phase0.BLSSignature{sig}, err
	}},
	{name: "randao", slotted: true, run: func(ctx context.Context, svc *standardsigner.Service, slot phase0.Slot, accts []*c06Acct, rq *c06Req) {
		epoch := phase0.Epoch(slot / c06SlotsPerEpoch)
		rq.roots, rq.domType, rq.epoch = []phase0.Root{c06Uint64Root(uint64(epoch))}, c06DomRandao, epoch
		rq.desc = fmt.Sprintf("SignRANDAOReveal(%s, slot %d)", accts[0].label, slot)
		sig, err := svc.SignRANDAOReveal(ctx, accts[0].acct, slot)
		rq.sigs, rq.err = []phase0.BLSSignature{sig}, err
	}},
	{name: "slot-selection", batch: true, slotted: true, run: func(ctx context.Context, svc *standardsigner.Service, slot phase0.Slot, accts []*c06Acct, rq *c06Req) {
		for range accts {
			rq.roots = append(rq.roots, c06Uint64Root(uint64(slot)))
		}
		rq.domType, rq.epoch = c06DomSelection, phase0.Epoch(slot/c06SlotsPerEpoch)
		rq.desc = fmt.Sprintf("SignSlotSelections(%s, slot %d)", c06Labels(accts), slot)
		rq.sigs, rq.err = svc.SignSlotSelections(ctx, c06E2(accts), slot)
	}},
	{name: "sync-selection", batch: true, slotted: true, perPos: true, run: func(ctx context.Context, svc *standardsigner.Service, slot phase0.Slot, accts []*c06Acct, rq *c06Req) {
		idx := make([]uint64, len(accts))
		for i := range accts {
			idx[i] = c06Pick[uint64](0, 3)
			r, err := (&altair.SyncAggregatorSelectionData{Slot: slot, SubcommitteeIndex: idx[i]}).HashTreeRoot()
			must(err)
			rq.roots = append(rq.roots, r)
		}
		rq.domType, rq.epoch = c06DomSyncSel, phase0.Epoch(slot/c06SlotsPerEpoch)
		rq.desc = fmt.Sprintf("SignSyncCommitteeSelections(%s, slot %d, subcommittees %v)", c06Labels(accts), slot, idx)
		rq.sigs, rq.err = svc.SignSyncCommitteeSelections(ctx, c06E2(accts), slot, idx)
	}},
	{name: "aggregate-and-proof", slotted: true, run: func(ctx context.Context, svc *standardsigner.Service, slot phase0.Slot, accts []*c06Acct, rq *c06Req) {
		epoch := phase0.Epoch(slot / c06SlotsPerEpoch)
		ai := c06Pick[phase0.ValidatorIndex](0, 1<<33+1)
		br, sr, tr := c06RootSet(mc.Choose(2))
		bits := bitfield.NewBitlist(9)
		bits.SetBitAt(2, true)
		bits.SetBitAt(8, true)
		ap := &phase0.AggregateAndProof{AggregatorIndex: ai, SelectionProof: c06Sig(0x30),
			Aggregate: &phase0.Attestation{AggregationBits: bits, Signature: c06Sig(0x60),
				Data: &phase0.AttestationData{Slot: slot, Index: 5, BeaconBlockRoot: br, Source: &phase0.Checkpoint{Epoch: epoch - min(epoch, 1), Root: sr}, Target: &phase0.Checkpoint{Epoch: epoch, Root: tr}}}}
		r, err := ap.HashTreeRoot()
		must(err)
		rq.roots, rq.domType, rq.epoch = []phase0.Root{r}, c06DomAggregate, phase0.Epoch(ap.Aggregate.Data.Slot/c06SlotsPerEpoch)
		rq.desc = fmt.Sprintf("SignAggregateAndProof(%s, slot %d, root of AggregateAndProof{aggregator %d, data roots %#x..})", accts[0].label, slot, ai, br[:2])
		sig, err := svc.SignAggregateAndProof(ctx, accts[0].acct, slot, r)
		rq.sigs, rq.err = []phase0.BLSSignature{sig}, err
	}},
	{name: "sync-message", batch: true, slotted: true, run: func(ctx context.Context, svc *standardsigner.Service, slot phase0.Slot, accts []*c06Acct, rq *c06Req) {
		epoch := phase0.Epoch(slot / c06SlotsPerEpoch)
		br, _, _ := c06RootSet(mc.Choose(2))
		for range accts {
			rq.roots = append(rq.roots, br) // hash_tree_root(Root) is the root itself
		}
		rq.domType, rq.epoch = c06DomSyncComm, epoch
		rq.desc = fmt.Sprintf("SignSyncCommitteeRoots(%s, epoch %d (slot %d), block root %#x..)", c06Labels(accts), epoch, slot, br[:2])
		rq.sigs, rq.err = svc.SignSyncCommitteeRoots(ctx, c06E2(accts), epoch, br)
	}},
	{name: "contribution-and-proof", batch: true, slotted: true, perPos: true, run: func(ctx context.Context, svc *standardsigner.Service, slot phase0.Slot, accts []*c06Acct, rq *c06Req) {
		br, _, _ := c06RootSet(mc.Choose(2))
		caps := make([]*altair.ContributionAndProof, len(accts))
		idx := make([]uint64, len(accts))
		for i, a := range accts {
			idx[i] = c06Pick[uint64](0, 3)
			bits := bitfield.NewBitvector128()
			bits.SetBitAt(uint64(i), true)
			bits.SetBitAt(127, true)
			// the aggregator index belongs to the validator, not to the position
			ai := phase0.ValidatorIndex(1000 + 100*uint64(a.kind) + uint64(a.label[1]-'0'))
			caps[i] = &altair.ContributionAndProof{AggregatorIndex: ai, SelectionProof: c06Sig(byte(0x20 + i)),
				Contribution: &altair.SyncCommitteeContribution{Slot: slot, BeaconBlockRoot: br, SubcommitteeIndex: idx[i], AggregationBits: bits, Signature: c06Sig(byte(0x80 + i))}}
			r, err := caps[i].HashTreeRoot()
			must(err)
			rq.roots = append(rq.roots, r)
		}
		rq.domType, rq.epoch = c06DomContribution, phase0.Epoch(caps[0].Contribution.Slot/c06SlotsPerEpoch)
		rq.desc = fmt.Sprintf("SignContributionAndProofs(%s, contributions at slot %d, subcommittees %v, block root %#x..)", c06Labels(accts), slot, idx, br[:2])
		rq.sigs, rq.err = svc.SignContributionAndProofs(ctx, c06E2(accts), caps)
	}},
	{name: "registration", run: func(ctx context.Context, svc *standardsigner.Service, _ phase0.Slot, accts []*c06Acct, rq *c06Req) {
		fee := bellatrix.ExecutionAddress{0xfe, 0xe0, 0x01}
		if mc.Choose(2) == 1 {
			for i := range fee {
				fee[i] = byte(0xa0 + i)
			}
		}
		gas := c06Pick[uint64](30_000_000, 36_000_000)
		ts := c06Pick(time.Unix(1_700_000_000, 0), time.Unix(1_700_000_012, 0))
		reg := &builderapiv1.ValidatorRegistration{FeeRecipient: fee, GasLimit: gas, Timestamp: ts, Pubkey: accts[0].pub48}
		r, err := reg.HashTreeRoot()
		must(err)
		rq.roots, rq.domType, rq.builder = []phase0.Root{r}, c06DomBuilder, true
		rq.desc = fmt.Sprintf("SignValidatorRegistration(%s, V1{fee recipient %#x.., gas limit %d, timestamp %d, pubkey of %s})", accts[0].label, fee[:2], gas, ts.Unix(), accts[0].label)
		sig, err := svc.SignValidatorRegistration(ctx, accts[0].acct, &builderapi.VersionedValidatorRegistration{Version: builderspec.BuilderVersionV1, V1: reg})
		rq.sigs, rq.err = []phase0.BLSSignature{sig}, err
	}},
}

// c06Judge is the oracle.  It returns the finding clause and message, or "" if the property holds.
func c06Judge(rq *c06Req) (clause, msg string) {
	if rq.refused {
		// nothing was signed: no signature can be returned.  A single-account request must fail; a batch
		// request may instead return empty signatures for the accounts that did not sign
		if rq.err != nil {
			return "", ""
		}
		for i, sg := range rq.sigs {
			if sg != (phase0.BLSSignature{}) {
				return "signature-from-refusing-account", fmt.Sprintf("signature %d is not empty although the account refused to sign", i)
			}
		}
		if !rq.batch {
			return "refusal-reported-as-success", "the account refused to sign but the request reported success (with an empty signature, which verifies under no key)"
		}
		return "", ""
	}
	if rq.err != nil && (rq.specGap || rq.failOnce) {
		return "", "" // refusing to sign without the domain type is fine; so is reporting the failed attempt
	}
	if rq.err != nil {
		return "request-failed", fmt.Sprintf("no signature returned although every account and the domain provider work: %v", rq.err)
	}
	if len(rq.sigs) != len(rq.accts) {
		return "signature-count", fmt.Sprintf("%d signatures returned for %d accounts", len(rq.sigs), len(rq.accts))
	}
	dom := rq.domain()
	for i, a := range rq.accts {
		what := fmt.Sprintf("signature %d (account %s)", i, a.label)
		if rq.decline > 0 && a.acct.Name() == rq.accts[rq.decline-1].acct.Name() {
			// nothing was signed for this account: its entry is empty
			if rq.sigs[i] != (phase0.BLSSignature{}) {
				return "signature-for-declined-account", what + " is not empty although the remote signer declined that account"
			}
			continue
		}
		var sig bls.Sign
		decErr := sig.Deserialize(rq.sigs[i][:])
		if decErr == nil && c06Verify(&sig, a.pub, c06RefSigningRoot(rq.roots[i], dom)) {
			continue
		}
		if rq.failOnce && rq.batch && rq.sigs[i] == (phase0.BLSSignature{}) {
			continue // the account whose attempt failed has no signature: fine in a batch
		}
		// The property is violated at position i; find out how, for a stable and useful finding key.
		for k := range rq.accts {
			var other bls.Sign
			if k != i && other.Deserialize(rq.sigs[k][:]) == nil && c06Verify(&other, a.pub, c06RefSigningRoot(rq.roots[i], dom)) {
				return "signature-misassigned", fmt.Sprintf("%s is not the signature of message %d by that account; that signature was returned at position %d", what, i, k)
			}
		}
		if rq.sigs[i] == (phase0.BLSSignature{}) {
			return "signature-missing", what + " is all zero"
		}
		if decErr != nil {
			return "signature-undecodable", what + " is not a BLS signature"
		}
		where := fmt.Sprintf("%s does not verify under the account's validator key over the signing root of message %d with domain %s",
			what, i, c06DescribeDomain(rq))
		for j, b := range rq.accts {
			if j != i && c06Verify(&sig, b.pub, c06RefSigningRoot(rq.roots[j], dom)) {
				return "signature-misassigned", fmt.Sprintf("%s; it is the correct signature for position %d (account %s)", where, j, b.label)
			}
		}
		for j, b := range rq.accts {
			if j != i && rq.roots[j] != rq.roots[i] && c06Verify(&sig, a.pub, c06RefSigningRoot(rq.roots[j], dom)) {
				return "message-misassigned", fmt.Sprintf("%s; it is this account's signature over the message of position %d", where, j)
			}
			if j != i && b != a && c06Verify(&sig, b.pub, c06RefSigningRoot(rq.roots[i], dom)) {
				return "account-misassigned", fmt.Sprintf("%s; it is the signature of account %s (position %d) over this message", where, b.label, j)
			}
		}
		for _, dn := range c06DomainNames {
			for _, v := range []phase0.Version{c06V0, c06V1, c06V2} {
				for _, gvr := range []phase0.Root{c06GVR, {}} {
					d := c06RefDomain(dn.t, v, gvr)
					if d == dom || !c06Verify(&sig, a.pub, c06RefSigningRoot(rq.roots[i], d)) {
						continue
					}
					clause := "wrong-domain"
					switch {
					case dn.t != rq.domType:
						clause = "wrong-domain-type"
					case v != c06WantVersion(rq):
						clause = "wrong-fork-version"
					case gvr != c06WantGVR(rq):
						clause = "wrong-genesis-validators-root"
					}
					return clause, fmt.Sprintf("%s; it is a signature of the right message with domain (%s, fork version %#x, genesis validators root %#x..)", where, dn.n, v[:], gvr[:2])
				}
			}
		}
		if c06Verify(&sig, a.pub, rq.roots[i][:]) {
			return "no-signing-data-container", where + "; it signs the object root directly"
		}
		return "wrong-signing-root", where
	}
	return "", ""
}

func c06WantVersion(rq *c06Req) phase0.Version {
	if rq.builder {
		return c06V0
	}
	return c06RefVersion(rq.epoch)
}

func c06WantGVR(rq *c06Req) phase0.Root {
	if rq.builder {
		return phase0.Root{}
	}
	return c06GVR
}

func c06DescribeDomain(rq *c06Req) string {
	t := rq.domType
	if rq.builder {
		return fmt.Sprintf("(%s, genesis fork version %#x, zero genesis validators root)", c06DomainName(t), c06V0[:])
	}
	v := c06RefVersion(rq.epoch)
	return fmt.Sprintf("(%s, fork version %#x of epoch %d)", c06DomainName(t), v[:], rq.epoch)
}

// ---------------------------------------------------------------------------------------------------
// Units.

func c06Units(tier string) []hx.Unit {
	c06Setup()
	maxLen := 3
	// epoch boundary 8|9 at slots 71|72 (same fork), fork boundary 9|10 at slots 79|80
	slots := []phase0.Slot{71, 72, 79, 80}
	if tier == "thorough" {
		maxLen = 4
		slots = []phase0.Slot{0, 7, 8, 71, 72, 79, 80, 87}
	}
	var units []hx.Unit
	for e := range c06EPs {
		ep := c06EPs[e]
		epSlots := slots
		if !ep.slotted {
			epSlots = []phase0.Slot{0}
		}
		for _, first := range []byte{'O', 'D', 'L'} {
			for _, slot := range epSlots {
				first, slot := first, slot
				rq := &c06Req{}
				name := fmt.Sprintf("C06/%s/first-%c", ep.name, first)
				if ep.slotted {
					name += fmt.Sprintf("/slot-%d", slot)
				}
				if ep.batch {
					name += fmt.Sprintf("/len<=%d", maxLen)
				}
				u := hx.Unit{Name: name, Cfg: mc.Config{Fixed: true}, Bound: 0}
				u.Body = func() {
					*rq = c06Req{ep: ep.name}
					// the batch: account kinds per position
					kinds := []byte{first}
					if ep.batch {
						if first == 'L' {
							// local wallets: homogeneous batches
							for n := mc.Choose(maxLen); n > 0; n-- {
								kinds = append(kinds, 'L')
							}
						} else {
							for len(kinds) < maxLen {
								k := mc.Choose(3) // 0: batch ends here
								if k == 0 {
									break
								}
								kinds = append(kinds, "_OD"[k])
							}
						}
					}
					// which account at each position: a fresh one per position, or (where one validator
					// can have several messages in one request) one account per kind
					repeated := false
					for i, k := range kinds {
						repeated = repeated || bytes.IndexByte(kinds[:i], k) >= 0
					}
					reuse := ep.perPos && repeated && mc.Choose(2) == 1
					used := map[byte]int{}
					for _, k := range kinds {
						n := 0
						if !reuse {
							n = used[k]
							used[k]++
						}
						rq.accts = append(rq.accts, c06Ring[k][n])
					}
					dp := &c06Domains{}
					specMap := baseSpec(12*time.Second, c06SlotsPerEpoch)
					if ep.name == "registration" && mc.Choose(2) == 1 {
						// a beacon node whose spec does not list the builder domain type (it is not part of the
						// consensus spec): the signer may refuse registrations, it must not sign over another domain
						delete(specMap, "DOMAIN_APPLICATION_BUILDER")
						rq.specGap = true
					}
					svc, err := standardsigner.New(context.Background(),
						standardsigner.WithLogLevel(zerolog.Disabled),
						standardsigner.WithMonitor(nullmetrics.New()),
						standardsigner.WithClientMonitor(nullmetrics.New()),
						standardsigner.WithSpecProvider(&specProvider{m: specMap}),
						standardsigner.WithDomainProvider(dp),
					)
					must(err)
					// history: the same signer instance may already have signed this kind of duty on the other
					// (or the same) side of the fork boundary; what it signs now must not depend on that
					// ... nor on an earlier request of this kind that failed because the beacon node could not be asked
					// for the domain
					hist := []string{"none", "domain-failed"}
					if ep.slotted {
						hist = []string{"none", "slot79", "slot80", "domain-failed"}
					}
					switch h := hist[mc.Choose(len(hist))]; h {
					case "slot79", "slot80":
						ws := map[string]phase0.Slot{"slot79": 79, "slot80": 80}[h]
						warm := &c06Req{ep: ep.name}
						c06Fixed = true
						ep.run(context.Background(), svc, ws, rq.accts, warm)
						c06Fixed = false
						rq.history = fmt.Sprintf(" (after a %s request at slot %d on the same signer)", ep.name, ws)
						dp.asked = nil
					case "domain-failed":
						warm := &c06Req{ep: ep.name}
						dp.fail = true
						c06Fixed = true
						ep.run(context.Background(), svc, slot, rq.accts, warm)
						c06Fixed = false
						dp.fail = false
						rq.history = fmt.Sprintf(" (after a %s request on the same signer that failed because the domain could not be obtained)", ep.name)
						dp.asked = nil
					}
					// the accounts may refuse the judged request (slashing protection, locked account, signer down)
					rq.refused, rq.batch = mc.Choose(2) == 1, ep.batch
					c06Refuse = rq.refused
					// ... or, in a batch of remote accounts, the signer may decline exactly one of them (any but the last)
					rq.decline = 0
					c06Decline = ""
					if ep.batch && !rq.refused && len(rq.accts) >= 2 {
						if k := mc.Choose(len(rq.accts)) - 1; k >= 0 && rq.accts[k].kind != 'L' {
							rq.decline = k + 1
							c06Decline = rq.accts[k].acct.Name()
						}
					}
					// ... or the first signing attempt may fail once (a signer that is briefly unavailable)
					if !rq.refused && rq.decline == 0 && mc.Choose(2) == 1 {
						rq.failOnce = true
						c06FailOnce = 1
					}
					ep.run(context.Background(), svc, slot, rq.accts, rq)
					c06Refuse = false
					c06Decline = ""
					c06FailOnce = 0
					if rq.failOnce {
						rq.desc += " (the first signing attempt fails, later ones work)"
					}
					if rq.decline > 0 {
						rq.desc += fmt.Sprintf(" (the remote signer declines account %d, %s)", rq.decline-1, rq.accts[rq.decline-1].label)
					}
					if rq.refused {
						rq.desc += " (every account refuses to sign)"
					}
					if rq.specGap {
						rq.desc += " (the beacon node's spec lacks DOMAIN_APPLICATION_BUILDER)"
					}
					rq.desc += rq.history
					rq.asked = dp.asked
					rq.done = true
				}
				u.Check = func(r *mc.Result) mc.Verdict {
					mixed := false
					for _, a := range rq.accts {
						if a.kind != rq.accts[0].kind {
							mixed = true
						}
					}
					class := "single-" + string(first)
					if ep.batch {
						class = "batch-" + string(first)
						if mixed {
							class = "batch-mixed"
						}
					}
					side := ""
					if ep.slotted {
						side = "/fork-v1"
						if phase0.Epoch(slot/c06SlotsPerEpoch) >= c06ForkEpoch {
							side = "/fork-v2"
						}
					}
					boundary := ep.slotted && (slot%c06SlotsPerEpoch == 0 || phase0.Epoch(slot/c06SlotsPerEpoch) >= c06ForkEpoch)
					v := mc.Verdict{Outcome: ep.name + "/" + class + side, Nontrivial: mixed || boundary, Sample: rq.desc}
					if r.Panic != "" {
						v.Violation, v.Key = fmt.Sprintf("panic in %s: %s", rq.desc, firstLine(r.Panic)), "C06/"+ep.name+"/panic"
						return v
					}
					if !rq.done {
						v.Violation, v.Key = "the request did not complete: "+rq.desc, "C06/"+ep.name+"/incomplete"
						return v
					}
					if clause, msg := c06Judge(rq); clause != "" {
						v.Violation = fmt.Sprintf("%s: %s; vouch asked the domain provider for %s", rq.desc, msg, strings.Join(rq.asked, ", "))
						v.Key = "C06/" + ep.name + "/" + clause
					}
					return v
				}
				units = append(units, u)
			}
		}
	}
	// two requests at the same time on one signer instance (two duty jobs of one slot), local accounts, under
	// every interleaving with one preemption: each signature is over its own request's signing root
	for _, pair := range [][2]string{{"randao", "randao"}, {"randao", "aggregate-and-proof"}, {"proposal", "registration"},
		{"slot-selection", "sync-message"}, {"slot-selection", "slot-selection"}, {"sync-selection", "contribution-and-proof"}} {
		pair := pair
		rqs := [2]*c06Req{{}, {}}
		var eps [2]*c06EP
		for i := range eps {
			for k := range c06EPs {
				if c06EPs[k].name == pair[i] {
					eps[i] = &c06EPs[k]
				}
			}
		}
		if eps[0] == nil || eps[1] == nil {
			panic("c06: unknown entry point in " + pair[0] + "+" + pair[1])
		}
		u := hx.Unit{Name: "C06/concurrent/" + pair[0] + "+" + pair[1], Cfg: mc.Config{Horizon: int64(time.Minute)}, Bound: 1}
		if tier == "thorough" {
			u.Bound = 2
		}
		u.Body = func() {
			dp := &c06Domains{yield: true}
			svc, err := standardsigner.New(context.Background(), standardsigner.WithLogLevel(zerolog.Disabled), standardsigner.WithMonitor(nullmetrics.New()), standardsigner.WithClientMonitor(nullmetrics.New()),
				standardsigner.WithSpecProvider(&specProvider{m: baseSpec(12*time.Second, c06SlotsPerEpoch)}), standardsigner.WithDomainProvider(dp))
			must(err)
			done := make(chan struct{}, 2)
			c06Fixed = true
			for i := 0; i < 2; i++ {
				i := i
				*rqs[i] = c06Req{ep: eps[i].name}
				rqs[i].accts = []*c06Acct{c06Ring['L'][i]}
				mc.Go(func() {
					eps[i].run(context.Background(), svc, 72, rqs[i].accts, rqs[i])
					rqs[i].done = true
					mc.Send(done, struct{}{})
				})
			}
			mc.Recv(done)
			mc.Recv(done)
			c06Fixed = false
		}
		u.Check = func(r *mc.Result) mc.Verdict {
			v := mc.Verdict{Outcome: "concurrent/" + pair[0] + "+" + pair[1], Nontrivial: true, Sample: rqs[0].desc + " || " + rqs[1].desc}
			if r.Panic != "" {
				v.Violation, v.Key = "panic in concurrent requests: "+firstLine(r.Panic), "C06/concurrent/panic"
				return v
			}
			for i := 0; i < 2; i++ {
				if !rqs[i].done {
					v.Violation, v.Key = "a concurrent request did not complete: "+rqs[i].desc, "C06/concurrent/incomplete"
					return v
				}
				if clause, msg := c06Judge(rqs[i]); clause != "" {
					v.Violation = fmt.Sprintf("%s, while %s ran at the same time on the same signer: %s", rqs[i].desc, rqs[1-i].desc, msg)
					v.Key = "C06/concurrent/" + clause
					return v
				}
			}
			return v
		}
		units = append(units, u)
	}
	// a large attestation batch (a node with many validators): 300 ordinary remote accounts, committee indices
	// that differ from position to position (and between positions 256 apart)
	{
		rq := &c06Req{}
		u := hx.Unit{Name: "C06/attestations/large-batch", Cfg: mc.Config{Fixed: true}, Bound: 0}
		u.Body = func() {
			*rq = c06Req{ep: "attestations", batch: true}
			accts := c06BigRing(300)
			if mc.Choose(2) == 1 {
				accts = accts[:256]
			}
			rq.accts = accts
			const slot = phase0.Slot(72)
			epoch := phase0.Epoch(slot / c06SlotsPerEpoch)
			br, sr, tr := c06RootSet(0)
			se := c06SourceEpoch(epoch)
			cis := make([]phase0.CommitteeIndex, len(accts))
			for i := range accts {
				cis[i] = phase0.CommitteeIndex((i*5 + i/256) % 64)
				data := &phase0.AttestationData{Slot: slot, Index: cis[i], BeaconBlockRoot: br, Source: &phase0.Checkpoint{Epoch: se, Root: sr}, Target: &phase0.Checkpoint{Epoch: epoch, Root: tr}}
				r, err := data.HashTreeRoot()
				must(err)
				rq.roots = append(rq.roots, r)
			}
			rq.domType, rq.epoch = c06DomAttester, epoch
			rq.desc = fmt.Sprintf("SignBeaconAttestations(%d ordinary remote accounts, slot %d, committee of position i = (5i + i/256) mod 64)", len(accts), slot)
			dp := &c06Domains{}
			svc, err := standardsigner.New(context.Background(), standardsigner.WithLogLevel(zerolog.Disabled), standardsigner.WithMonitor(nullmetrics.New()), standardsigner.WithClientMonitor(nullmetrics.New()),
				standardsigner.WithSpecProvider(&specProvider{m: baseSpec(12*time.Second, c06SlotsPerEpoch)}), standardsigner.WithDomainProvider(dp))
			must(err)
			rq.sigs, rq.err = svc.SignBeaconAttestations(context.Background(), c06E2(accts), slot, cis, br, se, sr, epoch, tr)
			rq.asked = dp.asked
			rq.done = true
		}
		u.Check = func(r *mc.Result) mc.Verdict {
			v := mc.Verdict{Outcome: fmt.Sprintf("attestations/large-batch-%d", len(rq.accts)), Nontrivial: true, Sample: rq.desc}
			if r.Panic != "" {
				v.Violation, v.Key = fmt.Sprintf("panic in %s: %s", rq.desc, firstLine(r.Panic)), "C06/attestations/panic"
			} else if !rq.done {
				v.Violation, v.Key = "the request did not complete: "+rq.desc, "C06/attestations/incomplete"
			} else if clause, msg := c06Judge(rq); clause != "" {
				v.Violation, v.Key = rq.desc+": "+msg, "C06/attestations/"+clause
			}
			return v
		}
		units = append(units, u)
	}
	return units
}

// c06BigRing returns n ordinary remote accounts with distinct keys (built once).
var c06Big []*c06Acct

func c06BigRing(n int) []*c06Acct {
	for len(c06Big) < n {
		i := len(c06Big)
		sk := c06Secret('P', byte(i), byte(i>>8))
		key, err := e2types.BLSPrivateKeyFromBytes(sk.Serialize())
		must(err)
		a := &c06Acct{kind: 'O', label: fmt.Sprintf("P%d", i), pub: sk.GetPublicKey()}
		a.acct = &c06Ordinary{c06Base: c06Base{id: uuid.NewSHA1(uuid.Nil, []byte(fmt.Sprintf("c06-P%d", i))), name: a.label}, key: key}
		copy(a.pub48[:], a.pub.Serialize())
		c06Big = append(c06Big, a)
	}
	return c06Big[:n]
}

func init() {
	hx.Register(&hx.Prop{
		ID:    "C06",
		Title: "Every signature is over the consensus-spec signing root for that duty and key",
		Rule: "every request = entry point (all ten of signer/standard) x slot (quick 71,72|79,80; thorough also 0,7,8,87; 8 slots per epoch, fork v1->v2 at epoch 10, two forks at epoch 0) " +
			"x message fields from two-value sets (per position where the caller supplies them per position) " +
			"x accounts: single-account entry points with a local, an ordinary remote and a distributed remote account; batch entry points with every sequence of length <= 3 (thorough 4) over {ordinary, distributed} remote accounts " +
			"and homogeneous batches of local accounts of the same lengths, distinct accounts per position and, for sync selection proofs and contributions, also one account per kind repeated; one attestation batch of 256 / 300 ordinary remote accounts whose committee indices differ from position to position; " +
			"accounts hold real BLS keys (distributed: 2-of-3 threshold signing with recovery of the composite signature); each returned signature is verified under the account's validator key against sha256(root_i || domain) with root and domain recomputed from the specifications; " +
			"plus pairs of requests running at the same time on one signer (local accounts whose signing yields before reading its input), every interleaving with one preemption (thorough two); x accounts sign / every account refuses to sign (a single-account request must then fail; a batch may return empty signatures); x history on the same signer instance: none, an earlier request of the same kind on either side of the fork (slot 79 / 80), or an earlier request that failed because the beacon node could not supply the domain; " +
			"non-trivial = batch with accounts of both remote kinds, or a slot at the start of an epoch or after the fork; distinct = entry point x account class x fork side",
		Assumptions: []string{
			"accounts and the domain provider are fault-free during the judged request, so a returned error is reported as a finding (no signature where the statement requires one); the history request may meet an unavailable beacon node",
			"a batch never mixes local-wallet and remote-signer accounts (one account manager per vouch instance)",
			"all contributions of one SignContributionAndProofs request are for the same slot and an attestation's target epoch is the epoch of its slot (as the duty services and the spec's validity conditions guarantee)",
			"the validator key of a distributed account is its composite public key (util.ValidatorPubkey); the account returns the recovered composite signature, as the dirk client library does",
			"remote multi-sign requests are rejected unless all accounts are of the receiver's kind (dirk client library behaviour)",
		},
		Units:         c06Units,
		MinNontrivial: 1000,
	})
}
