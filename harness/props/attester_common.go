package props

import (
	"context"
	"errors"
	"time"

	eth2client "github.com/attestantio/go-eth2-client"
	"github.com/attestantio/go-eth2-client/api"
	"github.com/attestantio/go-eth2-client/spec/phase0"
	standardattester "github.com/attestantio/vouch/services/attester/standard"
	"github.com/attestantio/vouch/services/chaintime"
	nullmetrics "github.com/attestantio/vouch/services/metrics/null"
	"github.com/rs/zerolog"
	e2wtypes "github.com/wealdtech/go-eth2-wallet-types/v2"
)

// Shared environment of the attester checks (C01, C04): the real attester/standard service, closed with
// recording stand-ins for the attestation data provider, the validating accounts provider, the signer and
// the submitter.  Every Attest call ("run") is given a context that carries its run number, so that each
// observation at a seam can be attributed to the run that caused it, also when runs overlap.

const (
	attSPE     = uint64(2) // slots per epoch
	attSlotDur = 12 * time.Second
)

type attRunKey struct{}

func attCtx(run int) context.Context {
	return context.WithValue(context.Background(), attRunKey{}, run)
}

func attRunOf(ctx context.Context) int {
	if v, ok := ctx.Value(attRunKey{}).(int); ok {
		return v
	}
	return -1
}

func attEpoch(s phase0.Slot) phase0.Epoch { return phase0.Epoch(uint64(s) / attSPE) }

// attDataCall is one answer handed to the attester at its AttestationDataProvider seam.
type attDataCall struct {
	run  int
	slot phase0.Slot
	data *phase0.AttestationData // private copy; nil on error
	err  error
}

// attSignCall is one SignBeaconAttestations request.
type attSignCall struct {
	run       int
	vals      []phase0.ValidatorIndex // validator of each account of the request, in request order
	slot      phase0.Slot
	cis       []phase0.CommitteeIndex
	blockRoot phase0.Root
	srcEpoch  phase0.Epoch
	srcRoot   phase0.Root
	tgtEpoch  phase0.Epoch
	tgtRoot   phase0.Root
	failed    bool
	zero      []bool // per request position: a zero signature was returned
}

// attSubmit is one SubmitAttestations call.
type attSubmit struct {
	run    int
	atts   []*phase0.Attestation
	failed bool
}

type attEnv struct {
	ct    chaintime.Service
	accts map[phase0.ValidatorIndex]*hAccount

	// scripts (set by the property)
	dataFn    func(ctx context.Context, run int, opts *api.AttestationDataOpts) (*phase0.AttestationData, error)
	missingFn func(run int, v phase0.ValidatorIndex) bool                                  // no account for v in this run
	signFn    func(run int, vals []phase0.ValidatorIndex) (fail bool, zero func(int) bool) // zero(i): zero signature at position i
	submitFn  func(run int, n int) error

	// records
	data  []attDataCall
	signs []attSignCall
	subs  []attSubmit
}

func newAttEnv(validators ...phase0.ValidatorIndex) *attEnv {
	e := &attEnv{accts: map[phase0.ValidatorIndex]*hAccount{}}
	for _, v := range validators {
		e.accts[v] = newAccount("W", sprintf("v%d", v), byte(v))
	}
	e.ct = newChainTime(0, attSlotDur, attSPE)
	return e
}

// attValidatorOf identifies the validator an account belongs to (the stand-in accounts carry it in their id).
func attValidatorOf(a e2wtypes.Account) phase0.ValidatorIndex {
	id := a.ID()
	return phase0.ValidatorIndex(id[0])
}

func attCopyData(d *phase0.AttestationData) *phase0.AttestationData {
	if d == nil {
		return nil
	}
	c := *d
	if d.Source != nil {
		s := *d.Source
		c.Source = &s
	}
	if d.Target != nil {
		t := *d.Target
		c.Target = &t
	}
	return &c
}

// attSig is the stand-in signature: it encodes who signed (validator of the account) and over what.
func attSig(v phase0.ValidatorIndex, ci phase0.CommitteeIndex, slot phase0.Slot, br phase0.Root, se phase0.Epoch, sr phase0.Root, te phase0.Epoch, tr phase0.Root) phase0.BLSSignature {
	var s phase0.BLSSignature
	s[0] = 0xA5
	s[1] = byte(v)
	s[2] = byte(ci)
	s[3] = byte(slot)
	s[4] = br[0]
	s[5] = byte(se)
	s[6] = sr[0]
	s[7] = byte(te)
	s[8] = tr[0]
	return s
}

// ---- stand-ins ------------------------------------------------------------------------------------

// attSeamProvider is the AttestationDataProvider the attester talks to: either the script itself or a
// pass-through in front of a real strategy; in both cases it records what the attester obtained.
type attSeamProvider struct {
	e    *attEnv
	next eth2client.AttestationDataProvider // nil: scripted directly
}

func (p *attSeamProvider) AttestationData(ctx context.Context, opts *api.AttestationDataOpts) (*api.Response[*phase0.AttestationData], error) {
	run := attRunOf(ctx)
	var d *phase0.AttestationData
	var err error
	if p.next != nil {
		var resp *api.Response[*phase0.AttestationData]
		resp, err = p.next.AttestationData(ctx, opts)
		if err == nil && resp != nil {
			d = resp.Data
		}
	} else {
		d, err = p.e.dataFn(ctx, run, opts)
	}
	p.e.data = append(p.e.data, attDataCall{run: run, slot: opts.Slot, data: attCopyData(d), err: err})
	if err != nil {
		return nil, err
	}
	return &api.Response[*phase0.AttestationData]{Data: d, Metadata: map[string]any{}}, nil
}

type attAccounts struct{ e *attEnv }

func (a *attAccounts) ValidatingAccountsForEpoch(ctx context.Context, _ phase0.Epoch) (map[phase0.ValidatorIndex]e2wtypes.Account, error) {
	run := attRunOf(ctx)
	out := map[phase0.ValidatorIndex]e2wtypes.Account{}
	for v, acc := range a.e.accts {
		if a.e.missingFn == nil || !a.e.missingFn(run, v) {
			out[v] = acc
		}
	}
	return out, nil
}

func (a *attAccounts) ValidatingAccountsForEpochByIndex(ctx context.Context, _ phase0.Epoch, idx []phase0.ValidatorIndex) (map[phase0.ValidatorIndex]e2wtypes.Account, error) {
	run := attRunOf(ctx)
	out := map[phase0.ValidatorIndex]e2wtypes.Account{}
	for _, v := range idx {
		if acc, ok := a.e.accts[v]; ok && (a.e.missingFn == nil || !a.e.missingFn(run, v)) {
			out[v] = acc
		}
	}
	return out, nil
}

func (a *attAccounts) SyncCommitteeAccountsForEpoch(ctx context.Context, e phase0.Epoch) (map[phase0.ValidatorIndex]e2wtypes.Account, error) {
	return a.ValidatingAccountsForEpoch(ctx, e)
}

func (a *attAccounts) SyncCommitteeAccountsForEpochByIndex(ctx context.Context, e phase0.Epoch, idx []phase0.ValidatorIndex) (map[phase0.ValidatorIndex]e2wtypes.Account, error) {
	return a.ValidatingAccountsForEpochByIndex(ctx, e, idx)
}

type attSigner struct{ e *attEnv }

var errAttScripted = errors.New("scripted failure")

func (s *attSigner) SignBeaconAttestations(ctx context.Context,
	accounts []e2wtypes.Account,
	slot phase0.Slot,
	committeeIndices []phase0.CommitteeIndex,
	blockRoot phase0.Root,
	sourceEpoch phase0.Epoch,
	sourceRoot phase0.Root,
	targetEpoch phase0.Epoch,
	targetRoot phase0.Root,
) ([]phase0.BLSSignature, error) {
	run := attRunOf(ctx)
	c := attSignCall{run: run, slot: slot, cis: append([]phase0.CommitteeIndex(nil), committeeIndices...),
		blockRoot: blockRoot, srcEpoch: sourceEpoch, srcRoot: sourceRoot, tgtEpoch: targetEpoch, tgtRoot: targetRoot}
	for _, a := range accounts {
		c.vals = append(c.vals, attValidatorOf(a))
	}
	c.zero = make([]bool, len(accounts))
	fail := false
	var zero func(int) bool
	if s.e.signFn != nil && len(accounts) > 0 {
		fail, zero = s.e.signFn(run, c.vals)
	}
	if fail {
		c.failed = true
		s.e.signs = append(s.e.signs, c)
		return nil, errAttScripted
	}
	sigs := make([]phase0.BLSSignature, len(accounts))
	for i := range accounts {
		if zero != nil && zero(i) {
			c.zero[i] = true
			continue
		}
		ci := phase0.CommitteeIndex(0xff)
		if i < len(committeeIndices) {
			ci = committeeIndices[i]
		}
		sigs[i] = attSig(c.vals[i], ci, slot, blockRoot, sourceEpoch, sourceRoot, targetEpoch, targetRoot)
	}
	s.e.signs = append(s.e.signs, c)
	return sigs, nil
}

type attSubmitter struct{ e *attEnv }

func (s *attSubmitter) SubmitAttestations(ctx context.Context, atts []*phase0.Attestation) error {
	run := attRunOf(ctx)
	rec := attSubmit{run: run}
	for _, a := range atts {
		// deep copy: what was handed over at this instant is what counts
		c := &phase0.Attestation{Signature: a.Signature}
		c.AggregationBits = append(c.AggregationBits, a.AggregationBits...)
		c.Data = attCopyData(a.Data)
		rec.atts = append(rec.atts, c)
	}
	var err error
	if s.e.submitFn != nil {
		err = s.e.submitFn(run, len(atts))
	}
	rec.failed = err != nil
	s.e.subs = append(s.e.subs, rec)
	return err
}

// newAttester builds the real attester over the environment; strategy is nil (scripted data provider) or a
// real attestation data strategy that itself sits on scripted beacon nodes.
func newAttester(e *attEnv, strategy eth2client.AttestationDataProvider) *standardattester.Service {
	return newAttesterWithSpec(e, strategy, attSlotDur, attSPE)
}

func newAttesterWithSpec(e *attEnv, strategy eth2client.AttestationDataProvider, slotDur time.Duration, spe uint64) *standardattester.Service {
	svc, err := standardattester.New(context.Background(),
		standardattester.WithLogLevel(zerolog.Disabled),
		standardattester.WithMonitor(&nullmetrics.Service{}),
		standardattester.WithProcessConcurrency(2),
		standardattester.WithChainTime(e.ct),
		standardattester.WithSpecProvider(&specProvider{m: baseSpec(slotDur, spe)}),
		standardattester.WithAttestationDataProvider(&attSeamProvider{e: e, next: strategy}),
		standardattester.WithAttestationsSubmitter(&attSubmitter{e}),
		standardattester.WithValidatingAccountsProvider(&attAccounts{e}),
		standardattester.WithBeaconAttestationsSigner(&attSigner{e}),
	)
	must(err)
	return svc
}
