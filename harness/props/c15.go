package props

import (
	"context"
	"crypto/sha256"
	"encoding/binary"
	"errors"
	"fmt"
	"sort"
	"strings"
	"time"

	"verifharness/hx"

	eth2client "github.com/attestantio/go-eth2-client"
	"github.com/attestantio/go-eth2-client/api"
	apiv1 "github.com/attestantio/go-eth2-client/api/v1"
	"github.com/attestantio/go-eth2-client/spec/altair"
	"github.com/attestantio/go-eth2-client/spec/phase0"
	vouchmock "github.com/attestantio/vouch/mock"
	mockaccountmanager "github.com/attestantio/vouch/services/accountmanager/mock"
	mockattestationaggregator "github.com/attestantio/vouch/services/attestationaggregator/mock"
	mockattester "github.com/attestantio/vouch/services/attester/mock"
	mockbeaconblockproposer "github.com/attestantio/vouch/services/beaconblockproposer/mock"
	mockbeaconcommitteesubscriber "github.com/attestantio/vouch/services/beaconcommitteesubscriber/mock"
	"github.com/attestantio/vouch/services/cache"
	mockcache "github.com/attestantio/vouch/services/cache/mock"
	"github.com/attestantio/vouch/services/chaintime"
	standardcontroller "github.com/attestantio/vouch/services/controller/standard"
	nullmetrics "github.com/attestantio/vouch/services/metrics/null"
	mockproposalpreparer "github.com/attestantio/vouch/services/proposalpreparer/mock"
	"github.com/attestantio/vouch/services/scheduler/advanced"
	standardsigner "github.com/attestantio/vouch/services/signer/standard"
	"github.com/attestantio/vouch/services/synccommitteeaggregator"
	standardsynccommitteeaggregator "github.com/attestantio/vouch/services/synccommitteeaggregator/standard"
	"github.com/attestantio/vouch/services/synccommitteemessenger"
	standardsynccommitteemessenger "github.com/attestantio/vouch/services/synccommitteemessenger/standard"
	standardsynccommitteesubscriber "github.com/attestantio/vouch/services/synccommitteesubscriber/standard"
	"github.com/attestantio/vouch/verifmc/mc"
	"github.com/attestantio/vouch/verifmc/mcontext"
	"github.com/prysmaticlabs/go-bitfield"
	"github.com/rs/zerolog"
	e2types "github.com/wealdtech/go-eth2-types/v2"
	e2wtypes "github.com/wealdtech/go-eth2-wallet-types/v2"
)

// C15: sync committee members message every slot of their period, independently.
//
// Three parts, all on the unchanged services with chain time on the virtual clock:
//
//   window        the real controller (real New, real advanced scheduler, real chain time) with a recording
//                 messenger; vouch is started at a clock position (mode S) or scheduleSyncCommitteeMessages is
//                 called directly for the current / next period (mode D, through an in-package hook) and the
//                 virtual clock then runs to the end of the periods concerned.  The set of (slot, instant) at
//                 which the messenger is asked to message is compared with the reference window.
//   independence  the real controller + real synccommitteemessenger + real synccommitteeaggregator + real
//                 signer; three members, each {ok, account missing, root signature missing}; head root
//                 scripted per slot; the submitted messages and contributions are compared with the reference.
//   selection     the real messenger's Prepare with the real signer: aggregator selection per subcommittee,
//                 recomputed by the harness with crypto/sha256.
//
// Reference (consensus spec, altair validator guide): the sync committee period of an epoch is
// epoch / EPOCHS_PER_SYNC_COMMITTEE_PERIOD; sync committees exist from ALTAIR_FORK_EPOCH; a member of period p
// signs, in every slot s with s+1 inside the period, the head root at s (so from one slot before the period's
// first slot to one slot before its last slot); subcommittee = position / (SYNC_COMMITTEE_SIZE /
// SYNC_COMMITTEE_SUBNET_COUNT); is_sync_committee_aggregator(sig) = bytes_to_uint64(hash(sig)[0:8]) %
// max(1, SYNC_COMMITTEE_SIZE / SYNC_COMMITTEE_SUBNET_COUNT / TARGET_AGGREGATORS_PER_SYNC_SUBCOMMITTEE) == 0.

const (
	c15SlotDur = 12 * time.Second
	c15SPE     = uint64(2) // slots per epoch
)

func c15Spec(epp, fork, size, subnets, target uint64) map[string]any {
	m := baseSpec(c15SlotDur, c15SPE)
	m["EPOCHS_PER_SYNC_COMMITTEE_PERIOD"] = epp
	m["ALTAIR_FORK_EPOCH"] = fork
	m["SYNC_COMMITTEE_SIZE"] = size
	m["SYNC_COMMITTEE_SUBNET_COUNT"] = subnets
	m["TARGET_AGGREGATORS_PER_SYNC_SUBCOMMITTEE"] = target
	// the later forks are of no concern here; without them the controller starts no proposal preparation ticker
	delete(m, "BELLATRIX_FORK_EPOCH")
	delete(m, "CAPELLA_FORK_EPOCH")
	delete(m, "DENEB_FORK_EPOCH")
	return m
}

// ---- signing stand-ins: accounts of a remote (distributed) signer behind the REAL signer service -----------

type c15Sig struct{ b phase0.BLSSignature }

func (*c15Sig) Verify(_ []byte, _ e2types.PublicKey) bool                  { return true }
func (*c15Sig) VerifyAggregate(_ [][]byte, _ []e2types.PublicKey) bool     { return true }
func (*c15Sig) VerifyAggregateCommon(_ []byte, _ []e2types.PublicKey) bool { return true }
func (s *c15Sig) Marshal() []byte                                          { return s.b[:] }
func c15MakeSig(idx phase0.ValidatorIndex, data, domain []byte, nonce uint64) phase0.BLSSignature {
	var sig phase0.BLSSignature
	for part := 0; part < 3; part++ {
		h := sha256.New()
		h.Write([]byte("c15-signature"))
		var n [17]byte
		binary.LittleEndian.PutUint64(n[0:8], uint64(idx))
		binary.LittleEndian.PutUint64(n[8:16], nonce)
		n[16] = byte(part)
		h.Write(n[:])
		h.Write(data)
		h.Write(domain)
		copy(sig[part*32:], h.Sum(nil))
	}
	sig[0] |= 0x80
	return sig
}

type c15SignReq struct {
	idx    phase0.ValidatorIndex
	data   phase0.Root
	domain phase0.Domain
}

// c15Env scripts the remote signer: which root signatures are missing, and which residue the hash of a
// selection signature shall have.
type c15Env struct {
	zeroRoot   map[phase0.ValidatorIndex]bool     // no sync committee root signature for this validator
	zeroSel    map[phase0.ValidatorIndex]bool     // no selection proofs for this validator
	selRoots   map[phase0.Root]uint64             // signing root of SyncAggregatorSelectionData -> subcommittee
	selResidue map[phase0.ValidatorIndex]uint64   // wanted hash(sig)[0:8] % selModulus for selection signatures
	selModulus uint64                             // 0: selection signatures are not steered
	made       map[phase0.BLSSignature]c15SignReq // every signature handed out
	selSigs    map[[2]uint64]phase0.BLSSignature  // (validator, subcommittee) -> selection signature handed out
	nilSeen    int                                // requests that named a nil account
	selDelay   int64                              // the signer takes this long over a batch of selection proofs
	// local accounts (wallet keys held by vouch, signed for one at a time): those in signErr cannot sign at all
	local   bool
	signErr map[phase0.ValidatorIndex]bool
}

func newC15Env() *c15Env {
	return &c15Env{zeroRoot: map[phase0.ValidatorIndex]bool{}, selRoots: map[phase0.Root]uint64{}, selResidue: map[phase0.ValidatorIndex]uint64{},
		made: map[phase0.BLSSignature]c15SignReq{}, selSigs: map[[2]uint64]phase0.BLSSignature{}}
}

// c15HashMod is the reference computation of the selection value (consensus spec), by crypto/sha256.
func c15HashMod(sig phase0.BLSSignature, modulus uint64) uint64 {
	h := sha256.Sum256(sig[:])
	return binary.LittleEndian.Uint64(h[0:8]) % modulus
}

func c15RefModulus(size, subnets, target uint64) uint64 {
	m := size / subnets / target
	if m < 1 {
		m = 1
	}
	return m
}

func (e *c15Env) registerSelectionRoots(slot phase0.Slot, maxSub uint64) {
	for sc := uint64(0); sc < maxSub; sc++ {
		r, err := (&altair.SyncAggregatorSelectionData{Slot: slot, SubcommitteeIndex: sc}).HashTreeRoot()
		must(err)
		e.selRoots[r] = sc
		// a local account is handed the signing root instead
		e.selRoots[c15SigningRoot(r, phase0.DomainType{0x08, 0, 0, 0}, phase0.Epoch(uint64(slot)/c15SPE))] = sc
	}
}

// c15SigningRoot is the root a local account signs: the object root under the domain c15Domains gives.
func c15SigningRoot(object phase0.Root, dt phase0.DomainType, epoch phase0.Epoch) phase0.Root {
	d, _ := c15Domains{}.Domain(context.Background(), dt, epoch)
	r, err := (&phase0.SigningData{ObjectRoot: object, Domain: d}).HashTreeRoot()
	must(err)
	return r
}

// c15LocalAcct is the same account as a key held in a wallet of vouch's own: it signs one root at a time (it is
// neither a distributed account nor a multi-signer), and fails outright when it cannot sign.
type c15LocalAcct struct{ *c15Acct }

// the embedded account's batch and threshold methods are hidden behind others of the same name
func (a *c15LocalAcct) SignGenericMulti()       {}
func (a *c15LocalAcct) SignBeaconAttestations() {}
func (a *c15LocalAcct) SigningThreshold(_ int)  {}

func (a *c15LocalAcct) Sign(_ context.Context, data []byte) (e2types.Signature, error) {
	if a.env.signErr[a.idx] {
		return nil, errors.New("cannot sign when account is locked")
	}
	sig := c15MakeSig(a.idx, data, nil, 7)
	var rq c15SignReq
	rq.idx = a.idx
	copy(rq.data[:], data)
	if sc, known := a.env.selRoots[rq.data]; known {
		a.env.selSigs[[2]uint64{uint64(a.idx), sc}] = sig
	}
	a.env.made[sig] = rq
	return &c15Sig{b: sig}, nil
}

// acct hands an account out as the account manager would.
func (t *c15Accounts) acct(a *c15Acct) e2wtypes.Account {
	if a.env.local {
		return &c15LocalAcct{a}
	}
	return a
}

func (e *c15Env) sign(idx phase0.ValidatorIndex, data, domain []byte) e2types.Signature {
	var rq c15SignReq
	rq.idx = idx
	copy(rq.data[:], data)
	copy(rq.domain[:], domain)
	syncCommittee := phase0.DomainType{0x07, 0, 0, 0}
	selection := phase0.DomainType{0x08, 0, 0, 0}
	var dt phase0.DomainType
	copy(dt[:], domain[0:4])
	if dt == syncCommittee && e.zeroRoot[idx] {
		// the signer cluster did not reach its threshold for this account: no signature for it
		return nil
	}
	if dt == selection && e.zeroSel[idx] {
		// likewise for this account's selection proofs
		return nil
	}
	sig := c15MakeSig(idx, data, domain, 0)
	if dt == selection {
		sc, known := e.selRoots[rq.data]
		if want, steer := e.selResidue[idx]; steer && known && e.selModulus > 0 {
			for nonce := uint64(0); nonce < 1_000_000; nonce++ {
				sig = c15MakeSig(idx, data, domain, nonce)
				if c15HashMod(sig, e.selModulus) == want%e.selModulus {
					break
				}
			}
		}
		if known {
			e.selSigs[[2]uint64{uint64(idx), sc}] = sig
		}
	}
	e.made[sig] = rq
	return &c15Sig{b: sig}
}

// c15Acct is a distributed account of a remote signer: signatures are obtained in one batch for many
// accounts; an account for which the cluster fails to sign yields a nil entry (as go-eth2-wallet-dirk does).
type c15Acct struct {
	*hAccount
	idx phase0.ValidatorIndex
	env *c15Env
}

func (a *c15Acct) CompositePublicKey() e2types.PublicKey { return a.pub }
func (a *c15Acct) SigningThreshold() uint32              { return 2 }
func (a *c15Acct) Participants() map[uint64]string {
	return map[uint64]string{1: "signer-1:1", 2: "signer-2:1", 3: "signer-3:1"}
}

func (a *c15Acct) SignBeaconAttestations(_ context.Context, _ uint64, _ []e2wtypes.Account, _ []uint64, _ []byte, _ uint64, _ []byte, _ uint64, _ []byte, _ []byte) ([]e2types.Signature, error) {
	return nil, errors.New("not used by C15")
}

func (a *c15Acct) SignGenericMulti(_ context.Context, accounts []e2wtypes.Account, data [][]byte, domain []byte) ([]e2types.Signature, error) {
	if len(data) != len(accounts) {
		return nil, errors.New("number of data items does not match number of accounts")
	}
	if len(domain) >= 4 && domain[0] == 0x08 && a.env.selDelay > 0 {
		mc.Sleep(a.env.selDelay)
	}
	sigs := make([]e2types.Signature, len(accounts))
	for i := range accounts {
		acc, ok := accounts[i].(*c15Acct)
		if !ok || acc == nil {
			a.env.nilSeen++
			return nil, errors.New("account not of required type")
		}
		if len(data[i]) != 32 {
			return nil, errors.New("data must be 32 bytes in length")
		}
		if s := a.env.sign(acc.idx, data[i], domain); s != nil {
			sigs[i] = s
		}
	}
	return sigs, nil
}

var (
	_ e2wtypes.Account                      = (*c15Acct)(nil)
	_ e2wtypes.DistributedAccount           = (*c15Acct)(nil)
	_ e2wtypes.AccountProtectingMultiSigner = (*c15Acct)(nil)
)

type c15Domains struct{}

func (c15Domains) Domain(_ context.Context, t phase0.DomainType, epoch phase0.Epoch) (phase0.Domain, error) {
	var d phase0.Domain
	copy(d[0:4], t[:])
	binary.LittleEndian.PutUint64(d[4:12], uint64(epoch))
	d[31] = 0xd0
	return d, nil
}

func (c15Domains) GenesisDomain(_ context.Context, t phase0.DomainType) (phase0.Domain, error) {
	var d phase0.Domain
	copy(d[0:4], t[:])
	d[31] = 0xd0
	return d, nil
}

// ---- beacon node and account manager stand-ins ----------------------------------------------------------------

// c15Accounts is the account manager: all accounts are sync committee eligible; those in `missing` are
// not returned by the by-index lookup made when a period's jobs are set up (the validator is still in the
// committee but its account is no longer available).
type c15Accounts struct {
	all     map[phase0.ValidatorIndex]*c15Acct
	missing map[phase0.ValidatorIndex]bool
	// exited: validators that have exited and are not yet withdrawable: no longer among the validating accounts,
	// still among the accounts eligible for sync committee duty
	exited map[phase0.ValidatorIndex]bool
}

func (t *c15Accounts) ValidatingAccountsForEpoch(_ context.Context, _ phase0.Epoch) (map[phase0.ValidatorIndex]e2wtypes.Account, error) {
	out := map[phase0.ValidatorIndex]e2wtypes.Account{}
	for i, a := range t.all {
		if !t.exited[i] {
			out[i] = t.acct(a)
		}
	}
	return out, nil
}

func (t *c15Accounts) ValidatingAccountsForEpochByIndex(_ context.Context, _ phase0.Epoch, idx []phase0.ValidatorIndex) (map[phase0.ValidatorIndex]e2wtypes.Account, error) {
	out := map[phase0.ValidatorIndex]e2wtypes.Account{}
	for _, i := range idx {
		if a, ok := t.all[i]; ok && !t.exited[i] {
			out[i] = t.acct(a)
		}
	}
	return out, nil
}

func (t *c15Accounts) SyncCommitteeAccountsForEpoch(_ context.Context, _ phase0.Epoch) (map[phase0.ValidatorIndex]e2wtypes.Account, error) {
	out := map[phase0.ValidatorIndex]e2wtypes.Account{}
	for i, a := range t.all {
		out[i] = t.acct(a)
	}
	return out, nil
}

func (t *c15Accounts) SyncCommitteeAccountsForEpochByIndex(_ context.Context, _ phase0.Epoch, idx []phase0.ValidatorIndex) (map[phase0.ValidatorIndex]e2wtypes.Account, error) {
	out := map[phase0.ValidatorIndex]e2wtypes.Account{}
	for _, i := range idx {
		if a, ok := t.all[i]; ok && !t.missing[i] {
			out[i] = t.acct(a)
		}
	}
	return out, nil
}

// c15Duties is the beacon node's sync committee duties endpoint.  Membership is per sync committee period
// (period of the requested epoch).  Before the Altair fork epoch there are no sync committees: a strict node
// answers with an error, a lenient one with the duties of the period the epoch would belong to.
type c15Duties struct {
	armed     bool
	epp, fork uint64
	strict    bool
	member    map[uint64]bool
	positions map[phase0.ValidatorIndex][]phase0.CommitteeIndex
	accts     map[phase0.ValidatorIndex]*c15Acct
	asked     []phase0.Epoch
	delay     int64 // the node takes this long over the answer
	nullFirst bool  // the answer's list starts with a null entry (the client library hands it on as it is)
}

func (d *c15Duties) SyncCommitteeDuties(_ context.Context, opts *api.SyncCommitteeDutiesOpts) (*api.Response[[]*apiv1.SyncCommitteeDuty], error) {
	d.asked = append(d.asked, opts.Epoch)
	if d.delay > 0 {
		mc.Sleep(d.delay)
	}
	out := []*apiv1.SyncCommitteeDuty{}
	if uint64(opts.Epoch) < d.fork && d.strict {
		return nil, errors.New("400: epoch is before the Altair fork")
	}
	if d.armed && d.member[uint64(opts.Epoch)/d.epp] {
		for _, i := range opts.Indices {
			if pos, ok := d.positions[i]; ok {
				out = append(out, &apiv1.SyncCommitteeDuty{PubKey: d.accts[i].pubkey(), ValidatorIndex: i, ValidatorSyncCommitteeIndices: pos})
			}
		}
	}
	if d.nullFirst && len(out) > 0 {
		out = append([]*apiv1.SyncCommitteeDuty{nil}, out...)
	}
	return &api.Response[[]*apiv1.SyncCommitteeDuty]{Data: out, Metadata: map[string]any{}}, nil
}

func c15Root(slot uint64) phase0.Root {
	var r phase0.Root
	r[0] = 0xc1
	binary.LittleEndian.PutUint64(r[1:9], slot)
	r[31] = 0x5a
	return r
}

// c15Node is the rest of the beacon node: the head root is a function of the slot the clock is in.
type c15Node struct {
	ct            chaintime.Service
	rootAsked     []phase0.Slot
	messages      []*altair.SyncCommitteeMessage
	submitCalls   int
	contributions []*altair.SignedContributionAndProof
	contribAsked  []api.SyncCommitteeContributionOpts
	subscriptions int
}

func (n *c15Node) BeaconBlockRoot(_ context.Context, _ *api.BeaconBlockRootOpts) (*api.Response[*phase0.Root], error) {
	s := n.ct.CurrentSlot()
	n.rootAsked = append(n.rootAsked, s)
	r := c15Root(uint64(s))
	return &api.Response[*phase0.Root]{Data: &r, Metadata: map[string]any{}}, nil
}

func (n *c15Node) SubmitSyncCommitteeMessages(_ context.Context, msgs []*altair.SyncCommitteeMessage) error {
	n.submitCalls++
	for _, m := range msgs {
		if m != nil {
			c := *m
			n.messages = append(n.messages, &c)
		}
	}
	return nil
}

func (n *c15Node) SubmitSyncCommitteeSubscriptions(_ context.Context, subs []*apiv1.SyncCommitteeSubscription) error {
	n.subscriptions += len(subs)
	return nil
}

func (n *c15Node) SyncCommitteeContribution(_ context.Context, opts *api.SyncCommitteeContributionOpts) (*api.Response[*altair.SyncCommitteeContribution], error) {
	n.contribAsked = append(n.contribAsked, *opts)
	return &api.Response[*altair.SyncCommitteeContribution]{Data: &altair.SyncCommitteeContribution{
		Slot: opts.Slot, BeaconBlockRoot: opts.BeaconBlockRoot, SubcommitteeIndex: opts.SubcommitteeIndex,
		AggregationBits: bitfield.NewBitvector128(), Signature: phase0.BLSSignature{0xcc},
	}, Metadata: map[string]any{}}, nil
}

func (n *c15Node) SubmitSyncCommitteeContributions(_ context.Context, cs []*altair.SignedContributionAndProof) error {
	n.contributions = append(n.contributions, cs...)
	return nil
}

// ---- recording messenger / aggregator for the window part -----------------------------------------------------

type c15MsgCall struct {
	slot     phase0.Slot
	at       int64
	vals     []phase0.ValidatorIndex
	accounts int
}

type c15RecMessenger struct {
	prepared []phase0.Slot
	calls    []c15MsgCall
}

func (m *c15RecMessenger) Prepare(_ context.Context, duty *synccommitteemessenger.Duty) error {
	m.prepared = append(m.prepared, duty.Slot())
	return nil
}

func (m *c15RecMessenger) Message(_ context.Context, duty *synccommitteemessenger.Duty) ([]*altair.SyncCommitteeMessage, error) {
	c := c15MsgCall{slot: duty.Slot(), at: mc.Now()}
	c.vals = append(c.vals, duty.ValidatorIndices()...)
	for _, a := range duty.Accounts() {
		if a != nil {
			c.accounts++
		}
	}
	m.calls = append(m.calls, c)
	return []*altair.SyncCommitteeMessage{}, nil
}

func (*c15RecMessenger) GetDataUsedForSlot(_ phase0.Slot) (synccommitteemessenger.SlotData, bool) {
	return synccommitteemessenger.SlotData{}, false
}
func (*c15RecMessenger) RemoveHistoricDataUsedForSlotVerification(_ phase0.Slot) {}

type c15NopAggregator struct{}

func (c15NopAggregator) SetBeaconBlockRoot(_ phase0.Slot, _ phase0.Root)              {}
func (c15NopAggregator) Aggregate(_ context.Context, _ *synccommitteeaggregator.Duty) {}

// ---- world ------------------------------------------------------------------------------------------------------

type c15World struct {
	ctx    context.Context
	cancel func()
	ct     chaintime.Service
	env    *c15Env
	accts  *c15Accounts
	duties *c15Duties
	node   *c15Node
	rec    *c15RecMessenger
	ctrl   *standardcontroller.Service
	msgr   *standardsynccommitteemessenger.Service
	ev     *eventsProvider
}

type c15WorldCfg struct {
	spec      map[string]any
	startSlot uint64 // virtual time 0 is the start of this slot
	positions map[phase0.ValidatorIndex][]phase0.CommitteeIndex
	real      bool // real messenger, aggregator, signer (else the recording messenger)
	verify    bool // controller option verify-sync-committee-inclusion
	delay     time.Duration
	noCtrl    bool              // only the messenger (selection part)
	before    func(w *c15World) // scripts the stand-ins before the controller is constructed
	waited    bool              // controller option WaitedForGenesis: vouch was started before genesis and begins with the chain
}

func c15Build(cfg c15WorldCfg) *c15World {
	w := &c15World{env: newC15Env(), ev: &eventsProvider{}}
	w.ctx, w.cancel = mcontext.WithCancel(context.Background())
	w.ct = newChainTime(-int64(cfg.startSlot)*int64(c15SlotDur), c15SlotDur, c15SPE)
	sp := &specProvider{m: cfg.spec}
	w.accts = &c15Accounts{all: map[phase0.ValidatorIndex]*c15Acct{}, missing: map[phase0.ValidatorIndex]bool{}}
	for i := range cfg.positions {
		w.accts.all[i] = &c15Acct{hAccount: newAccount("W", fmt.Sprintf("v%d", i), byte(i)), idx: i, env: w.env}
	}
	w.duties = &c15Duties{epp: cfg.spec["EPOCHS_PER_SYNC_COMMITTEE_PERIOD"].(uint64), fork: cfg.spec["ALTAIR_FORK_EPOCH"].(uint64),
		member: map[uint64]bool{}, positions: cfg.positions, accts: w.accts.all, strict: true}
	w.node = &c15Node{ct: w.ct}
	w.rec = &c15RecMessenger{}

	var messenger synccommitteemessenger.Service = w.rec
	var aggregator synccommitteeaggregator.Service = c15NopAggregator{}
	if cfg.real {
		sgn, err := standardsigner.New(w.ctx,
			standardsigner.WithLogLevel(zerolog.Disabled),
			standardsigner.WithMonitor(nullmetrics.New()),
			standardsigner.WithClientMonitor(nullmetrics.New()),
			standardsigner.WithSpecProvider(sp),
			standardsigner.WithDomainProvider(c15Domains{}),
		)
		must(err)
		agg, err := standardsynccommitteeaggregator.New(w.ctx,
			standardsynccommitteeaggregator.WithLogLevel(zerolog.Disabled),
			standardsynccommitteeaggregator.WithMonitor(nullmetrics.New()),
			standardsynccommitteeaggregator.WithSpecProvider(sp),
			standardsynccommitteeaggregator.WithBeaconBlockRootProvider(w.node),
			standardsynccommitteeaggregator.WithContributionAndProofSigner(sgn),
			standardsynccommitteeaggregator.WithValidatingAccountsProvider(w.accts),
			standardsynccommitteeaggregator.WithSyncCommitteeContributionProvider(w.node),
			standardsynccommitteeaggregator.WithSyncCommitteeContributionsSubmitter(w.node),
			standardsynccommitteeaggregator.WithChainTime(w.ct),
		)
		must(err)
		msgr, err := standardsynccommitteemessenger.New(w.ctx,
			standardsynccommitteemessenger.WithLogLevel(zerolog.Disabled),
			standardsynccommitteemessenger.WithMonitor(nullmetrics.New()),
			standardsynccommitteemessenger.WithProcessConcurrency(2),
			standardsynccommitteemessenger.WithChainTimeService(w.ct),
			standardsynccommitteemessenger.WithSyncCommitteeAggregator(agg),
			standardsynccommitteemessenger.WithSpecProvider(sp),
			standardsynccommitteemessenger.WithBeaconBlockRootProvider(w.node),
			standardsynccommitteemessenger.WithSyncCommitteeMessagesSubmitter(w.node),
			standardsynccommitteemessenger.WithSyncCommitteeSubscriptionsSubmitter(w.node),
			standardsynccommitteemessenger.WithValidatingAccountsProvider(w.accts),
			standardsynccommitteemessenger.WithSyncCommitteeSelectionSigner(sgn),
			standardsynccommitteemessenger.WithSyncCommitteeRootSigner(sgn),
		)
		must(err)
		w.msgr = msgr
		messenger, aggregator = msgr, agg
	}
	if cfg.before != nil {
		cfg.before(w)
	}
	if cfg.noCtrl {
		return w
	}
	sched, err := advanced.New(w.ctx, advanced.WithLogLevel(zerolog.Disabled), advanced.WithMonitor(&nullmetrics.Service{}))
	must(err)
	subscriber, err := standardsynccommitteesubscriber.New(w.ctx,
		standardsynccommitteesubscriber.WithLogLevel(zerolog.Disabled),
		standardsynccommitteesubscriber.WithMonitor(nullmetrics.New()),
		standardsynccommitteesubscriber.WithSyncCommitteeSubmitter(w.node),
	)
	must(err)
	w.ctrl, err = standardcontroller.New(w.ctx,
		standardcontroller.WithWaitedForGenesis(cfg.waited),
		standardcontroller.WithLogLevel(zerolog.Disabled),
		standardcontroller.WithMonitor(nullmetrics.New()),
		standardcontroller.WithSpecProvider(sp),
		standardcontroller.WithChainTimeService(w.ct),
		standardcontroller.WithProposerDutiesProvider(vouchmock.NewProposerDutiesProvider()),
		standardcontroller.WithAttesterDutiesProvider(vouchmock.NewAttesterDutiesProvider()),
		standardcontroller.WithSyncCommitteeDutiesProvider(w.duties),
		standardcontroller.WithEventsProvider(w.ev),
		standardcontroller.WithVerifySyncCommitteeInclusion(cfg.verify),
		standardcontroller.WithValidatingAccountsProvider(w.accts),
		standardcontroller.WithProposalsPreparer(mockproposalpreparer.New()),
		standardcontroller.WithScheduler(sched),
		standardcontroller.WithAttester(mockattester.New()),
		standardcontroller.WithSyncCommitteeMessenger(messenger),
		standardcontroller.WithSyncCommitteeAggregator(aggregator),
		standardcontroller.WithSyncCommitteeSubscriber(subscriber),
		standardcontroller.WithBeaconBlockProposer(mockbeaconblockproposer.New()),
		standardcontroller.WithBeaconCommitteeSubscriber(mockbeaconcommitteesubscriber.New()),
		standardcontroller.WithAttestationAggregator(mockattestationaggregator.New()),
		standardcontroller.WithAccountsRefresher(mockaccountmanager.NewRefresher()),
		standardcontroller.WithBlockToSlotSetter(mockcache.New(map[phase0.Root]phase0.Slot{}).(cache.BlockRootToSlotSetter)),
		standardcontroller.WithBeaconBlockHeadersProvider(vouchmock.NewBeaconBlockHeadersProvider()),
		standardcontroller.WithSignedBeaconBlockProvider(vouchmock.NewSignedBeaconBlockProvider()),
		standardcontroller.WithMaxSyncCommitteeMessageDelay(cfg.delay),
		standardcontroller.WithSyncCommitteeAggregationDelay(c15SlotDur*2/3),
	)
	must(err)
	return w
}

var (
	_ eth2client.SyncCommitteeDutiesProvider       = (*c15Duties)(nil)
	_ eth2client.BeaconBlockRootProvider           = (*c15Node)(nil)
	_ eth2client.SyncCommitteeContributionProvider = (*c15Node)(nil)
	_ eth2client.DomainProvider                    = c15Domains{}
)

// ---- reference window -----------------------------------------------------------------------------------------

// c15RefWindow is the reference: the slots in which a member of sync committee period p messages, regardless
// of the clock.  The period covers epochs [p*epp, (p+1)*epp-1], of which those from the fork epoch on have a
// sync committee.  Messages in slot s are for inclusion in slot s+1, so the window runs from one slot before
// the first slot to one slot before the last slot; there is no slot before slot 0, and a slot before the
// Altair fork epoch carries no sync committee message.
func c15RefWindow(epp, fork, p uint64) (lo, hi uint64, ok bool) {
	firstE, lastE := p*epp, (p+1)*epp-1
	if firstE < fork {
		firstE = fork
	}
	if firstE > lastE {
		return 0, 0, false
	}
	first := firstE * c15SPE
	last := (lastE+1)*c15SPE - 1
	lo = first
	if first > 0 && first-1 >= fork*c15SPE {
		lo = first - 1
	}
	hi = last - 1
	return lo, hi, lo <= hi
}

var c15MemberSets = []map[phase0.ValidatorIndex][]phase0.CommitteeIndex{
	{7: {0}},
	{3: {3}, 9: {7}},
	{1: {0, 5}, 2: {2}, 3: {15}},
}

type c15WinState struct {
	mode       string
	startSlot  uint64
	epp, fork  uint64
	delay      time.Duration
	members    []phase0.ValidatorIndex
	membership map[uint64]bool
	target     uint64 // mode D: the period asked for
	strict     bool
	calls      []c15MsgCall
	forkSeen   uint64
	firstEpoch []uint64 // controller's firstEpochOfSyncPeriod for periods 0..5
	endSlot    uint64   // observation ends at the start of this slot
	reorgSlot  uint64   // first slot of the epoch in which the current dependent root changes (0: no reorg)
	desc       string
	lateStart  bool // vouch is started eleven seconds into the slot and the node takes two seconds over the sync committee duties
	waited     bool // vouch waited for genesis and starts with the chain (clock at slot 0 of a chain with Altair from the start)
}

func c15WindowBody(st *c15WinState, epp, fork, s0 uint64) {
	*st = c15WinState{startSlot: s0, epp: epp, fork: fork}
	e0 := s0 / c15SPE
	// mode: S = vouch is started here and runs on; D = one direct scheduling call for the current / next period
	modes := []string{"S"}
	if e0 >= fork {
		modes = append(modes, "D-current", "D-next")
	}
	st.mode = modes[mc.Choose(len(modes))]
	positions := c15MemberSets[mc.Choose(len(c15MemberSets))]
	for v := range positions {
		st.members = append(st.members, v)
	}
	sort.Slice(st.members, func(i, j int) bool { return st.members[i] < st.members[j] })
	st.delay = 4 * time.Second
	if st.mode != "S" {
		st.delay = 2 * time.Second
	}
	eStart := e0
	if eStart < fork {
		eStart = fork
	}
	pStart := eStart / epp
	st.membership = map[uint64]bool{}
	st.strict = true
	if st.mode == "S" {
		// the periods vouch has to deal with from here on: the one it is in (or the fork's) and the next; with a
		// period of at least the controller's preparation lead (5 epochs) also the one after, which only the epoch
		// ticker can set up.
		n := uint64(2)
		if epp >= 5 {
			n = 3
		}
		some := false
		for p := pStart; p < pStart+n; p++ {
			st.membership[p] = mc.Choose(2) == 1
			some = some || st.membership[p]
		}
		if !some {
			st.membership[pStart] = true
		}
		st.endSlot = (pStart + n) * epp * c15SPE
		if e0 < fork {
			st.strict = mc.Choose(2) == 0
		}
	} else {
		st.target = pStart
		if st.mode == "D-next" {
			st.target = pStart + 1
		}
		st.membership[st.target] = true
		st.endSlot = (st.target + 1) * epp * c15SPE
	}
	if st.mode == "S" && s0 == 0 && fork == 0 {
		st.waited = mc.Choose(2) == 1
	}
	if st.mode == "S" && e0 >= fork && !st.waited {
		st.lateStart = mc.Choose(2) == 1
	}
	if st.lateStart {
		mc.Sleep(int64(11 * time.Second))
	}
	w := c15Build(c15WorldCfg{spec: c15Spec(epp, fork, 16, 4, 16), startSlot: s0, positions: positions, delay: st.delay, waited: st.waited, before: func(w *c15World) {
		w.duties.strict = st.strict
		w.duties.member = st.membership
		w.duties.armed = st.mode == "S" // mode D: the node has no duties for anybody while vouch starts
		if st.lateStart {
			w.duties.delay = int64(2 * time.Second)
		}
		if len(st.members) >= 2 {
			// the last member has exited and is not yet withdrawable: still on sync committee duty
			w.accts.exited = map[phase0.ValidatorIndex]bool{st.members[len(st.members)-1]: true}
		}
	}})
	defer w.cancel()
	if st.mode != "S" {
		// let New's own (empty) scheduling finish, then make the one call
		mc.Sleep(int64(time.Millisecond))
		w.duties.armed = true
		firstE := st.target * epp
		if firstE < fork {
			firstE = fork
		}
		w.ctrl.VerifC15ScheduleSyncCommitteeMessages(w.ctx, phase0.Epoch(firstE), st.members, false)
		w.duties.armed = false
	}
	st.forkSeen = uint64(w.ctrl.VerifC15AltairForkEpoch())
	for p := uint64(0); p < 6; p++ {
		st.firstEpoch = append(st.firstEpoch, uint64(w.ctrl.VerifC15FirstEpochOfSyncPeriod(p)))
	}
	// Optionally the chain reorganises in the first epoch of one of the later periods: a head event one second
	// into the period's first slot, and one in the next slot of that epoch that announces another current
	// dependent root (the controller then obtains the duties of the period after it again).
	if st.mode == "S" {
		var at []uint64
		for p := pStart + 1; p*epp*c15SPE+c15SPE <= st.endSlot && p*epp >= fork; p++ {
			if p*epp*c15SPE > s0 {
				at = append(at, p*epp*c15SPE)
			}
		}
		if k := mc.Choose(len(at) + 1); k > 0 {
			rs := at[k-1]
			st.reorgSlot = rs
			for i, cur := range []phase0.Root{root(0x21), root(0x22)} {
				slot := rs + uint64(i)
				mc.Sleep(int64(slot-s0)*int64(c15SlotDur) + int64(time.Second) - mc.Now())
				w.ev.deliver("head", &apiv1.HeadEvent{Slot: phase0.Slot(slot), Block: c15Root(slot), PreviousDutyDependentRoot: root(0x11), CurrentDutyDependentRoot: cur})
			}
		}
	}
	if d := int64(st.endSlot-s0)*int64(c15SlotDur) - int64(time.Second) - mc.Now(); st.endSlot > s0 && d > 0 {
		mc.Sleep(d)
	}
	st.calls = append([]c15MsgCall(nil), w.rec.calls...)
	var ps []string
	for p := uint64(0); p < 8; p++ {
		if st.membership[p] {
			ps = append(ps, fmt.Sprint(p))
		}
	}
	st.desc = fmt.Sprintf("EPOCHS_PER_SYNC_COMMITTEE_PERIOD=%d SLOTS_PER_EPOCH=%d ALTAIR_FORK_EPOCH=%d, clock at the start of slot %d (epoch %d), mode %s (waited for genesis: %v; started 11 s into the slot with duties that take 2 s: %v), members %v (of several, the last has exited and is not yet withdrawable) in the committee of period(s) %s, strict-node=%v, current dependent root changes in the epoch of slot %d (0: never)",
		epp, c15SPE, fork, s0, e0, st.mode, st.waited, st.lateStart, st.members, strings.Join(ps, ","), st.strict, st.reorgSlot)
}

func c15WindowCheck(st *c15WinState, r *mc.Result) mc.Verdict {
	epp, fork, s0 := st.epp, st.fork, st.startSlot
	e0 := s0 / c15SPE
	// reference
	required := map[uint64]uint64{} // slot -> period
	optional := map[uint64]bool{}
	inside, first := false, false
	for p, in := range st.membership {
		if !in {
			continue
		}
		lo, hi, ok := c15RefWindow(epp, fork, p)
		if !ok {
			continue
		}
		if lo < s0 && s0 <= hi {
			inside = true
		}
		if p == 0 && fork == 0 && e0 == 0 {
			first = true
		}
		for s := lo; s <= hi; s++ {
			switch {
			case s < s0 || s >= st.endSlot:
			case s == s0+1 && st.lateStart:
				// the duties were obtained one second into this slot: it was in progress when vouch could first
				// have set its job up, and is left open like the slot of the start
				optional[s] = true
			case s == s0 && st.mode == "S" && !st.waited:
				// vouch is being started in this slot: whether the slot in progress is still served is left open
				// (not so when it waited for genesis: the first slot begins with it)
				optional[s] = true
			default:
				required[s] = p
			}
		}
	}
	got := map[uint64][]c15MsgCall{}
	for _, c := range st.calls {
		got[uint64(c.slot)] = append(got[uint64(c.slot)], c)
	}
	v := mc.Verdict{Nontrivial: first || inside || e0 < fork}
	v.Outcome = fmt.Sprintf("mode=%s first-period=%v clock-inside=%v pre-fork=%v slots=%d", st.mode, first, inside, e0 < fork, len(got))
	var gs []uint64
	for s := range got {
		gs = append(gs, s)
	}
	sort.Slice(gs, func(i, j int) bool { return gs[i] < gs[j] })
	var rs []uint64
	for s := range required {
		rs = append(rs, s)
	}
	sort.Slice(rs, func(i, j int) bool { return rs[i] < rs[j] })
	v.Sample = fmt.Sprintf("%s: messaged in slots %v, reference %v", st.desc, gs, rs)
	fail := func(key, f string, a ...any) mc.Verdict {
		v.Key = "C15/" + key
		v.Violation = st.desc + ": " + fmt.Sprintf(f, a...) + fmt.Sprintf(" [messaged in slots %v; reference window %v]", gs, rs)
		return v
	}
	if r.Panic != "" {
		return fail("panic", "panic: %s", firstLine(r.Panic))
	}
	forkKey := func(key string) string {
		if st.forkSeen != fork {
			return "fork-epoch/ignored"
		}
		return key
	}
	forkNote := ""
	if st.forkSeen != fork {
		forkNote = fmt.Sprintf(" (the controller works with Altair fork epoch %d, the chain's is %d)", st.forkSeen, fork)
	}
	for _, s := range rs {
		if len(got[s]) == 0 {
			p := required[s]
			if p == 0 && fork == 0 && e0 == 0 {
				return fail("window/first-period-underflow", "no message job for slot %d of the chain's first period (first slot 0 has no predecessor; the window must start at slot 0 / now)", s)
			}
			return fail(forkKey("window/slot-missing"), "no sync committee message in slot %d, which is inside the window of period %d%s", s, p, forkNote)
		}
	}
	for _, s := range gs {
		if _, ok := required[s]; ok || optional[s] {
			continue
		}
		if s < fork*c15SPE {
			return fail("fork-epoch/ignored", "sync committee message in slot %d, before the Altair fork epoch %d%s", s, fork, forkNote)
		}
		return fail(forkKey("window/slot-unexpected"), "sync committee message in slot %d, outside the window of every period the validators are members of%s", s, forkNote)
	}
	for _, s := range gs {
		for _, c := range got[s] {
			start := (int64(s) - int64(s0)) * int64(c15SlotDur)
			if c.at < start || c.at > start+int64(st.delay) {
				return fail("window/wrong-time", "message for slot %d produced at offset %v from the start of that slot; it belongs between the slot's start and the configured maximum delay %v", s, time.Duration(c.at-start), st.delay)
			}
			have := map[phase0.ValidatorIndex]bool{}
			for _, x := range c.vals {
				have[x] = true
			}
			for _, m := range st.members {
				if !have[m] {
					return fail("window/member-missing", "the job for slot %d does not cover member %d", s, m)
				}
			}
			if c.accounts != len(st.members) {
				return fail("window/member-missing", "the job for slot %d has accounts for %d of %d members", s, c.accounts, len(st.members))
			}
		}
	}
	// period arithmetic as the controller computes it
	for p, fe := range st.firstEpoch {
		want := uint64(p) * epp
		if want < fork {
			want = fork
		}
		if fe != want {
			return fail(forkKey("window/period-arithmetic"), "first epoch of sync period %d computed as %d; periods are aligned to multiples of %d and start no earlier than the fork epoch %d, so %d", p, fe, epp, fork, want)
		}
	}
	return v
}

func c15SortedKeys[V any](m map[uint64]V) []uint64 {
	out := make([]uint64, 0, len(m))
	for k := range m {
		out = append(out, k)
	}
	sort.Slice(out, func(i, j int) bool { return out[i] < out[j] })
	return out
}

// ---- independence -----------------------------------------------------------------------------------------------

type c15IndState struct {
	// lateSlow: vouch is started eleven seconds into the slot and the signer takes six seconds over a batch of
	// selection proofs: the proofs of the next slot are still being signed when that slot's message time comes
	lateSlow  bool
	states    [3]int // per member: 0 ok, 1 account missing, 2 root signature missing, 3 local account that cannot sign at all
	positions map[phase0.ValidatorIndex][]phase0.CommitteeIndex
	node      *c15Node
	env       *c15Env
	slots     []uint64
	desc      string
}

var c15IndPositions = []map[phase0.ValidatorIndex][]phase0.CommitteeIndex{
	{1: {0}, 2: {5}, 3: {15}},        // three subcommittees
	{1: {4}, 2: {5}, 3: {6}},         // all in subcommittee 1
	{1: {3, 12}, 2: {4, 7}, 3: {13}}, // two positions each: different / same subcommittee
}

const (
	c15IndSize    = uint64(16)
	c15IndSubnets = uint64(4)
	c15IndTarget  = uint64(16)
)

func c15IndBody(st *c15IndState, states [3]int) {
	*st = c15IndState{states: states, lateSlow: st.lateSlow}
	st.positions = c15IndPositions[mc.Choose(len(c15IndPositions))]
	if st.lateSlow {
		mc.Sleep(int64(11 * time.Second))
	}
	const s0 = 10 // epoch 5 of 4-epoch periods: mid period 1
	st.slots = []uint64{s0 + 1, s0 + 2, s0 + 3}
	w := c15Build(c15WorldCfg{spec: c15Spec(4, 0, c15IndSize, c15IndSubnets, c15IndTarget), startSlot: s0, positions: st.positions, real: true, delay: 4 * time.Second, before: func(w *c15World) {
		for i, s := range states {
			v := phase0.ValidatorIndex(i + 1)
			switch s {
			case 1:
				w.accts.missing[v] = true
			case 2:
				w.env.zeroRoot[v] = true
			case 3:
				w.env.local = true
				if w.env.signErr == nil {
					w.env.signErr = map[phase0.ValidatorIndex]bool{}
				}
				w.env.signErr[v] = true
			}
		}
		for _, s := range st.slots {
			w.env.registerSelectionRoots(phase0.Slot(s), 64)
		}
		w.duties.member = map[uint64]bool{1: true, 2: true}
		w.duties.armed = true
		if st.lateSlow {
			w.env.selDelay = int64(6 * time.Second)
		}
	}})
	defer w.cancel()
	mc.Sleep(4*int64(c15SlotDur) - int64(time.Second) - mc.Now())
	st.node, st.env = w.node, w.env
	names := []string{"ok", "account missing", "root signature missing", "local account that cannot sign"}
	st.desc = fmt.Sprintf("members 1,2,3 with committee positions %v; member states [%s, %s, %s]; vouch started at slot %d, slots %v observed",
		st.positions, names[states[0]], names[states[1]], names[states[2]], s0, st.slots)
}

func c15IndCheck(st *c15IndState, r *mc.Result) mc.Verdict {
	faulty := 0
	for _, s := range st.states {
		if s != 0 {
			faulty++
		}
	}
	v := mc.Verdict{Nontrivial: faulty > 0}
	fail := func(key, f string, a ...any) mc.Verdict {
		v.Key = "C15/" + key
		v.Violation = st.desc + ": " + fmt.Sprintf(f, a...)
		return v
	}
	if r.Panic != "" {
		return fail("panic", "panic: %s", firstLine(r.Panic))
	}
	// the structural cause of a suppression: what the faulty members lack
	cause := "other"
	kinds := map[int]bool{}
	for _, s := range st.states {
		if s != 0 {
			kinds[s] = true
		}
	}
	if kinds[1] {
		cause = "missing-account" // (a missing account stops the batch before any signature is looked at)
	} else if kinds[2] {
		cause = "missing-signature"
	} else if kinds[3] {
		cause = "failing-local-account"
	}
	nmsg, ncon := 0, 0
	subSize := c15IndSize / c15IndSubnets
	modulus := c15RefModulus(c15IndSize, c15IndSubnets, c15IndTarget)
	for _, slot := range st.slots {
		want := c15Root(slot)
		for i, s := range st.states {
			if s != 0 {
				continue
			}
			val := phase0.ValidatorIndex(i + 1)
			var found *altair.SyncCommitteeMessage
			for _, m := range st.node.messages {
				if uint64(m.Slot) == slot && m.ValidatorIndex == val {
					found = m
					break
				}
			}
			if found == nil {
				if faulty > 0 {
					return fail("message/member-suppressed-by-"+cause, "no sync committee message of member %d for slot %d although it has an account and a signature (%d messages submitted in all)", val, slot, len(st.node.messages))
				}
				return fail("message/missing", "no sync committee message of member %d for slot %d", val, slot)
			}
			nmsg++
			if found.BeaconBlockRoot != want {
				return fail("message/wrong-root", "member %d's message for slot %d carries root %#x; the head root obtained in that slot is %#x", val, slot, found.BeaconBlockRoot[:9], want[:9])
			}
			rq, ok := st.env.made[found.Signature]
			if !ok || rq.idx != val {
				return fail("message/wrong-signature", "member %d's message for slot %d carries a signature that is not this member's", val, slot)
			}
			if st.env.local {
				// a local account signs the signing root of the head root under the sync committee domain
				if rq.data != c15SigningRoot(want, phase0.DomainType{0x07, 0, 0, 0}, phase0.Epoch(slot/c15SPE)) {
					return fail("message/wrong-root", "member %d's message for slot %d is not signed over the head root obtained in that slot (%#x)", val, slot, want[:9])
				}
			} else if rq.data != want {
				return fail("message/wrong-root", "member %d's message for slot %d is signed over root %#x; the head root obtained in that slot is %#x", val, slot, rq.data[:9], want[:9])
			}
			// contributions: one per subcommittee this member is the selected aggregator of
			subs := map[uint64]bool{}
			for _, pos := range st.positions[val] {
				subs[uint64(pos)/subSize] = true
			}
			for _, sc := range c15SortedKeys(subs) {
				proof, ok := st.env.selSigs[[2]uint64{uint64(val), sc}]
				if ok && c15HashMod(proof, modulus) != 0 {
					continue // not selected
				}
				var c *altair.SignedContributionAndProof
				for _, x := range st.node.contributions {
					if x != nil && x.Message != nil && x.Message.Contribution != nil && x.Message.AggregatorIndex == val &&
						uint64(x.Message.Contribution.Slot) == slot && x.Message.Contribution.SubcommitteeIndex == sc {
						c = x
						break
					}
				}
				if c == nil {
					if faulty > 0 {
						return fail("contribution/member-suppressed-by-"+cause, "no contribution of member %d (selected aggregator of subcommittee %d) for slot %d although it has an account and signatures (%d contributions submitted in all)", val, sc, slot, len(st.node.contributions))
					}
					return fail("contribution/missing", "no contribution of member %d (selected aggregator of subcommittee %d) for slot %d", val, sc, slot)
				}
				ncon++
				if c.Message.Contribution.BeaconBlockRoot != want {
					return fail("contribution/wrong-root", "member %d's contribution for slot %d subcommittee %d is for root %#x; the head root obtained in that slot is %#x", val, slot, sc, c.Message.Contribution.BeaconBlockRoot[:9], want[:9])
				}
				prq, ok := st.env.made[c.Message.SelectionProof]
				if !ok || prq.idx != val || st.env.selRoots[prq.data] != sc {
					return fail("contribution/wrong-selection-proof", "member %d's contribution for slot %d subcommittee %d carries a selection proof that is not its own for that subcommittee", val, slot, sc)
				}
			}
		}
	}
	v.Outcome = fmt.Sprintf("faulty=%d messages=%d contributions=%d", faulty, nmsg, ncon)
	v.Sample = st.desc + " -> " + v.Outcome
	return v
}

// ---- aggregator selection ---------------------------------------------------------------------------------------

type c15SelCfg struct{ size, subnets, target uint64 }

type c15SelState struct {
	cfg      c15SelCfg
	pos      map[phase0.ValidatorIndex][]phase0.CommitteeIndex
	noAcct   phase0.ValidatorIndex // 0: none
	noSel    phase0.ValidatorIndex // member for which the signer returns no selection proof (0: none)
	residues map[phase0.ValidatorIndex]uint64
	got      map[phase0.ValidatorIndex]map[uint64]phase0.BLSSignature
	env      *c15Env
	err      error
	desc     string
}

func c15SelBody(st *c15SelState, cfg c15SelCfg, nMembers int, noAcct phase0.ValidatorIndex) {
	*st = c15SelState{cfg: cfg, noAcct: noAcct, pos: map[phase0.ValidatorIndex][]phase0.CommitteeIndex{}, residues: map[phase0.ValidatorIndex]uint64{}}
	sub := cfg.size / cfg.subnets
	modulus := c15RefModulus(cfg.size, cfg.subnets, cfg.target)
	// committee positions on and next to the subcommittee boundaries
	posSets := [][]phase0.CommitteeIndex{
		{0},
		{phase0.CommitteeIndex(sub - 1)},
		{phase0.CommitteeIndex(sub)},
		{phase0.CommitteeIndex(cfg.size - 1)},
		{phase0.CommitteeIndex(sub - 1), phase0.CommitteeIndex(sub)},
		{phase0.CommitteeIndex(2*sub + 1), phase0.CommitteeIndex(3*sub - 1)},
	}
	residueChoices := []uint64{0}
	if modulus > 1 {
		residueChoices = append(residueChoices, 1, modulus-1)
	}
	for m := 1; m <= nMembers; m++ {
		v := phase0.ValidatorIndex(m)
		st.pos[v] = posSets[mc.Choose(len(posSets))]
		st.residues[v] = residueChoices[mc.Choose(len(residueChoices))]
	}
	w := c15Build(c15WorldCfg{spec: c15Spec(4, 0, cfg.size, cfg.subnets, cfg.target), startSlot: 36, positions: st.pos, real: true, noCtrl: true})
	defer w.cancel()
	const slot = phase0.Slot(37)
	w.env.registerSelectionRoots(slot, 4*cfg.subnets)
	w.env.selModulus = modulus
	w.env.selResidue = st.residues
	if nMembers > 1 {
		st.noSel = phase0.ValidatorIndex(mc.Choose(nMembers + 1))
		if st.noSel == noAcct {
			st.noSel = 0
		}
		if st.noSel != 0 {
			w.env.zeroSel = map[phase0.ValidatorIndex]bool{st.noSel: true}
		}
	}
	duty := synccommitteemessenger.NewDuty(slot, st.pos)
	for v, a := range w.accts.all {
		if v != noAcct {
			duty.SetAccount(v, a)
		}
	}
	st.err = w.msgr.Prepare(w.ctx, duty)
	st.got = map[phase0.ValidatorIndex]map[uint64]phase0.BLSSignature{}
	for v := range st.pos {
		st.got[v] = duty.AggregatorSubcommittees(v)
	}
	st.env = w.env
	st.desc = fmt.Sprintf("SYNC_COMMITTEE_SIZE=%d SYNC_COMMITTEE_SUBNET_COUNT=%d TARGET_AGGREGATORS_PER_SYNC_SUBCOMMITTEE=%d (subcommittee size %d, modulus %d); positions %v; selection hash residues %v; member without account: %d; member without selection proofs: %d",
		cfg.size, cfg.subnets, cfg.target, sub, modulus, st.pos, st.residues, noAcct, st.noSel)
}

func c15SelCheck(st *c15SelState, r *mc.Result) mc.Verdict {
	cfg := st.cfg
	sub := cfg.size / cfg.subnets
	modulus := c15RefModulus(cfg.size, cfg.subnets, cfg.target)
	v := mc.Verdict{}
	fail := func(key, f string, a ...any) mc.Verdict {
		v.Key = "C15/" + key
		v.Violation = st.desc + ": " + fmt.Sprintf(f, a...)
		return v
	}
	if r.Panic != "" {
		return fail("panic", "panic: %s", firstLine(r.Panic))
	}
	if st.err != nil {
		return fail("aggregator/prepare-failed", "Prepare failed: %v", st.err)
	}
	nsel, nnot := 0, 0
	var vals []phase0.ValidatorIndex
	for val := range st.pos {
		vals = append(vals, val)
	}
	sort.Slice(vals, func(i, j int) bool { return vals[i] < vals[j] })
	for _, val := range vals {
		refSubs := map[uint64]bool{}
		for _, p := range st.pos[val] {
			refSubs[uint64(p)/sub] = true
		}
		got := st.got[val]
		if val == st.noAcct {
			// nothing can be signed for this member; its presence must not disturb the others (checked below)
			continue
		}
		if val == st.noSel {
			// the signer returned no selection proof for this member.  What vouch makes of the empty proof is not
			// judged (with modulus 1 the specification's hash rule selects any byte string, and vouch does make
			// such a member an aggregator — noted in DESIGN.md); the others are judged on their own proofs below
			continue
		}
		for _, sc := range c15SortedKeys(got) {
			if !refSubs[sc] {
				return fail("aggregator/wrong-subcommittee", "member %d (positions %v) is made aggregator of subcommittee %d, to which none of its positions belongs", val, st.pos[val], sc)
			}
		}
		for _, sc := range c15SortedKeys(refSubs) {
			proof, signed := st.env.selSigs[[2]uint64{uint64(val), sc}]
			if !signed {
				return fail("aggregator/wrong-subcommittee", "no selection proof was requested for member %d and subcommittee %d (positions %v)", val, sc, st.pos[val])
			}
			selected := c15HashMod(proof, modulus) == 0
			gp, isAgg := got[sc]
			if selected {
				nsel++
			} else {
				nnot++
			}
			if selected != isAgg {
				return fail("aggregator/selection-mismatch", "member %d subcommittee %d: hash(selection proof)[0:8] mod %d = %d, so selected=%v by the specification; vouch says %v", val, sc, modulus, c15HashMod(proof, modulus), selected, isAgg)
			}
			if isAgg && gp != proof {
				return fail("aggregator/selection-mismatch", "member %d subcommittee %d: recorded selection proof is not the signature obtained for that subcommittee", val, sc)
			}
		}
	}
	v.Nontrivial = true // every case sits on a selection boundary (residue 0, 1 or modulus-1) or has modulus 1
	v.Outcome = fmt.Sprintf("modulus=%d selected=%d not-selected=%d no-account=%v", modulus, nsel, nnot, st.noAcct != 0)
	v.Sample = st.desc + " -> " + v.Outcome
	return v
}

// ---- units -------------------------------------------------------------------------------------------------------

func c15Units(tier string) []hx.Unit {
	var units []hx.Unit
	// window
	for _, epp := range []uint64{2, 4, 8} {
		forks := []uint64{0, 1, 3}
		if epp == 8 {
			// a fork two epochs before a period boundary: the preparation of the next period (five epochs ahead) fell
			// before the fork, so the fork handling itself has to set that period up
			forks = append(forks, 6)
		}
		for _, fork := range forks {
			// clock positions: every slot start of the first three periods (quick: of the first two, and for the
			// long period every other slot of the second) -- this includes genesis, the first slot of a period,
			// mid period, the last epoch of a period, the fork epoch and the epoch before it
			nslots := 3 * epp * c15SPE
			for s0 := uint64(0); s0 < nslots; s0++ {
				if tier != "thorough" {
					if s0 >= 2*epp*c15SPE+2 {
						continue
					}
					if epp == 8 && s0 >= epp*c15SPE && s0%2 == 1 {
						continue
					}
				}
				epp, fork, s0 := epp, fork, s0
				st := &c15WinState{}
				horizon := int64(5*epp*c15SPE+4) * int64(c15SlotDur)
				units = append(units, hx.Unit{
					Name:  fmt.Sprintf("C15/window/epp-%d/fork-%d/clock-slot-%d", epp, fork, s0),
					Cfg:   mc.Config{Fixed: true, Horizon: horizon},
					Body:  func() { c15WindowBody(st, epp, fork, s0) },
					Check: func(r *mc.Result) mc.Verdict { return c15WindowCheck(st, r) },
				})
			}
		}
	}
	// independence
	for a := 0; a < 3; a++ {
		for b := 0; b < 3; b++ {
			for c := 0; c < 3; c++ {
				states := [3]int{a, b, c}
				st := &c15IndState{}
				units = append(units, hx.Unit{
					Name:  fmt.Sprintf("C15/independence/states-%d%d%d", a, b, c),
					Cfg:   mc.Config{Fixed: true, Horizon: int64(6 * c15SlotDur)},
					Body:  func() { c15IndBody(st, states) },
					Check: func(r *mc.Result) mc.Verdict { return c15IndCheck(st, r) },
				})
			}
		}
	}
	for _, states := range [][3]int{{0, 3, 0}, {3, 0, 0}, {0, 0, 3}} {
		states := states
		st := &c15IndState{}
		units = append(units, hx.Unit{
			Name:  fmt.Sprintf("C15/independence/local-accounts/states-%d%d%d", states[0], states[1], states[2]),
			Cfg:   mc.Config{Fixed: true, Horizon: int64(6 * c15SlotDur)},
			Body:  func() { c15IndBody(st, states) },
			Check: func(r *mc.Result) mc.Verdict { return c15IndCheck(st, r) },
		})
	}
	{
		st := &c15IndState{lateSlow: true}
		units = append(units, hx.Unit{
			Name:  "C15/independence/late-start+slow-selection-signer",
			Cfg:   mc.Config{Fixed: true, Horizon: int64(6 * c15SlotDur)},
			Body:  func() { c15IndBody(st, [3]int{0, 0, 0}) },
			Check: func(r *mc.Result) mc.Verdict { v := c15IndCheck(st, r); v.Nontrivial = true; return v },
		})
	}
	// selection
	cfgs := []c15SelCfg{{512, 4, 16}, {16, 4, 16}, {32, 4, 2}, {64, 4, 16}, {128, 4, 4}}
	maxMembers := 2
	if tier == "thorough" {
		maxMembers = 3
	}
	for _, cfg := range cfgs {
		for n := 1; n <= maxMembers; n++ {
			for noAcct := 0; noAcct <= n && noAcct <= 2; noAcct++ {
				if noAcct > 0 && n == 1 {
					continue
				}
				cfg, n, noAcct := cfg, n, noAcct
				st := &c15SelState{}
				units = append(units, hx.Unit{
					Name:  fmt.Sprintf("C15/selection/size-%d-target-%d/members-%d/no-account-%d", cfg.size, cfg.target, n, noAcct),
					Cfg:   mc.Config{Fixed: true},
					Body:  func() { c15SelBody(st, cfg, n, phase0.ValidatorIndex(noAcct)) },
					Check: func(r *mc.Result) mc.Verdict { return c15SelCheck(st, r) },
				})
			}
		}
	}
	return units
}

func init() {
	hx.Register(&hx.Prop{
		ID:    "C15",
		Title: "Sync committee members message every slot of their period, independently",
		Rule: "window: EPOCHS_PER_SYNC_COMMITTEE_PERIOD in {2,4,8} x ALTAIR_FORK_EPOCH in {0,1,3} (and 6 for the period of 8 epochs: two epochs before a boundary) x clock at every slot start of the first three periods (quick: two) x {vouch started there and run to the end of the periods it has to set up, with every membership pattern over those periods; one direct scheduling call for the current / the next period} x 3 member sets, on the real controller + real scheduler + real chain time with a recording messenger, compared with the reference window [max(first-1, now, fork) .. last-1] and the configured delay; " +
			"independence: 3 members x {ok, account missing, root signature missing}^3 x 3 position sets through the real controller, messenger, aggregator and signer over three slots with a head root scripted per slot; " +
			"selection: 5 (size, subnets, target) configurations (modulus 1 and >1) x 1-3 members x boundary positions x selection hash residues {0, 1, modulus-1} x one member without account, on the real messenger Prepare with the real signer, recomputed with crypto/sha256; " +
			"non-trivial = first period of the chain, clock inside a member period or before the fork / a member without account or signature / every selection case; distinct = distinct outcome classes",
		Assumptions: []string{
			"clock positions are slot starts; SLOTS_PER_EPOCH = 2",
			"a beacon node asked for sync duties of an epoch before the Altair fork answers with an error or (lenient) with the duties of that epoch's period",
			"with EPOCHS_PER_SYNC_COMMITTEE_PERIOD below the controller's preparation lead (5 epochs) only the periods set up at start / at the fork are observed",
			"a missing signature is what a remote distributed signer returns for one account of a batch (nil entry -> zero signature); a per-account error of a local signer fails the whole batch inside the signer and is outside this property's anchors",
			"the slot in progress when vouch starts may or may not be served",
		},
		Units:         c15Units,
		MinNontrivial: 2000,
	})
}
