package props

import (
	"context"
	"errors"
	"fmt"
	"math/big"
	"strings"
	"time"

	"verifharness/hx"

	"github.com/attestantio/go-block-relay/services/blockauctioneer"
	builderclient "github.com/attestantio/go-builder-client"
	builderapi "github.com/attestantio/go-builder-client/api"
	builderspec "github.com/attestantio/go-builder-client/spec"
	"github.com/attestantio/go-eth2-client/api"
	apiv1bellatrix "github.com/attestantio/go-eth2-client/api/v1/bellatrix"
	apiv1capella "github.com/attestantio/go-eth2-client/api/v1/capella"
	apiv1deneb "github.com/attestantio/go-eth2-client/api/v1/deneb"
	"github.com/attestantio/go-eth2-client/spec"
	"github.com/attestantio/go-eth2-client/spec/altair"
	"github.com/attestantio/go-eth2-client/spec/bellatrix"
	"github.com/attestantio/go-eth2-client/spec/capella"
	"github.com/attestantio/go-eth2-client/spec/deneb"
	"github.com/attestantio/go-eth2-client/spec/phase0"
	"github.com/attestantio/vouch/services/beaconblockproposer"
	standardproposer "github.com/attestantio/vouch/services/beaconblockproposer/standard"
	"github.com/attestantio/vouch/services/metrics"
	nullmetrics "github.com/attestantio/vouch/services/metrics/null"
	"github.com/attestantio/vouch/verifmc/mc"
	"github.com/attestantio/vouch/verifmc/mcontext"
	"github.com/attestantio/vouch/verifmc/mtime"
	"github.com/holiman/uint256"
	"github.com/prysmaticlabs/go-bitfield"
	"github.com/rs/zerolog"
	e2wtypes "github.com/wealdtech/go-eth2-wallet-types/v2"
)

// C05: a proposal signs only the selected block of the duty slot and submits it intact.

const c05Slot = phase0.Slot(100)

type c05Relay struct {
	idx  int
	beh  string // full, err3, status400, nildata, never, late
	lat  int64
	env  *c05Env
	got  []*api.VersionedSignedBlindedProposal
	full *api.VersionedSignedProposal // the block this relay hands back
	n    int
}

func (r *c05Relay) Name() string              { return fmt.Sprintf("relay%d", r.idx) }
func (r *c05Relay) Address() string           { return fmt.Sprintf("https://relay%d.example.com/", r.idx) }
func (r *c05Relay) Pubkey() *phase0.BLSPubKey { return nil }
func (r *c05Relay) BuilderBid(_ context.Context, _ *builderapi.BuilderBidOpts) (*builderapi.Response[*builderspec.VersionedSignedBuilderBid], error) {
	return nil, errors.New("not used")
}

func (r *c05Relay) UnblindProposal(ctx context.Context, opts *builderapi.UnblindProposalOpts) (*builderapi.Response[*api.VersionedSignedProposal], error) {
	r.n++
	r.got = append(r.got, opts.Proposal)
	if r.beh == "never" {
		d := ctx.Done()
		if d == nil {
			mc.Block(0)
		}
		mc.Block(mc.KeyOfRecv(d))
		return nil, ctx.Err()
	}
	if r.lat > 0 {
		t := mtime.After(time.Duration(r.lat))
		if sel := mc.Select(false, mc.RecvCase(ctx.Done()), mc.RecvCase(t)); sel.Index == 0 {
			return nil, ctx.Err()
		}
	}
	switch r.beh {
	case "err3":
		return nil, errors.New("POST failed with status 500: relay unavailable")
	case "status400":
		return nil, errors.New("POST failed with status 400: bad request")
	case "err503":
		return nil, errors.New("POST failed with status 503: service unavailable")
	case "nildata":
		return &builderapi.Response[*api.VersionedSignedProposal]{Data: nil, Metadata: map[string]any{}}, nil
	}
	r.full = c05FullBlock(r.env.version, byte(0x70+r.idx))
	return &builderapi.Response[*api.VersionedSignedProposal]{Data: r.full, Metadata: map[string]any{}}, nil
}

type c05Env struct {
	// prom: the proposer gets a metrics service that presents as Prometheus (C05 only: the collectors are
	// process-wide state, written by the first execution of a worker and read by later ones, which the race
	// detector of C17 would hold against the code)
	prom     bool
	version  spec.DataVersion
	blinded  bool
	slotOff  phase0.Slot
	graffiti string // ok, error, none
	auction  string // none, error, nowinner, winner1, winner2
	sign     string // ok, error
	submit   string // ok, error
	all      bool   // unblindFromAllRelays
	// unhashable: the proposal's execution payload (header) is null, which the client library's decoder
	// lets through and its hashing code cannot handle: the block has no body root, so nothing may be signed
	unhashable bool
	// prior: the same proposer service has prepared another validator's proposal for the previous slot (same epoch)
	prior     bool
	acct2     *hAccount
	gotReveal phase0.BLSSignature
	relays    []*c05Relay
	acct      *hAccount

	// served: the node handed out a blinded proposal.  It has a builder's header whenever `blinded` is set, and then
	// does so unless it was asked with a builder boost factor of zero (as the beacon API defines it)
	served    bool
	proposal  *api.VersionedProposal
	randao    []string
	signCalls []c05SignCall
	submitted []*api.VersionedSignedProposal
	prepErr   error
	done      bool
	proposals int
	gotGraf   [32]byte
}

type c05SignCall struct {
	acct          e2wtypes.Account
	slot          phase0.Slot
	idx           phase0.ValidatorIndex
	parent, state phase0.Root
	body          phase0.Root
	sig           phase0.BLSSignature
}

func (e *c05Env) SignRANDAOReveal(_ context.Context, a e2wtypes.Account, slot phase0.Slot) (phase0.BLSSignature, error) {
	e.randao = append(e.randao, fmt.Sprintf("%s@%d", a.Name(), slot))
	return c05Reveal(a.Name(), slot), nil
}

func (e *c05Env) SignBeaconBlockProposal(_ context.Context, a e2wtypes.Account, slot phase0.Slot, idx phase0.ValidatorIndex, parent, state, body phase0.Root) (phase0.BLSSignature, error) {
	c := c05SignCall{acct: a, slot: slot, idx: idx, parent: parent, state: state, body: body}
	c.sig = phase0.BLSSignature{0xbb, byte(len(e.signCalls) + 1)}
	e.signCalls = append(e.signCalls, c)
	if e.sign == "error" {
		return phase0.BLSSignature{}, errors.New("scripted signer failure")
	}
	return c.sig, nil
}

func (e *c05Env) SignBlobSidecar(_ context.Context, _ e2wtypes.Account, _ phase0.Slot, _ phase0.Root) (phase0.BLSSignature, error) {
	return phase0.BLSSignature{0xcc}, nil
}

func (e *c05Env) SubmitProposal(_ context.Context, p *api.VersionedSignedProposal) error {
	e.submitted = append(e.submitted, p)
	if e.submit == "error" {
		return errors.New("scripted submit failure")
	}
	return nil
}

func (e *c05Env) Graffiti(_ context.Context, _ phase0.Slot, _ phase0.ValidatorIndex) ([]byte, error) {
	if e.graffiti == "error" {
		return nil, errors.New("scripted graffiti failure")
	}
	return []byte("verif graffiti"), nil
}

func (e *c05Env) ExecutionChainHead(_ context.Context) (phase0.Hash32, uint64) {
	return phase0.Hash32{9}, 1000
}

func (e *c05Env) AuctionBlock(_ context.Context, _ phase0.Slot, _ phase0.Hash32, _ phase0.BLSPubKey) (*blockauctioneer.Results, error) {
	if e.auction == "error" {
		return nil, errors.New("scripted auction failure")
	}
	res := &blockauctioneer.Results{Participation: map[string]*blockauctioneer.Participation{}, AllProviders: []builderclient.BuilderBidProvider{}, Providers: []builderclient.BuilderBidProvider{}}
	for _, r := range e.relays {
		res.AllProviders = append(res.AllProviders, r)
	}
	switch e.auction {
	case "winner1":
		res.Providers = append(res.Providers, e.relays[0])
	case "winner2":
		for _, r := range e.relays {
			res.Providers = append(res.Providers, r)
		}
	}
	if len(res.Providers) > 0 {
		res.WinningParticipation = &blockauctioneer.Participation{Category: "standard", Score: big.NewInt(10)}
	}
	return res, nil
}

func (e *c05Env) Proposal(_ context.Context, opts *api.ProposalOpts) (*api.Response[*api.VersionedProposal], error) {
	e.proposals++
	e.gotGraf = opts.Graffiti
	e.gotReveal = opts.RandaoReveal
	e.served = e.blinded && (opts.BuilderBoostFactor == nil || *opts.BuilderBoostFactor != 0)
	e.proposal = c05Proposal(e.version, e.served, c05Slot+e.slotOff)
	if e.unhashable {
		switch {
		case e.proposal.Bellatrix != nil:
			e.proposal.Bellatrix.Body.ExecutionPayload = nil
		case e.proposal.BellatrixBlinded != nil:
			e.proposal.BellatrixBlinded.Body.ExecutionPayloadHeader = nil
		case e.proposal.Capella != nil:
			e.proposal.Capella.Body.ExecutionPayload = nil
		case e.proposal.CapellaBlinded != nil:
			e.proposal.CapellaBlinded.Body.ExecutionPayloadHeader = nil
		case e.proposal.Deneb != nil:
			e.proposal.Deneb.Block.Body.ExecutionPayload = nil
		case e.proposal.DenebBlinded != nil:
			e.proposal.DenebBlinded.Body.ExecutionPayloadHeader = nil
		}
	}
	return &api.Response[*api.VersionedProposal]{Data: e.proposal, Metadata: map[string]any{}}, nil
}

func c05Sync() *altair.SyncAggregate {
	return &altair.SyncAggregate{SyncCommitteeBits: bitfield.NewBitvector512()}
}

// promPresenting is a metrics service that presents as Prometheus, as vouch's does whenever a metrics address is
// configured: the proposer then registers and feeds its Prometheus collectors (process-wide, once).
type promPresenting struct{ nullmetrics.Service }

func (promPresenting) Presenter() string { return "prometheus" }

func c05Monitor(e *c05Env) metrics.Service {
	if e.prom {
		return promPresenting{}
	}
	return &nullmetrics.Service{}
}

func c05Payload(b byte) *bellatrix.ExecutionPayload {
	return &bellatrix.ExecutionPayload{FeeRecipient: bellatrix.ExecutionAddress{1}, BlockHash: phase0.Hash32{b}, ExtraData: []byte{}}
}

// c05Proposal builds a well-formed proposal of the given version.
func c05Proposal(v spec.DataVersion, blinded bool, slot phase0.Slot) *api.VersionedProposal {
	p := &api.VersionedProposal{Version: v, Blinded: blinded, ConsensusValue: big.NewInt(1), ExecutionValue: big.NewInt(1)}
	eth1 := &phase0.ETH1Data{BlockHash: make([]byte, 32)}
	switch v {
	case spec.DataVersionPhase0:
		p.Phase0 = &phase0.BeaconBlock{Slot: slot, ProposerIndex: 7, ParentRoot: root(1), StateRoot: root(2), Body: &phase0.BeaconBlockBody{ETH1Data: eth1, Graffiti: [32]byte{1}}}
	case spec.DataVersionAltair:
		p.Altair = &altair.BeaconBlock{Slot: slot, ProposerIndex: 7, ParentRoot: root(1), StateRoot: root(2), Body: &altair.BeaconBlockBody{ETH1Data: eth1, SyncAggregate: c05Sync(), Graffiti: [32]byte{2}}}
	case spec.DataVersionBellatrix:
		if blinded {
			p.BellatrixBlinded = &apiv1bellatrix.BlindedBeaconBlock{Slot: slot, ProposerIndex: 7, ParentRoot: root(1), StateRoot: root(2), Body: &apiv1bellatrix.BlindedBeaconBlockBody{ETH1Data: eth1, SyncAggregate: c05Sync(),
				ExecutionPayloadHeader: &bellatrix.ExecutionPayloadHeader{FeeRecipient: bellatrix.ExecutionAddress{1}, ExtraData: []byte{}}}}
		} else {
			p.Bellatrix = &bellatrix.BeaconBlock{Slot: slot, ProposerIndex: 7, ParentRoot: root(1), StateRoot: root(2), Body: &bellatrix.BeaconBlockBody{ETH1Data: eth1, SyncAggregate: c05Sync(), ExecutionPayload: c05Payload(3)}}
		}
	case spec.DataVersionCapella:
		if blinded {
			p.CapellaBlinded = &apiv1capella.BlindedBeaconBlock{Slot: slot, ProposerIndex: 7, ParentRoot: root(1), StateRoot: root(2), Body: &apiv1capella.BlindedBeaconBlockBody{ETH1Data: eth1, SyncAggregate: c05Sync(),
				ExecutionPayloadHeader: &capella.ExecutionPayloadHeader{FeeRecipient: bellatrix.ExecutionAddress{1}, ExtraData: []byte{}}}}
		} else {
			p.Capella = &capella.BeaconBlock{Slot: slot, ProposerIndex: 7, ParentRoot: root(1), StateRoot: root(2), Body: &capella.BeaconBlockBody{ETH1Data: eth1, SyncAggregate: c05Sync(),
				ExecutionPayload: &capella.ExecutionPayload{FeeRecipient: bellatrix.ExecutionAddress{1}, ExtraData: []byte{}}}}
		}
	case spec.DataVersionDeneb:
		if blinded {
			p.DenebBlinded = &apiv1deneb.BlindedBeaconBlock{Slot: slot, ProposerIndex: 7, ParentRoot: root(1), StateRoot: root(2), Body: &apiv1deneb.BlindedBeaconBlockBody{ETH1Data: eth1, SyncAggregate: c05Sync(),
				ExecutionPayloadHeader: &deneb.ExecutionPayloadHeader{FeeRecipient: bellatrix.ExecutionAddress{1}, ExtraData: []byte{}, BaseFeePerGas: uint256.NewInt(1)}}}
		} else {
			p.Deneb = &apiv1deneb.BlockContents{Block: &deneb.BeaconBlock{Slot: slot, ProposerIndex: 7, ParentRoot: root(1), StateRoot: root(2), Body: &deneb.BeaconBlockBody{ETH1Data: eth1, SyncAggregate: c05Sync(),
				ExecutionPayload: &deneb.ExecutionPayload{FeeRecipient: bellatrix.ExecutionAddress{1}, ExtraData: []byte{}, BaseFeePerGas: uint256.NewInt(1)}}}}
		}
	}
	return p
}

// c05FullBlock is what a relay returns when unblinding.
func c05FullBlock(v spec.DataVersion, tag byte) *api.VersionedSignedProposal {
	p := &api.VersionedSignedProposal{Version: v}
	switch v {
	case spec.DataVersionBellatrix:
		p.Bellatrix = &bellatrix.SignedBeaconBlock{Message: &bellatrix.BeaconBlock{Slot: c05Slot, ProposerIndex: 7, ParentRoot: root(1), StateRoot: root(2), Body: &bellatrix.BeaconBlockBody{ETH1Data: &phase0.ETH1Data{BlockHash: make([]byte, 32)}, SyncAggregate: c05Sync(), ExecutionPayload: c05Payload(tag)}}, Signature: phase0.BLSSignature{tag}}
	case spec.DataVersionCapella:
		p.Capella = &capella.SignedBeaconBlock{Message: &capella.BeaconBlock{Slot: c05Slot, ProposerIndex: 7, ParentRoot: root(1), StateRoot: root(2), Body: &capella.BeaconBlockBody{ETH1Data: &phase0.ETH1Data{BlockHash: make([]byte, 32)}, SyncAggregate: c05Sync(),
			ExecutionPayload: &capella.ExecutionPayload{FeeRecipient: bellatrix.ExecutionAddress{1}, BlockHash: phase0.Hash32{tag}, ExtraData: []byte{}}}}, Signature: phase0.BLSSignature{tag}}
	case spec.DataVersionDeneb:
		p.Deneb = &apiv1deneb.SignedBlockContents{SignedBlock: &deneb.SignedBeaconBlock{Message: &deneb.BeaconBlock{Slot: c05Slot, ProposerIndex: 7, ParentRoot: root(1), StateRoot: root(2), Body: &deneb.BeaconBlockBody{ETH1Data: &phase0.ETH1Data{BlockHash: make([]byte, 32)}, SyncAggregate: c05Sync(),
			ExecutionPayload: &deneb.ExecutionPayload{FeeRecipient: bellatrix.ExecutionAddress{1}, BlockHash: phase0.Hash32{tag}, ExtraData: []byte{}, BaseFeePerGas: uint256.NewInt(1)}}}, Signature: phase0.BLSSignature{tag}}}
	}
	return p
}

// c05Reveal is the RANDAO reveal the signer stand-in produces: it names the account and the slot.
func c05Reveal(name string, slot phase0.Slot) phase0.BLSSignature {
	s := phase0.BLSSignature{0xaa, byte(slot)}
	copy(s[2:], name)
	return s
}

// c05Build constructs the real block proposer over the environment.
func c05Build(e *c05Env) *standardproposer.Service {
	accts := &accountsTable{byIndex: map[phase0.ValidatorIndex]*hAccount{7: e.acct}}
	if e.acct2 != nil {
		accts.byIndex[8] = e.acct2
	}
	params := []standardproposer.Parameter{
		standardproposer.WithLogLevel(zerolog.Disabled), standardproposer.WithMonitor(c05Monitor(e)),
		standardproposer.WithChainTime(newChainTime(-int64(c05Slot)*int64(12*time.Second), 12*time.Second, 32)),
		standardproposer.WithProposalDataProvider(e), standardproposer.WithValidatingAccountsProvider(accts),
		standardproposer.WithExecutionChainHeadProvider(e), standardproposer.WithProposalSubmitter(e),
		standardproposer.WithRANDAORevealSigner(e), standardproposer.WithBeaconBlockSigner(e), standardproposer.WithBlobSidecarSigner(e),
		standardproposer.WithUnblindFromAllRelays(e.all),
		standardproposer.WithBuilderBoostFactor(91), // vouch's default
	}
	if e.graffiti != "none" {
		params = append(params, standardproposer.WithGraffitiProvider(e))
	}
	if e.auction != "none" {
		params = append(params, standardproposer.WithBlockAuctioneer(e))
	}
	svc, err := standardproposer.New(context.Background(), params...)
	must(err)
	return svc
}

type c05Combo struct {
	v       spec.DataVersion
	blinded bool
}

func c05Units(tier string) []hx.Unit {
	combos := []c05Combo{{spec.DataVersionPhase0, false}, {spec.DataVersionAltair, false}, {spec.DataVersionBellatrix, false}, {spec.DataVersionCapella, false}, {spec.DataVersionDeneb, false},
		{spec.DataVersionBellatrix, true}, {spec.DataVersionCapella, true}, {spec.DataVersionDeneb, true}}
	auctions := []string{"none", "error", "nowinner", "winner1", "winner2"}
	relayBeh := []string{"full", "err3", "status400", "err503", "nildata", "never"}
	var units []hx.Unit
	for _, cb := range combos {
		for _, au := range auctions {
			cb, au := cb, au
			e := &c05Env{}
			u := hx.Unit{Name: fmt.Sprintf("C05/%s/blinded=%v/auction=%s", cb.v, cb.blinded, au), Cfg: mc.Config{Deviation: true, Horizon: int64(60 * time.Second)}}
			u.Bound = 0
			if cb.blinded {
				u.Bound = 1
				if tier == "thorough" {
					u.Bound = 2
				}
			}
			u.Body = func() {
				*e = c05Env{prom: true, version: cb.v, blinded: cb.blinded, auction: au, acct: newAccount("W", "proposer", 7)}
				e.slotOff = phase0.Slot(mc.Choose(2))
				e.graffiti = []string{"ok", "error", "none"}[mc.Choose(3)]
				e.sign = []string{"ok", "error"}[mc.Choose(2)]
				e.submit = []string{"ok", "error"}[mc.Choose(2)]
				if cb.v >= spec.DataVersionBellatrix {
					e.unhashable = mc.Choose(2) == 1
				}
				nrel := 2
				if cb.blinded && au != "none" && au != "error" {
					e.all = mc.Choose(2) == 1
					for i := 0; i < nrel; i++ {
						r := &c05Relay{idx: i, env: e, beh: relayBeh[mc.Choose(len(relayBeh))]}
						if r.beh == "full" || r.beh == "nildata" {
							r.lat = []int64{0, int64(time.Second)}[mc.Choose(2)]
						}
						e.relays = append(e.relays, r)
					}
				} else {
					for i := 0; i < nrel; i++ {
						e.relays = append(e.relays, &c05Relay{idx: i, env: e, beh: "full"})
					}
				}
				e.prior = mc.Choose(2) == 1
				if e.prior {
					e.acct2 = newAccount("W", "other", 8)
				}
				svc := c05Build(e)
				duty := beaconblockproposer.NewDuty(c05Slot, 7)
				ctx, cancel := mcontext.WithTimeout(context.Background(), 8*time.Second)
				defer cancel()
				if e.prior {
					if err := svc.Prepare(ctx, beaconblockproposer.NewDuty(c05Slot-1, 8)); err != nil {
						panic("harness: preparing the other validator's duty failed: " + err.Error())
					}
				}
				e.prepErr = svc.Prepare(ctx, duty)
				if e.prepErr == nil {
					svc.Propose(ctx, duty)
				}
				e.done = true
			}
			u.Check = func(r *mc.Result) mc.Verdict { return c05Check(e, r) }
			units = append(units, u)
		}
	}
	return units
}

func c05Check(e *c05Env, r *mc.Result) mc.Verdict {
	var rel []string
	for _, x := range e.relays {
		rel = append(rel, fmt.Sprintf("%s@%d", x.beh, x.lat/int64(time.Second)))
	}
	v := mc.Verdict{}
	ver := e.version.String()
	if e.unhashable {
		ver += "(null execution payload)"
	}
	desc := fmt.Sprintf("%s blinded=%v prior-duty=%v proposal-slot=duty+%d graffiti=%s auction=%s sign=%s submit=%s relays=[%s] all=%v", ver, e.blinded, e.prior, e.slotOff, e.graffiti, e.auction, e.sign, e.submit, strings.Join(rel, " "), e.all)
	v.Outcome = fmt.Sprintf("blinded=%v signs=%d submitted=%d", e.blinded, len(e.signCalls), len(e.submitted))
	v.Sample = desc + " -> " + v.Outcome
	v.Nontrivial = e.blinded || e.unhashable || e.slotOff != 0 || e.graffiti != "ok" || e.auction == "error" || e.sign != "ok"
	fail := func(key, msg string) mc.Verdict {
		v.Violation = desc + ": " + msg
		v.Key = "C05/" + key
		return v
	}
	if r.Panic != "" {
		site := panicSite(r.Panic)
		return fail("panic/"+site, "panic: "+firstLine(r.Panic))
	}
	if !e.done {
		return fail("never-returned", "Prepare/Propose never returned although the context has a deadline")
	}
	if e.prepErr != nil {
		return fail("prepare-failed", "Prepare failed: "+e.prepErr.Error())
	}
	// RANDAO reveal: exactly for the duty's validator and slot
	wantReveals := []string{fmt.Sprintf("proposer@%d", c05Slot)}
	if e.prior {
		wantReveals = []string{fmt.Sprintf("other@%d", c05Slot-1), fmt.Sprintf("proposer@%d", c05Slot)}
	}
	if fmt.Sprint(e.randao) != fmt.Sprint(wantReveals) {
		return fail("randao-request", fmt.Sprintf("RANDAO reveal requests %v, expected exactly %v (one per duty, for that duty's account and slot)", e.randao, wantReveals))
	}
	if e.proposals > 0 && e.gotReveal != c05Reveal("proposer", c05Slot) {
		return fail("randao-of-other-duty-used", "the proposal was requested with a RANDAO reveal that is not the one obtained for this duty's validator and slot")
	}
	if len(e.signCalls) > 1 {
		return fail("signed-twice", "more than one block signature requested for one duty")
	}
	if e.slotOff != 0 {
		if len(e.signCalls) != 0 {
			return fail("signed-block-of-other-slot", "a block for another slot than the duty's was signed")
		}
		if len(e.submitted) != 0 {
			return fail("submitted-block-of-other-slot", "a block for another slot than the duty's was submitted")
		}
		return v
	}
	// the proposal is for the duty slot: it must be signed (graffiti / auction failures degrade, they do not skip)
	if e.proposals != 1 {
		return fail("proposal-not-requested", fmt.Sprintf("the proposal was requested %d times", e.proposals))
	}
	if e.unhashable {
		if _, err := c05SafeBodyRoot(e.proposal); err == nil {
			return fail("harness-malformed-proposal", "internal: the proposal with a null execution payload has a body root")
		}
		if len(e.signCalls) != 0 {
			return fail("signed-block-without-body-root", "a block signature was requested for a proposal whose body cannot be hashed (it has no body root of its own)")
		}
		if len(e.submitted) != 0 {
			return fail("submitted-unsigned", "a block was submitted although the proposal could not be signed")
		}
		return v
	}
	if _, err := e.proposal.BodyRoot(); err != nil {
		return fail("harness-malformed-proposal", "internal: the harness proposal has no body root: "+err.Error())
	}
	if len(e.signCalls) != 1 {
		return fail("not-signed", "no block signature was requested although a proposal for the duty slot was obtained")
	}
	sc := e.signCalls[0]
	if sc.acct != e.acct || sc.slot != c05Slot || sc.idx != 7 {
		return fail("signature-for-other-validator-or-slot", "the block signature was requested for another account, slot or validator index than the duty's")
	}
	pr, err1 := e.proposal.ParentRoot()
	sr, err2 := e.proposal.StateRoot()
	br, err3 := e.proposal.BodyRoot()
	if err1 != nil || err2 != nil || err3 != nil {
		return fail("harness-malformed-proposal", fmt.Sprintf("internal: the harness proposal has no roots: %v %v %v", err1, err2, err3))
	}
	if sc.parent != pr || sc.state != sr || sc.body != br {
		return fail("signed-other-roots", "the signature was requested over roots that are not the obtained proposal's own parent/state/body roots")
	}
	if e.graffiti == "ok" && string(e.gotGraf[:14]) != "verif graffiti" {
		return fail("graffiti-not-passed", "the graffiti obtained was not passed to the proposal request")
	}
	if e.sign == "error" {
		if len(e.submitted) != 0 {
			return fail("submitted-unsigned", "a block was submitted although signing failed")
		}
		return v
	}
	if e.served && (e.auction == "none" || e.auction == "error") {
		// nobody can unblind: the proposal is lost, although the node would have built the block itself if asked to
		return fail("blinded-block-invited-without-relay-bids", "the auction gave no result (none was held, or it failed), yet the node was asked in a way that let it answer with a builder's blinded block, which nobody can unblind: the proposal is skipped instead of falling back to a locally built block")
	}
	if !e.served {
		if len(e.submitted) != 1 {
			return fail("not-submitted", fmt.Sprintf("%d submissions of the signed block", len(e.submitted)))
		}
		sp := e.submitted[0]
		if sp.Blinded || sp.Version != e.version {
			return fail("submitted-other-container", "the submitted container has another version / blinded flag than the signed proposal")
		}
		var msgOK bool
		var sig phase0.BLSSignature
		switch e.version {
		case spec.DataVersionPhase0:
			msgOK = sp.Phase0 != nil && sp.Phase0.Message == e.proposal.Phase0
			if sp.Phase0 != nil {
				sig = sp.Phase0.Signature
			}
		case spec.DataVersionAltair:
			msgOK = sp.Altair != nil && sp.Altair.Message == e.proposal.Altair
			if sp.Altair != nil {
				sig = sp.Altair.Signature
			}
		case spec.DataVersionBellatrix:
			msgOK = sp.Bellatrix != nil && sp.Bellatrix.Message == e.proposal.Bellatrix
			if sp.Bellatrix != nil {
				sig = sp.Bellatrix.Signature
			}
		case spec.DataVersionCapella:
			msgOK = sp.Capella != nil && sp.Capella.Message == e.proposal.Capella
			if sp.Capella != nil {
				sig = sp.Capella.Signature
			}
		case spec.DataVersionDeneb:
			msgOK = sp.Deneb != nil && sp.Deneb.SignedBlock != nil && sp.Deneb.SignedBlock.Message == e.proposal.Deneb.Block
			if msgOK {
				sig = sp.Deneb.SignedBlock.Signature
			}
		}
		if !msgOK {
			return fail("submitted-other-block", "the submitted block is not the signed block")
		}
		if sig != sc.sig {
			return fail("submitted-other-signature", "the submitted block does not carry the signature obtained for it")
		}
		return v
	}
	// blinded
	var candidates []*c05Relay
	switch e.auction {
	case "none", "error":
		// no auction result: nothing can be unblinded, nothing may be submitted
	case "nowinner":
		candidates = e.relays
	case "winner1":
		candidates = e.relays[:1]
	case "winner2":
		candidates = e.relays
	}
	if e.all && e.auction != "none" && e.auction != "error" {
		candidates = e.relays
	}
	isCand := map[*c05Relay]bool{}
	for _, c := range candidates {
		isCand[c] = true
	}
	anyFull := false
	for _, x := range e.relays {
		if !isCand[x] && x.n > 0 {
			return fail("unblind-asked-unlisted-relay", fmt.Sprintf("relay %d was asked to unblind although it is not among the relays that offered the winning bid", x.idx))
		}
		// the statement binds only the relay whose block is submitted to "was sent precisely the signed
		// blinded block" (checked below); requests that go out after another relay has already answered
		// are not constrained by it
		if isCand[x] && x.beh == "full" {
			anyFull = true
		}
	}
	if len(e.submitted) > 1 {
		return fail("submitted-twice", "more than one submission for one duty")
	}
	if len(e.submitted) == 1 {
		sp := e.submitted[0]
		if sp.Blinded {
			return fail("submitted-blinded", "a blinded block was submitted to the beacon node")
		}
		okFull := false
		sentOK := false
		for _, x := range e.relays {
			if x.full == nil || !isCand[x] {
				continue
			}
			match := false
			switch e.version {
			case spec.DataVersionBellatrix:
				match = sp.Bellatrix != nil && sp.Bellatrix == x.full.Bellatrix
			case spec.DataVersionCapella:
				match = sp.Capella != nil && sp.Capella == x.full.Capella
			case spec.DataVersionDeneb:
				match = sp.Deneb != nil && sp.Deneb == x.full.Deneb
			}
			if !match {
				continue
			}
			okFull = true
			// the request that produced this block is the relay's last one
			if len(x.got) > 0 {
				g := x.got[len(x.got)-1]
				switch e.version {
				case spec.DataVersionBellatrix:
					sentOK = g.Bellatrix != nil && g.Bellatrix.Message == e.proposal.BellatrixBlinded && g.Bellatrix.Signature == sc.sig
				case spec.DataVersionCapella:
					sentOK = g.Capella != nil && g.Capella.Message == e.proposal.CapellaBlinded && g.Capella.Signature == sc.sig
				case spec.DataVersionDeneb:
					sentOK = g.Deneb != nil && g.Deneb.Message == e.proposal.DenebBlinded && g.Deneb.Signature == sc.sig
				}
				sentOK = sentOK && g.Version == e.version
			}
		}
		if okFull && !sentOK {
			return fail("relay-sent-other-block", "the relay whose block was submitted had been sent something else than precisely the signed blinded block")
		}
		if !okFull {
			return fail("submitted-not-a-relay-block", "what was submitted is not a full block returned by a relay that was sent the signed blinded block")
		}
	} else if anyFull {
		return fail("unblinded-block-not-submitted", "a relay returned the full block but nothing was submitted")
	}
	return v
}

func c05SafeBodyRoot(p *api.VersionedProposal) (r phase0.Root, err error) {
	defer func() {
		if x := recover(); x != nil {
			err = fmt.Errorf("%v", x)
		}
	}()
	return p.BodyRoot()
}

// panicSite extracts the innermost vouch function from a panic stack.
func panicSite(p string) string {
	for _, l := range strings.Split(p, "\n") {
		l = strings.TrimSpace(l)
		if strings.HasPrefix(l, "github.com/attestantio/vouch/") && !strings.Contains(l, "/verifmc/") {
			l = strings.TrimPrefix(l, "github.com/attestantio/vouch/")
			if i := strings.Index(l, "("); i > 0 {
				// strip arguments but keep receiver types like (*Service)
				if j := strings.LastIndex(l, "("); j > 0 && strings.HasSuffix(l, ")") {
					l = l[:j]
				}
			}
			return l
		}
	}
	return "unknown"
}

func init() {
	hx.Register(&hx.Prop{
		ID:    "C05",
		Title: "A proposal signs only the selected block of the duty slot and submits it intact",
		Rule: "real Prepare + Propose of the block proposer (optionally after the same service prepared another validator's proposal for the previous slot) for every block version (phase0..deneb) x blinded (bellatrix+) x proposal slot {duty, duty+1} x graffiti {ok, error, no provider} x auction {no auctioneer, error, no winner, winner with 1 or 2 providers} x signing {ok, error} x submission {ok, error} x (bellatrix+) execution payload {present, null: the block cannot be hashed and nothing may be signed} x unblind-from-all x per-relay unblinding behaviour {full block at 0s/1s, three errors (status 500 or 503), status 400, empty response, never}; relay goroutines explored with deviation-bounded schedules (quick 1, thorough 2); " +
			"oracle on every signer, relay and submitter call; non-trivial = blinded, other-slot proposal, or a failing graffiti/auction/signing step; distinct = distinct (blinded, signatures, submissions)",
		Assumptions: []string{
			"apart from the null execution payload the proposal provider returns well-formed blocks (other malformed ones are C16)",
			"relays honour request cancellation; the duty context has an 8 s deadline",
		},
		Units:         c05Units,
		MinNontrivial: 200,
	})
}
