package props

import (
	"context"
	"crypto/sha256"
	"encoding/binary"
	"errors"
	"fmt"
	"sort"
	"strings"
	"time"

	"verifharness/hx"

	"github.com/attestantio/go-eth2-client/api"
	apiv1 "github.com/attestantio/go-eth2-client/api/v1"
	"github.com/attestantio/go-eth2-client/spec"
	"github.com/attestantio/go-eth2-client/spec/phase0"
	"github.com/attestantio/vouch/services/attestationaggregator"
	standardaggregator "github.com/attestantio/vouch/services/attestationaggregator/standard"
	"github.com/attestantio/vouch/services/attester"
	"github.com/attestantio/vouch/services/beaconblockproposer"
	"github.com/attestantio/vouch/services/beaconcommitteesubscriber"
	standardsubscriber "github.com/attestantio/vouch/services/beaconcommitteesubscriber/standard"
	standardcontroller "github.com/attestantio/vouch/services/controller/standard"
	nullmetrics "github.com/attestantio/vouch/services/metrics/null"
	"github.com/attestantio/vouch/services/scheduler"
	"github.com/attestantio/vouch/verifmc/mc"
	"github.com/attestantio/vouch/verifmc/mcontext"
	"github.com/prysmaticlabs/go-bitfield"
	"github.com/rs/zerolog"
	e2wtypes "github.com/wealdtech/go-eth2-wallet-types/v2"
)

// C14: future attester duties are all subscribed; every selected aggregator aggregates.
//
// Three parts, each on the real service with stand-ins for its neighbours (no schedule dimension: the
// goroutines vouch starts run deterministically under the controlled runtime):
//
//   sub   the real beaconcommitteesubscriber.Subscribe on top of the real attestationaggregator
//         (slot-selection signer scripted), real chain time on the virtual clock at a chosen current slot;
//         observed at the SubmitBeaconCommitteeSubscriptions payload and the returned subscription info.
//   sel   the real attestationaggregator.AggregatorsAndSignatures with chosen slot signatures, committee
//         sizes and TARGET_AGGREGATORS_PER_COMMITTEE; compared with the consensus specification's
//         is_aggregator, recomputed here with crypto/sha256.
//   agg   the real controller (real New; its subscription info comes from a scripted subscriber through
//         the controller's own subscribeToBeaconCommittees) running AttestAndScheduleAggregate; observed at
//         the ScheduleJob calls and at the Aggregate invocations the scheduled jobs make.

const (
	c14SlotDur       = 12 * time.Second
	c14SlotsPerEpoch = 4
	c14Epoch         = 10
	c14FirstSlot     = c14Epoch * c14SlotsPerEpoch // 40 .. 43
)

// ---- consensus-specification reference ---------------------------------------------------------------

// c14HashValue is bytes_to_uint64(hash(slot_signature)[0:8]) (little-endian, as in the specification).
func c14HashValue(sig phase0.BLSSignature) uint64 {
	h := sha256.Sum256(sig[:])
	return binary.LittleEndian.Uint64(h[:8])
}

// c14Modulo is max(1, len(committee) // TARGET_AGGREGATORS_PER_COMMITTEE).
func c14Modulo(committeeSize, target uint64) uint64 {
	m := committeeSize / target
	if m == 0 {
		m = 1
	}
	return m
}

// c14IsAggregator is the specification's is_aggregator.
func c14IsAggregator(sig phase0.BLSSignature, committeeSize, target uint64) bool {
	return c14HashValue(sig)%c14Modulo(committeeSize, target) == 0
}

// c14FindSig returns the first signature of a fixed enumeration that satisfies pred on its hash value.
func c14FindSig(pred func(v uint64, sig phase0.BLSSignature) bool) phase0.BLSSignature {
	return c14FindSigFrom(1, pred)
}

func c14FindSigFrom(start uint64, pred func(v uint64, sig phase0.BLSSignature) bool) phase0.BLSSignature {
	for ctr := start; ctr < start+1<<22; ctr++ {
		var sig phase0.BLSSignature
		for i := range sig {
			sig[i] = 0xc1
		}
		binary.LittleEndian.PutUint64(sig[8:16], ctr)
		if pred(c14HashValue(sig), sig) {
			return sig
		}
	}
	panic("c14: no signature found")
}

func c14SigName(sig phase0.BLSSignature) string {
	return fmt.Sprintf("sig#%d(v=%d)", binary.LittleEndian.Uint64(sig[8:16]), c14HashValue(sig))
}

// ---- shared stand-ins --------------------------------------------------------------------------------

// c14Signer is the slot-selection signer: every account has its scripted signature.
type c14Signer struct {
	sigs map[phase0.BLSPubKey]phase0.BLSSignature
}

func (s *c14Signer) SignSlotSelections(_ context.Context, accounts []e2wtypes.Account, _ phase0.Slot) ([]phase0.BLSSignature, error) {
	out := make([]phase0.BLSSignature, len(accounts))
	for i, a := range accounts {
		ha, ok := a.(*hAccount)
		if !ok {
			return nil, errors.New("unknown account")
		}
		sig, ok := s.sigs[ha.pubkey()]
		if !ok {
			return nil, errors.New("no signature scripted for account")
		}
		out[i] = sig
	}
	return out, nil
}

func (s *c14Signer) SignAggregateAndProof(_ context.Context, _ e2wtypes.Account, _ phase0.Slot, _ phase0.Root) (phase0.BLSSignature, error) {
	return phase0.BLSSignature{}, nil
}

type c14AggAttProvider struct{}

func (c14AggAttProvider) AggregateAttestation(_ context.Context, _ *api.AggregateAttestationOpts) (*api.Response[*phase0.Attestation], error) {
	return nil, errors.New("not scripted")
}

type c14AggAttSubmitter struct{}

func (c14AggAttSubmitter) SubmitAggregateAttestations(_ context.Context, _ []*phase0.SignedAggregateAndProof) error {
	return nil
}

func c14NewAggregator(signer *c14Signer, target uint64, accts *accountsTable) *standardaggregator.Service {
	sp := baseSpec(c14SlotDur, c14SlotsPerEpoch)
	sp["TARGET_AGGREGATORS_PER_COMMITTEE"] = target
	svc, err := standardaggregator.New(context.Background(),
		standardaggregator.WithLogLevel(zerolog.Disabled),
		standardaggregator.WithMonitor(&nullmetrics.Service{}),
		standardaggregator.WithSpecProvider(&specProvider{m: sp}),
		standardaggregator.WithValidatingAccountsProvider(accts),
		standardaggregator.WithAggregateAttestationProvider(c14AggAttProvider{}),
		standardaggregator.WithAggregateAttestationsSubmitter(c14AggAttSubmitter{}),
		standardaggregator.WithSlotSelectionSigner(signer),
		standardaggregator.WithAggregateAndProofSigner(signer),
		standardaggregator.WithChainTime(newChainTime(-int64(c14FirstSlot)*int64(c14SlotDur), c14SlotDur, c14SlotsPerEpoch)),
	)
	must(err)
	return svc
}

// =======================================================================================================
// Part 1: subscriptions
// =======================================================================================================

const (
	c14SubTarget = 16
	c14LenC0     = 128 // modulo 8
	c14LenC1     = 64  // modulo 4
)

func c14CommitteeLen(c phase0.CommitteeIndex) uint64 {
	if c == 0 {
		return c14LenC0
	}
	return c14LenC1
}

// c14CommitteeLenAt is the size of a committee of a slot: committee 0 of the epoch's last slot has one member
// fewer than in the other slots (127: modulo 7 instead of 8), as happens whenever the number of active validators is
// no multiple of slots x committees.
func c14CommitteeLenAt(slot phase0.Slot, c phase0.CommitteeIndex) uint64 {
	if c == 0 && slot == c14FirstSlot+3 {
		return c14LenC0 - 1
	}
	return c14CommitteeLen(c)
}

// signature classes of part 1: selected in both committees / only in committee 1 / in neither; under the modulus
// of the smaller committee 0 of the last slot it is the other way round for the first two.
var c14SubSigs []phase0.BLSSignature
var c14SubSigNames = []string{"agg-both", "agg-c1-only", "agg-none"}

func c14InitSubSigs() {
	if c14SubSigs != nil {
		return
	}
	c14SubSigs = []phase0.BLSSignature{
		c14FindSig(func(v uint64, _ phase0.BLSSignature) bool { return v%8 == 0 && v%7 != 0 }),
		c14FindSig(func(v uint64, _ phase0.BLSSignature) bool { return v%8 == 4 && v%7 == 0 }),
		c14FindSig(func(v uint64, _ phase0.BLSSignature) bool { return v%4 == 1 && v%7 != 0 }),
	}
}

type c14Duties struct {
	duties []*apiv1.AttesterDuty
	calls  int
}

func (d *c14Duties) AttesterDuties(_ context.Context, opts *api.AttesterDutiesOpts) (*api.Response[[]*apiv1.AttesterDuty], error) {
	d.calls++
	out := make([]*apiv1.AttesterDuty, 0, len(d.duties))
	for _, x := range d.duties {
		if opts.Epoch != c14Epoch {
			continue
		}
		for _, i := range opts.Indices {
			if i == x.ValidatorIndex {
				c := *x
				out = append(out, &c)
			}
		}
	}
	return &api.Response[[]*apiv1.AttesterDuty]{Data: out, Metadata: map[string]any{}}, nil
}

type c14SubSubmitter struct {
	calls [][]apiv1.BeaconCommitteeSubscription
}

func (s *c14SubSubmitter) SubmitBeaconCommitteeSubscriptions(_ context.Context, subs []*apiv1.BeaconCommitteeSubscription) error {
	call := make([]apiv1.BeaconCommitteeSubscription, 0, len(subs))
	for _, x := range subs {
		if x != nil {
			call = append(call, *x)
		}
	}
	s.calls = append(s.calls, call)
	return nil
}

// c14Val is one of vouch's validators in a part-1 scenario.
type c14Val struct {
	index     phase0.ValidatorIndex
	hasDuty   bool
	slot      phase0.Slot
	committee phase0.CommitteeIndex
	sigClass  int
	sig       phase0.BLSSignature
}

type c14Pair struct {
	slot      phase0.Slot
	committee phase0.CommitteeIndex
}

type c14SubState struct {
	cur      phase0.Slot
	vals     []c14Val
	reversed bool
	atStart  bool // Subscribe is called at the very start of the current slot (else in its middle)
	err      error
	info     map[phase0.Slot]map[phase0.CommitteeIndex]*beaconcommitteesubscriber.Subscription
	calls    [][]apiv1.BeaconCommitteeSubscription
	ran      bool
}

func c14CommitteesAtSlot(slot phase0.Slot) uint64 { return 2 + uint64(slot-c14FirstSlot) }

// option 0: no duty in the epoch; 1..8: (slot offset, committee).
func c14SetOption(v *c14Val, opt int) {
	v.hasDuty = opt > 0
	if v.hasDuty {
		v.slot = c14FirstSlot + phase0.Slot((opt-1)/2)
		v.committee = phase0.CommitteeIndex((opt - 1) % 2)
	}
}

func c14SubBody(st *c14SubState, cur phase0.Slot, opt0 int, nVals int, nClasses int, withOrder bool, withStart bool) {
	*st = c14SubState{cur: cur}
	st.vals = make([]c14Val, nVals)
	for i := range st.vals {
		st.vals[i].index = phase0.ValidatorIndex(11 + i)
		opt := opt0
		if i > 0 {
			opt = mc.Choose(9)
		}
		c14SetOption(&st.vals[i], opt)
	}
	// at most two of vouch's validators in one committee
	perPair := map[c14Pair]int{}
	for _, x := range st.vals {
		if x.hasDuty {
			perPair[c14Pair{x.slot, x.committee}]++
			if perPair[c14Pair{x.slot, x.committee}] > 2 {
				return
			}
		}
	}
	for i := range st.vals {
		if st.vals[i].hasDuty {
			st.vals[i].sigClass = mc.Choose(nClasses)
		}
		st.vals[i].sig = c14SubSigs[st.vals[i].sigClass]
	}
	if withOrder {
		st.reversed = mc.Choose(2) == 1
	}
	if withStart {
		st.atStart = mc.Choose(2) == 1
	}
	st.ran = true

	ctx, cancel := mcontext.WithCancel(context.Background())
	defer cancel()
	// the middle (or the very start) of the current slot
	into := int64(c14SlotDur) / 2
	if st.atStart {
		into = 0
	}
	ct := newChainTime(-(int64(cur)*int64(c14SlotDur) + into), c14SlotDur, c14SlotsPerEpoch)
	signer := &c14Signer{sigs: map[phase0.BLSPubKey]phase0.BLSSignature{}}
	accts := &accountsTable{byIndex: map[phase0.ValidatorIndex]*hAccount{}}
	accounts := map[phase0.ValidatorIndex]e2wtypes.Account{}
	dp := &c14Duties{}
	for i, v := range st.vals {
		a := newAccount("W", fmt.Sprintf("v%d", v.index), byte(v.index))
		accts.byIndex[v.index] = a
		accounts[v.index] = a
		signer.sigs[a.pubkey()] = v.sig
		if v.hasDuty {
			dp.duties = append(dp.duties, &apiv1.AttesterDuty{
				PubKey:                  a.pubkey(),
				Slot:                    v.slot,
				ValidatorIndex:          v.index,
				CommitteeIndex:          v.committee,
				CommitteeLength:         c14CommitteeLenAt(v.slot, v.committee),
				CommitteesAtSlot:        c14CommitteesAtSlot(v.slot),
				ValidatorCommitteeIndex: uint64(3 + 5*i),
			})
		}
	}
	if st.reversed {
		for i, j := 0, len(dp.duties)-1; i < j; i, j = i+1, j-1 {
			dp.duties[i], dp.duties[j] = dp.duties[j], dp.duties[i]
		}
	}
	sub := &c14SubSubmitter{}
	svc, err := standardsubscriber.New(ctx,
		standardsubscriber.WithLogLevel(zerolog.Disabled),
		standardsubscriber.WithMonitor(&nullmetrics.Service{}),
		standardsubscriber.WithProcessConcurrency(2),
		standardsubscriber.WithChainTimeService(ct),
		standardsubscriber.WithAttesterDutiesProvider(dp),
		standardsubscriber.WithAttestationAggregator(c14NewAggregator(signer, c14SubTarget, accts)),
		standardsubscriber.WithBeaconCommitteeSubmitter(sub),
	)
	must(err)
	st.info, st.err = svc.Subscribe(ctx, c14Epoch, accounts)
	// let the submission goroutine finish (well inside the current slot)
	mc.Sleep(int64(time.Second))
	st.calls = sub.calls
}

func (st *c14SubState) describe() string {
	var d []string
	for _, v := range st.vals {
		if v.hasDuty {
			d = append(d, fmt.Sprintf("validator %d: slot %d committee %d (%s)", v.index, v.slot, v.committee, c14SubSigNames[v.sigClass]))
		} else {
			d = append(d, fmt.Sprintf("validator %d: no duty", v.index))
		}
	}
	s := fmt.Sprintf("epoch %d (slots %d-%d), current slot %d; %s", c14Epoch, c14FirstSlot, c14FirstSlot+c14SlotsPerEpoch-1, st.cur, strings.Join(d, "; "))
	if st.reversed {
		s += "; duties returned in descending validator order"
	}
	if st.atStart {
		s += "; called at the very start of the current slot"
	}
	return s
}

func c14SubCheck(st *c14SubState, r *mc.Result) mc.Verdict {
	v := mc.Verdict{}
	if !st.ran {
		v.Outcome = "skipped"
		return v
	}
	// reference: (slot, committee) -> vouch's validators with a duty there
	pairs := map[c14Pair][]c14Val{}
	past, future := 0, 0
	for _, x := range st.vals {
		if !x.hasDuty {
			continue
		}
		p := c14Pair{x.slot, x.committee}
		pairs[p] = append(pairs[p], x)
		if x.slot > st.cur {
			future++
		} else {
			past++
		}
	}
	expected := 0
	for p := range pairs {
		if p.slot > st.cur {
			expected++
		}
	}
	v.Nontrivial = past > 0 && future > 0
	v.Outcome = fmt.Sprintf("sub: past=%d future=%d calls=%d", min(past, 2), min(future, 2), len(st.calls))
	v.Sample = st.describe()
	fail := func(key, f string, a ...any) mc.Verdict {
		v.Violation = st.describe() + ": " + fmt.Sprintf(f, a...)
		v.Key = "C14/" + key
		return v
	}
	if r.Panic != "" {
		return fail("panic", "panic: %s", firstLine(r.Panic))
	}
	if st.err != nil {
		return fail("subscribe/error", "Subscribe failed: %v", st.err)
	}
	selected := func(x c14Val) bool {
		return c14IsAggregator(x.sig, c14CommitteeLenAt(x.slot, x.committee), c14SubTarget)
	}
	anySelected := func(xs []c14Val) bool {
		for _, x := range xs {
			if selected(x) {
				return true
			}
		}
		return false
	}
	find := func(xs []c14Val, i phase0.ValidatorIndex) *c14Val {
		for k := range xs {
			if xs[k].index == i {
				return &xs[k]
			}
		}
		return nil
	}

	// the submitted subscriptions
	var submitted []apiv1.BeaconCommitteeSubscription
	for _, c := range st.calls {
		submitted = append(submitted, c...)
	}
	count := map[c14Pair]int{}
	for _, s := range submitted {
		p := c14Pair{s.Slot, s.CommitteeIndex}
		count[p]++
		xs, ok := pairs[p]
		switch {
		case ok && s.Slot <= st.cur:
			return fail("subscribe/past-duty-subscribed", "a subscription was submitted for slot %d committee %d, which is not after the current slot %d", s.Slot, s.CommitteeIndex, st.cur)
		case !ok:
			return fail("subscribe/no-such-duty", "a subscription was submitted for slot %d committee %d, where none of the validators has a duty", s.Slot, s.CommitteeIndex)
		}
		x := find(xs, s.ValidatorIndex)
		if x == nil {
			return fail("subscribe/wrong-content", "the subscription for slot %d committee %d names validator %d, which has no duty there", s.Slot, s.CommitteeIndex, s.ValidatorIndex)
		}
		if s.CommitteesAtSlot != c14CommitteesAtSlot(s.Slot) {
			return fail("subscribe/wrong-content", "the subscription for slot %d committee %d says %d committees at the slot, the duty says %d", s.Slot, s.CommitteeIndex, s.CommitteesAtSlot, c14CommitteesAtSlot(s.Slot))
		}
		if s.IsAggregator != selected(*x) {
			return fail("aggregator/selection-mismatch", "the subscription for slot %d committee %d marks validator %d is_aggregator=%v; the specification's rule on its slot signature (hash value %d, committee size %d, target %d) says %v",
				s.Slot, s.CommitteeIndex, s.ValidatorIndex, s.IsAggregator, c14HashValue(x.sig), c14CommitteeLenAt(x.slot, x.committee), c14SubTarget, selected(*x))
		}
		if anySelected(xs) && !s.IsAggregator {
			return fail("subscribe/selected-aggregator-not-recorded", "slot %d committee %d has a selected aggregator among the validators but the subscription carries validator %d as non-aggregator", s.Slot, s.CommitteeIndex, s.ValidatorIndex)
		}
	}
	var ps []c14Pair
	for p := range pairs {
		ps = append(ps, p)
	}
	sort.Slice(ps, func(i, j int) bool {
		return ps[i].slot < ps[j].slot || (ps[i].slot == ps[j].slot && ps[i].committee < ps[j].committee)
	})
	for _, p := range ps {
		if p.slot <= st.cur {
			continue
		}
		switch {
		case count[p] == 0:
			return fail("subscribe/future-duty-not-subscribed", "no subscription was submitted for slot %d committee %d (%d submit calls, %d subscriptions in total; %d expected)", p.slot, p.committee, len(st.calls), len(submitted), expected)
		case count[p] > 1:
			return fail("subscribe/duplicate-subscription", "%d subscriptions were submitted for slot %d committee %d", count[p], p.slot, p.committee)
		}
	}

	// the returned subscription info
	for _, p := range ps {
		xs := pairs[p]
		info := st.info[p.slot][p.committee]
		if info == nil || info.Duty == nil {
			if p.slot > st.cur {
				return fail("subscribe/info-missing", "the returned subscription info has no entry for slot %d committee %d", p.slot, p.committee)
			}
			continue
		}
		x := find(xs, info.Duty.ValidatorIndex)
		if x == nil || info.Duty.Slot != p.slot || info.Duty.CommitteeIndex != p.committee {
			return fail("subscribe/info-wrong-content", "the returned subscription info for slot %d committee %d carries duty (validator %d, slot %d, committee %d)",
				p.slot, p.committee, info.Duty.ValidatorIndex, info.Duty.Slot, info.Duty.CommitteeIndex)
		}
		if info.Signature != x.sig {
			return fail("subscribe/info-wrong-content", "the returned subscription info for slot %d committee %d carries validator %d with a slot signature that is not that validator's", p.slot, p.committee, x.index)
		}
		if info.IsAggregator != selected(*x) {
			return fail("aggregator/selection-mismatch", "the returned subscription info for slot %d committee %d marks validator %d is_aggregator=%v; the specification's rule on its slot signature (hash value %d, committee size %d, target %d) says %v",
				p.slot, p.committee, x.index, info.IsAggregator, c14HashValue(x.sig), c14CommitteeLenAt(x.slot, x.committee), c14SubTarget, selected(*x))
		}
		if anySelected(xs) && !info.IsAggregator {
			return fail("subscribe/selected-aggregator-not-recorded", "slot %d committee %d has a selected aggregator among the validators but the returned subscription info carries validator %d as non-aggregator", p.slot, p.committee, x.index)
		}
	}
	return v
}

func c14SubUnits(tier string) []hx.Unit {
	c14InitSubSigs()
	var units []hx.Unit
	// current slot: the last slot of the previous epoch and every slot of the epoch
	for cur := phase0.Slot(c14FirstSlot - 1); cur < c14FirstSlot+c14SlotsPerEpoch; cur++ {
		for opt0 := 0; opt0 < 9; opt0++ {
			cur, opt0 := cur, opt0
			st := &c14SubState{}
			nClasses, withOrder, withStart := 3, true, tier == "thorough"
			u := hx.Unit{Name: fmt.Sprintf("C14/sub/current-slot-%d/v11-option-%d", cur, opt0), Cfg: mc.Config{Fixed: true}}
			u.Body = func() { c14SubBody(st, cur, opt0, 3, nClasses, withOrder, withStart) }
			u.Check = func(r *mc.Result) mc.Verdict { return c14SubCheck(st, r) }
			units = append(units, u)
			if tier == "thorough" {
				// four validators (two committees with two validators each become possible); mid-slot, ascending order
				st4 := &c14SubState{}
				u4 := hx.Unit{Name: fmt.Sprintf("C14/sub4/current-slot-%d/v11-option-%d", cur, opt0), Cfg: mc.Config{Fixed: true}}
				u4.Body = func() { c14SubBody(st4, cur, opt0, 4, nClasses, false, false) }
				u4.Check = func(r *mc.Result) mc.Verdict { return c14SubCheck(st4, r) }
				units = append(units, u4)
			}
		}
	}
	return units
}

// =======================================================================================================
// Part 2: aggregator selection
// =======================================================================================================

var c14SelSizes = []uint64{1, 16, 17, 128, 129}
var c14SelTargets = []uint64{1, 16}
var c14SelPool []phase0.BLSSignature  // full pool
var c14SelSmall []phase0.BLSSignature // boundary subset for triples

func c14InitSelPool() {
	if c14SelPool != nil {
		return
	}
	seen := map[phase0.BLSSignature]bool{}
	n := uint64(0)
	add := func(small bool, pred func(v uint64, sig phase0.BLSSignature) bool) {
		// every requirement is searched from its own starting point, so that the pool has distinct members
		n++
		s := c14FindSigFrom(n*100000, pred)
		if seen[s] {
			panic("c14: duplicate pool signature")
		}
		seen[s] = true
		c14SelPool = append(c14SelPool, s)
		if small {
			c14SelSmall = append(c14SelSmall, s)
		}
	}
	moduli := []uint64{8, 16, 17, 128, 129}
	for _, m := range moduli {
		m := m
		add(m == 8 || m == 129, func(v uint64, _ phase0.BLSSignature) bool { return v%m == 0 })
		add(m == 8, func(v uint64, _ phase0.BLSSignature) bool { return v%m == 1 })
		add(m == 129, func(v uint64, _ phase0.BLSSignature) bool { return v%m == m-1 })
	}
	// selected under one modulus but not under another
	for _, m1 := range moduli {
		for _, m2 := range moduli {
			m1, m2 := m1, m2
			if m1 == m2 || m1%m2 == 0 {
				continue
			}
			add((m1 == 8 && m2 == 16) || (m1 == 16 && m2 == 17) || (m1 == 17 && m2 == 16), func(v uint64, _ phase0.BLSSignature) bool { return v%m1 == 0 && v%m2 != 0 })
		}
	}
	// top bit of the hash value set (a signed conversion would change the residue)
	add(true, func(v uint64, _ phase0.BLSSignature) bool { return v >= 1<<63 && v%17 == 0 && int64(v)%17 != 0 })
	add(false, func(v uint64, _ phase0.BLSSignature) bool { return v >= 1<<63 && v%8 == 0 })
	// little-endian and big-endian readings of the first eight bytes disagree
	be := func(sig phase0.BLSSignature) uint64 {
		h := sha256.Sum256(sig[:])
		return binary.BigEndian.Uint64(h[:8])
	}
	add(true, func(v uint64, s phase0.BLSSignature) bool { return v%8 == 0 && be(s)%8 != 0 })
	add(false, func(v uint64, s phase0.BLSSignature) bool { return v%8 != 0 && be(s)%8 == 0 })
	// selected under no modulus above 1
	add(false, func(v uint64, _ phase0.BLSSignature) bool { return v%2 == 1 && v%17 != 0 && v%129 != 0 })
}

type c14SelState struct {
	target uint64
	sizes  []uint64
	sigs   []phase0.BLSSignature
	outS   []phase0.BLSSignature
	outA   []bool
	err    error
}

func c14SelBody(st *c14SelState, target uint64, sizes []uint64, pool []phase0.BLSSignature) {
	*st = c14SelState{target: target, sizes: sizes}
	signer := &c14Signer{sigs: map[phase0.BLSPubKey]phase0.BLSSignature{}}
	accts := &accountsTable{byIndex: map[phase0.ValidatorIndex]*hAccount{}}
	accounts := make([]e2wtypes.Account, len(sizes))
	for i := range sizes {
		a := newAccount("W", fmt.Sprintf("v%d", i+1), byte(i+1))
		accts.byIndex[phase0.ValidatorIndex(i+1)] = a
		accounts[i] = a
		sig := pool[mc.Choose(len(pool))]
		st.sigs = append(st.sigs, sig)
		signer.sigs[a.pubkey()] = sig
	}
	svc := c14NewAggregator(signer, target, accts)
	st.outS, st.outA, st.err = svc.AggregatorsAndSignatures(context.Background(), accounts, c14FirstSlot+1, append([]uint64(nil), sizes...))
}

func c14SelCheck(st *c14SelState, r *mc.Result) mc.Verdict {
	v := mc.Verdict{}
	var d []string
	nSel, boundary := 0, false
	for i, sig := range st.sigs {
		m := c14Modulo(st.sizes[i], st.target)
		res := c14HashValue(sig) % m
		if res == 0 {
			nSel++
		}
		if m > 1 && (res == 0 || res == 1 || res == m-1) {
			boundary = true
		}
		d = append(d, fmt.Sprintf("committee size %d, %s, residue %d mod %d", st.sizes[i], c14SigName(sig), res, m))
	}
	v.Nontrivial = boundary
	v.Outcome = fmt.Sprintf("sel: selected=%d/%d", nSel, len(st.sigs))
	desc := fmt.Sprintf("TARGET_AGGREGATORS_PER_COMMITTEE %d; %s", st.target, strings.Join(d, "; "))
	v.Sample = desc
	fail := func(key, f string, a ...any) mc.Verdict {
		v.Violation = desc + ": " + fmt.Sprintf(f, a...)
		v.Key = "C14/" + key
		return v
	}
	if r.Panic != "" {
		return fail("panic", "panic: %s", firstLine(r.Panic))
	}
	if st.err != nil {
		return fail("aggregator/error", "AggregatorsAndSignatures failed: %v", st.err)
	}
	if len(st.outA) != len(st.sigs) || len(st.outS) != len(st.sigs) {
		return fail("aggregator/wrong-length", "%d signatures and %d flags returned for %d accounts", len(st.outS), len(st.outA), len(st.sigs))
	}
	for i, sig := range st.sigs {
		if st.outS[i] != sig {
			return fail("aggregator/wrong-signature", "position %d: the returned slot signature is not the account's", i)
		}
		want := c14IsAggregator(sig, st.sizes[i], st.target)
		if st.outA[i] != want {
			return fail("aggregator/selection-mismatch", "position %d is marked aggregator=%v; the specification's is_aggregator says %v", i, st.outA[i], want)
		}
	}
	return v
}

func c14SelUnits(tier string) []hx.Unit {
	c14InitSelPool()
	var units []hx.Unit
	mk := func(target uint64, sizes []uint64, pool []phase0.BLSSignature, tag string) {
		st := &c14SelState{}
		var ss []string
		for _, s := range sizes {
			ss = append(ss, fmt.Sprint(s))
		}
		u := hx.Unit{Name: fmt.Sprintf("C14/sel/target-%d/sizes-%s/%s", target, strings.Join(ss, "-"), tag), Cfg: mc.Config{Fixed: true}}
		u.Body = func() { c14SelBody(st, target, sizes, pool) }
		u.Check = func(r *mc.Result) mc.Verdict { return c14SelCheck(st, r) }
		units = append(units, u)
	}
	for _, t := range c14SelTargets {
		for _, a := range c14SelSizes {
			for _, b := range c14SelSizes {
				mk(t, []uint64{a, b}, c14SelPool, "pairs")
				if tier == "thorough" {
					for _, c := range c14SelSizes {
						mk(t, []uint64{a, b, c}, c14SelSmall, "triples")
					}
				}
			}
		}
	}
	return units
}

// =======================================================================================================
// Part 3: aggregation jobs
// =======================================================================================================

const (
	c14AggSlot     = c14FirstSlot + 2 // 42
	c14AggDelay    = 7 * time.Second  // configured aggregation delay (not the default of 2/3 slot)
	c14AttestDelay = 4 * time.Second
)

// c14Sched records the jobs; like the real scheduler it refuses a second job with the same name.
type c14Job struct {
	class, name string
	at          time.Time
	fn          scheduler.JobFunc
	err         error
}

type c14Sched struct {
	jobs []*c14Job
}

func (s *c14Sched) ScheduleJob(_ context.Context, class string, name string, at time.Time, fn scheduler.JobFunc) error {
	j := &c14Job{class: class, name: name, at: at, fn: fn}
	switch {
	case name == "":
		j.err = scheduler.ErrNoJobName
	case fn == nil:
		j.err = scheduler.ErrNoJobFunc
	default:
		for _, o := range s.jobs {
			if o.err == nil && o.name == name {
				j.err = scheduler.ErrJobAlreadyExists
			}
		}
	}
	s.jobs = append(s.jobs, j)
	return j.err
}
func (s *c14Sched) SchedulePeriodicJob(_ context.Context, _ string, _ string, _ scheduler.RuntimeFunc, _ scheduler.JobFunc) error {
	return nil
}
func (s *c14Sched) CancelJob(_ context.Context, _ string) error   { return scheduler.ErrNoSuchJob }
func (s *c14Sched) CancelJobIfExists(_ context.Context, _ string) {}
func (s *c14Sched) CancelJobs(_ context.Context, _ string)        {}
func (s *c14Sched) RunJob(_ context.Context, _ string) error      { return scheduler.ErrNoSuchJob }
func (s *c14Sched) JobExists(_ context.Context, _ string) bool    { return false }
func (s *c14Sched) RunJobIfExists(_ context.Context, _ string)    {}
func (s *c14Sched) ListJobs(_ context.Context) []string           { return nil }

// c14RecAggregator records Aggregate invocations.
type c14RecAggregator struct {
	calls []attestationaggregator.Duty
}

func (a *c14RecAggregator) Aggregate(_ context.Context, d *attestationaggregator.Duty) {
	if d != nil {
		a.calls = append(a.calls, *d)
	}
}
func (a *c14RecAggregator) AggregatorsAndSignatures(_ context.Context, _ []e2wtypes.Account, _ phase0.Slot, _ []uint64) ([]phase0.BLSSignature, []bool, error) {
	return nil, nil, errors.New("not used")
}

// c14ScriptedSubscriber hands the controller its subscription info.
type c14ScriptedSubscriber struct {
	info map[phase0.Epoch]map[phase0.Slot]map[phase0.CommitteeIndex]*beaconcommitteesubscriber.Subscription
}

func (s *c14ScriptedSubscriber) Subscribe(_ context.Context, epoch phase0.Epoch, _ map[phase0.ValidatorIndex]e2wtypes.Account) (map[phase0.Slot]map[phase0.CommitteeIndex]*beaconcommitteesubscriber.Subscription, error) {
	if m, ok := s.info[epoch]; ok {
		return m, nil
	}
	return map[phase0.Slot]map[phase0.CommitteeIndex]*beaconcommitteesubscriber.Subscription{}, nil
}

// c14Attester returns the scripted attestations.
type c14Attester struct {
	out   []*phase0.Attestation
	calls int
}

func (a *c14Attester) Attest(_ context.Context, _ *attester.Duty) ([]*phase0.Attestation, error) {
	a.calls++
	return a.out, nil
}

type c14NoProposerDuties struct{}

func (c14NoProposerDuties) ProposerDuties(_ context.Context, _ *api.ProposerDutiesOpts) (*api.Response[[]*apiv1.ProposerDuty], error) {
	return &api.Response[[]*apiv1.ProposerDuty]{Data: []*apiv1.ProposerDuty{}, Metadata: map[string]any{}}, nil
}

type c14Preparer struct{}

func (c14Preparer) UpdatePreparations(_ context.Context) error { return nil }

type c14Proposer struct{}

func (c14Proposer) Prepare(_ context.Context, _ *beaconblockproposer.Duty) error { return nil }
func (c14Proposer) Propose(_ context.Context, _ *beaconblockproposer.Duty)       {}

type c14Refresher struct{}

func (c14Refresher) Refresh(_ context.Context) {}

type c14SlotSetter struct{}

func (c14SlotSetter) SetBlockRootToSlot(_ phase0.Root, _ phase0.Slot) {}

type c14Blocks struct{}

func (c14Blocks) SignedBeaconBlock(_ context.Context, _ *api.SignedBeaconBlockOpts) (*api.Response[*spec.VersionedSignedBeaconBlock], error) {
	return nil, errors.New("no block")
}

type c14Headers struct{}

func (c14Headers) BeaconBlockHeader(_ context.Context, _ *api.BeaconBlockHeaderOpts) (*api.Response[*apiv1.BeaconBlockHeader], error) {
	return nil, errors.New("no header")
}

func c14AttData(c phase0.CommitteeIndex) *phase0.AttestationData {
	return &phase0.AttestationData{
		Slot:            c14AggSlot,
		Index:           c,
		BeaconBlockRoot: root(7),
		Source:          &phase0.Checkpoint{Epoch: c14Epoch - 1, Root: root(8)},
		Target:          &phase0.Checkpoint{Epoch: c14Epoch, Root: root(9)},
	}
}

// per committee: which of its validators the subscription info names, and whether as aggregator
type c14AggInfo struct {
	present bool
	val     phase0.ValidatorIndex
	agg     bool
}

type c14AggJob struct {
	name  string
	at    time.Time
	err   error
	calls []attestationaggregator.Duty
}

type c14AggState struct {
	committeeOf []int // per validator: -1 not in this slot, 0, 1
	info        [2]c14AggInfo
	attested    []bool
	reversed    bool
	offset      time.Duration
	jobs        []c14AggJob
	attCalls    int
	wantTime    time.Time
	ran         bool
	// realAtt: the attester is the real attester/standard service; a validator that "does not attest" is one
	// for which the signer returns no signature
	realAtt bool
}

func c14ValSig(i phase0.ValidatorIndex) phase0.BLSSignature {
	var s phase0.BLSSignature
	for k := range s {
		s[k] = byte(i)
	}
	return s
}

func c14AggBody(st *c14AggState, assign []int) {
	*st = c14AggState{committeeOf: assign, realAtt: st.realAtt}
	n := len(assign)
	idx := func(i int) phase0.ValidatorIndex { return phase0.ValidatorIndex(21 + i) }
	var members [2][]int
	for i, c := range assign {
		if c >= 0 {
			members[c] = append(members[c], i)
		}
	}
	// subscription info of the slot: per committee absent, or one of its validators with or without the flag
	for c := 0; c < 2; c++ {
		if len(members[c]) == 0 {
			continue
		}
		k := mc.Choose(1 + 2*len(members[c]))
		if k == 0 {
			continue
		}
		st.info[c] = c14AggInfo{present: true, val: idx(members[c][(k-1)/2]), agg: (k-1)%2 == 1}
	}
	// which validators' attestations the attester returns
	st.attested = make([]bool, n)
	for i, c := range assign {
		if c >= 0 {
			st.attested[i] = mc.Choose(2) == 1
		}
	}
	st.reversed = mc.Choose(2) == 1
	st.offset = []time.Duration{0, c14AttestDelay, c14AggDelay - time.Second}[mc.Choose(3)]
	st.ran = true

	ctx, cancel := mcontext.WithCancel(context.Background())
	defer cancel()
	// the controller starts in the middle of the slot before the duty's slot
	genesisOff := -(int64(c14AggSlot-1)*int64(c14SlotDur) + int64(c14SlotDur)/2)
	ct := newChainTime(genesisOff, c14SlotDur, c14SlotsPerEpoch)
	st.wantTime = mc.Base.Add(time.Duration(genesisOff)).Add(time.Duration(c14AggSlot) * c14SlotDur).Add(c14AggDelay)

	accts := &accountsTable{byIndex: map[phase0.ValidatorIndex]*hAccount{}}
	var duties []*apiv1.AttesterDuty
	for i, c := range assign {
		a := newAccount("W", fmt.Sprintf("v%d", idx(i)), byte(idx(i)))
		accts.byIndex[idx(i)] = a
		if c >= 0 {
			duties = append(duties, &apiv1.AttesterDuty{PubKey: a.pubkey(), Slot: c14AggSlot, ValidatorIndex: idx(i), CommitteeIndex: phase0.CommitteeIndex(c),
				CommitteeLength: c14CommitteeLen(phase0.CommitteeIndex(c)), CommitteesAtSlot: 2, ValidatorCommitteeIndex: uint64(3 + 5*i)})
		}
	}
	mkSub := func(slot phase0.Slot, c phase0.CommitteeIndex, vi phase0.ValidatorIndex, agg bool) *beaconcommitteesubscriber.Subscription {
		var pk phase0.BLSPubKey
		if a, ok := accts.byIndex[vi]; ok {
			pk = a.pubkey()
		}
		return &beaconcommitteesubscriber.Subscription{
			Duty:         &apiv1.AttesterDuty{PubKey: pk, Slot: slot, ValidatorIndex: vi, CommitteeIndex: c, CommitteeLength: c14CommitteeLen(c), CommitteesAtSlot: 2, ValidatorCommitteeIndex: 3},
			IsAggregator: agg,
			Signature:    c14ValSig(vi),
		}
	}
	// a fourth validator of vouch's has duties (as selected aggregator of both committees) in the slots around
	other := phase0.ValidatorIndex(29)
	accts.byIndex[other] = newAccount("W", "v29", 29)
	epochInfo := map[phase0.Slot]map[phase0.CommitteeIndex]*beaconcommitteesubscriber.Subscription{
		c14AggSlot - 1: {0: mkSub(c14AggSlot-1, 0, other, true), 1: mkSub(c14AggSlot-1, 1, other, true)},
		c14AggSlot + 1: {0: mkSub(c14AggSlot+1, 0, other, true), 1: mkSub(c14AggSlot+1, 1, other, true)},
	}
	if st.info[0].present || st.info[1].present {
		epochInfo[c14AggSlot] = map[phase0.CommitteeIndex]*beaconcommitteesubscriber.Subscription{}
		for c := 0; c < 2; c++ {
			if st.info[c].present {
				epochInfo[c14AggSlot][phase0.CommitteeIndex(c)] = mkSub(c14AggSlot, phase0.CommitteeIndex(c), st.info[c].val, st.info[c].agg)
			}
		}
	}
	subscriber := &c14ScriptedSubscriber{info: map[phase0.Epoch]map[phase0.Slot]map[phase0.CommitteeIndex]*beaconcommitteesubscriber.Subscription{c14Epoch: epochInfo}}

	att := &c14Attester{}
	for i, c := range assign {
		if c >= 0 && st.attested[i] {
			bits := bitfield.NewBitlist(c14CommitteeLen(phase0.CommitteeIndex(c)))
			bits.SetBitAt(uint64(3+5*i), true)
			att.out = append(att.out, &phase0.Attestation{AggregationBits: bits, Data: c14AttData(phase0.CommitteeIndex(c)), Signature: phase0.BLSSignature{byte(i + 1)}})
		}
	}
	if st.reversed {
		for i, j := 0, len(att.out)-1; i < j; i, j = i+1, j-1 {
			att.out[i], att.out[j] = att.out[j], att.out[i]
		}
	}
	sched := &c14Sched{}
	agg := &c14RecAggregator{}
	var attSvc attester.Service = att
	var env *attEnv
	if st.realAtt {
		env = &attEnv{accts: map[phase0.ValidatorIndex]*hAccount{}, ct: ct}
		for i := range assign {
			env.accts[idx(i)] = accts.byIndex[idx(i)]
		}
		env.dataFn = func(_ context.Context, _ int, _ *api.AttestationDataOpts) (*phase0.AttestationData, error) {
			return c14AttData(0), nil
		}
		env.signFn = func(_ int, vals []phase0.ValidatorIndex) (bool, func(int) bool) {
			return false, func(k int) bool { return !st.attested[int(vals[k])-21] }
		}
		attSvc = newAttesterWithSpec(env, nil, c14SlotDur, c14SlotsPerEpoch)
	}
	svc, err := standardcontroller.New(ctx,
		standardcontroller.WithLogLevel(zerolog.Disabled),
		standardcontroller.WithMonitor(&nullmetrics.Service{}),
		standardcontroller.WithSpecProvider(&specProvider{m: baseSpec(c14SlotDur, c14SlotsPerEpoch)}),
		standardcontroller.WithChainTimeService(ct),
		standardcontroller.WithProposerDutiesProvider(c14NoProposerDuties{}),
		standardcontroller.WithAttesterDutiesProvider(&c14Duties{}),
		standardcontroller.WithEventsProvider(&eventsProvider{}),
		standardcontroller.WithValidatingAccountsProvider(accts),
		standardcontroller.WithProposalsPreparer(c14Preparer{}),
		standardcontroller.WithScheduler(sched),
		standardcontroller.WithAttester(attSvc),
		standardcontroller.WithBeaconBlockProposer(c14Proposer{}),
		standardcontroller.WithBeaconCommitteeSubscriber(subscriber),
		standardcontroller.WithAttestationAggregator(agg),
		standardcontroller.WithAccountsRefresher(c14Refresher{}),
		standardcontroller.WithBlockToSlotSetter(c14SlotSetter{}),
		standardcontroller.WithBeaconBlockHeadersProvider(c14Headers{}),
		standardcontroller.WithSignedBeaconBlockProvider(c14Blocks{}),
		standardcontroller.WithMaxAttestationDelay(c14AttestDelay),
		standardcontroller.WithMaxProposalDelay(0),
		standardcontroller.WithAttestationAggregationDelay(c14AggDelay),
	)
	must(err)
	// to the start of the duty's slot (the goroutines of New, which store the subscription info, run first),
	// plus the moment at which the attestation job fires (slot start when fast-tracked, else the maximum delay)
	mc.Sleep(int64(c14SlotDur)/2 + int64(st.offset))
	merged, err := attester.MergeDuties(ctx, duties)
	must(err)
	if len(merged) != 1 {
		panic("c14: expected one merged duty")
	}
	base := len(sched.jobs)
	svc.AttestAndScheduleAggregate(ctx, merged[0])
	st.attCalls = att.calls
	if env != nil {
		st.attCalls = len(env.data)
	}
	// run what was scheduled (as the scheduler would) and see which aggregations it performs
	for _, j := range sched.jobs[base:] {
		rec := c14AggJob{name: j.name, at: j.at, err: j.err}
		if j.err == nil {
			before := len(agg.calls)
			j.fn(ctx)
			rec.calls = append(rec.calls, agg.calls[before:]...)
		}
		st.jobs = append(st.jobs, rec)
	}
}

func (st *c14AggState) describe() string {
	var d []string
	for i, c := range st.committeeOf {
		if c < 0 {
			continue
		}
		s := fmt.Sprintf("validator %d in committee %d", 21+i, c)
		if st.attested[i] {
			s += " (attested)"
		} else {
			s += " (no attestation)"
		}
		d = append(d, s)
	}
	for c := 0; c < 2; c++ {
		switch {
		case !st.info[c].present:
			d = append(d, fmt.Sprintf("no subscription info for committee %d", c))
		case st.info[c].agg:
			d = append(d, fmt.Sprintf("subscription info: validator %d is the selected aggregator of committee %d", st.info[c].val, c))
		default:
			d = append(d, fmt.Sprintf("subscription info: committee %d has validator %d, not an aggregator", c, st.info[c].val))
		}
	}
	s := fmt.Sprintf("slot %d; %s; AttestAndScheduleAggregate called %v into the slot", c14AggSlot, strings.Join(d, "; "), st.offset)
	if st.reversed {
		s += "; attestations returned in descending validator order"
	}
	return s
}

func c14AggCheck(st *c14AggState, r *mc.Result) mc.Verdict {
	v := mc.Verdict{}
	if !st.ran {
		v.Outcome = "skipped"
		return v
	}
	idxOf := func(vi phase0.ValidatorIndex) int { return int(vi) - 21 }
	nSel, nDue := 0, 0
	var due [2]bool // selected aggregator that attested: a job is required
	for c := 0; c < 2; c++ {
		if st.info[c].present && st.info[c].agg {
			nSel++
			if st.attested[idxOf(st.info[c].val)] {
				due[c] = true
				nDue++
			}
		}
	}
	nJobs := 0
	for _, j := range st.jobs {
		if j.err == nil {
			nJobs++
		}
	}
	v.Nontrivial = nDue == 2
	v.Outcome = fmt.Sprintf("agg: selected=%d due=%d jobs=%d", nSel, nDue, nJobs)
	v.Sample = st.describe()
	fail := func(key, f string, a ...any) mc.Verdict {
		v.Violation = st.describe() + ": " + fmt.Sprintf(f, a...)
		v.Key = "C14/" + key
		return v
	}
	if r.Panic != "" {
		return fail("panic", "panic: %s", firstLine(r.Panic))
	}
	var roots [2]phase0.Root
	for c := 0; c < 2; c++ {
		rt, err := c14AttData(phase0.CommitteeIndex(c)).HashTreeRoot()
		must(err)
		roots[c] = rt
	}
	var count [2]int
	for _, j := range st.jobs {
		if j.err != nil {
			continue
		}
		for _, call := range j.calls {
			c := -1
			for k := 0; k < 2; k++ {
				if call.AttestationDataRoot == roots[k] {
					c = k
				}
			}
			if c < 0 {
				return fail("aggregate/wrong-content", "job %q aggregates an attestation data root that is not the root of any attestation made in the slot", j.name)
			}
			if !(st.info[c].present && st.info[c].agg) {
				return fail("aggregate/job-unexpected", "job %q aggregates for committee %d, in which none of the validators is a selected aggregator", j.name, c)
			}
			count[c]++
			if call.Slot != c14AggSlot || call.ValidatorIndex != st.info[c].val || call.SlotSignature != c14ValSig(st.info[c].val) {
				return fail("aggregate/wrong-aggregator", "job %q aggregates for committee %d as validator %d at slot %d (slot signature %#x…); the selected aggregator is validator %d at slot %d", j.name, c, call.ValidatorIndex, call.Slot, call.SlotSignature[:2], st.info[c].val, c14AggSlot)
			}
			if !j.at.Equal(st.wantTime) {
				return fail("aggregate/wrong-time", "job %q for committee %d is timed %v after the start of the slot; the configured aggregation delay is %v", j.name, c, j.at.Sub(st.wantTime.Add(-c14AggDelay)), c14AggDelay)
			}
		}
	}
	for c := 0; c < 2; c++ {
		if due[c] && count[c] == 0 {
			return fail("aggregate/job-missing", "no aggregation job was set up for committee %d, whose selected aggregator %d attested (%d aggregation jobs set up in total)", c, st.info[c].val, count[0]+count[1])
		}
		if count[c] > 1 {
			return fail("aggregate/job-duplicate", "%d aggregation jobs were set up for committee %d", count[c], c)
		}
	}
	return v
}

func c14AggUnits(_ string) []hx.Unit {
	var units []hx.Unit
	for code := 0; code < 27; code++ {
		assign := []int{code%3 - 1, (code/3)%3 - 1, (code/9)%3 - 1}
		n := [2]int{}
		for _, c := range assign {
			if c >= 0 {
				n[c]++
			}
		}
		if n[0] > 2 || n[1] > 2 || n[0]+n[1] == 0 {
			continue
		}
		st := &c14AggState{}
		u := hx.Unit{Name: fmt.Sprintf("C14/agg/committees-%d-%d-%d", assign[0], assign[1], assign[2]), Cfg: mc.Config{Fixed: true}}
		u.Body = func() { c14AggBody(st, assign) }
		u.Check = func(r *mc.Result) mc.Verdict { return c14AggCheck(st, r) }
		units = append(units, u)
		// the same with the real attester: a validator that does not attest is one the signer returns nothing for
		str := &c14AggState{realAtt: true}
		ur := hx.Unit{Name: fmt.Sprintf("C14/agg-real-attester/committees-%d-%d-%d", assign[0], assign[1], assign[2]), Cfg: mc.Config{Fixed: true}}
		ur.Body = func() { c14AggBody(str, assign) }
		ur.Check = func(r *mc.Result) mc.Verdict { return c14AggCheck(str, r) }
		units = append(units, ur)
	}
	return units
}

// =======================================================================================================
// Part 4: the three services together
// =======================================================================================================

// c14WrapAggregator is the real aggregator for the selection and a recorder for Aggregate.
type c14WrapAggregator struct {
	c14RecAggregator
	real *standardaggregator.Service
}

func (a *c14WrapAggregator) AggregatorsAndSignatures(ctx context.Context, accounts []e2wtypes.Account, slot phase0.Slot, sizes []uint64) ([]phase0.BLSSignature, []bool, error) {
	return a.real.AggregatorsAndSignatures(ctx, accounts, slot, sizes)
}

type c14E2EState struct {
	vals  []c14Val
	jobs  []c14AggJob
	calls [][]apiv1.BeaconCommitteeSubscription
	want  time.Time
	ran   bool
}

// options of a validator: no duty; slot 42 committee 0/1 (the slot attested); slot 41 (current) / 43 (later) committee 0.
func c14E2EOption(v *c14Val, opt int) {
	v.hasDuty = opt > 0
	switch opt {
	case 1, 2:
		v.slot, v.committee = c14AggSlot, phase0.CommitteeIndex(opt-1)
	case 3:
		v.slot, v.committee = c14AggSlot-1, 0
	case 4:
		v.slot, v.committee = c14AggSlot+1, 0
	}
}

func c14E2EBody(st *c14E2EState, opt0 int) {
	*st = c14E2EState{}
	st.vals = make([]c14Val, 3)
	at42 := 0
	for i := range st.vals {
		st.vals[i].index = phase0.ValidatorIndex(11 + i)
		opt := opt0
		if i > 0 {
			opt = mc.Choose(5)
		}
		c14E2EOption(&st.vals[i], opt)
		if st.vals[i].hasDuty && st.vals[i].slot == c14AggSlot {
			at42++
		}
	}
	if at42 == 0 {
		return
	}
	if st.vals[0].hasDuty && st.vals[1].hasDuty && st.vals[2].hasDuty && st.vals[0].slot == st.vals[1].slot && st.vals[1].slot == st.vals[2].slot &&
		st.vals[0].committee == st.vals[1].committee && st.vals[1].committee == st.vals[2].committee {
		return
	}
	for i := range st.vals {
		if st.vals[i].hasDuty {
			st.vals[i].sigClass = mc.Choose(3)
		}
		st.vals[i].sig = c14SubSigs[st.vals[i].sigClass]
	}
	st.ran = true

	ctx, cancel := mcontext.WithCancel(context.Background())
	defer cancel()
	genesisOff := -(int64(c14AggSlot-1)*int64(c14SlotDur) + int64(c14SlotDur)/2)
	ct := newChainTime(genesisOff, c14SlotDur, c14SlotsPerEpoch)
	st.want = mc.Base.Add(time.Duration(genesisOff)).Add(time.Duration(c14AggSlot) * c14SlotDur).Add(c14AggDelay)
	signer := &c14Signer{sigs: map[phase0.BLSPubKey]phase0.BLSSignature{}}
	accts := &accountsTable{byIndex: map[phase0.ValidatorIndex]*hAccount{}}
	dp := &c14Duties{}
	att := &c14Attester{}
	var slotDuties []*apiv1.AttesterDuty
	for i, v := range st.vals {
		a := newAccount("W", fmt.Sprintf("v%d", v.index), byte(v.index))
		accts.byIndex[v.index] = a
		signer.sigs[a.pubkey()] = v.sig
		if !v.hasDuty {
			continue
		}
		d := &apiv1.AttesterDuty{PubKey: a.pubkey(), Slot: v.slot, ValidatorIndex: v.index, CommitteeIndex: v.committee,
			CommitteeLength: c14CommitteeLenAt(v.slot, v.committee), CommitteesAtSlot: c14CommitteesAtSlot(v.slot), ValidatorCommitteeIndex: uint64(3 + 5*i)}
		dp.duties = append(dp.duties, d)
		if v.slot == c14AggSlot {
			c := *d
			slotDuties = append(slotDuties, &c)
			bits := bitfield.NewBitlist(c14CommitteeLenAt(v.slot, v.committee))
			bits.SetBitAt(uint64(3+5*i), true)
			att.out = append(att.out, &phase0.Attestation{AggregationBits: bits, Data: c14AttData(v.committee), Signature: phase0.BLSSignature{byte(i + 1)}})
		}
	}
	agg := &c14WrapAggregator{real: c14NewAggregator(signer, c14SubTarget, accts)}
	submitter := &c14SubSubmitter{}
	subscriber, err := standardsubscriber.New(ctx,
		standardsubscriber.WithLogLevel(zerolog.Disabled),
		standardsubscriber.WithMonitor(&nullmetrics.Service{}),
		standardsubscriber.WithProcessConcurrency(2),
		standardsubscriber.WithChainTimeService(ct),
		standardsubscriber.WithAttesterDutiesProvider(dp),
		standardsubscriber.WithAttestationAggregator(agg),
		standardsubscriber.WithBeaconCommitteeSubmitter(submitter),
	)
	must(err)
	sched := &c14Sched{}
	svc, err := standardcontroller.New(ctx,
		standardcontroller.WithLogLevel(zerolog.Disabled),
		standardcontroller.WithMonitor(&nullmetrics.Service{}),
		standardcontroller.WithSpecProvider(&specProvider{m: baseSpec(c14SlotDur, c14SlotsPerEpoch)}),
		standardcontroller.WithChainTimeService(ct),
		standardcontroller.WithProposerDutiesProvider(c14NoProposerDuties{}),
		standardcontroller.WithAttesterDutiesProvider(dp),
		standardcontroller.WithEventsProvider(&eventsProvider{}),
		standardcontroller.WithValidatingAccountsProvider(accts),
		standardcontroller.WithProposalsPreparer(c14Preparer{}),
		standardcontroller.WithScheduler(sched),
		standardcontroller.WithAttester(att),
		standardcontroller.WithBeaconBlockProposer(c14Proposer{}),
		standardcontroller.WithBeaconCommitteeSubscriber(subscriber),
		standardcontroller.WithAttestationAggregator(agg),
		standardcontroller.WithAccountsRefresher(c14Refresher{}),
		standardcontroller.WithBlockToSlotSetter(c14SlotSetter{}),
		standardcontroller.WithBeaconBlockHeadersProvider(c14Headers{}),
		standardcontroller.WithSignedBeaconBlockProvider(c14Blocks{}),
		standardcontroller.WithMaxAttestationDelay(c14AttestDelay),
		standardcontroller.WithMaxProposalDelay(0),
		standardcontroller.WithAttestationAggregationDelay(c14AggDelay),
	)
	must(err)
	mc.Sleep(int64(c14SlotDur)/2 + int64(c14AttestDelay))
	st.calls = submitter.calls
	merged, err := attester.MergeDuties(ctx, slotDuties)
	must(err)
	if len(merged) != 1 {
		panic("c14: expected one merged duty")
	}
	base := len(sched.jobs)
	svc.AttestAndScheduleAggregate(ctx, merged[0])
	for _, j := range sched.jobs[base:] {
		rec := c14AggJob{name: j.name, at: j.at, err: j.err}
		if j.err == nil {
			before := len(agg.calls)
			j.fn(ctx)
			rec.calls = append(rec.calls, agg.calls[before:]...)
		}
		st.jobs = append(st.jobs, rec)
	}
}

func c14E2ECheck(st *c14E2EState, r *mc.Result) mc.Verdict {
	v := mc.Verdict{}
	if !st.ran {
		v.Outcome = "skipped"
		return v
	}
	var d []string
	var members [2][]c14Val
	for _, x := range st.vals {
		if !x.hasDuty {
			d = append(d, fmt.Sprintf("validator %d: no duty", x.index))
			continue
		}
		d = append(d, fmt.Sprintf("validator %d: slot %d committee %d (%s)", x.index, x.slot, x.committee, c14SubSigNames[x.sigClass]))
		if x.slot == c14AggSlot {
			members[x.committee] = append(members[x.committee], x)
		}
	}
	desc := fmt.Sprintf("controller, subscriber and aggregator together; controller started in slot %d, attesting slot %d (all attest); %s", c14AggSlot-1, c14AggSlot, strings.Join(d, "; "))
	selected := func(x c14Val) bool {
		return c14IsAggregator(x.sig, c14CommitteeLenAt(x.slot, x.committee), c14SubTarget)
	}
	var hasSel [2]bool
	nSel := 0
	for c := 0; c < 2; c++ {
		for _, x := range members[c] {
			if selected(x) {
				hasSel[c] = true
			}
		}
		if hasSel[c] {
			nSel++
		}
	}
	v.Nontrivial = nSel == 2
	v.Sample = desc
	fail := func(key, f string, a ...any) mc.Verdict {
		v.Violation = desc + ": " + fmt.Sprintf(f, a...)
		v.Key = "C14/" + key
		return v
	}
	if r.Panic != "" {
		return fail("panic", "panic: %s", firstLine(r.Panic))
	}
	var roots [2]phase0.Root
	for c := 0; c < 2; c++ {
		rt, err := c14AttData(phase0.CommitteeIndex(c)).HashTreeRoot()
		must(err)
		roots[c] = rt
	}
	var count [2]int
	for _, j := range st.jobs {
		if j.err != nil {
			continue
		}
		for _, call := range j.calls {
			c := -1
			for k := 0; k < 2; k++ {
				if call.AttestationDataRoot == roots[k] {
					c = k
				}
			}
			if c < 0 {
				return fail("aggregate/wrong-content", "job %q aggregates an attestation data root that is not the root of any attestation made in the slot", j.name)
			}
			if !hasSel[c] {
				return fail("aggregate/job-unexpected", "job %q aggregates for committee %d, in which none of the validators is a selected aggregator", j.name, c)
			}
			count[c]++
			ok := false
			for _, x := range members[c] {
				if selected(x) && call.ValidatorIndex == x.index && call.SlotSignature == x.sig && call.Slot == c14AggSlot {
					ok = true
				}
			}
			if !ok {
				return fail("aggregate/wrong-aggregator", "job %q aggregates for committee %d as validator %d at slot %d, which is not a selected aggregator of that committee with its slot signature", j.name, c, call.ValidatorIndex, call.Slot)
			}
			if !j.at.Equal(st.want) {
				return fail("aggregate/wrong-time", "job %q for committee %d is timed %v after the start of the slot; the configured aggregation delay is %v", j.name, c, j.at.Sub(st.want.Add(-c14AggDelay)), c14AggDelay)
			}
		}
	}
	v.Outcome = fmt.Sprintf("e2e: committees-with-selected=%d jobs=%d", nSel, count[0]+count[1])
	for c := 0; c < 2; c++ {
		if hasSel[c] && count[c] == 0 {
			return fail("aggregate/job-missing", "no aggregation job was set up for committee %d of slot %d, in which one of the validators is a selected aggregator (%d aggregation jobs set up in total)", c, c14AggSlot, count[0]+count[1])
		}
		if count[c] > 1 {
			return fail("aggregate/job-duplicate", "%d aggregation jobs were set up for committee %d", count[c], c)
		}
	}
	// the subscriptions of slot 42 (after the current slot 41) must have reached the beacon node as well
	for c := 0; c < 2; c++ {
		if len(members[c]) == 0 {
			continue
		}
		n := 0
		for _, call := range st.calls {
			for _, s := range call {
				if s.Slot == c14AggSlot && s.CommitteeIndex == phase0.CommitteeIndex(c) {
					n++
					if s.IsAggregator != hasSel[c] {
						return fail("aggregator/selection-mismatch", "the subscription for slot %d committee %d has is_aggregator=%v; the specification's rule says a validator of the committee is selected: %v", s.Slot, c, s.IsAggregator, hasSel[c])
					}
				}
			}
		}
		if n == 0 {
			return fail("subscribe/future-duty-not-subscribed", "no subscription was submitted for slot %d committee %d (current slot %d)", c14AggSlot, c, c14AggSlot-1)
		}
	}
	return v
}

func c14E2EUnits(_ string) []hx.Unit {
	c14InitSubSigs()
	var units []hx.Unit
	for opt0 := 0; opt0 < 5; opt0++ {
		opt0 := opt0
		st := &c14E2EState{}
		u := hx.Unit{Name: fmt.Sprintf("C14/e2e/v11-option-%d", opt0), Cfg: mc.Config{Fixed: true}}
		u.Body = func() { c14E2EBody(st, opt0) }
		u.Check = func(r *mc.Result) mc.Verdict { return c14E2ECheck(st, r) }
		units = append(units, u)
	}
	return units
}

// =======================================================================================================

func c14Units(tier string) []hx.Unit {
	var units []hx.Unit
	units = append(units, c14SubUnits(tier)...)
	units = append(units, c14AggUnits(tier)...)
	units = append(units, c14E2EUnits(tier)...)
	units = append(units, c14SelUnits(tier)...)
	return units
}

func init() {
	hx.Register(&hx.Prop{
		ID:    "C14",
		Title: "Future attester duties are all subscribed; every selected aggregator aggregates",
		Rule: "(sub) real beaconcommitteesubscriber.Subscribe over the real attestationaggregator, epoch of 4 slots, current slot in {last slot of the previous epoch, each slot of the epoch} (called in mid-slot; thorough also at the very start of the slot), 3 validators (thorough also 4) each with no duty or a duty in any (slot, committee in {0,1}) (at most 2 per committee), committee sizes 128 / 64 except committee 0 of the last slot (127, i.e. another modulus for the same committee index within one duty answer), slot signatures in classes {selected in both committees, selected in committee 1 only, selected in neither; the first two the other way round under the modulus of the smaller committee}, duties in either order: the submitted subscriptions are exactly one per (slot, committee) with a duty after the current slot, with a validator of that committee, its committees-at-slot and its is_aggregator flag; the returned info covers those pairs, names a selected aggregator where there is one, and carries that validator's signature; " +
			"(sel) real AggregatorsAndSignatures for committee sizes {1,16,17,128,129}^2 (thorough also ^3 over a boundary subset), TARGET_AGGREGATORS_PER_COMMITTEE in {1,16}, every tuple of a pool of slot signatures whose hash values sit on the selection boundaries (residues 0, 1, m-1; selected under one modulus but not another; top bit set; endianness-sensitive) against the specification's is_aggregator recomputed with crypto/sha256; " +
			"(agg) real controller (real New, subscription info stored by its own subscribeToBeaconCommittees from a scripted subscriber, decoy info for the neighbouring slots) running AttestAndScheduleAggregate at the slot start, at the attestation delay and one second before the aggregation time, 1-3 validators over committees {0,1}, subscription info per committee in {absent, either validator, with or without aggregator flag}, attestations for every subset, either order: exactly one aggregation job (identified by the Aggregate call it makes when run) per committee whose selected aggregator attested, for that validator with its slot signature and the attestation's data root, at slot start + configured delay; none for committees without a selected aggregator; " +
			"(e2e) real controller + real subscriber + real aggregator, 3 validators each in {no duty, attested slot committee 0/1, current slot, later slot} x 3 signature classes, all attest: one job per committee of the slot with a specification-selected validator, and the slot's subscriptions submitted; " +
			"non-trivial = duties on both sides of the current slot / a hash value on a selection boundary with modulus > 1 / two committees due an aggregation job; distinct = outcome classes per part",
		Assumptions: []string{
			"the beacon node returns one attester duty per validator and epoch, inside the requested epoch",
			"the scheduler refuses a second job with an existing name (as scheduler/advanced does)",
			"where a committee has a selected aggregator that did not itself attest, both setting up and not setting up a job are accepted",
			"Subscribe and AttestAndScheduleAggregate are called while the current slot does not change",
		},
		Units:         c14Units,
		MinNontrivial: 10000,
	})
}
