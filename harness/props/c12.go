package props

import (
	"context"
	"errors"
	"fmt"
	relaytypes "github.com/attestantio/go-block-relay/types"
	"strings"
	"time"

	"verifharness/hx"

	"github.com/attestantio/go-block-relay/services/blockauctioneer"
	builderclient "github.com/attestantio/go-builder-client"
	builderapi "github.com/attestantio/go-builder-client/api"
	"github.com/attestantio/go-eth2-client/api"
	apiv1 "github.com/attestantio/go-eth2-client/api/v1"
	"github.com/attestantio/go-eth2-client/spec/bellatrix"
	"github.com/attestantio/go-eth2-client/spec/phase0"
	"github.com/attestantio/vouch/services/beaconblockproposer"
	"github.com/attestantio/vouch/services/blockrelay"
	standardblockrelay "github.com/attestantio/vouch/services/blockrelay/standard"
	nullmetrics "github.com/attestantio/vouch/services/metrics/null"
	"github.com/attestantio/vouch/util"
	"github.com/attestantio/vouch/verifmc/mc"
	"github.com/attestantio/vouch/verifmc/mcontext"
	"github.com/rs/zerolog"
	e2wtypes "github.com/wealdtech/go-eth2-wallet-types/v2"
)

// C12: the block relay keeps answering whatever the config source does.
//
// The real blockrelay service (real New, REST daemon stubbed out) with a scripted configuration source.
// A refresher actor runs the fetch-outcome sequence; request actors (proposer-setting lookups, auctions,
// a registration round) run at the same instant; all interleavings within the preemption bound.

const (
	c12Relay = "https://relay1.example.com/"
	feeA     = "0xaaaaaaaaaaaaaaaaaaaaaaaaaaaaaaaaaaaaaaaa"
	feeB     = "0xbbbbbbbbbbbbbbbbbbbbbbbbbbbbbbbbbbbbbbbb"
	feeP     = "0xcccccccccccccccccccccccccccccccccccccccc"
)

// scripted majordomo
type c12Majordomo struct {
	docs  []string // outcome names, consumed in order; the last repeats
	i     int
	fetch int
}

func c12Doc(name string, v2pub phase0.BLSPubKey) ([]byte, error) {
	switch name {
	case "A":
		return []byte(`{"version":2,"fee_recipient":"` + feeA + `","relays":{"` + c12Relay + `":{}}}`), nil
	case "B":
		return []byte(`{"version":2,"fee_recipient":"` + feeB + `","relays":{"` + c12Relay + `":{}}}`), nil
	case "R":
		// a document that parses and names, besides the good relay, a relay whose address is no URL
		return []byte(`{"version":2,"fee_recipient":"` + feeB + `","relays":{"` + c12Relay + `":{},"%zz":{}}}`), nil
	case "U":
		// resolvable for validator 2 (first entry matches), unresolvable for everybody else (an entry
		// whose proposer is the zero public key cannot be applied)
		return []byte(`{"version":2,"fee_recipient":"` + feeA + `","relays":{"` + c12Relay + `":{}},"proposers":[{"proposer":"` + v2pub.String() + `","fee_recipient":"` + feeP + `"},{"proposer":"0x` + strings.Repeat("00", 48) + `"}]}`), nil
	case "V1":
		// legacy format: the default configuration and the second validator's own entry leave gas limit and builder
		// to be filled in
		return []byte(`{"proposer_config":{"` + v2pub.String() + `":{"fee_recipient":"` + feeP + `"}},"default_config":{"fee_recipient":"` + feeA + `"}}`), nil
	case "S":
		// legacy format with a fee recipient that is no 20-byte address: malformed content
		return []byte(`{"default_config":{"fee_recipient":"0x12"}}`), nil
	case "err":
		return nil, errors.New("scripted fetch failure")
	case "malformed":
		return []byte(`{"version":2,"fee_recipient":`), nil
	case "empty":
		return []byte(``), nil
	case "braces":
		return []byte(`{}`), nil
	case "null":
		return []byte(`null`), nil
	}
	panic("unknown doc " + name)
}

type c12Relays struct{}

func (c12Relays) Name() string    { return "relay" }
func (c12Relays) Address() string { return c12Relay }
func (c12Relays) Pubkey() *phase0.BLSPubKey {
	return nil
}
func (c12Relays) SubmitValidatorRegistrations(_ context.Context, _ *builderapi.SubmitValidatorRegistrationsOpts) error {
	mc.Yield()
	return nil
}

type c12Bids struct{}

func (c12Bids) BuilderBid(_ context.Context, _ phase0.Slot, _ phase0.Hash32, _ phase0.BLSPubKey, _ *beaconblockproposer.ProposerConfig, _ map[phase0.BLSPubKey]*blockrelay.BuilderConfig) (*blockauctioneer.Results, error) {
	mc.Yield()
	return &blockauctioneer.Results{Participation: map[string]*blockauctioneer.Participation{}, AllProviders: []builderclient.BuilderBidProvider{}, Providers: []builderclient.BuilderBidProvider{}}, nil
}

type c12Signer struct{}

func (c12Signer) SignValidatorRegistration(_ context.Context, _ e2wtypes.Account, _ *builderapi.VersionedValidatorRegistration) (phase0.BLSSignature, error) {
	return phase0.BLSSignature{1}, nil
}

type c12Validators struct{}

func (c12Validators) Validators(_ context.Context, _ *api.ValidatorsOpts) (*api.Response[map[phase0.ValidatorIndex]*apiv1.Validator], error) {
	return &api.Response[map[phase0.ValidatorIndex]*apiv1.Validator]{Data: map[phase0.ValidatorIndex]*apiv1.Validator{}, Metadata: map[string]any{}}, nil
}

type c12Req struct {
	kind string // lookup1, lookup2, auction1, auction2, register
	done bool
	fee  string
	nrel int
	err  error
}

type c12State struct {
	md        *c12Majordomo
	reqs      []c12Req
	refDone   int
	final     [2]c12Req
	finalOK   bool
	finalBids int // bid requests made after the refreshes that returned
	overlap   bool
	allowed   map[string]bool
	lastGood  string
}

func (m *c12Majordomo) Fetch(_ context.Context, _ string) ([]byte, error) {
	m.fetch++
	mc.Yield()
	name := m.docs[len(m.docs)-1]
	if m.i < len(m.docs) {
		name = m.docs[m.i]
	}
	m.i++
	return c12Doc(name, newAccount("W", "v2", 2).pubkey())
}

func c12Expect(doc string, v int) (fee string, nrel int, isErr bool) {
	switch doc {
	case "":
		return "0x" + strings.Repeat("ff", 20), 0, false
	case "A":
		return feeA, 1, false
	case "B":
		return feeB, 1, false
	case "R":
		return feeB, 2, false
	case "U":
		if v == 2 {
			return feeP, 1, false
		}
		return "", 0, true
	}
	panic("bad doc")
}

func c12Units(tier string) []hx.Unit {
	outcomes := []string{"A", "B", "U", "err", "malformed", "empty", "braces", "null"}
	reqKinds := []string{"lookup1", "lookup2", "auction1", "auction2", "register"}
	type combo struct{ seq, rs []string }
	var combos []combo
	// request sets: singles and unordered pairs
	var reqSets [][]string
	for i, a := range reqKinds {
		reqSets = append(reqSets, []string{a})
		for _, b := range reqKinds[i:] {
			reqSets = append(reqSets, []string{a, b})
		}
	}
	var seqs [][]string
	for _, a := range outcomes {
		for _, b := range outcomes {
			seqs = append(seqs, []string{a, b})
		}
	}
	if tier == "thorough" {
		// three outcomes in a row over one representative of each kind (good, partly unresolvable, failing
		// fetch, parseable non-document, malformed)
		rep := []string{"A", "U", "err", "null", "malformed"}
		for _, a := range rep {
			for _, b := range rep {
				for _, c := range rep {
					seqs = append(seqs, []string{a, b, c})
				}
			}
		}
	}
	for _, seq := range seqs {
		for _, rs := range reqSets {
			combos = append(combos, combo{seq, rs})
		}
	}
	// a document naming a relay whose address is no URL (the builder client for it cannot be made), next to
	// the other kinds of outcome
	rSeqs := [][]string{{"R", "R"}, {"A", "R"}, {"R", "A"}, {"R", "err"}, {"err", "R"}, {"R", "U"}}
	rSets := [][]string{{"lookup1"}, {"lookup2"}, {"auction1"}, {"auction2"}, {"register"}, {"lookup1", "register"}}
	if tier == "thorough" {
		rSeqs = append(rSeqs, []string{"R", "R", "A"}, []string{"A", "R", "err"}, []string{"R", "malformed", "R"})
		rSets = append(rSets, []string{"auction1", "register"}, []string{"rest"}, []string{"rest", "register"})
	}
	for _, seq := range rSeqs {
		for _, rs := range rSets {
			combos = append(combos, combo{seq, rs})
		}
	}
	// a legacy document whose fee recipient is too short to be an address
	for _, seq := range [][]string{{"A", "S"}, {"S", "A"}, {"S", "S"}, {"B", "S"}} {
		for _, rs := range [][]string{{"lookup1"}, {"lookup2"}, {"register"}} {
			combos = append(combos, combo{seq, rs})
		}
	}
	// a registration forwarded over REST (as a beacon node or a validator client sends it) next to the
	// refresher and another request
	restRep := []string{"A", "U", "err", "null"}
	// ... and a beacon node's bid request for which no auction has been held (vouch then holds one on the spot)
	restSets := [][]string{{"rest"}, {"rest", "lookup1"}, {"rest", "register"}, {"bid1"}, {"bid1", "lookup2"}}
	if tier == "thorough" {
		restRep = append(restRep, "B", "malformed")
		restSets = append(restSets, []string{"rest", "rest"}, []string{"rest", "auction2"})
	}
	for _, a := range restRep {
		for _, b := range restRep {
			for _, rs := range restSets {
				combos = append(combos, combo{[]string{a, b}, rs})
			}
		}
	}
	var units []hx.Unit
	{
		for _, cb := range combos {
			seq, rs := cb.seq, cb.rs
			st := &c12State{}
			u := hx.Unit{Name: fmt.Sprintf("C12/fetch[%s]/req[%s]", strings.Join(seq, ","), strings.Join(rs, ",")), Cfg: mc.Config{Horizon: int64(60 * time.Second)}}
			u.Bound = 1
			// thorough: two preemptions, except for histories of three outcomes with two concurrent requests (up to
			// 70 k executions per unit at bound 2, 2600 such units), which keep one
			heavy := len(seq) > 2 && len(rs) > 1
			if len(rs) == 2 && (rs[0] == "rest" || rs[1] == "rest") && (rs[0] == "register" || rs[1] == "register") {
				// a forwarded registration next to a registration round: 3-4.6 M executions per unit at bound 2
				heavy = true
			}
			if tier == "thorough" && !heavy {
				u.Bound = 2
			}
			u.Body = func() { c12Body(st, seq, rs) }
			u.Check = func(r *mc.Result) mc.Verdict { return c12Check(st, seq, rs, r) }
			units = append(units, u)
		}
	}
	return units
}

func c12Body(st *c12State, seq, rs []string) {
	*st = c12State{md: &c12Majordomo{docs: seq}}
	util.VerifResetBuilderClients()
	util.VerifSetBuilderClient(c12Relay, c12Relays{})
	ctx, cancel := mcontext.WithCancel(context.Background())
	defer cancel()
	v1, v2 := newAccount("W", "v1", 1), newAccount("W", "v2", 2)
	accts := &accountsTable{byIndex: map[phase0.ValidatorIndex]*hAccount{1: v1, 2: v2}}
	var fb bellatrix.ExecutionAddress
	for i := range fb {
		fb[i] = 0xff
	}
	svc, err := standardblockrelay.New(ctx,
		standardblockrelay.WithLogLevel(zerolog.Disabled),
		standardblockrelay.WithMonitor(&nullmetrics.Service{}),
		standardblockrelay.WithMajordomo(st.md),
		standardblockrelay.WithScheduler(&nopScheduler{}),
		standardblockrelay.WithListenAddress("127.0.0.1:18550"),
		standardblockrelay.WithChainTime(newChainTime(-int64(100*12*time.Second), 12*time.Second, 32)),
		standardblockrelay.WithConfigURL("file:///config.json"),
		standardblockrelay.WithFallbackFeeRecipient(fb),
		standardblockrelay.WithFallbackGasLimit(30000000),
		standardblockrelay.WithAccountsProvider(accts),
		standardblockrelay.WithValidatorsProvider(c12Validators{}),
		standardblockrelay.WithValidatingAccountsProvider(accts),
		standardblockrelay.WithValidatorRegistrationSigner(c12Signer{}),
		standardblockrelay.WithReleaseVersion("test"),
		standardblockrelay.WithBuilderBidProvider(c12Bids{}),
		standardblockrelay.WithBuilderConfigs(map[phase0.BLSPubKey]*blockrelay.BuilderConfig{}),
	)
	must(err)
	lookup := func(r *c12Req, a *hAccount) {
		pc, err := svc.ProposerConfig(ctx, a, a.pubkey())
		r.err = err
		if err == nil && pc != nil {
			r.fee = strings.ToLower(pc.FeeRecipient.String())
			r.nrel = len(pc.Relays)
		}
	}
	// let the registration round started by New finish first
	mc.Sleep(int64(time.Second))
	st.reqs = make([]c12Req, len(rs))
	// refresher: the remaining outcomes of the sequence (the first was consumed by New)
	mc.Go(func() {
		for i := 1; i < len(seq); i++ {
			svc.VerifFetchExecutionConfig(ctx)
			st.refDone++
		}
	})
	for i := range rs {
		r := &st.reqs[i]
		r.kind = rs[i]
		mc.Go(func() {
			switch r.kind {
			case "lookup1":
				lookup(r, v1)
			case "lookup2":
				lookup(r, v2)
			case "auction1":
				_, r.err = svc.AuctionBlock(ctx, 3300, phase0.Hash32{1}, v1.pubkey())
			case "auction2":
				_, r.err = svc.AuctionBlock(ctx, 3300, phase0.Hash32{1}, v2.pubkey())
			case "register":
				svc.VerifSubmitValidatorRegistrations(ctx)
			case "bid1":
				_, r.err = svc.BuilderBid(ctx, 3300, phase0.Hash32{1}, v1.pubkey())
				r.err = nil // no bid is no failure
			case "rest":
				// a beacon node passes on the registration of a validator vouch does not control
				ext := newAccount("X", "ext", 9)
				_, r.err = svc.ValidatorRegistrations(ctx, []*relaytypes.SignedValidatorRegistration{{Message: &relaytypes.ValidatorRegistration{FeeRecipient: bellatrix.ExecutionAddress{0xee}, GasLimit: 12345, Timestamp: mc.Base, Pubkey: ext.pubkey()}, Signature: phase0.BLSSignature{0xe1}}})
			}
			r.done = true
		})
	}
	// later: one more refresh (repeats the last outcome) and final lookups, all of which must return
	mc.Sleep(int64(5 * time.Second))
	mc.Go(func() {
		svc.VerifFetchExecutionConfig(ctx)
		st.refDone++
		st.final[0].kind, st.final[1].kind = "lookup1", "lookup2"
		lookup(&st.final[0], v1)
		st.final[0].done = true
		lookup(&st.final[1], v2)
		st.final[1].done = true
		st.finalOK = true
		// bid requests as a beacon node makes them (no auction was held for this parent: vouch runs one at once)
		for _, a := range []*hAccount{v1, v2} {
			_, _ = svc.BuilderBid(ctx, 3301, phase0.Hash32{2}, a.pubkey())
			st.finalBids++
		}
	})
	mc.Sleep(int64(5 * time.Second))
}

func c12Check(st *c12State, seq, rs []string, r *mc.Result) mc.Verdict {
	v := mc.Verdict{}
	var o []string
	for _, q := range st.reqs {
		res := "pending"
		if q.done {
			res = "ok"
			if q.err != nil {
				res = "err"
			}
		}
		o = append(o, q.kind+"="+res)
	}
	v.Outcome = strings.Join(o, " ") + fmt.Sprintf(" refreshes=%d", st.refDone)
	v.Sample = fmt.Sprintf("fetch outcomes %v, concurrent requests %v -> %s", seq, rs, v.Outcome)
	v.Nontrivial = r.Touched > 0
	fail := func(key, msg string) mc.Verdict {
		v.Violation = v.Sample + ": " + msg
		v.Key = "C12/" + key
		return v
	}
	if r.Panic != "" {
		return fail("panic", "panic: "+firstLine(r.Panic))
	}
	for _, q := range st.reqs {
		if !q.done {
			return fail("request-never-returned/"+strings.TrimRight(q.kind, "12"), "a "+q.kind+" request never returned")
		}
	}
	if st.refDone != len(seq) {
		return fail("refresh-never-returned", fmt.Sprintf("only %d of %d configuration refreshes returned", st.refDone, len(seq)))
	}
	if !st.finalOK {
		return fail("request-never-returned/final-lookup", "a proposer-setting lookup after the refreshes never returned")
	}
	if st.finalBids != 2 {
		return fail("request-never-returned/final-bid-request", fmt.Sprintf("only %d of 2 bid requests made after the refreshes returned", st.finalBids))
	}
	for _, b := range r.Blocked {
		if b.Class == "blocked" {
			return fail("blocked-goroutine/"+b.Kind.String(), fmt.Sprintf("goroutine g%d is blocked forever at %s %s", b.G, b.Kind, b.Desc))
		}
	}
	// configuration in force: the last document that parsed, else the fallback values
	good := func(d string) bool { return d == "A" || d == "B" || d == "U" || d == "R" }
	last := ""
	seen := map[string]bool{"": true}
	for _, d := range seq {
		if good(d) {
			last = d
			seen[d] = true
		}
	}
	for i, q := range st.final {
		fee, nrel, isErr := c12Expect(last, i+1)
		if isErr {
			if q.err == nil {
				return fail("unresolvable-settings-returned", fmt.Sprintf("validator %d's settings are unresolvable under document %s but a configuration was returned", i+1, last))
			}
			continue
		}
		if q.err != nil {
			return fail("lookup-failed", fmt.Sprintf("lookup for validator %d failed (%v) although document %q is in force", i+1, q.err, last))
		}
		if q.fee != fee || q.nrel != nrel {
			return fail("not-last-good-config", fmt.Sprintf("validator %d got fee recipient %s with %d relays; last good document %q says %s with %d", i+1, q.fee, q.nrel, last, fee, nrel))
		}
	}
	// concurrent lookups: must answer from some document that was in force at some point
	for _, q := range st.reqs {
		if !strings.HasPrefix(q.kind, "lookup") {
			continue
		}
		vi := 1
		if q.kind == "lookup2" {
			vi = 2
		}
		ok := false
		for d := range seen {
			fee, nrel, isErr := c12Expect(d, vi)
			if isErr && q.err != nil {
				ok = true
			}
			if !isErr && q.err == nil && q.fee == fee && q.nrel == nrel {
				ok = true
			}
		}
		if !ok {
			return fail("lookup-from-no-config", fmt.Sprintf("concurrent %s answered (fee %s, %d relays, err %v) from no configuration that was ever in force", q.kind, q.fee, q.nrel, q.err))
		}
	}
	return v
}

func init() {
	hx.Register(&hx.Prop{
		ID:    "C12",
		Title: "The block relay keeps answering whatever the config source does",
		Rule: "for every sequence of 2 fetch outcomes (thorough: also every sequence of 3 over five representative outcomes) over {doc A, doc B, doc U (one validator unresolvable), doc R (a relay address that is no URL), error, malformed, empty, '{}', 'null'; and, in listed combinations, a legacy document whose fee recipient is one byte long} (the first consumed by the constructor) and every set of 1-2 concurrent requests over {lookup v1, lookup v2, auction v1, auction v2, registration round, forwarded REST registration}: all interleavings of the refresher and the request goroutines on the real blockrelay service within the preemption bound (quick 1, thorough 2; thorough keeps 1 for three-outcome histories with two concurrent requests and for a forwarded registration next to a registration round), followed by a further refresh, lookups and bid requests (as a beacon node makes them) for both validators; " +
			"oracle: every call returns, no goroutine blocked, final lookups answer from the last good document (fallback if none); non-trivial = at least one contended scheduling point; distinct = distinct request-result vectors",
		Assumptions: []string{
			"RWMutex has Go's writer preference (a pending writer blocks new readers)",
			"the REST daemon is replaced by a stub; handlers are called directly",
			"relay clients and the bid strategy are stand-ins that return immediately",
		},
		Units:         c12Units,
		MinNontrivial: 100,
	})
}
