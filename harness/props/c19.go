package props

import (
	"fmt"
	"os"
	"sort"
	"strconv"
	"strings"
	"time"

	"verifharness/hx"

	"github.com/attestantio/vouch/util"
	"github.com/attestantio/vouch/verifmc/mc"
	"github.com/rs/zerolog"
	"github.com/spf13/viper"
)

// C19: hierarchical settings resolve to the most specific configured value.
//
// The five lookup functions of package util are called on viper configurations that are enumerated
// exhaustively over a bounded shape:
//
//   chain nodes   "", a, a.b, a.b.c (thorough: + a.b.c.d)   each absent or holding one of two values
//   side nodes    x, a.x, a.b.x (thorough: + a.b.c.x)       all absent / all present (thorough: each absent or
//                                                           present independently); two values
//   lookup paths  every chain node, one level below the deepest chain node, every side node, a level
//                 below a side node, and names that merely start with a configured name (ab, a.bb)
//   sources       viper.Set, a YAML configuration file, YAML + a default at the top level (what main.go
//                 does for timeout and process-concurrency), VOUCH_* environment variables, defaults
//                 at every level
//
// Values are distinct per node wherever the type allows it (booleans have two values, log levels
// seven; both are enumerated over all combinations, so "explicit false below true" is included).
//
// The reference is written from the property statement and docs/configuration.md ("Hierarchical
// configuration"): among the configured nodes that are a component-wise prefix of the lookup path, the
// longest one supplies the value; the top level is the last candidate.  When no candidate exists at
// all (nothing configured on the way up, nothing at the top level) the statement does not say what is
// returned, so nothing is claimed.  Values the statement says nothing about (unparsable strings, zero
// or negative numbers, empty lists, paths with empty components) are not generated.

type c19Kind int

const (
	c19BNA c19Kind = iota
	c19Timeout
	c19Log
	c19Conc
	c19Bool
)

type c19Accessor struct {
	kind c19Kind
	name string // finding-key segment
	key  string // configuration key
}

var c19Accessors = []c19Accessor{
	{c19BNA, "beacon-node-addresses", "beacon-node-addresses"},
	{c19Timeout, "timeout", "timeout"},
	{c19Log, "log-level", "log-level"},
	{c19Conc, "process-concurrency", "process-concurrency"},
	{c19Bool, "hierarchical-bool", "reduced-memory-usage"},
}

// c19Levels are the documented level names (docs/configuration.md "Logging" lists Fatal, Error, Warning, Information,
// Debug, Trace, None; the examples use the short forms), in either case.
var c19Levels = []struct {
	name  string
	level zerolog.Level
}{
	{"info", zerolog.InfoLevel}, {"warning", zerolog.WarnLevel}, {"debug", zerolog.DebugLevel}, {"warn", zerolog.WarnLevel},
	{"trace", zerolog.TraceLevel}, {"Information", zerolog.InfoLevel}, {"none", zerolog.Disabled}, {"error", zerolog.ErrorLevel},
	{"Fatal", zerolog.FatalLevel}, {"Warning", zerolog.WarnLevel},
}

// c19Val is the abstract value held by node number n (position in the shape's node list), variant v.
// For beacon-node-addresses at the top level there are two more variants: 2 = only the singular
// `beacon-node-address` is set, 3 = both are set (the plural one overrides, per the docs).
type c19Val struct{ n, v int }

func c19Addrs(val c19Val) []string {
	if val.v == 2 {
		return []string{fmt.Sprintf("single%d:5052", val.n)}
	}
	if val.v == 1 {
		return []string{fmt.Sprintf("node%db1:5052", val.n), fmt.Sprintf("node%db2:5052", val.n)}
	}
	return []string{fmt.Sprintf("node%da:5052", val.n)}
}

// canon is the canonical text of the value the lookup has to return for val.
func (a c19Accessor) canon(val c19Val) string {
	switch a.kind {
	case c19BNA:
		return strings.Join(c19Addrs(val), ",")
	case c19Timeout:
		return (time.Duration(2+2*val.n+val.v) * time.Second).String()
	case c19Log:
		return c19Levels[(2*val.n+val.v)%len(c19Levels)].level.String()
	case c19Conc:
		return strconv.Itoa(2 + 2*val.n + val.v)
	default:
		return strconv.FormatBool(val.v == 1)
	}
}

// c19Entry is one configuration item in the representations of the different sources.
type c19Entry struct {
	key    string
	set    any    // viper.Set: the forms vouch's own tests use
	native any    // viper.SetDefault: the Go types main.go uses
	env    string // environment variable text
	yaml   string // YAML literal
}

func c19YAMLList(l []string) string {
	q := make([]string, len(l))
	for i, s := range l {
		q[i] = "'" + s + "'"
	}
	return "[" + strings.Join(q, ", ") + "]"
}

// entries renders node=val for this accessor.
func (a c19Accessor) entries(node string, val c19Val) []c19Entry {
	key := a.key
	if node != "" {
		key = node + "." + a.key
	}
	switch a.kind {
	case c19BNA:
		plural := func(v c19Val) c19Entry {
			l := c19Addrs(v)
			return c19Entry{key: key, set: l, native: l, env: strings.Join(l, " "), yaml: c19YAMLList(l)}
		}
		single := func() c19Entry {
			s := c19Addrs(c19Val{val.n, 2})[0]
			return c19Entry{key: "beacon-node-address", set: s, native: s, env: s, yaml: "'" + s + "'"}
		}
		switch val.v {
		case 2:
			return []c19Entry{single()}
		case 3:
			return []c19Entry{plural(c19Val{val.n, 0}), single()}
		}
		return []c19Entry{plural(val)}
	case c19Timeout:
		d := time.Duration(2+2*val.n+val.v) * time.Second
		return []c19Entry{{key: key, set: d.String(), native: d, env: d.String(), yaml: "'" + d.String() + "'"}}
	case c19Log:
		s := c19Levels[(2*val.n+val.v)%len(c19Levels)].name
		return []c19Entry{{key: key, set: s, native: s, env: s, yaml: "'" + s + "'"}}
	case c19Conc:
		n := 2 + 2*val.n + val.v
		return []c19Entry{{key: key, set: n, native: int64(n), env: strconv.Itoa(n), yaml: strconv.Itoa(n)}}
	default:
		b := val.v == 1
		return []c19Entry{{key: key, set: b, native: b, env: strconv.FormatBool(b), yaml: strconv.FormatBool(b)}}
	}
}

// expected is the value the statement requires for (node, val); only differs from canon(val) for the
// top-level beacon-node-addresses variant 3 (plural overrides singular).
func (a c19Accessor) expected(val c19Val) string {
	if a.kind == c19BNA && val.v == 3 {
		return a.canon(c19Val{val.n, 0})
	}
	return a.canon(val)
}

// lookup calls the function under test.
func (a c19Accessor) lookup(path string) string {
	switch a.kind {
	case c19BNA:
		return strings.Join(util.BeaconNodeAddresses(path), ",")
	case c19Timeout:
		return util.Timeout(path).String()
	case c19Log:
		return util.LogLevel(path).String()
	case c19Conc:
		return strconv.FormatInt(util.ProcessConcurrency(path), 10)
	default:
		return strconv.FormatBool(util.HierarchicalBool(a.key, path))
	}
}

func c19Split(p string) []string {
	if p == "" {
		return nil
	}
	return strings.Split(p, ".")
}

// c19Reference is the longest-prefix rule: of the configured nodes whose components are a prefix of
// the path's components, the one with the most components.  ok=false: no configured node qualifies.
func c19Reference(tree map[string]c19Val, path string) (node string, ok bool) {
	pc := c19Split(path)
	best := -1
	for n := range tree {
		nc := c19Split(n)
		if len(nc) > len(pc) {
			continue
		}
		match := true
		for i := range nc {
			if nc[i] != pc[i] {
				match = false
				break
			}
		}
		if match && len(nc) > best {
			best, node, ok = len(nc), n, true
		}
	}
	return node, ok
}

func c19YAML(entries []c19Entry) string {
	root := map[string]any{}
	for _, e := range entries {
		parts := strings.Split(e.key, ".")
		m := root
		for _, p := range parts[:len(parts)-1] {
			sub, ok := m[p].(map[string]any)
			if !ok {
				sub = map[string]any{}
				m[p] = sub
			}
			m = sub
		}
		m[parts[len(parts)-1]] = e.yaml
	}
	var b strings.Builder
	var emit func(m map[string]any, indent string)
	emit = func(m map[string]any, indent string) {
		keys := make([]string, 0, len(m))
		for k := range m {
			keys = append(keys, k)
		}
		sort.Strings(keys)
		for _, k := range keys {
			switch v := m[k].(type) {
			case string:
				b.WriteString(indent + k + ": " + v + "\n")
			case map[string]any:
				b.WriteString(indent + k + ":\n")
				emit(v, indent+"  ")
			}
		}
	}
	emit(root, "")
	if b.Len() == 0 {
		return "{}\n"
	}
	return b.String()
}

func c19EnvName(key string) string {
	return "VOUCH_" + strings.ToUpper(strings.NewReplacer("-", "_", ".", "_").Replace(key))
}

// c19EnvSet lists the environment variables set by the previous execution in this process.
var c19EnvSet []string

const (
	c19SrcSet        = "set"
	c19SrcYAML       = "yaml"
	c19SrcYAMLDefTop = "yaml+default-top"
	c19SrcEnv        = "env"
	c19SrcDefault    = "default"
)

// c19Apply builds the viper configuration for the tree from nothing.
func c19Apply(src string, entries []c19Entry) {
	for _, e := range c19EnvSet {
		os.Unsetenv(e)
	}
	c19EnvSet = c19EnvSet[:0]
	viper.Reset()
	switch src {
	case c19SrcSet:
		for _, e := range entries {
			viper.Set(e.key, e.set)
		}
	case c19SrcDefault:
		for _, e := range entries {
			viper.SetDefault(e.key, e.native)
		}
	case c19SrcEnv:
		// exactly what main.go does
		viper.SetEnvPrefix("VOUCH")
		viper.SetEnvKeyReplacer(strings.NewReplacer("-", "_", ".", "_"))
		viper.AutomaticEnv()
		for _, e := range entries {
			n := c19EnvName(e.key)
			must(os.Setenv(n, e.env))
			c19EnvSet = append(c19EnvSet, n)
		}
	case c19SrcYAML, c19SrcYAMLDefTop:
		var file []c19Entry
		for _, e := range entries {
			if src == c19SrcYAMLDefTop && !strings.Contains(e.key, ".") {
				viper.SetDefault(e.key, e.native)
				continue
			}
			file = append(file, e)
		}
		viper.SetConfigType("yaml")
		must(viper.ReadConfig(strings.NewReader(c19YAML(file))))
	}
}

type c19State struct {
	desc    string
	outcome string
	nontriv bool
	fail    string
	key     string
}

type c19Shape struct {
	chain []string // chain[0] == ""
	side  []string
	paths []string
	// sideTogether: one choice decides the presence of all side nodes (quick); otherwise each is chosen
	// independently.  The side nodes that are present all take the same variant.
	sideTogether bool
	sources      []string
}

func c19ShapeFor(tier string) c19Shape {
	if tier == "thorough" {
		return c19Shape{
			chain:   []string{"", "a", "a.b", "a.b.c", "a.b.c.d"},
			side:    []string{"x", "a.x", "a.b.x", "a.b.c.x"},
			paths:   []string{"", "a", "a.b", "a.b.c", "a.b.c.d", "a.b.c.d.e", "a.b.c.d.e.f", "a.b.c.d.e.f.e.f", "x", "a.x", "a.b.x", "a.b.c.x", "a.x.y", "a.b.x.y", "x.y.z", "ab", "a.bb", "a.b.cc"},
			sources: []string{c19SrcSet, c19SrcYAML, c19SrcYAMLDefTop, c19SrcEnv, c19SrcDefault},
		}
	}
	return c19Shape{
		chain:        []string{"", "a", "a.b", "a.b.c"},
		side:         []string{"x", "a.x", "a.b.x"},
		paths:        []string{"", "a", "a.b", "a.b.c", "a.b.c.d", "a.b.c.d.e", "a.b.c.d.e.f", "x", "a.x", "a.b.x", "a.x.y", "ab", "a.bb"},
		sideTogether: true,
		sources:      []string{c19SrcSet, c19SrcYAML, c19SrcYAMLDefTop, c19SrcEnv, c19SrcDefault},
	}
}

// c19Rename maps the abstract component names to other names: real vouch path names (where a parent
// component ends in characters that occur in its child, as in strategies.attestationdata.best) and
// repeated names (a.a.a), so that a lookup that mangles the path is exposed.
func c19Rename(variant int, path string) string {
	if variant == 0 || path == "" {
		return path
	}
	letters := map[byte]string{'a': "strategies", 'b': "attestationdata", 'c': "best", 'd': "deeper", 'e': "east", 'f': "far", 'x': "submitter", 'y': "multinode", 'z': "zone"}
	if variant == 2 {
		letters = map[byte]string{'a': "a", 'b': "a", 'c': "a", 'd': "a", 'e': "a", 'f': "a", 'x': "xa", 'y': "a", 'z': "xa"}
	}
	comps := strings.Split(path, ".")
	for i, c := range comps {
		out := ""
		for j := 0; j < len(c); j++ {
			out += letters[c[j]]
		}
		comps[i] = out
	}
	return strings.Join(comps, ".")
}

func c19Units(tier string) []hx.Unit {
	var units []hx.Unit
	variants := 2
	if tier == "thorough" {
		variants = 3
	}
	for variant := 0; variant < variants; variant++ {
		units = append(units, c19UnitsFor(tier, variant)...)
	}
	return units
}

func c19UnitsFor(tier string, variant int) []hx.Unit {
	sh := c19ShapeFor(tier)
	for _, l := range []*[]string{&sh.chain, &sh.side, &sh.paths} {
		r := make([]string, len(*l))
		for i, p := range *l {
			r[i] = c19Rename(variant, p)
		}
		*l = r
	}
	var units []hx.Unit
	for _, acc := range c19Accessors {
		for _, src := range sh.sources {
			for mask := 0; mask < 1<<len(sh.chain); mask++ {
				if src == c19SrcYAMLDefTop && mask&1 == 0 {
					continue // identical to the yaml source
				}
				acc, src, mask := acc, src, mask
				st := &c19State{}
				u := hx.Unit{Name: fmt.Sprintf("C19/names%d/%s/%s/present-%0*b", variant, acc.name, src, len(sh.chain), mask), Cfg: mc.Config{Fixed: true}, Bound: 0}
				u.Body = func() {
					*st = c19State{}
					// the configuration tree
					tree := map[string]c19Val{}
					var order []string
					for i, n := range sh.chain {
						if mask&(1<<i) == 0 {
							continue
						}
						variants := 2
						if acc.kind == c19BNA && i == 0 {
							variants = 4
						}
						tree[n] = c19Val{i, mc.Choose(variants)}
						order = append(order, n)
					}
					sidePresent := make([]bool, len(sh.side))
					anySide := false
					if sh.sideTogether {
						anySide = mc.Choose(2) == 1
						for j := range sidePresent {
							sidePresent[j] = anySide
						}
					} else {
						for j := range sidePresent {
							sidePresent[j] = mc.Choose(2) == 1
							anySide = anySide || sidePresent[j]
						}
					}
					if anySide {
						sv := mc.Choose(2) // one variant for all side nodes
						for j, n := range sh.side {
							if sidePresent[j] {
								tree[n] = c19Val{len(sh.chain) + j, sv}
								order = append(order, n)
							}
						}
					}
					path := sh.paths[mc.Choose(len(sh.paths))]

					var entries []c19Entry
					var descr []string
					for _, n := range order {
						es := acc.entries(n, tree[n])
						entries = append(entries, es...)
						for _, e := range es {
							descr = append(descr, e.key+"="+e.env)
						}
					}
					c19Apply(src, entries)
					st.desc = fmt.Sprintf("%s[%s] config{%s} path %q", acc.name, src, strings.Join(descr, "; "), path)

					node, ok := c19Reference(tree, path)
					got := acc.lookup(path)
					depth := len(c19Split(path))
					if !ok {
						// nothing configured on the way up nor at the top level: the statement is silent
						st.outcome = acc.name + ": nothing configured at any prefix (no claim)"
						st.desc += " -> " + got + " (no claim)"
						return
					}
					found := len(c19Split(node))
					want := acc.expected(tree[node])
					st.nontriv = found < depth
					st.outcome = fmt.Sprintf("%s: depth-%d path resolved at level %d", acc.name, depth, found)
					st.desc += fmt.Sprintf(" -> %s (reference: %s from level %q)", got, want, node)
					if got == want {
						return
					}
					switch {
					case acc.kind == c19Bool && want == "false":
						st.key = "explicit-false-overridden"
					case found == depth:
						st.key = "direct-match"
					case found == 0:
						st.key = "top-level-fallback"
					default:
						st.key = "intermediate-fallback"
					}
					// name the node whose value was returned instead, where values identify nodes
					from := "a value that is configured nowhere"
					if acc.kind != c19Bool && acc.kind != c19Log {
						for _, n := range order {
							if acc.expected(tree[n]) == got {
								from = fmt.Sprintf("the value configured at level %q", n)
							}
						}
					} else {
						from = "another value"
					}
					st.fail = fmt.Sprintf("%s(%q) returned %s, %s; the longest configured prefix of the path is %q whose value is %s; configuration {%s} via %s",
						acc.name, path, got, from, node, want, strings.Join(descr, "; "), src)
				}
				u.Check = func(r *mc.Result) mc.Verdict {
					v := mc.Verdict{Outcome: st.outcome, Nontrivial: st.nontriv, Sample: st.desc}
					if r.Panic != "" {
						v.Violation, v.Key = "panic: "+firstLine(r.Panic)+" in "+st.desc, "C19/"+acc.name+"/panic"
						return v
					}
					if st.fail != "" {
						v.Violation, v.Key = st.fail, "C19/"+acc.name+"/"+st.key
					}
					return v
				}
				units = append(units, u)
			}
		}
	}
	return units
}

func init() {
	hx.Register(&hx.Prop{
		ID:    "C19",
		Title: "Hierarchical settings resolve to the most specific configured value",
		Rule: "every configuration tree over the chain \"\", a, a.b, a.b.c (thorough: + a.b.c.d) with each level absent or holding one of two values (top-level beacon-node-addresses: also singular-only and both), " +
			"side nodes x, a.x, a.b.x all absent or all present (thorough: + a.b.c.x, each present or absent independently) with one of two values, x every lookup path (each chain prefix, one level deeper, each side node, below a side node, look-alike names ab / a.bb) " +
			"x 5 accessors x sources {viper.Set, YAML file, YAML + top-level default, VOUCH_* environment variables, viper defaults}; each result compared with a longest-component-prefix reference; " +
			"non-trivial = the value had to be found above the level of the lookup path; distinct = (accessor, path depth, level the value came from)",
		Assumptions: []string{
			"values are parsable and non-zero (durations > 0, concurrency > 0, non-empty address lists, documented log level names); other values are outside the statement",
			"when nothing is configured at any prefix nor at the top level the statement is silent; those cases are executed but nothing is claimed",
			"paths have no empty components",
		},
		Units:         c19Units,
		MinNontrivial: 10000,
	})
}
