package props

import (
	"context"
	"crypto/sha256"
	"encoding/binary"
	"errors"
	"fmt"
	"sort"
	"strings"
	"time"

	"verifharness/hx"

	"github.com/attestantio/go-eth2-client/api"
	apiv1 "github.com/attestantio/go-eth2-client/api/v1"
	apiv1bellatrix "github.com/attestantio/go-eth2-client/api/v1/bellatrix"
	apiv1deneb "github.com/attestantio/go-eth2-client/api/v1/deneb"
	"github.com/attestantio/go-eth2-client/spec"
	"github.com/attestantio/go-eth2-client/spec/altair"
	"github.com/attestantio/go-eth2-client/spec/bellatrix"
	"github.com/attestantio/go-eth2-client/spec/phase0"
	vouchmock "github.com/attestantio/vouch/mock"
	mockaccountmanager "github.com/attestantio/vouch/services/accountmanager/mock"
	mockattestationaggregator "github.com/attestantio/vouch/services/attestationaggregator/mock"
	"github.com/attestantio/vouch/services/attester"
	standardattester "github.com/attestantio/vouch/services/attester/standard"
	"github.com/attestantio/vouch/services/beaconblockproposer"
	mockbeaconcommitteesubscriber "github.com/attestantio/vouch/services/beaconcommitteesubscriber/mock"
	"github.com/attestantio/vouch/services/blockrelay"
	standardblockrelay "github.com/attestantio/vouch/services/blockrelay/standard"
	"github.com/attestantio/vouch/services/cache"
	mockcache "github.com/attestantio/vouch/services/cache/mock"
	standardcontroller "github.com/attestantio/vouch/services/controller/standard"
	nullmetrics "github.com/attestantio/vouch/services/metrics/null"
	mockproposalpreparer "github.com/attestantio/vouch/services/proposalpreparer/mock"
	"github.com/attestantio/vouch/services/scheduler/advanced"
	"github.com/attestantio/vouch/services/synccommitteeaggregator"
	standardsyncaggregator "github.com/attestantio/vouch/services/synccommitteeaggregator/standard"
	"github.com/attestantio/vouch/services/synccommitteemessenger"
	standardsyncmessenger "github.com/attestantio/vouch/services/synccommitteemessenger/standard"
	"github.com/attestantio/vouch/util"
	"github.com/attestantio/vouch/verifmc/mc"
	"github.com/attestantio/vouch/verifmc/mcontext"
	"github.com/prysmaticlabs/go-bitfield"
	"github.com/rs/zerolog"
	e2wtypes "github.com/wealdtech/go-eth2-wallet-types/v2"
)

// C20: memory and goroutines stay bounded; shutdown accounting is exact.
//
//	ctrl    long controller runs (6 epochs) with duty patterns and reorgs that withdraw duties: at the end
//	        of every slot every bookkeeping key lies in a fixed window, and HasPendingAttestations(s) holds
//	        exactly while the attestation job of s exists
//	attested the real attester over every 6-epoch pattern of {attests, fails, no duty}: remembered epochs
//	        stay within a fixed window
//	sync    the real sync committee messenger + aggregator over 8/12 slots, in each of which the validator is
//	        a selected aggregator, is not, or the beacon node gives no head root: retained head roots stay
//	        within a fixed window
//	leak    strategies `first` (7 of them) with three nodes, unblinding with three relays, the deadline
//	        auction: no goroutine started by vouch is left blocked

// ---- ctrl ---------------------------------------------------------------------------------------

type c20Ctrl struct {
	w            *c03World
	fail         string
	key          string
	obs          int
	stale        int
	reorgs       int
	pending      int
	inflightSeen int
}

func c20CtrlBody(st *c20Ctrl, startAt int64, ap [2]string, epochs int, attestDur int64) {
	*st = c20Ctrl{w: &c03World{attKinds: ap, propKinds: [2]string{"A", "C"}, startAt: startAt, reorgAt: -1, attestDur: attestDur}}
	w := st.w
	// the schedule bound (where a unit has one) applies to the instant at which the reorg event is handled
	mc.SetDeviations(false)
	ctx, cancel := mcontext.WithCancel(context.Background())
	defer cancel()
	ct := newChainTime(-(int64(c03Epoch0*c03SPE)*int64(c03SlotDur) + startAt), c03SlotDur, c03SPE)
	sched, err := advanced.New(ctx, advanced.WithLogLevel(zerolog.Disabled), advanced.WithMonitor(&nullmetrics.Service{}))
	must(err)
	byIndex := map[phase0.ValidatorIndex]*hAccount{}
	for i := 1; i <= 3; i++ {
		byIndex[phase0.ValidatorIndex(i)] = newAccount("W", fmt.Sprintf("v%d", i), byte(i))
	}
	accts := &accountsTable{byIndex: byIndex}
	ev := &eventsProvider{}
	// fast track on or off (on is vouch's default)
	w.fastTrack = mc.Choose(2) == 1
	ctrl, err := standardcontroller.New(ctx,
		standardcontroller.WithFastTrackAttestations(w.fastTrack), standardcontroller.WithFastTrackSyncCommittees(w.fastTrack), standardcontroller.WithFastTrackGrace(c03Grace),
		standardcontroller.WithLogLevel(zerolog.Disabled), standardcontroller.WithMonitor(nullmetrics.New()),
		standardcontroller.WithSpecProvider(&specProvider{m: baseSpec(c03SlotDur, c03SPE)}), standardcontroller.WithChainTimeService(ct),
		standardcontroller.WithProposerDutiesProvider(w), standardcontroller.WithAttesterDutiesProvider(w),
		standardcontroller.WithSyncCommitteeDutiesProvider(vouchmock.NewSyncCommitteeDutiesProvider()), standardcontroller.WithEventsProvider(ev),
		standardcontroller.WithValidatingAccountsProvider(accts), standardcontroller.WithProposalsPreparer(mockproposalpreparer.New()),
		standardcontroller.WithScheduler(sched), standardcontroller.WithAttester(w), standardcontroller.WithBeaconBlockProposer(w),
		standardcontroller.WithBeaconCommitteeSubscriber(mockbeaconcommitteesubscriber.New()), standardcontroller.WithAttestationAggregator(mockattestationaggregator.New()),
		standardcontroller.WithAccountsRefresher(mockaccountmanager.NewRefresher()),
		standardcontroller.WithBlockToSlotSetter(mockcache.New(map[phase0.Root]phase0.Slot{}).(cache.BlockRootToSlotSetter)),
		standardcontroller.WithBeaconBlockHeadersProvider(vouchmock.NewBeaconBlockHeadersProvider()), standardcontroller.WithSignedBeaconBlockProvider(vouchmock.NewSignedBeaconBlockProvider()),
		standardcontroller.WithMaxAttestationDelay(c03Delay), standardcontroller.WithAttestationAggregationDelay(8*time.Second),
	)
	must(err)
	bad := func(key, f string, a ...any) {
		if st.fail == "" {
			st.fail, st.key = fmt.Sprintf(f, a...), key
		}
	}
	observe := func(when string) {
		st.obs++
		cur := w.slotAt(mc.Now())
		curEpoch := phase0.Epoch(uint64(cur) / c03SPE)
		jobs := sched.ListJobs(ctx)
		hasJob := map[phase0.Slot]bool{}
		for _, j := range jobs {
			var s uint64
			if n, _ := fmt.Sscanf(j, "Attestations for slot %d", &s); n == 1 {
				hasJob[phase0.Slot(s)] = true
			}
			// no job may refer to a slot that has long passed
			for _, pat := range []string{"Attestations for slot %d", "Beacon block proposal for slot %d", "Early beacon block proposal for slot %d", "Beacon block attestation aggregation for slot %d"} {
				var x uint64
				if n, _ := fmt.Sscanf(j, pat, &x); n == 1 && x+2 < uint64(cur) {
					bad("stale-job", "%s: job %q is still in the scheduler in slot %d", when, j, cur)
				}
			}
		}
		if len(jobs) > 40 {
			bad("job-table-grows", "%s: %d jobs in the scheduler", when, len(jobs))
		}
		first := phase0.Slot(c03Epoch0 * c03SPE)
		for s := first; s <= cur+2*c03SPE; s++ {
			p := ctrl.HasPendingAttestations(ctx, s)
			if p {
				st.pending++
			}
			if p && !hasJob[s] && w.inflight[s] == 0 {
				st.stale++
				bad("pending-mark-without-job", "%s: slot %d is reported as having pending attestations but no attestation job for it exists or is running (current slot %d)", when, s, cur)
			}
			if !p && hasJob[s] {
				bad("job-without-pending-mark", "%s: an attestation job for slot %d exists but the slot is not reported as pending", when, s)
			}
			if !p && w.inflight[s] > 0 {
				st.inflightSeen++
				bad("inflight-without-pending-mark", "%s: the attestations of slot %d are being carried out but the slot is not reported as pending (a shutdown would not wait for them)", when, s)
			}
			if p && w.inflight[s] > 0 {
				st.inflightSeen++
			}
		}
		if n := ctrl.VerifC20PendingAttestationEntries(); n > 3*c03SPE {
			bad("pending-map-grows", "%s: %d entries in the pending attestations map", when, n)
		}
		for _, e := range ctrl.VerifC20SubscriptionInfoEpochs() {
			if e+2 < curEpoch {
				bad("stale-subscription-info", "%s: subscription information for epoch %d is still held in epoch %d", when, e, curEpoch)
			}
		}
	}
	lateBy := phase0.Slot(0) // the head reported is that of this many slots ago
	deliver := func(kind string, prev, cur byte) {
		s := w.slotAt(mc.Now()) - lateBy
		w.events = append(w.events, fmt.Sprintf("%s@slot%d", kind, s))
		ev.deliver("head", &apiv1.HeadEvent{Slot: s, Block: root(byte(s)), PreviousDutyDependentRoot: root(prev), CurrentDutyDependentRoot: root(cur)})
	}
	mc.Sleep(int64(500 * time.Millisecond))
	prev, cur := byte(0x10), byte(0x20)
	deliver("baseline", prev, cur)
	// the slot (offset from the start) and kind of the one reorg, or none
	reorgSlot := -1
	reorgKind := ""
	reorgSecs := int64(1)
	if ap[0] != ap[1] {
		reorgSlot = 1 + mc.Choose(2*c03SPE)
		if epochs <= 2 {
			reorgSlot = 1 + mc.Choose(c03SPE)
		}
		reorgKind = []string{"prev", "cur"}[mc.Choose(2)]
		// one second into the slot, or six: after the slot's attestation time, so that a duty the reorg moves
		// into the slot is due at once
		reorgSecs = []int64{1, 6}[mc.Choose(2)]
	}

	lastEpoch := phase0.Epoch(c03Epoch0)
	end := phase0.Slot((uint64(c03Epoch0) + uint64(epochs)) * c03SPE)
	// the first slot of every epoch after the first may be empty (no block, hence no head event in it)
	// ... or the beacon node delivers no head event at all during the third epoch of the run (an outage)
	// ... or reports every head only after its slot has ended (13 s after the slot's start), from the second epoch on
	headMode := mc.Choose(4)
	skipFirst := headMode == 1
	stalled := phase0.Epoch(c03Epoch0 + 2)
	for s := w.slotAt(mc.Now()); s < end; s++ {
		// a head event one second into every slot, as a beacon node delivers
		at := w.slotStart(s) + int64(time.Second)
		if skipFirst && uint64(s)%c03SPE == 0 && int(s)-c03Epoch0*c03SPE != reorgSlot {
			at = -1
		}
		if headMode == 2 && phase0.Epoch(uint64(s)/c03SPE) == stalled && int(s)-c03Epoch0*c03SPE != reorgSlot {
			at = -1
		}
		lateBy = 0
		if headMode == 3 && phase0.Epoch(uint64(s)/c03SPE) > phase0.Epoch(c03Epoch0) && int(s)-c03Epoch0*c03SPE != reorgSlot {
			lateBy = 1 // one second into this slot the node reports the head of the slot before
		}
		if at > mc.Now() {
			mc.Sleep(at - mc.Now())
			e := phase0.Epoch(uint64(s) / c03SPE)
			if e != lastEpoch {
				prev, cur = cur, cur+1
				lastEpoch = e
			}
			kind := "same"
			isReorg := int(s)-c03Epoch0*c03SPE == reorgSlot
			if isReorg && reorgSecs > 1 {
				// the slot's ordinary head event first, the reorg later in the slot
				deliver(kind, prev, cur)
				mc.Sleep((reorgSecs - 1) * int64(time.Second))
			}
			if isReorg {
				kind = reorgKind
				if kind == "prev" {
					prev += 0x40
				} else {
					cur += 0x40
				}
				w.version = 1
				st.reorgs++
				mc.SetDeviations(true)
			}
			deliver(kind, prev, cur)
			if isReorg {
				mc.Sleep(int64(time.Millisecond))
				mc.SetDeviations(false)
			}
		}
		// observe shortly after the event and at the end of the slot
		if rest := w.slotStart(s) + int64(2*time.Second) - mc.Now(); rest > 0 {
			mc.Sleep(rest)
			observe(fmt.Sprintf("slot %d +2s", s))
		} else {
			mc.Sleep(int64(time.Second))
			observe(fmt.Sprintf("slot %d +%ds", s, (mc.Now()-w.slotStart(s))/int64(time.Second)))
		}
		mc.Sleep(w.slotStart(s+1) - int64(100*time.Millisecond) - mc.Now())
		observe(fmt.Sprintf("end of slot %d", s))
	}
	w.done = true
}

// c20DueJobBody: a controller without duties at first; six seconds into the third slot of the epoch the
// beacon node's table has duties in that slot and the next, and the controller's scheduling of the epoch runs.
func c20DueJobBody(st *c20Ctrl, nDuties int) {
	*st = c20Ctrl{w: &c03World{attKinds: [2]string{"G", "H"}, propKinds: [2]string{"C", "C"}, reorgAt: -1}}
	if nDuties == 2 {
		st.w.attKinds[1] = "I"
	}
	w := st.w
	mc.SetDeviations(false)
	ctx, cancel := mcontext.WithCancel(context.Background())
	defer cancel()
	ct := newChainTime(-(int64(c03Epoch0*c03SPE) * int64(c03SlotDur)), c03SlotDur, c03SPE)
	sched, err := advanced.New(ctx, advanced.WithLogLevel(zerolog.Disabled), advanced.WithMonitor(&nullmetrics.Service{}))
	must(err)
	byIndex := map[phase0.ValidatorIndex]*hAccount{}
	for i := 1; i <= 3; i++ {
		byIndex[phase0.ValidatorIndex(i)] = newAccount("W", fmt.Sprintf("v%d", i), byte(i))
	}
	accts := &accountsTable{byIndex: byIndex}
	ctrl, err := standardcontroller.New(ctx,
		standardcontroller.WithLogLevel(zerolog.Disabled), standardcontroller.WithMonitor(nullmetrics.New()),
		standardcontroller.WithSpecProvider(&specProvider{m: baseSpec(c03SlotDur, c03SPE)}), standardcontroller.WithChainTimeService(ct),
		standardcontroller.WithProposerDutiesProvider(w), standardcontroller.WithAttesterDutiesProvider(w),
		standardcontroller.WithSyncCommitteeDutiesProvider(vouchmock.NewSyncCommitteeDutiesProvider()), standardcontroller.WithEventsProvider(&eventsProvider{}),
		standardcontroller.WithValidatingAccountsProvider(accts), standardcontroller.WithProposalsPreparer(mockproposalpreparer.New()),
		standardcontroller.WithScheduler(sched), standardcontroller.WithAttester(w), standardcontroller.WithBeaconBlockProposer(w),
		standardcontroller.WithBeaconCommitteeSubscriber(mockbeaconcommitteesubscriber.New()), standardcontroller.WithAttestationAggregator(mockattestationaggregator.New()),
		standardcontroller.WithAccountsRefresher(mockaccountmanager.NewRefresher()),
		standardcontroller.WithBlockToSlotSetter(mockcache.New(map[phase0.Root]phase0.Slot{}).(cache.BlockRootToSlotSetter)),
		standardcontroller.WithBeaconBlockHeadersProvider(vouchmock.NewBeaconBlockHeadersProvider()), standardcontroller.WithSignedBeaconBlockProvider(vouchmock.NewSignedBeaconBlockProvider()),
		standardcontroller.WithMaxAttestationDelay(c03Delay), standardcontroller.WithAttestationAggregationDelay(8*time.Second),
	)
	must(err)
	first := phase0.Slot(c03Epoch0 * c03SPE)
	due := first + 2
	mc.Sleep(w.slotStart(due) + int64(6*time.Second) - mc.Now())
	w.version = 1
	mc.SetDeviations(true)
	ctrl.VerifScheduleAttestations(ctx, phase0.Epoch(c03Epoch0), []phase0.ValidatorIndex{1, 2, 3}, false)
	mc.Sleep(int64(time.Millisecond))
	mc.SetDeviations(false)
	observe := func(when string) {
		st.obs++
		hasJob := map[phase0.Slot]bool{}
		for _, j := range sched.ListJobs(ctx) {
			var s uint64
			if n, _ := fmt.Sscanf(j, "Attestations for slot %d", &s); n == 1 {
				hasJob[phase0.Slot(s)] = true
			}
		}
		for s := first; s < first+2*c03SPE; s++ {
			p := ctrl.HasPendingAttestations(ctx, s)
			if p && !hasJob[s] && st.fail == "" {
				st.fail, st.key = fmt.Sprintf("%s: slot %d is reported as having pending attestations but no attestation job for it exists or is running", when, s), "pending-mark-without-job"
			}
			if !p && hasJob[s] && st.fail == "" {
				st.fail, st.key = fmt.Sprintf("%s: an attestation job for slot %d exists but the slot is not reported as pending", when, s), "job-without-pending-mark"
			}
		}
	}
	mc.Sleep(int64(time.Second))
	observe("one second after the scheduling")
	mc.Sleep(w.slotStart(due+2) - mc.Now())
	observe("two slots later")
	w.done = true
}

// ---- attested -----------------------------------------------------------------------------------

type c20AttEnv struct {
	mode string // ok, fail
}

func (e *c20AttEnv) AttestationData(_ context.Context, opts *api.AttestationDataOpts) (*api.Response[*phase0.AttestationData], error) {
	if e.mode == "fail" {
		return nil, errors.New("scripted failure")
	}
	ep := phase0.Epoch(uint64(opts.Slot) / 2)
	src := phase0.Epoch(0)
	if ep > 0 {
		src = ep - 1
	}
	return &api.Response[*phase0.AttestationData]{Data: &phase0.AttestationData{Slot: opts.Slot, Index: opts.CommitteeIndex, BeaconBlockRoot: root(1), Source: &phase0.Checkpoint{Epoch: src}, Target: &phase0.Checkpoint{Epoch: ep}}, Metadata: map[string]any{}}, nil
}

func (e *c20AttEnv) SignBeaconAttestations(_ context.Context, accounts []e2wtypes.Account, _ phase0.Slot, _ []phase0.CommitteeIndex, _ phase0.Root, _ phase0.Epoch, _ phase0.Root, _ phase0.Epoch, _ phase0.Root) ([]phase0.BLSSignature, error) {
	out := make([]phase0.BLSSignature, len(accounts))
	for i := range out {
		out[i] = phase0.BLSSignature{1, byte(i)}
	}
	return out, nil
}

func (e *c20AttEnv) SignBeaconAttestation(_ context.Context, _ e2wtypes.Account, _ phase0.Slot, _ phase0.CommitteeIndex, _ phase0.Root, _ phase0.Epoch, _ phase0.Root, _ phase0.Epoch, _ phase0.Root) (phase0.BLSSignature, error) {
	return phase0.BLSSignature{1}, nil
}

func (e *c20AttEnv) SubmitAttestations(_ context.Context, _ []*phase0.Attestation) error { return nil }

type c20AttState struct {
	pattern []string
	fail    string
	key     string
	maxKeys int
}

func c20AttestedBody(st *c20AttState, first int, epochs int) {
	*st = c20AttState{}
	env := &c20AttEnv{}
	byIndex := map[phase0.ValidatorIndex]*hAccount{1: newAccount("W", "v1", 1), 2: newAccount("W", "v2", 2)}
	ct := newChainTime(0, 12*time.Second, 2)
	svc, err := standardattester.New(context.Background(), standardattester.WithLogLevel(zerolog.Disabled), standardattester.WithMonitor(&nullmetrics.Service{}),
		standardattester.WithProcessConcurrency(2), standardattester.WithChainTime(ct), standardattester.WithSpecProvider(&specProvider{m: baseSpec(12*time.Second, 2)}),
		standardattester.WithAttestationDataProvider(env), standardattester.WithAttestationsSubmitter(env), standardattester.WithValidatingAccountsProvider(&accountsTable{byIndex: byIndex}),
		standardattester.WithBeaconAttestationsSigner(env))
	must(err)
	kinds := []string{"ok", "fail", "none"}
	for e := 0; e < epochs; e++ {
		k := first
		if e > 0 {
			k = mc.Choose(len(kinds))
		}
		st.pattern = append(st.pattern, kinds[k])
		slot := phase0.Slot(2 * e)
		mc.Sleep(int64(time.Duration(slot)*12*time.Second) + int64(4*time.Second) - mc.Now())
		if kinds[k] != "none" {
			env.mode = kinds[k]
			duty, err := attester.NewDuty(context.Background(), slot, 4, []phase0.ValidatorIndex{1, 2}, []phase0.CommitteeIndex{0, 1}, []uint64{0, 1}, map[phase0.CommitteeIndex]uint64{0: 4, 1: 4})
			must(err)
			_, _ = svc.Attest(context.Background(), duty)
		}
		keys := svc.VerifC20AttestedEpochs()
		sort.Slice(keys, func(i, j int) bool { return keys[i] < keys[j] })
		if len(keys) > st.maxKeys {
			st.maxKeys = len(keys)
		}
		// bounded: never more than a fixed window's worth of epochs is remembered (entries only appear when an
		// attestation run starts; an idle validator may keep its last few entries, which is not growth)
		if len(keys) > 3 && st.fail == "" {
			st.fail = fmt.Sprintf("in epoch %d the attested validators of %d epochs %v are remembered (epochs so far: %s)", e, len(keys), keys, strings.Join(st.pattern, " "))
			st.key = "attested-epoch-never-forgotten"
		}
	}
}

// ---- sync ----------------------------------------------------------------------------------------

type c20SyncEnv struct {
	failRoot bool // the beacon node does not answer the head root request of this slot
	selected bool
	sigSel   phase0.BLSSignature
	sigNot   phase0.BLSSignature
}

func c20FindSig(mod uint64, zero bool) phase0.BLSSignature {
	for i := uint64(1); ; i++ {
		var s phase0.BLSSignature
		binary.LittleEndian.PutUint64(s[:], i)
		h := sha256.Sum256(s[:])
		if (binary.LittleEndian.Uint64(h[:8])%mod == 0) == zero {
			return s
		}
	}
}

func (e *c20SyncEnv) SignSyncCommitteeSelections(_ context.Context, accounts []e2wtypes.Account, _ phase0.Slot, _ []uint64) ([]phase0.BLSSignature, error) {
	out := make([]phase0.BLSSignature, len(accounts))
	for i := range out {
		if e.selected {
			out[i] = e.sigSel
		} else {
			out[i] = e.sigNot
		}
	}
	return out, nil
}
func (e *c20SyncEnv) SignSyncCommitteeSelection(_ context.Context, _ e2wtypes.Account, _ phase0.Slot, _ uint64) (phase0.BLSSignature, error) {
	if e.selected {
		return e.sigSel, nil
	}
	return e.sigNot, nil
}
func (e *c20SyncEnv) SignSyncCommitteeRoots(_ context.Context, accounts []e2wtypes.Account, _ phase0.Epoch, _ phase0.Root) ([]phase0.BLSSignature, error) {
	out := make([]phase0.BLSSignature, len(accounts))
	for i := range out {
		out[i] = phase0.BLSSignature{2, byte(i)}
	}
	return out, nil
}
func (e *c20SyncEnv) SignSyncCommitteeRoot(_ context.Context, _ e2wtypes.Account, _ phase0.Epoch, _ phase0.Root) (phase0.BLSSignature, error) {
	return phase0.BLSSignature{2}, nil
}
func (e *c20SyncEnv) SignContributionAndProof(_ context.Context, _ e2wtypes.Account, _ *altair.ContributionAndProof) (phase0.BLSSignature, error) {
	return phase0.BLSSignature{3}, nil
}
func (e *c20SyncEnv) SignContributionAndProofs(_ context.Context, accounts []e2wtypes.Account, _ []*altair.ContributionAndProof) ([]phase0.BLSSignature, error) {
	return make([]phase0.BLSSignature, len(accounts)), nil
}
func (e *c20SyncEnv) BeaconBlockRoot(_ context.Context, _ *api.BeaconBlockRootOpts) (*api.Response[*phase0.Root], error) {
	if e.failRoot {
		return nil, errors.New("no head root")
	}
	r := root(7)
	return &api.Response[*phase0.Root]{Data: &r, Metadata: map[string]any{}}, nil
}
func (e *c20SyncEnv) SubmitSyncCommitteeMessages(_ context.Context, _ []*altair.SyncCommitteeMessage) error {
	return nil
}
func (e *c20SyncEnv) SubmitSyncCommitteeSubscriptions(_ context.Context, _ []*apiv1.SyncCommitteeSubscription) error {
	return nil
}
func (e *c20SyncEnv) SyncCommitteeContribution(_ context.Context, opts *api.SyncCommitteeContributionOpts) (*api.Response[*altair.SyncCommitteeContribution], error) {
	return &api.Response[*altair.SyncCommitteeContribution]{Data: &altair.SyncCommitteeContribution{Slot: opts.Slot, SubcommitteeIndex: opts.SubcommitteeIndex, BeaconBlockRoot: opts.BeaconBlockRoot, AggregationBits: bitfield.NewBitvector128()}, Metadata: map[string]any{}}, nil
}
func (e *c20SyncEnv) SubmitSyncCommitteeContributions(_ context.Context, _ []*altair.SignedContributionAndProof) error {
	return nil
}

type c20SyncState struct {
	pattern []string
	fail    string
	key     string
	maxRoot int
	maxData int
}

func c20SyncBody(st *c20SyncState, first int, slots int) {
	*st = c20SyncState{}
	env := &c20SyncEnv{sigSel: c20FindSig(8, true), sigNot: c20FindSig(8, false)}
	sp := &specProvider{m: baseSpec(12*time.Second, 32)}
	ct := newChainTime(0, 12*time.Second, 32)
	accts := &accountsTable{byIndex: map[phase0.ValidatorIndex]*hAccount{1: newAccount("W", "v1", 1)}}
	ctx := context.Background()
	agg, err := standardsyncaggregator.New(ctx, standardsyncaggregator.WithLogLevel(zerolog.Disabled), standardsyncaggregator.WithMonitor(nullmetrics.New()), standardsyncaggregator.WithSpecProvider(sp),
		standardsyncaggregator.WithBeaconBlockRootProvider(env), standardsyncaggregator.WithContributionAndProofSigner(env), standardsyncaggregator.WithValidatingAccountsProvider(accts),
		standardsyncaggregator.WithSyncCommitteeContributionProvider(env), standardsyncaggregator.WithSyncCommitteeContributionsSubmitter(env), standardsyncaggregator.WithChainTime(ct))
	must(err)
	msgr, err := standardsyncmessenger.New(ctx, standardsyncmessenger.WithLogLevel(zerolog.Disabled), standardsyncmessenger.WithMonitor(nullmetrics.New()), standardsyncmessenger.WithProcessConcurrency(2),
		standardsyncmessenger.WithChainTimeService(ct), standardsyncmessenger.WithSyncCommitteeAggregator(agg), standardsyncmessenger.WithSpecProvider(sp), standardsyncmessenger.WithBeaconBlockRootProvider(env),
		standardsyncmessenger.WithSyncCommitteeMessagesSubmitter(env), standardsyncmessenger.WithSyncCommitteeSubscriptionsSubmitter(env), standardsyncmessenger.WithValidatingAccountsProvider(accts),
		standardsyncmessenger.WithSyncCommitteeSelectionSigner(env), standardsyncmessenger.WithSyncCommitteeRootSigner(env))
	must(err)
	for s := 0; s < slots; s++ {
		sel := first
		if s > 0 {
			sel = mc.Choose(3)
		}
		env.selected = sel == 1
		env.failRoot = sel == 2
		st.pattern = append(st.pattern, []string{"not-selected", "selected", "no-head-root"}[sel])
		slot := phase0.Slot(10 + s)
		mc.Sleep(int64(time.Duration(slot)*12*time.Second) - mc.Now())
		// what the controller does for a slot: prepare, message, and aggregate if a validator is selected
		duty := synccommitteemessenger.NewDuty(slot, map[phase0.ValidatorIndex][]phase0.CommitteeIndex{1: {3}})
		duty.SetAccount(1, accts.byIndex[1])
		if err := msgr.Prepare(ctx, duty); err != nil {
			panic(err)
		}
		if _, err := msgr.Message(ctx, duty); err != nil && !env.failRoot {
			panic(err)
		}
		subs := duty.AggregatorSubcommittees(1)
		if env.failRoot {
			subs = nil
		}
		if (len(subs) > 0) != env.selected && !env.failRoot {
			panic("harness: selection signatures do not steer the aggregator selection")
		}
		if len(subs) > 0 {
			agg.Aggregate(ctx, &synccommitteeaggregator.Duty{Slot: slot, ValidatorIndices: []phase0.ValidatorIndex{1}, SelectionProofs: map[phase0.ValidatorIndex]map[uint64]phase0.BLSSignature{1: subs}, Accounts: duty.Accounts()})
		}
		roots := agg.VerifC20BeaconBlockRootSlots()
		if len(roots) > st.maxRoot {
			st.maxRoot = len(roots)
		}
		// Roots are tidied when a new one is recorded, so after a slot without a head root older ones may
		// linger (they cannot accumulate: nothing is added); what must hold is that a slot which records a
		// root leaves nothing outside the window, and that the number retained stays small throughout.
		if len(roots) > 4 && st.fail == "" {
			st.fail = fmt.Sprintf("in slot %d the head roots of %d slots are retained for sync aggregation (%s)", slot, len(roots), strings.Join(st.pattern, " "))
			st.key = "sync-head-roots-accumulate"
		}
		for _, k := range roots {
			if k+3 < slot && !env.failRoot && st.fail == "" {
				st.fail = fmt.Sprintf("in slot %d the head root of slot %d is still retained for sync aggregation (%s)", slot, k, strings.Join(st.pattern, " "))
				st.key = "sync-head-root-never-forgotten"
			}
		}
	}
}

// c20SlotDataPhases: stretches of slots as the sync committee messenger sees them.  In a normal slot the controller
// has the messenger message and, on the slot's head event, tidy the per-slot data kept for inclusion checks; in a
// stalled slot (beacon node resyncing, event stream dropped, blocks missed) there is no on-time head event.
var c20SlotDataPhases = []struct {
	name    string
	slots   int
	stalled bool
}{{"normal-10", 10, false}, {"normal-40", 40, false}, {"stall-40", 40, true}, {"stall-120", 120, true}, {"stall-260", 260, true}}

func c20SlotDataBody(st *c20SyncState, first int, depth int) {
	*st = c20SyncState{}
	env := &c20SyncEnv{sigSel: c20FindSig(8, true), sigNot: c20FindSig(8, false)}
	sp := &specProvider{m: baseSpec(12*time.Second, 32)}
	ct := newChainTime(0, 12*time.Second, 32)
	accts := &accountsTable{byIndex: map[phase0.ValidatorIndex]*hAccount{1: newAccount("W", "v1", 1)}}
	ctx := context.Background()
	agg, err := standardsyncaggregator.New(ctx, standardsyncaggregator.WithLogLevel(zerolog.Disabled), standardsyncaggregator.WithMonitor(nullmetrics.New()), standardsyncaggregator.WithSpecProvider(sp),
		standardsyncaggregator.WithBeaconBlockRootProvider(env), standardsyncaggregator.WithContributionAndProofSigner(env), standardsyncaggregator.WithValidatingAccountsProvider(accts),
		standardsyncaggregator.WithSyncCommitteeContributionProvider(env), standardsyncaggregator.WithSyncCommitteeContributionsSubmitter(env), standardsyncaggregator.WithChainTime(ct))
	must(err)
	msgr, err := standardsyncmessenger.New(ctx, standardsyncmessenger.WithLogLevel(zerolog.Disabled), standardsyncmessenger.WithMonitor(nullmetrics.New()), standardsyncmessenger.WithProcessConcurrency(2),
		standardsyncmessenger.WithChainTimeService(ct), standardsyncmessenger.WithSyncCommitteeAggregator(agg), standardsyncmessenger.WithSpecProvider(sp), standardsyncmessenger.WithBeaconBlockRootProvider(env),
		standardsyncmessenger.WithSyncCommitteeMessagesSubmitter(env), standardsyncmessenger.WithSyncCommitteeSubscriptionsSubmitter(env), standardsyncmessenger.WithValidatingAccountsProvider(accts),
		standardsyncmessenger.WithSyncCommitteeSelectionSigner(env), standardsyncmessenger.WithSyncCommitteeRootSigner(env))
	must(err)
	slot := phase0.Slot(200)
	for step := 0; step < depth; step++ {
		k := first
		if step > 0 {
			k = mc.Choose(len(c20SlotDataPhases)+1) - 1
			if k < 0 {
				break
			}
		}
		ph := c20SlotDataPhases[k]
		st.pattern = append(st.pattern, ph.name)
		for i := 0; i < ph.slots; i++ {
			slot++
			mc.Sleep(int64(time.Duration(slot)*12*time.Second) - mc.Now())
			duty := synccommitteemessenger.NewDuty(slot, map[phase0.ValidatorIndex][]phase0.CommitteeIndex{1: {3}})
			duty.SetAccount(1, accts.byIndex[1])
			if err := msgr.Prepare(ctx, duty); err != nil {
				panic(err)
			}
			if _, err := msgr.Message(ctx, duty); err != nil {
				panic(err)
			}
			if _, ok := msgr.GetDataUsedForSlot(slot); !ok {
				panic("harness: messaging did not record the slot's data")
			}
			if ph.stalled {
				continue
			}
			// the slot's on-time head event, as the controller handles it
			msgr.RemoveHistoricDataUsedForSlotVerification(slot)
			kept := msgr.VerifC20SlotDataRecordSlots()
			if len(kept) > st.maxData {
				st.maxData = len(kept)
			}
			// Tidying starts once more than 100 slots are held and then keeps the last 32: after a head event has
			// been handled no more than 100 slots are held, however long the node was away before
			if len(kept) > 100 && st.fail == "" {
				oldest := slot
				for _, x := range kept {
					if x < oldest {
						oldest = x
					}
				}
				st.fail = fmt.Sprintf("after the head event of slot %d the messenger holds the data of %d slots (oldest: slot %d) for inclusion checks (%s)", slot, len(kept), oldest, strings.Join(st.pattern, " "))
				st.key = "sync-slot-data-accumulates"
			}
		}
	}
}

// c20SlotDataCtrl: the real controller with the real sync committee messenger, aggregator and signer (C15's world)
// for a validator that is a sync committee member throughout: a head event one second into every slot, for `slots`
// slots; afterwards the number of slots whose inclusion data the messenger still holds.
type c20SlotDataCtrlState struct {
	verify bool
	slots  int
	kept   []phase0.Slot
	msgs   int
}

func c20SlotDataCtrlBody(st *c20SlotDataCtrlState) {
	st.kept, st.msgs = nil, 0
	const s0 = 2
	w := c15Build(c15WorldCfg{spec: c15Spec(32, 0, c15IndSize, c15IndSubnets, c15IndTarget), startSlot: s0, positions: map[phase0.ValidatorIndex][]phase0.CommitteeIndex{1: {0}},
		real: true, verify: st.verify, delay: 4 * time.Second, before: func(w *c15World) {
			for i := 0; i <= st.slots+2; i++ {
				w.env.registerSelectionRoots(phase0.Slot(s0+i), 64)
			}
			w.duties.member = map[uint64]bool{}
			for p := uint64(0); p <= uint64(st.slots)/64+1; p++ {
				w.duties.member[p] = true
			}
			w.duties.armed = true
		}})
	defer w.cancel()
	for i := 1; i <= st.slots; i++ {
		slot := phase0.Slot(s0 + i)
		mc.Sleep(int64(i)*int64(c15SlotDur) + int64(time.Second) - mc.Now())
		w.ev.deliver("head", &apiv1.HeadEvent{Slot: slot, Block: c15Root(uint64(slot)), PreviousDutyDependentRoot: root(1), CurrentDutyDependentRoot: root(2)})
	}
	mc.Sleep(int64(c15SlotDur) / 2)
	st.kept = w.msgr.VerifC20SlotDataRecordSlots()
	st.msgs = len(w.node.messages)
}

// c20BidCache: the block relay's cache of auction results (keyed by slot) over a long run in which vouch proposes
// often: an auction (mode "auction") or a beacon node's bid request without a preceding auction (mode "request")
// in every slot.
type c20BidCacheState struct {
	mode  string
	slots int
	held  int
	mid   int
	won   int
	done  bool
}

func c20BidCacheBody(st *c20BidCacheState) {
	st.held, st.mid, st.won, st.done = 0, 0, 0, false
	c09Init()
	e := &c09Env{cfgKind: "none", given: make([][]c09Given, 1)}
	strat := c09Strats()[0]
	util.VerifResetBuilderClients()
	r := &c09Relay{idx: 0, env: e, value: 10, bldr: 'Y', hdr: 1, defect: "none", perSlot: true}
	if st.mode == "auction-without-winner" {
		r.defect = "error" // the relay is down throughout: every auction ends without a winner
	}
	e.relays = append(e.relays, r)
	util.VerifSetBuilderClient(r.Address(), r)
	mc.Sleep(int64(time.Duration(c09Slot)*12*time.Second) - mc.Now())
	ctx, cancel := mcontext.WithCancel(context.Background())
	defer cancel()
	v1 := newAccount("W", "v1", 1)
	accts := &accountsTable{byIndex: map[phase0.ValidatorIndex]*hAccount{1: v1}}
	svc := c09NewBlockRelay(ctx, e, &strat, "none", accts)
	for i := 1; i <= st.slots; i++ {
		slot := c09Slot + phase0.Slot(i)
		mc.Sleep(int64(time.Duration(slot)*12*time.Second) - mc.Now())
		if st.mode != "request" {
			if res, err := svc.AuctionBlock(ctx, slot, phase0.Hash32{9}, v1.pubkey()); err == nil && res != nil && res.WinningParticipation != nil {
				st.won++
			}
		} else {
			if b, err := svc.BuilderBid(ctx, slot, phase0.Hash32{9}, v1.pubkey()); err == nil && b != nil {
				st.won++
			}
		}
		if i == st.slots/2 {
			st.mid = len(svc.VerifBidCacheKeys())
		}
	}
	st.held = len(svc.VerifBidCacheKeys())
	st.done = true
}

// ---- units --------------------------------------------------------------------------------------

func c20Units(tier string) []hx.Unit {
	var units []hx.Unit
	// ctrl
	starts := []int64{0, int64(c03SlotDur) + int64(time.Second)}
	for si, sa := range starts {
		for _, apd := range [][3]string{{"E", "E", ""}, {"A", "A", ""}, {"E", "C", ""}, {"A", "C", ""}, {"E", "B", ""}, {"A", "B", ""}, {"A", "A", "slow"}, {"A", "C", "slow"}, {"A", "B", "slow"}, {"B", "A", "slow"}, {"C", "A", "slow"}} {
			sa, ap := sa, [2]string{apd[0], apd[1]}
			// a slow attester (the job is fast-tracked by the head event one second into its slot) is still at
			// work when the next slot's head event arrives and at the observation after it
			var dur int64
			if apd[2] == "slow" {
				dur = int64(14 * time.Second)
			}
			st := &c20Ctrl{}
			epochs := 4
			if tier == "thorough" {
				epochs = 6
			}
			u := hx.Unit{Name: fmt.Sprintf("C20/ctrl/start%d/att%s%s%s", si, ap[0], ap[1], apd[2]), Cfg: mc.Config{Deviation: true, Horizon: int64(60 * c03SlotDur)}, Bound: 0}
			u.Body = func() { c20CtrlBody(st, sa, ap, epochs, dur) }
			u.Check = func(r *mc.Result) mc.Verdict {
				v := mc.Verdict{Outcome: fmt.Sprintf("ctrl reorgs=%d attests=%d inflight-observed=%v", st.reorgs, len(st.w.attests), st.inflightSeen > 0), Nontrivial: st.reorgs > 0 || st.pending > 0}
				v.Sample = fmt.Sprintf("controller run start=+%.0fs duties %s->%s events [%s]: %d observations, %d pending marks seen", float64(sa)/1e9, ap[0], ap[1], strings.Join(st.w.events, " "), st.obs, st.pending)
				switch {
				case r.Panic != "":
					v.Violation, v.Key = v.Sample+": panic: "+firstLine(r.Panic), "C20/ctrl/panic/"+panicSite(r.Panic)
				case st.fail != "":
					v.Violation, v.Key = v.Sample+": "+st.fail, "C20/ctrl/"+st.key
				case !st.w.done:
					v.Violation, v.Key = v.Sample+": the run never finished", "C20/ctrl/never-finished"
				}
				return v
			}
			units = append(units, u)
		}
	}
	// ctrl, one schedule deviation while the reorg event is handled: shorter runs (two epochs, the reorg in one
	// of the first four slots) for the tables that move duties — into the slot in progress, among others
	// (thorough: for every table pair that has a reorg)
	var pairs1 [][2]string // thorough only: each execution replays two epochs of controller activity
	if tier == "thorough" {
		pairs1 = [][2]string{{"A", "B"}, {"E", "B"}, {"A", "C"}, {"E", "C"}, {"B", "A"}, {"C", "A"}}
	}
	for si, sa := range starts {
		for _, ap := range pairs1 {
			sa, ap := sa, ap
			st := &c20Ctrl{}
			u := hx.Unit{Name: fmt.Sprintf("C20/ctrl-1dev/start%d/att%s%s", si, ap[0], ap[1]), Cfg: mc.Config{Deviation: true, Horizon: int64(60 * c03SlotDur)}, Bound: 1}
			u.Body = func() { c20CtrlBody(st, sa, ap, 2, 0) }
			u.Check = func(r *mc.Result) mc.Verdict {
				v := mc.Verdict{Outcome: fmt.Sprintf("ctrl-1dev reorgs=%d attests=%d", st.reorgs, len(st.w.attests)), Nontrivial: true}
				v.Sample = fmt.Sprintf("controller run (one deviation at the reorg) start=+%.0fs duties %s->%s events [%s]: %d observations, %d pending marks seen", float64(sa)/1e9, ap[0], ap[1], strings.Join(st.w.events, " "), st.obs, st.pending)
				switch {
				case r.Panic != "":
					v.Violation, v.Key = v.Sample+": panic: "+firstLine(r.Panic), "C20/ctrl/panic/"+panicSite(r.Panic)
				case st.fail != "":
					v.Violation, v.Key = v.Sample+": "+st.fail, "C20/ctrl/"+st.key
				case !st.w.done:
					v.Violation, v.Key = v.Sample+": the run never finished", "C20/ctrl/never-finished"
				}
				return v
			}
			units = append(units, u)
		}
	}
	// ctrl, a job that is due when it is set up: the epoch's attestations are scheduled six seconds into a
	// slot in which a validator has a duty (the beacon node was slow to answer the duty request of the epoch
	// preparation): the job runs at once, while the scheduling is still going on.  Preemption bounding (one
	// preemption; timer firings and choices at blocking points are free) confined to that instant.
	for _, nDuties := range []int{1, 2} {
		nDuties := nDuties
		st := &c20Ctrl{}
		u := hx.Unit{Name: fmt.Sprintf("C20/ctrl-due-job/duties-%d", nDuties), Cfg: mc.Config{Horizon: int64(60 * c03SlotDur)}, Bound: 1}
		if tier == "thorough" {
			u.Bound = 2
		}
		u.Body = func() { c20DueJobBody(st, nDuties) }
		u.Check = func(r *mc.Result) mc.Verdict {
			v := mc.Verdict{Outcome: fmt.Sprintf("ctrl-due-job attests=%d", len(st.w.attests)), Nontrivial: true}
			v.Sample = fmt.Sprintf("attestations of the epoch scheduled 6 s into a slot with %d duties: %d observations, %d attestations made", nDuties, st.obs, len(st.w.attests))
			switch {
			case r.Panic != "":
				v.Violation, v.Key = v.Sample+": panic: "+firstLine(r.Panic), "C20/ctrl/panic/"+panicSite(r.Panic)
			case st.fail != "":
				v.Violation, v.Key = v.Sample+": "+st.fail, "C20/ctrl/"+st.key
			case !st.w.done:
				v.Violation, v.Key = v.Sample+": the run never finished", "C20/ctrl/never-finished"
			case len(st.w.attests) != 2:
				v.Violation, v.Key = fmt.Sprintf("%s: harness: expected the due job and the next slot's job to run", v.Sample), "C20/ctrl/harness-due-job"
			}
			return v
		}
		units = append(units, u)
	}
	// attested
	for first := 0; first < 3; first++ {
		first := first
		st := &c20AttState{}
		epochs := 6
		if tier == "thorough" {
			epochs = 8
		}
		u := hx.Unit{Name: fmt.Sprintf("C20/attested/first%d", first), Cfg: mc.Config{Fixed: true, Horizon: int64(time.Hour)}}
		u.Body = func() { c20AttestedBody(st, first, epochs) }
		u.Check = func(r *mc.Result) mc.Verdict {
			v := mc.Verdict{Outcome: fmt.Sprintf("attested maxkeys=%d", st.maxKeys), Nontrivial: true, Sample: "attester epochs: " + strings.Join(st.pattern, " ")}
			if r.Panic != "" {
				v.Violation, v.Key = v.Sample+": panic: "+firstLine(r.Panic), "C20/attested/panic/"+panicSite(r.Panic)
			} else if st.fail != "" {
				v.Violation, v.Key = st.fail, "C20/attested/"+st.key
			}
			return v
		}
		units = append(units, u)
	}
	// sync
	for first := 0; first < 3; first++ {
		first := first
		st := &c20SyncState{}
		slots := 8
		if tier == "thorough" {
			slots = 12
		}
		u := hx.Unit{Name: fmt.Sprintf("C20/sync/first%d", first), Cfg: mc.Config{Fixed: true, Horizon: int64(time.Hour)}}
		u.Body = func() { c20SyncBody(st, first, slots) }
		u.Check = func(r *mc.Result) mc.Verdict {
			v := mc.Verdict{Outcome: fmt.Sprintf("sync maxroots=%d", st.maxRoot), Nontrivial: true, Sample: "sync slots: " + strings.Join(st.pattern, " ")}
			if r.Panic != "" {
				v.Violation, v.Key = v.Sample+": panic: "+firstLine(r.Panic), "C20/sync/panic/"+panicSite(r.Panic)
			} else if st.fail != "" {
				v.Violation, v.Key = st.fail, "C20/sync/"+st.key
			}
			return v
		}
		units = append(units, u)
	}
	// sync: the per-slot data kept for inclusion checks, over stretches of normal and stalled slots
	for first := range c20SlotDataPhases {
		first := first
		st := &c20SyncState{}
		depth := 3
		if tier == "thorough" {
			depth = 4
		}
		u := hx.Unit{Name: "C20/sync-slot-data/first-" + c20SlotDataPhases[first].name, Cfg: mc.Config{Fixed: true, Horizon: int64(10 * time.Hour)}}
		u.Body = func() { c20SlotDataBody(st, first, depth) }
		u.Check = func(r *mc.Result) mc.Verdict {
			v := mc.Verdict{Outcome: fmt.Sprintf("sync slot data max=%d", st.maxData/20*20), Nontrivial: len(st.pattern) > 1, Sample: "slot stretches: " + strings.Join(st.pattern, " ")}
			if r.Panic != "" {
				v.Violation, v.Key = v.Sample+": panic: "+firstLine(r.Panic), "C20/sync/panic/"+panicSite(r.Panic)
			} else if st.fail != "" {
				v.Violation, v.Key = st.fail, "C20/sync/"+st.key
			}
			return v
		}
		units = append(units, u)
	}
	for _, verify := range []bool{false, true} {
		st := &c20SlotDataCtrlState{verify: verify, slots: 120}
		if tier == "thorough" {
			st.slots = 400
		}
		name := "off"
		if verify {
			name = "on"
		}
		u := hx.Unit{Name: "C20/sync-slot-data-ctrl/verify-inclusion-" + name, Cfg: mc.Config{Fixed: true, Horizon: int64(3 * time.Hour)}}
		u.Body = func() { c20SlotDataCtrlBody(st) }
		u.Check = func(r *mc.Result) mc.Verdict {
			v := mc.Verdict{Outcome: fmt.Sprintf("sync slot data (controller) messaged=%v", st.msgs > 0), Nontrivial: st.msgs > 0,
				Sample: fmt.Sprintf("controller + messenger, verify-sync-committee-inclusion %s, %d slots with a head event each: data of %d slots held at the end", name, st.slots, len(st.kept))}
			if r.Panic != "" {
				v.Violation, v.Key = v.Sample+": panic: "+firstLine(r.Panic), "C20/sync/panic/"+panicSite(r.Panic)
			} else if st.msgs < st.slots-2 {
				v.Violation, v.Key = fmt.Sprintf("harness: the member messaged in %d of %d slots", st.msgs, st.slots), "C20/sync/harness"
			} else if len(st.kept) > 101 {
				v.Violation = fmt.Sprintf("controller and sync committee messenger with verify-sync-committee-inclusion %s: after %d slots, each with its head event, the messenger holds the inclusion data of %d slots (one more per slot)", name, st.slots, len(st.kept))
				v.Key = "C20/sync/sync-slot-data-never-tidied/verify-" + name
			}
			return v
		}
		units = append(units, u)
	}
	for _, mode := range []string{"auction", "request", "auction-without-winner"} {
		st := &c20BidCacheState{mode: mode, slots: 300}
		if tier == "thorough" {
			st.slots = 1000
		}
		u := hx.Unit{Name: "C20/bid-cache/" + mode + "-every-slot", Cfg: mc.Config{Fixed: true, Horizon: int64(6 * time.Hour)}}
		u.Body = func() { c20BidCacheBody(st) }
		u.Check = func(r *mc.Result) mc.Verdict {
			v := mc.Verdict{Outcome: "bid cache " + mode, Nontrivial: true,
				Sample: fmt.Sprintf("block relay, one %s per slot for %d slots: results of %d slots cached half way, of %d at the end", mode, st.slots, st.mid, st.held)}
			if r.Panic != "" {
				v.Violation, v.Key = v.Sample+": panic: "+firstLine(r.Panic), "C20/bid-cache/panic/"+panicSite(r.Panic)
			} else if !st.done {
				v.Violation, v.Key = fmt.Sprintf("block relay with one %s per slot: a call never returned (%d calls had produced a bid before)", mode, st.won), "C20/bid-cache/never-returned/"+mode
			} else if (mode == "auction-without-winner" && st.won != 0) || (mode != "auction-without-winner" && st.won < st.slots) {
				// the relay's answers did not lead to the outcomes this scenario is about (a matter of C09, not of
				// tidying up): nothing is concluded
				v.Outcome, v.Nontrivial = "bid cache "+mode+": scenario not reached", false
			} else if st.held > st.slots/2 {
				// a fixed window: whatever its size, an hour (quick) of slots later most of them must be gone
				v.Violation = fmt.Sprintf("block relay with one %s per slot: after %d slots the results of %d slots are still cached (%d half way): nothing is ever removed", mode, st.slots, st.held, st.mid)
				v.Key = "C20/bid-cache/never-tidied/" + mode
			}
			return v
		}
		units = append(units, u)
	}
	// leak: strategies with three nodes
	lats := []int{0, 1, 5, 6} // 0 s, 2 s, never, late ignoring cancellation (indices into c07Lats)
	for _, stg := range c07Strats() {
		stg := stg
		for l0 := range lats {
			l0 := l0
			e := &c07Env{}
			u := hx.Unit{Name: fmt.Sprintf("C20/leak/%s/first-node-%d", stg.name, c07Lats[lats[l0]]), Cfg: mc.Config{Deviation: true, Horizon: int64(60 * time.Second)}}
			u.Bound = 0
			if tier == "thorough" {
				u.Bound = 1
			}
			u.Body = func() {
				*e = c07Env{nodes: make([]c07Node, 3), arrive: []int64{-1, -1, -1}, called: make([]int, 3), threshold: 1}
				e.nodes[0] = c07Node{kind: 'A', lat: lats[l0]}
				for i := 1; i < 3; i++ {
					e.nodes[i] = c07Node{kind: "AE"[mc.Choose(2)], lat: lats[mc.Choose(len(lats))]}
				}
				call := stg.mk(e)
				e.ret, e.err = call(context.Background())
				e.done = true
				mc.Sleep(int64(30 * time.Second))
			}
			u.Check = func(r *mc.Result) mc.Verdict {
				v := c20LeakCheck("strategy/"+stg.name, c07Desc(e), e.done, r)
				if v.Violation == "" && e.pending > 0 {
					// half a minute after the call returned (every timeout is long over) a request to a silent node is
					// still running: the strategy never ended it, and with a long-lived caller it never will
					v.Outcome = "strategy/" + stg.name + " leaked"
					v.Violation = fmt.Sprintf("strategy/%s %s: %d request(s) to silent nodes are still running long after the call returned and all timeouts passed (the request context was never ended)", stg.name, c07Desc(e), e.pending)
					v.Key = "C20/leak/strategy/" + stg.name + "/request-never-ended"
				}
				return v
			}
			units = append(units, u)
		}
	}
	// leak: unblinding with three relays
	for _, ver := range []string{"bellatrix", "deneb"} {
		ver := ver
		e := &c05Env{}
		u := hx.Unit{Name: "C20/leak/unblind/" + ver, Cfg: mc.Config{Deviation: true, Horizon: int64(60 * time.Second)}}
		u.Bound = 1
		if tier == "thorough" {
			u.Bound = 2
		}
		u.Body = func() {
			c20UnblindBody(e, ver)
		}
		u.Check = func(r *mc.Result) mc.Verdict {
			var rel []string
			for _, x := range e.relays {
				rel = append(rel, fmt.Sprintf("%s@%d", x.beh, x.lat/int64(time.Second)))
			}
			return c20LeakCheck("unblind", ver+" relays=["+strings.Join(rel, " ")+"]", e.done, r)
		}
		units = append(units, u)
		e2 := &c05Env{}
		u = hx.Unit{Name: "C20/leak/relay-unblind/" + ver, Cfg: mc.Config{Deviation: true, Horizon: int64(60 * time.Second)}}
		u.Bound = 1
		if tier == "thorough" {
			u.Bound = 2
		}
		u.Body = func() {
			c20RelayUnblindBody(e2, ver)
		}
		u.Check = func(r *mc.Result) mc.Verdict {
			var rel []string
			for _, x := range e2.relays {
				rel = append(rel, fmt.Sprintf("%s@%d", x.beh, x.lat/int64(time.Second)))
			}
			return c20LeakCheck("relay-unblind", ver+" relays=["+strings.Join(rel, " ")+"]", e2.done, r)
		}
		units = append(units, u)
		// the proposal job as the scheduler runs it: with the application's context, which does not end.  Every relay
		// answers (a block, errors, an empty answer); when none hands a block over the job must still come to an end
		e4 := &c05Env{}
		u = hx.Unit{Name: "C20/leak/unblind-job-context/" + ver, Cfg: mc.Config{Deviation: true, Horizon: int64(60 * time.Second)}}
		u.Bound = 0
		if tier == "thorough" {
			u.Bound = 1
		}
		u.Body = func() { c20UnblindJobBody(e4, ver) }
		u.Check = func(r *mc.Result) mc.Verdict {
			var rel []string
			for _, x := range e4.relays {
				rel = append(rel, fmt.Sprintf("%s@%d", x.beh, x.lat/int64(time.Second)))
			}
			return c20LeakCheck("unblind-job", ver+" relays=["+strings.Join(rel, " ")+"] (context never ends)", e4.done, r)
		}
		units = append(units, u)
		// all three relays hand the block over at the same instant: every schedule with two deviations
		e3 := &c05Env{}
		u = hx.Unit{Name: "C20/leak/relay-unblind-all-answer/" + ver, Cfg: mc.Config{Deviation: true, Horizon: int64(60 * time.Second)}, Bound: 2}
		u.Body = func() { c20RelayUnblindBodyWith(e3, ver, true) }
		u.Check = func(r *mc.Result) mc.Verdict {
			return c20LeakCheck("relay-unblind", ver+" relays=[full@0 full@0 full@0]", e3.done, r)
		}
		units = append(units, u)
	}
	// leak: deadline auction
	for d0 := range []int{0, 1} {
		d0 := d0
		e := &c09Env{}
		st := c09Strats()[1]
		u := hx.Unit{Name: fmt.Sprintf("C20/leak/deadline-auction/%d", d0), Cfg: mc.Config{Deviation: true, Horizon: int64(300 * time.Second)}}
		u.Bound = 0
		if tier == "thorough" {
			u.Bound = 1
		}
		u.Body = func() {
			c09Init()
			c20AuctionBody(e, &st, d0)
		}
		u.Check = func(r *mc.Result) mc.Verdict {
			var desc []string
			for _, rl := range e.relays {
				desc = append(desc, fmt.Sprintf("%s:%d%+d@%d", rl.defect, rl.value, rl.step, c09Lats[rl.lat]))
			}
			return c20LeakCheck("deadline-auction", "relays=["+strings.Join(desc, " ")+"]", e.done, r)
		}
		units = append(units, u)
	}
	// leak: the one-shot auction with a relay that never answers, called (as the proposal job calls it) with a context
	// that does not end: the request to the silent relay must have ended a minute after the auction returned
	{
		e := &c09Env{}
		st := c09Strats()[0]
		u := hx.Unit{Name: "C20/leak/best-auction/silent-relay", Cfg: mc.Config{Deviation: true, Horizon: int64(300 * time.Second)}, Bound: 0}
		u.Body = func() {
			c09Init()
			*e = c09Env{cfgKind: "none", given: make([][]c09Given, 2)}
			util.VerifResetBuilderClients()
			e.relays = append(e.relays, &c09Relay{idx: 0, env: e, value: 10, bldr: 'Y', hdr: 1, defect: "none", lat: mc.Choose(2)}, &c09Relay{idx: 1, env: e, value: 12, bldr: 'Y', hdr: 2, defect: "none", lat: 3})
			for _, r := range e.relays {
				util.VerifSetBuilderClient(r.Address(), r)
			}
			mc.Sleep(int64(time.Duration(c09Slot)*12*time.Second) - mc.Now())
			svc := st.mk()
			e.res, e.err = svc.BuilderBid(context.Background(), c09Slot, phase0.Hash32{9}, phase0.BLSPubKey{1}, c09ProposerConfig(e), c09BuilderConfigs("none"))
			e.done = true
			mc.Sleep(int64(60 * time.Second))
		}
		u.Check = func(r *mc.Result) mc.Verdict {
			v := c20LeakCheck("best-auction", "relays=[none@0/1 none@never]", e.done, r)
			if v.Violation == "" && e.silentPending > 0 {
				v.Violation = fmt.Sprintf("best-auction with a relay that never answers: a minute after the auction returned %d request(s) to the silent relay are still under way (their context has not ended)", e.silentPending)
				v.Key = "C20/leak/best-auction/request-never-ended"
			}
			return v
		}
		units = append(units, u)
	}
	return units
}

func c07Desc(e *c07Env) string {
	var d []string
	for _, nd := range e.nodes {
		d = append(d, fmt.Sprintf("%c@%d", nd.kind, c07Lats[nd.lat]))
	}
	return "nodes=[" + strings.Join(d, " ") + "]"
}

func c20LeakCheck(what, desc string, done bool, r *mc.Result) mc.Verdict {
	v := mc.Verdict{Outcome: what + " ok", Nontrivial: true, Sample: what + " " + desc}
	if r.Panic != "" {
		v.Violation, v.Key = v.Sample+": panic: "+firstLine(r.Panic), "C20/leak/panic/"+panicSite(r.Panic)
		return v
	}
	if !done {
		v.Violation, v.Key = v.Sample+": the call never returned", "C20/leak/"+what+"/never-returned"
		return v
	}
	var blocked, awake []string
	for _, b := range r.Blocked {
		if b.Class == "blocked" {
			blocked = append(blocked, fmt.Sprintf("g%d at %s", b.G, b.Kind))
		}
		if b.Class == "sleeping" {
			// long after the call returned and its context ended, a goroutine of the call is still at work
			// (waiting on a timer to go round once more)
			awake = append(awake, fmt.Sprintf("g%d at %s", b.G, b.Kind))
		}
	}
	if len(blocked) == 0 && len(awake) > 0 {
		sort.Strings(awake)
		v.Outcome = what + " leaked"
		v.Violation = fmt.Sprintf("%s %s: %d goroutine(s) still running (on a timer) long after the call returned and all timeouts passed: %s", what, desc, len(awake), strings.Join(awake, ", "))
		v.Key = "C20/leak/" + what + "/goroutine-never-ends"
		return v
	}
	if len(blocked) > 0 {
		sort.Strings(blocked)
		v.Outcome = what + " leaked"
		v.Violation = fmt.Sprintf("%s %s: %d goroutine(s) left blocked forever after the call returned and all timeouts passed: %s", what, desc, len(blocked), strings.Join(blocked, ", "))
		v.Key = "C20/leak/" + what + "/goroutine-blocked-forever"
	}
	return v
}

func c20UnblindBody(e *c05Env, ver string) {
	v := spec.DataVersionBellatrix
	if ver == "deneb" {
		v = spec.DataVersionDeneb
	}
	*e = c05Env{version: v, blinded: true, auction: "winner2", acct: newAccount("W", "proposer", 7), graffiti: "none", sign: "ok", submit: "ok"}
	behs := []string{"full", "err3", "nildata", "never", "err503"}
	for i := 0; i < 3; i++ {
		r := &c05Relay{idx: i, env: e, beh: behs[mc.Choose(len(behs))]}
		if r.beh == "full" || r.beh == "nildata" {
			r.lat = []int64{0, int64(time.Second)}[mc.Choose(2)]
		}
		e.relays = append(e.relays, r)
	}
	svc := c05Build(e)
	duty := beaconblockproposer.NewDuty(c05Slot, 7)
	ctx, cancel := mcontext.WithTimeout(context.Background(), 8*time.Second)
	defer cancel()
	if err := svc.Prepare(ctx, duty); err == nil {
		svc.Propose(ctx, duty)
	}
	e.done = true
	cancel()
	mc.Sleep(int64(20 * time.Second))
}

// c20UnblindJobBody: Propose with a context that is never cancelled (the scheduler hands its jobs the application's
// context); relays that never answer are left out (the HTTP client's own timeout ends those).
func c20UnblindJobBody(e *c05Env, ver string) {
	v := spec.DataVersionBellatrix
	if ver == "deneb" {
		v = spec.DataVersionDeneb
	}
	*e = c05Env{version: v, blinded: true, auction: "winner2", acct: newAccount("W", "proposer", 7), graffiti: "none", sign: "ok", submit: "ok"}
	behs := []string{"full", "err3", "nildata", "err503", "status400"}
	for i := 0; i < 3; i++ {
		r := &c05Relay{idx: i, env: e, beh: behs[mc.Choose(len(behs))]}
		if r.beh == "full" || r.beh == "nildata" {
			r.lat = []int64{0, int64(time.Second)}[mc.Choose(2)]
		}
		e.relays = append(e.relays, r)
	}
	svc := c05Build(e)
	duty := beaconblockproposer.NewDuty(c05Slot, 7)
	ctx := context.Background()
	mc.Go(func() {
		if err := svc.Prepare(ctx, duty); err == nil {
			svc.Propose(ctx, duty)
		}
		e.done = true
	})
	mc.Sleep(int64(40 * time.Second))
}

// c20Validators answers the block relay's question which validator proposes.
type c20Validators struct{ acct *hAccount }

func (v c20Validators) Validators(_ context.Context, opts *api.ValidatorsOpts) (*api.Response[map[phase0.ValidatorIndex]*apiv1.Validator], error) {
	out := map[phase0.ValidatorIndex]*apiv1.Validator{}
	for _, i := range opts.Indices {
		out[i] = &apiv1.Validator{Index: i, Validator: &phase0.Validator{PublicKey: v.acct.pubkey()}}
	}
	return &api.Response[map[phase0.ValidatorIndex]*apiv1.Validator]{Data: out, Metadata: map[string]any{}}, nil
}

// c20RelayUnblindBody: vouch as the beacon node's builder: a signed blinded block handed to the block relay's
// UnblindBlock with three relays configured for the proposer.
func c20RelayUnblindBody(e *c05Env, ver string) { c20RelayUnblindBodyWith(e, ver, false) }

// c20RelayUnblindSetup builds the block relay with the relays of e configured for the proposer, and the signed
// blinded block a beacon node would hand it.
func c20RelayUnblindSetup(ctx0 context.Context, e *c05Env) (*standardblockrelay.Service, *api.VersionedSignedBlindedBeaconBlock) {
	util.VerifResetBuilderClients()
	var rel []string
	for _, r := range e.relays {
		util.VerifSetBuilderClient(r.Address(), r)
		rel = append(rel, `"`+r.Address()+`":{}`)
	}
	accts := &accountsTable{byIndex: map[phase0.ValidatorIndex]*hAccount{7: e.acct}}
	svc, err := standardblockrelay.New(ctx0,
		standardblockrelay.WithLogLevel(zerolog.Disabled), standardblockrelay.WithMonitor(&nullmetrics.Service{}),
		standardblockrelay.WithMajordomo(&c09Majordomo{doc: `{"version":2,"fee_recipient":"` + feeA + `","relays":{` + strings.Join(rel, ",") + `}}`}),
		standardblockrelay.WithScheduler(&nopScheduler{}), standardblockrelay.WithListenAddress("127.0.0.1:18550"),
		standardblockrelay.WithChainTime(newChainTime(0, 12*time.Second, 32)), standardblockrelay.WithConfigURL("file:///config.json"),
		standardblockrelay.WithFallbackFeeRecipient(bellatrix.ExecutionAddress{0xff}), standardblockrelay.WithFallbackGasLimit(30000000),
		standardblockrelay.WithAccountsProvider(accts), standardblockrelay.WithValidatorsProvider(c20Validators{e.acct}), standardblockrelay.WithValidatingAccountsProvider(accts),
		standardblockrelay.WithValidatorRegistrationSigner(c12Signer{}), standardblockrelay.WithReleaseVersion("test"),
		standardblockrelay.WithBuilderBidProvider(c12Bids{}), standardblockrelay.WithBuilderConfigs(map[phase0.BLSPubKey]*blockrelay.BuilderConfig{}))
	must(err)
	p := c05Proposal(e.version, true, c05Slot)
	block := &api.VersionedSignedBlindedBeaconBlock{Version: e.version}
	if e.version == spec.DataVersionBellatrix {
		block.Bellatrix = &apiv1bellatrix.SignedBlindedBeaconBlock{Message: p.BellatrixBlinded, Signature: phase0.BLSSignature{0x77}}
	} else {
		block.Deneb = &apiv1deneb.SignedBlindedBeaconBlock{Message: p.DenebBlinded, Signature: phase0.BLSSignature{0x77}}
	}
	return svc, block
}

func c20RelayUnblindBodyWith(e *c05Env, ver string, allFull bool) {
	v := spec.DataVersionBellatrix
	if ver == "deneb" {
		v = spec.DataVersionDeneb
	}
	*e = c05Env{version: v, blinded: true, acct: newAccount("W", "proposer", 7)}
	behs := []string{"full", "err3", "nildata", "never", "err503"}
	for i := 0; i < 3; i++ {
		r := &c05Relay{idx: i, env: e, beh: "full"}
		if !allFull {
			r.beh = behs[mc.Choose(len(behs))]
			if r.beh == "full" || r.beh == "nildata" {
				r.lat = []int64{0, int64(time.Second)}[mc.Choose(2)]
			}
		}
		e.relays = append(e.relays, r)
	}
	ctx0, cancel0 := mcontext.WithCancel(context.Background())
	defer cancel0()
	svc, block := c20RelayUnblindSetup(ctx0, e)
	mc.Sleep(int64(time.Second)) // the registration round of the constructor
	ctx, cancel := mcontext.WithTimeout(ctx0, 8*time.Second)
	defer cancel()
	_, _ = svc.UnblindBlock(ctx, block)
	e.done = true
	cancel()
	mc.Sleep(int64(20 * time.Second))
}

func c20AuctionBody(e *c09Env, st *c09Strat, d0 int) {
	*e = c09Env{cfgKind: "none", given: make([][]c09Given, 3)}
	util.VerifResetBuilderClients()
	defects := []string{"none", "error", "nildata", "belowmin"}
	for i := 0; i < 3; i++ {
		r := &c09Relay{idx: i, env: e, value: 10, bldr: 'Y', hdr: 1}
		if i == 0 {
			r.defect = []string{"none", "error"}[d0]
		} else {
			r.defect = defects[mc.Choose(len(defects))]
		}
		r.lat = []int{0, 1}[mc.Choose(2)]
		r.step = []int64{0, 3}[mc.Choose(2)]
		e.relays = append(e.relays, r)
		util.VerifSetBuilderClient(r.Address(), r)
	}
	mc.Sleep(int64(time.Duration(c09Slot)*12*time.Second) - mc.Now())
	svc := st.mk()
	e.res, e.err = svc.BuilderBid(context.Background(), c09Slot, phase0.Hash32{9}, phase0.BLSPubKey{1}, c09ProposerConfig(e), c09BuilderConfigs("none"))
	e.done = true
	mc.Sleep(int64(60 * time.Second))
}

func init() {
	hx.Register(&hx.Prop{
		ID:    "C20",
		Title: "Vouch's memory and goroutines stay bounded, and shutdown accounting is exact",
		Rule: "ctrl: the real controller (fast track off / on) + scheduler run for 4 (thorough 6) epochs from 2 start instants with 6 attester duty-table pairs (dense / sparse, reorg that drops or moves duties) and an attester that returns at once, plus 5 pairs with an attester that takes 14 s (still at work at the next slot's head event), x position (any of 8 slots, 1 s or 6 s into it), kind of the reorg event, a head event every slot (or every slot but the first of each epoch, or none during the third epoch), the default schedule; thorough: plus two-epoch runs for all reorg pairs under every schedule with one deviation while the reorg event is handled; at +2 s and at the end of every slot: job names, pending-attestation marks (exactly the slots with an attestation job listed or attestations in flight), subscription-information epochs inside a fixed window; " +
			"attested: the real attester over every 6-epoch (thorough 8) pattern of {attests, data fetch fails, no duty}; sync: the real sync messenger + aggregator over every 8-slot (thorough 12) pattern of {selected as aggregator, not selected, beacon node gives no head root}; a slot that records a root leaves no root outside the window and at most 4 are ever retained; the messenger's per-slot data for inclusion checks over every sequence of 3 (thorough 4) stretches out of {10 / 40 normal slots, 40 / 120 / 260 slots without on-time head event}: after a handled head event at most 100 slots are held; " +
			"leak: each `first` / best / majority strategy with three nodes x {answer at 0 s / 2 s, never, late} x {valid, error}, unblinding with three relays, the deadline auction with three relays; after all timeouts no goroutine started by vouch may be blocked; deviation-bounded schedules; " +
			"ctrl-due-job: the controller's scheduling of an epoch run six seconds into a slot that has a duty (the job is due at once), under every schedule with one preemption (thorough two) at that instant; non-trivial = a reorg happened / pending marks were observed / any attested, sync or leak case",
		Assumptions: []string{
			"a goroutine is leaked when it is parked on a lock, channel or condition that nothing can release at the end of the horizon; goroutines parked inside a scripted node that never answers are environment, not vouch",
			"the fixed windows are: jobs 2 slots, subscription information 2 epochs back, attested validators 3 epochs, sync head roots 3 slots",
		},
		Units:         c20Units,
		MinNontrivial: 50,
	})
}
