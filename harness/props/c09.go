package props

import (
	"context"
	"errors"
	"fmt"
	"math/big"
	"strings"
	"time"

	"verifharness/hx"

	"github.com/attestantio/go-block-relay/services/blockauctioneer"
	builderapi "github.com/attestantio/go-builder-client/api"
	builderbellatrix "github.com/attestantio/go-builder-client/api/bellatrix"
	builderspec "github.com/attestantio/go-builder-client/spec"
	consensusapi "github.com/attestantio/go-eth2-client/api"
	"github.com/attestantio/go-eth2-client/spec"
	"github.com/attestantio/go-eth2-client/spec/bellatrix"
	"github.com/attestantio/go-eth2-client/spec/phase0"
	"github.com/attestantio/vouch/services/beaconblockproposer"
	"github.com/attestantio/vouch/services/blockrelay"
	standardblockrelay "github.com/attestantio/vouch/services/blockrelay/standard"
	nullmetrics "github.com/attestantio/vouch/services/metrics/null"
	"github.com/attestantio/vouch/strategies/builderbid"
	bidbest "github.com/attestantio/vouch/strategies/builderbid/best"
	biddeadline "github.com/attestantio/vouch/strategies/builderbid/deadline"
	"github.com/attestantio/vouch/util"
	"github.com/attestantio/vouch/verifmc/mc"
	"github.com/attestantio/vouch/verifmc/mcontext"
	"github.com/attestantio/vouch/verifmc/mtime"
	"github.com/herumi/bls-eth-go-binary/bls"
	"github.com/holiman/uint256"
	"github.com/rs/zerolog"
	"github.com/shopspring/decimal"
	e2types "github.com/wealdtech/go-eth2-types/v2"
)

// C09: the relay auction selects the best eligible bid and only eligible bids.
//
// The real builder-bid strategies (best: single shot with soft/hard timeout; deadline: repeated until a
// deadline) with real BLS verification of relay signatures, driven against n scripted relays.  Per relay:
// one eligibility defect or none x value x builder x header x latency; per run one builder configuration.

const (
	c09Timeout = 4 * time.Second
	c09Slot    = phase0.Slot(10)
	c09Min     = 5
)

var c09Defects = []string{"none", "belowmin", "zerovalue", "zerofee", "timestamp", "badsig", "nokey-badsig", "error", "nildata", "badsig-first-high"}
var c09Lats = []int{0, 1, 3, -1} // seconds: immediate, before soft, between soft and hard, never

type c09Relay struct {
	idx    int
	defect string
	value  int64
	bldr   byte // 'X' or 'Y'
	hdr    byte // 1 or 2
	lat    int
	// deadline strategy: later attempts change the value by this much (may be negative)
	step  int64
	calls int
	env   *c09Env
	// byParent: the bid depends on the parent hash asked for (value + first byte of the hash; defect per parent)
	byParent     bool
	parentDefect map[byte]string
	// pubOff / signOff: the relay announces the key of relay idx+pubOff and signs with that of relay idx+signOff (a key
	// rotation: both move on; a bid still signed with the retired key has signOff behind pubOff)
	pubOff, signOff int
	// hdrFlip: from the second answer on the relay offers its other payload (header 1 <-> 2)
	hdrFlip bool
	// bldrFlip: from the second answer on the bid comes from the other builder (X <-> Y)
	bldrFlip bool
	// perSlot: the bid carries the timestamp of the slot asked for (long runs over many slots; C20)
	perSlot   bool
	askedSlot phase0.Slot
}

type c09Env struct {
	// silentPending: requests to relays that never answer which are still under way (the request's context has not ended)
	silentPending int
	// ghost: the validator's relay list starts with an entry for which no client can be made (its address carries
	// a public key that is no hexadecimal), with settings of its own (no minimum value)
	ghost    bool
	relays   []*c09Relay
	cfgKind  string // builder configuration for builder X
	res      *blockauctioneer.Results
	err      error
	t0, t1   int64 // start of the auction call (absolute) and its duration
	done     bool
	served   *builderspec.VersionedSignedBuilderBid
	servedE  error
	servedOK bool
	given    [][]c09Given // per relay: bids handed to vouch (with instant)
}

type c09Given struct {
	at       int64
	eligible bool
	value    int64
	bldr     byte
	hdr      byte
}

var (
	c09Keys   []bls.SecretKey
	c09Pubs   []phase0.BLSPubKey
	c09Domain phase0.Domain
	c09Cache  = map[string]*builderspec.VersionedSignedBuilderBid{}
)

func c09Init() {
	if c09Keys != nil {
		return
	}
	must(e2types.InitBLS())
	for i := 0; i < 4; i++ {
		sk := c06Secret('R', byte(i), 0)
		c09Keys = append(c09Keys, sk)
		var pk phase0.BLSPubKey
		copy(pk[:], sk.GetPublicKey().Serialize())
		c09Pubs = append(c09Pubs, pk)
	}
	d, err := (&c06Domains{}).GenesisDomain(context.Background(), phase0.DomainType{0x00, 0x00, 0x00, 0x01})
	must(err)
	c09Domain = d
}

func c09Builder(b byte) phase0.BLSPubKey {
	var k phase0.BLSPubKey
	for i := range k {
		k[i] = b
	}
	return k
}

func c09SlotStart() time.Time { return mc.Base.Add(time.Duration(c09Slot) * 12 * time.Second) }

// bid builds (and caches) the signed bid a relay hands out.
func (r *c09Relay) bid(value int64) *builderspec.VersionedSignedBuilderBid {
	return r.bidAs(r.defect, value)
}

func (r *c09Relay) bidAs(defect string, value int64) *builderspec.VersionedSignedBuilderBid {
	r = &c09Relay{idx: r.idx, defect: defect, bldr: r.bldr, hdr: r.hdr, perSlot: r.perSlot, askedSlot: r.askedSlot, signOff: r.signOff}
	key := fmt.Sprintf("%d/%s/%d/%c/%d/k%d", r.idx, r.defect, value, r.bldr, r.hdr, r.signOff)
	if r.perSlot {
		key += fmt.Sprintf("/slot%d", r.askedSlot)
	}
	if b, ok := c09Cache[key]; ok {
		return b
	}
	fee := bellatrix.ExecutionAddress{0xfe}
	if r.defect == "zerofee" {
		fee = bellatrix.ExecutionAddress{}
	}
	ts := uint64(c09SlotStart().Unix())
	if r.perSlot {
		ts = uint64(mc.Base.Add(time.Duration(r.askedSlot) * 12 * time.Second).Unix())
	}
	if r.defect == "timestamp" {
		ts++
	}
	if r.defect == "zerovalue" {
		value = 0
	}
	if r.defect == "belowmin" {
		value = c09Min - 1
	}
	msg := &builderbellatrix.BuilderBid{
		Header: &bellatrix.ExecutionPayloadHeader{FeeRecipient: fee, Timestamp: ts, BlockHash: phase0.Hash32{r.hdr}, ParentHash: phase0.Hash32{9}, ExtraData: []byte{}},
		Value:  c09Wei256(value),
		Pubkey: c09Builder(r.bldr),
	}
	mr, err := msg.HashTreeRoot()
	must(err)
	sd := &phase0.SigningData{ObjectRoot: mr, Domain: c09Domain}
	sr, err := sd.HashTreeRoot()
	must(err)
	sk := c09Keys[(r.idx+r.signOff)%3]
	if r.defect == "badsig" || r.defect == "nokey-badsig" {
		sk = c09Keys[3] // signed by somebody else
	}
	var sig phase0.BLSSignature
	copy(sig[:], sk.SignByte(sr[:]).Serialize())
	b := &builderspec.VersionedSignedBuilderBid{Version: spec.DataVersionBellatrix, Bellatrix: &builderbellatrix.SignedBuilderBid{Message: msg, Signature: sig}}
	c09Cache[key] = b
	return b
}

// Values are whole ETH in the harness and Wei towards vouch (20 ETH is above 2^64 Wei).
var c09EthWei = new(big.Int).Exp(big.NewInt(10), big.NewInt(18), nil)

func c09Wei(eth int64) *big.Int { return new(big.Int).Mul(big.NewInt(eth), c09EthWei) }

func c09Wei256(eth int64) *uint256.Int {
	v, overflow := uint256.FromBig(c09Wei(eth))
	if overflow {
		panic("value overflow")
	}
	return v
}

// c09Centi converts a Wei amount produced by vouch to hundredths of an ETH (-1 if it is no whole number of them).
func c09Centi(wei *big.Int) int64 {
	q, r := new(big.Int).QuoRem(wei, new(big.Int).Exp(big.NewInt(10), big.NewInt(16), nil), new(big.Int))
	if r.Sign() != 0 {
		return -1
	}
	return q.Int64()
}

// c09Eth converts a Wei amount produced by vouch back to ETH; amounts that are no whole ETH come back as -1.
func c09Eth(wei *big.Int) int64 {
	q, r := new(big.Int).QuoRem(wei, c09EthWei, new(big.Int))
	if r.Sign() != 0 {
		return -1
	}
	return q.Int64()
}

func (r *c09Relay) Name() string    { return fmt.Sprintf("relay%d", r.idx) }
func (r *c09Relay) Address() string { return fmt.Sprintf("https://relay%d.example.com/", r.idx) }
func (r *c09Relay) Pubkey() *phase0.BLSPubKey {
	if r.defect == "nokey-badsig" {
		return nil
	}
	k := c09Pubs[(r.idx+r.pubOff)%3]
	return &k
}

func (r *c09Relay) eligible() bool {
	return (r.defect == "none" || r.defect == "nokey-badsig" || r.defect == "badsig-first-high") && r.pubOff == r.signOff
}

func (r *c09Relay) BuilderBid(ctx context.Context, opts *builderapi.BuilderBidOpts) (*builderapi.Response[*builderspec.VersionedSignedBuilderBid], error) {
	call := r.calls
	r.calls++
	r.askedSlot = opts.Slot
	if r.byParent {
		tag := opts.ParentHash[0]
		defect := r.parentDefect[tag]
		g := c09Given{at: mc.Now(), eligible: defect == "none", value: r.value + int64(tag), bldr: r.bldr, hdr: r.hdr}
		if defect == "belowmin" {
			g.value = c09Min - 1
		}
		r.env.given[r.idx] = append(r.env.given[r.idx], g)
		return &builderapi.Response[*builderspec.VersionedSignedBuilderBid]{Data: r.bidAs(defect, r.value+int64(tag)), Metadata: map[string]any{}}, nil
	}
	switch lat := c09Lats[r.lat]; lat {
	case -1:
		r.env.silentPending++
		d := ctx.Done()
		if d == nil {
			mc.Block(0)
		}
		mc.Block(mc.KeyOfRecv(d))
		r.env.silentPending--
		return nil, ctx.Err()
	default:
		if lat > 0 {
			t := mtime.After(time.Duration(lat) * time.Second)
			if sel := mc.Select(false, mc.RecvCase(ctx.Done()), mc.RecvCase(t)); sel.Index == 0 {
				return nil, ctx.Err()
			}
		}
	}
	if r.defect == "error" {
		return nil, errors.New("scripted relay error")
	}
	if r.defect == "nildata" {
		return &builderapi.Response[*builderspec.VersionedSignedBuilderBid]{Data: nil, Metadata: map[string]any{}}, nil
	}
	v := r.value + int64(call)*r.step
	if v < 1 {
		v = 1
	}
	defect := r.defect
	if defect == "badsig-first-high" {
		// only the first answer is defective (and higher than everything that follows)
		if call == 0 {
			defect, v = "badsig", r.value+50
		} else {
			defect = "none"
		}
	}
	rr := *r
	if r.hdrFlip && call > 0 {
		rr.hdr = 3 - r.hdr
	}
	if r.bldrFlip && call > 0 {
		rr.bldr = 'X' + 'Y' - r.bldr
	}
	g := c09Given{at: mc.Now(), eligible: (defect == "none" || defect == "nokey-badsig") && r.pubOff == r.signOff, value: v, bldr: rr.bldr, hdr: rr.hdr}
	if defect == "belowmin" {
		g.value = c09Min - 1
	}
	r.env.given[r.idx] = append(r.env.given[r.idx], g)
	return &builderapi.Response[*builderspec.VersionedSignedBuilderBid]{Data: rr.bidAs(defect, v), Metadata: map[string]any{}}, nil
}

func (r *c09Relay) UnblindProposal(_ context.Context, _ *builderapi.UnblindProposalOpts) (*builderapi.Response[*consensusapi.VersionedSignedProposal], error) {
	return nil, errors.New("not used")
}

func c09BuilderConfigs(kind string) map[phase0.BLSPubKey]*blockrelay.BuilderConfig {
	m := map[phase0.BLSPubKey]*blockrelay.BuilderConfig{}
	x := c09Builder('X')
	switch kind {
	case "none":
	case "offset+5":
		m[x] = &blockrelay.BuilderConfig{Category: "priority", Offset: c09Wei(5)}
	case "offset-5":
		m[x] = &blockrelay.BuilderConfig{Category: "standard", Offset: c09Wei(-5)}
	case "factor0":
		m[x] = &blockrelay.BuilderConfig{Category: "excluded", Factor: big.NewInt(0)}
	case "factor50":
		m[x] = &blockrelay.BuilderConfig{Category: "standard", Factor: big.NewInt(50)}
	case "factor200":
		m[x] = &blockrelay.BuilderConfig{Category: "priority", Factor: big.NewInt(200)}
	}
	return m
}

// score is the documented scoring: (value + offset) * factor / 100.
// c09Score is the reference score of a bid of the given value (whole ETH) in hundredths of an ETH.
func c09Score(kind string, bldr byte, value int64) int64 {
	s := value * 100
	if bldr == 'X' {
		switch kind {
		case "offset+5":
			s += 500
		case "offset-5":
			s -= 500
		case "factor0":
			s = 0
		case "factor50":
			s = s * 50 / 100
		case "factor200":
			s = s * 200 / 100
		}
	}
	return s
}

func c09ProposerConfig(e *c09Env) *beaconblockproposer.ProposerConfig {
	pc := &beaconblockproposer.ProposerConfig{FeeRecipient: bellatrix.ExecutionAddress{0xfe}}
	if e.ghost {
		pc.Relays = append(pc.Relays, &beaconblockproposer.RelayConfig{Address: "https://0xnothexadecimal@ghost.example.com", FeeRecipient: bellatrix.ExecutionAddress{0xfe}, GasLimit: 30000000, MinValue: decimal.Zero})
	}
	for _, r := range e.relays {
		pc.Relays = append(pc.Relays, &beaconblockproposer.RelayConfig{Address: r.Address(), FeeRecipient: bellatrix.ExecutionAddress{0xfe}, GasLimit: 30000000, MinValue: decimal.NewFromBigInt(c09Wei(c09Min), 0)})
	}
	return pc
}

type c09Strat struct {
	name string
	mk   func() builderbid.Provider
	// decision instant by which bids must have arrived
	deadline bool
}

func c09Strats() []c09Strat {
	mon := &nullmetrics.Service{}
	ct := func() interface{} { return nil }
	_ = ct
	return []c09Strat{
		{name: "best", mk: func() builderbid.Provider {
			s, err := bidbest.New(context.Background(), bidbest.WithLogLevel(zerolog.Disabled), bidbest.WithMonitor(mon), bidbest.WithSpecProvider(&specProvider{m: baseSpec(12*time.Second, 32)}),
				bidbest.WithDomainProvider(&c06Domains{}), bidbest.WithChainTime(newChainTime(0, 12*time.Second, 32)), bidbest.WithTimeout(c09Timeout), bidbest.WithReleaseVersion("test"))
			must(err)
			return s
		}},
		{name: "deadline", deadline: true, mk: func() builderbid.Provider {
			s, err := biddeadline.New(context.Background(), biddeadline.WithLogLevel(zerolog.Disabled), biddeadline.WithMonitor(mon), biddeadline.WithSpecProvider(&specProvider{m: baseSpec(12*time.Second, 32)}),
				biddeadline.WithDomainProvider(&c06Domains{}), biddeadline.WithChainTime(newChainTime(0, 12*time.Second, 32)), biddeadline.WithDeadline(c09Timeout), biddeadline.WithBidGap(time.Second), biddeadline.WithReleaseVersion("test"))
			must(err)
			return s
		}},
	}
}

func c09Units(tier string) []hx.Unit {
	var units []hx.Unit
	cfgKinds := []string{"none", "offset+5", "offset-5", "factor0", "factor50", "factor200"}
	values := []int64{10, 20}
	quick := tier != "thorough"
	if quick {
		cfgKinds = []string{"none", "offset+5", "factor0", "factor50"}
	}
	for _, st := range c09Strats() {
		st := st
		maxN := 2
		if tier == "thorough" {
			maxN = 3
		}
		for n := 1; n <= maxN; n++ {
			for d0 := range c09Defects {
				for _, ck := range cfgKinds {
					n, d0, ck := n, d0, ck
					e := &c09Env{}
					u := hx.Unit{Name: fmt.Sprintf("C09/%s/n%d/%s/%s", st.name, n, c09Defects[d0], ck), Cfg: mc.Config{Deviation: true, Horizon: int64(200 * time.Second)}}
					u.Bound = 0
					// every execution verifies real BLS signatures (about 1 ms): one schedule deviation is
					// affordable for single relays, and for two relays of the one-shot strategy without builder
					// configuration
					if tier == "thorough" && (n == 1 || (n == 2 && !st.deadline && ck == "none")) {
						u.Bound = 1
					}
					u.Body = func() {
						c09Init()
						*e = c09Env{cfgKind: ck, given: make([][]c09Given, n)}
						util.VerifResetBuilderClients()
						defects := c09Defects
						lats := []int{0, 1, 2, 3} // indices into c09Lats
						vals := values
						steps := []int64{0, 3, -3}
						switch {
						case n == 3:
							defects = []string{"none", "belowmin", "badsig", "error"}
							lats = []int{0, 2, 3}
						case quick && st.deadline:
							lats = []int{0, 3}
							vals = []int64{10}
						case quick:
							lats = []int{0, 2, 3}
						}
						for i := 0; i < n; i++ {
							r := &c09Relay{idx: i, env: e}
							if i == 0 {
								r.defect = c09Defects[d0]
							} else {
								r.defect = defects[mc.Choose(len(defects))]
							}
							switch {
							case n == 3 && i == 2:
								// the third relay: a second competitor of fixed value and builder
								r.value, r.bldr, r.hdr = 20, 'Y', byte(1+mc.Choose(2))
								r.lat = lats[mc.Choose(len(lats))]
							case n == 3 && i == 1 && st.deadline:
								r.value, r.bldr, r.hdr = 10, "XY"[mc.Choose(2)], 1
								r.lat = lats[mc.Choose(len(lats))]
								r.step = []int64{0, 3}[mc.Choose(2)]
							default:
								r.value = vals[mc.Choose(len(vals))]
								r.bldr = "XY"[mc.Choose(2)]
								r.hdr = byte(1 + mc.Choose(2))
								r.lat = lats[mc.Choose(len(lats))]
								if st.deadline {
									r.step = steps[mc.Choose(len(steps))]
								}
							}
							e.relays = append(e.relays, r)
							util.VerifSetBuilderClient(r.Address(), r)
						}
						// start exactly at the slot start, as the proposer does
						mc.Sleep(int64(time.Duration(c09Slot)*12*time.Second) - mc.Now())
						svc := st.mk()
						t0 := mc.Now()
						e.t0 = t0
						e.res, e.err = svc.BuilderBid(context.Background(), c09Slot, phase0.Hash32{9}, phase0.BLSPubKey{1}, c09ProposerConfig(e), c09BuilderConfigs(ck))
						e.t1 = mc.Now() - t0
						e.done = true
					}
					u.Check = func(r *mc.Result) mc.Verdict { return c09Check(&st, e, r, false) }
					units = append(units, u)
				}
			}
		}
	}
	// the auction result as served to a beacon node by the block relay (bid cache)
	for d0 := range c09Defects {
		for _, ck := range []string{"none", "factor0"} {
			d0, ck := d0, ck
			e := &c09Env{}
			st := c09Strats()[0]
			u := hx.Unit{Name: fmt.Sprintf("C09/blockrelay-cache/%s/%s", c09Defects[d0], ck), Cfg: mc.Config{Fixed: true, Horizon: int64(200 * time.Second)}}
			u.Body = func() {
				c09Init()
				*e = c09Env{cfgKind: ck, given: make([][]c09Given, 2)}
				util.VerifResetBuilderClients()
				for i := 0; i < 2; i++ {
					r := &c09Relay{idx: i, env: e, value: values[mc.Choose(2)], bldr: "XY"[mc.Choose(2)], hdr: byte(1 + mc.Choose(2))}
					r.defect = c09Defects[d0]
					if i == 1 {
						r.defect = []string{"none", "belowmin", "error"}[mc.Choose(3)]
					}
					e.relays = append(e.relays, r)
					util.VerifSetBuilderClient(r.Address(), r)
				}
				mc.Sleep(int64(time.Duration(c09Slot)*12*time.Second) - mc.Now())
				ctx, cancel := mcontext.WithCancel(context.Background())
				defer cancel()
				v1 := newAccount("W", "v1", 1)
				accts := &accountsTable{byIndex: map[phase0.ValidatorIndex]*hAccount{1: v1}}
				svc := c09NewBlockRelay(ctx, e, &st, ck, accts)
				t0 := mc.Now()
				e.t0 = t0
				e.res, e.err = svc.AuctionBlock(ctx, c09Slot, phase0.Hash32{9}, v1.pubkey())
				e.t1 = mc.Now() - t0
				e.served, e.servedE = svc.BuilderBid(ctx, c09Slot, phase0.Hash32{9}, v1.pubkey())
				e.servedOK = true
				e.done = true
			}
			u.Check = func(r *mc.Result) mc.Verdict { return c09Check(&st, e, r, true) }
			units = append(units, u)
		}
	}
	// the validator's relay list starts with an entry that cannot be used (no client can be made for it) and has
	// other settings than the live relay behind it: the live relay's bids are judged by its own settings
	for _, st := range c09Strats() {
		st := st
		for d0 := range c09Defects {
			d0 := d0
			e := &c09Env{}
			u := hx.Unit{Name: fmt.Sprintf("C09/%s/unusable-first-relay/%s", st.name, c09Defects[d0]), Cfg: mc.Config{Deviation: true, Horizon: int64(200 * time.Second)}}
			u.Body = func() {
				c09Init()
				*e = c09Env{cfgKind: "none", given: make([][]c09Given, 1), ghost: true}
				util.VerifResetBuilderClients()
				r := &c09Relay{idx: 0, env: e, defect: c09Defects[d0], value: values[mc.Choose(len(values))], bldr: "XY"[mc.Choose(2)], hdr: 1, lat: []int{0, 2}[mc.Choose(2)]}
				e.relays = append(e.relays, r)
				util.VerifSetBuilderClient(r.Address(), r)
				mc.Sleep(int64(time.Duration(c09Slot)*12*time.Second) - mc.Now())
				svc := st.mk()
				t0 := mc.Now()
				e.t0 = t0
				e.res, e.err = svc.BuilderBid(context.Background(), c09Slot, phase0.Hash32{9}, phase0.BLSPubKey{1}, c09ProposerConfig(e), c09BuilderConfigs("none"))
				e.t1 = mc.Now() - t0
				e.done = true
			}
			u.Check = func(r *mc.Result) mc.Verdict { return c09Check(&st, e, r, false) }
			units = append(units, u)
		}
	}
	// a relay rotates its key between two auctions on one long-lived strategy instance: the second auction judges the
	// relay's bid by the key then announced (a bid signed with the new key is eligible, one still signed with the
	// retired key is not)
	for _, st := range c09Strats() {
		st := st
		e := &c09Env{}
		u := hx.Unit{Name: "C09/" + st.name + "/key-rotation", Cfg: mc.Config{Deviation: true, Horizon: int64(400 * time.Second)}}
		u.Body = func() {
			c09Init()
			util.VerifResetBuilderClients()
			svc := st.mk()
			mc.Sleep(int64(time.Duration(c09Slot)*12*time.Second) - mc.Now())
			// first auction: the relay as it was
			e1 := &c09Env{cfgKind: "none", given: make([][]c09Given, 1)}
			r1 := &c09Relay{idx: 0, env: e1, defect: "none", value: 10, bldr: 'Y', hdr: 1}
			e1.relays = append(e1.relays, r1)
			util.VerifSetBuilderClient(r1.Address(), r1)
			if res, err := svc.BuilderBid(context.Background(), c09Slot, phase0.Hash32{9}, phase0.BLSPubKey{1}, c09ProposerConfig(e1), c09BuilderConfigs("none")); err != nil || res == nil || res.WinningParticipation == nil {
				panic("harness: the first auction has no winner")
			}
			// second auction: the relay announces its new key; its bid is signed with the new or still with the old one
			*e = c09Env{cfgKind: "none", given: make([][]c09Given, 1)}
			r2 := &c09Relay{idx: 0, env: e, defect: "none", value: 10, bldr: 'Y', hdr: 1, pubOff: 1, signOff: mc.Choose(2)}
			e.relays = append(e.relays, r2)
			util.VerifSetBuilderClient(r2.Address(), r2)
			t0 := mc.Now()
			e.t0 = t0
			e.res, e.err = svc.BuilderBid(context.Background(), c09Slot, phase0.Hash32{9}, phase0.BLSPubKey{1}, c09ProposerConfig(e), c09BuilderConfigs("none"))
			e.t1 = mc.Now() - t0
			e.done = true
		}
		u.Check = func(r *mc.Result) mc.Verdict { return c09Check(&st, e, r, false) }
		units = append(units, u)
	}
	// the repeated strategy: relay 0 improves its own bid with another payload on its second answer (value +3,
	// other header) after relay 1 has offered the first payload as well (or another one)
	{
		st := c09Strats()[1]
		e := &c09Env{}
		u := hx.Unit{Name: "C09/deadline/improves-own-bid", Cfg: mc.Config{Deviation: true, Horizon: int64(200 * time.Second)}}
		u.Body = func() {
			c09Init()
			*e = c09Env{cfgKind: "none", given: make([][]c09Given, 2)}
			util.VerifResetBuilderClients()
			a := &c09Relay{idx: 0, env: e, defect: "none", value: 10, bldr: 'Y', hdr: 1, lat: 0, step: 3, hdrFlip: true}
			b := &c09Relay{idx: 1, env: e, defect: "none", value: []int64{10, 7}[mc.Choose(2)], bldr: "YX"[mc.Choose(2)], hdr: byte(1 + mc.Choose(2)), lat: mc.Choose(2), step: []int64{0, 3}[mc.Choose(2)], hdrFlip: mc.Choose(2) == 1}
			e.relays = append(e.relays, a, b)
			util.VerifSetBuilderClient(a.Address(), a)
			util.VerifSetBuilderClient(b.Address(), b)
			mc.Sleep(int64(time.Duration(c09Slot)*12*time.Second) - mc.Now())
			svc := st.mk()
			t0 := mc.Now()
			e.t0 = t0
			e.res, e.err = svc.BuilderBid(context.Background(), c09Slot, phase0.Hash32{9}, phase0.BLSPubKey{1}, c09ProposerConfig(e), c09BuilderConfigs("none"))
			e.t1 = mc.Now() - t0
			e.done = true
		}
		u.Check = func(r *mc.Result) mc.Verdict { return c09Check(&st, e, r, false) }
		units = append(units, u)
	}
	// the repeated strategy: a relay's later answer is lower in value but comes from another builder, so that under
	// the builder configuration it scores higher (the earlier, higher bid came from a discounted or excluded
	// builder; relays do withdraw bids) - or the other way round
	for _, ck := range []string{"factor0", "factor50", "offset-5", "factor200"} {
		ck := ck
		st := c09Strats()[1]
		e := &c09Env{}
		u := hx.Unit{Name: "C09/deadline/lower-bid-from-other-builder/" + ck, Cfg: mc.Config{Deviation: true, Horizon: int64(200 * time.Second)}}
		u.Body = func() {
			c09Init()
			*e = c09Env{cfgKind: ck, given: make([][]c09Given, 2)}
			util.VerifResetBuilderClients()
			a := &c09Relay{idx: 0, env: e, defect: "none", value: 12, bldr: "XY"[mc.Choose(2)], hdr: 1, lat: 0, step: -1, hdrFlip: true, bldrFlip: true}
			b := &c09Relay{idx: 1, env: e, defect: []string{"none", "error"}[mc.Choose(2)], value: 6, bldr: 'Y', hdr: 2, lat: mc.Choose(2)}
			e.relays = append(e.relays, a, b)
			util.VerifSetBuilderClient(a.Address(), a)
			util.VerifSetBuilderClient(b.Address(), b)
			mc.Sleep(int64(time.Duration(c09Slot)*12*time.Second) - mc.Now())
			svc := st.mk()
			t0 := mc.Now()
			e.t0 = t0
			e.res, e.err = svc.BuilderBid(context.Background(), c09Slot, phase0.Hash32{9}, phase0.BLSPubKey{1}, c09ProposerConfig(e), c09BuilderConfigs(ck))
			e.t1 = mc.Now() - t0
			e.done = true
		}
		u.Check = func(r *mc.Result) mc.Verdict { return c09Check(&st, e, r, false) }
		units = append(units, u)
	}
	// two beacon nodes ask for the bid at the same time (no auction was held before: the first request runs one,
	// the second waits for it): both are answered with the auction's winner, or with nothing when there is none
	for _, defect := range []string{"none", "belowmin"} {
		defect := defect
		e := &c09Env{}
		st := c09Strats()[0]
		var got [2]int64
		var errs [2]error
		var fin int
		u := hx.Unit{Name: "C09/blockrelay-cache/two-bid-requests/" + defect, Cfg: mc.Config{Deviation: true, Horizon: int64(400 * time.Second)}, Bound: 1}
		if tier == "thorough" {
			u.Bound = 2
		}
		u.Body = func() {
			c09Init()
			*e = c09Env{cfgKind: "none", given: make([][]c09Given, 1)}
			got, errs, fin = [2]int64{}, [2]error{}, 0
			util.VerifResetBuilderClients()
			r := &c09Relay{idx: 0, env: e, value: 10, bldr: 'Y', hdr: 1, defect: defect}
			e.relays = append(e.relays, r)
			util.VerifSetBuilderClient(r.Address(), r)
			mc.Sleep(int64(time.Duration(c09Slot)*12*time.Second) - mc.Now())
			ctx, cancel := mcontext.WithCancel(context.Background())
			defer cancel()
			v1 := newAccount("W", "v1", 1)
			accts := &accountsTable{byIndex: map[phase0.ValidatorIndex]*hAccount{1: v1}}
			svc := c09NewBlockRelay(ctx, e, &st, "none", accts)
			done := make(chan struct{}, 2)
			for i := 0; i < 2; i++ {
				i := i
				mc.Go(func() {
					b, err := svc.BuilderBid(ctx, c09Slot, phase0.Hash32{9}, v1.pubkey())
					errs[i] = err
					got[i] = -1
					if b != nil {
						got[i] = -2
						if val, err := b.Value(); err == nil {
							got[i] = c09Eth(val.ToBig())
						}
					}
					fin++
					mc.Send(done, struct{}{})
				})
			}
			mc.Recv(done)
			mc.Recv(done)
			e.done = true
		}
		u.Check = func(r *mc.Result) mc.Verdict {
			v := mc.Verdict{Outcome: fmt.Sprintf("two-bid-requests/%s %v", defect, got), Nontrivial: true, Sample: fmt.Sprintf("two simultaneous bid requests, relay bid %s: served %v (ETH; -1 = nothing)", defect, got)}
			switch {
			case r.Panic != "":
				v.Violation, v.Key = v.Sample+": panic: "+firstLine(r.Panic), "C09/blockrelay/panic"
			case !e.done:
				v.Violation, v.Key = v.Sample+": a bid request never returned", "C09/blockrelay/never-returned"
			}
			want := int64(-1)
			if defect == "none" {
				want = 10
			}
			for i := 0; i < 2 && v.Violation == ""; i++ {
				switch {
				case want == -1 && got[i] != -1:
					v.Violation, v.Key = fmt.Sprintf("%s: request %d was served a bid (value %d ETH) although the auction had no winner", v.Sample, i+1, got[i]), "C09/blockrelay/bid-served-without-winner"
				case want != -1 && got[i] == -1:
					v.Violation, v.Key = fmt.Sprintf("%s: request %d was served nothing although the auction has a winner", v.Sample, i+1), "C09/blockrelay/winning-bid-not-served"
				case want != got[i]:
					v.Violation, v.Key = fmt.Sprintf("%s: request %d was served a bid of %d ETH, the winner is worth %d", v.Sample, i+1, got[i], want), "C09/blockrelay/served-bid-differs"
				}
			}
			return v
		}
		units = append(units, u)
	}
	// the same slot and proposer under two parents (a reorg): what is served for a parent is the result of an
	// auction held for that parent, whatever was auctioned or served for the other one before
	{
		e := &c09Env{}
		st := c09Strats()[0]
		type step struct {
			op     string
			parent byte
			val    int64 // value of the bid served (0: none)
			err    error
		}
		var steps []step
		nops := 3
		if tier == "thorough" {
			nops = 4
		}
		u := hx.Unit{Name: "C09/blockrelay-cache/reorg", Cfg: mc.Config{Fixed: true, Horizon: int64(400 * time.Second)}}
		u.Body = func() {
			c09Init()
			*e = c09Env{cfgKind: "none", given: make([][]c09Given, 1)}
			steps = nil
			util.VerifResetBuilderClients()
			r := &c09Relay{idx: 0, env: e, value: 10, bldr: 'Y', hdr: 1, byParent: true, parentDefect: map[byte]string{}}
			for _, p := range []byte{1, 2} {
				r.parentDefect[p] = []string{"none", "belowmin"}[mc.Choose(2)]
			}
			e.relays = append(e.relays, r)
			util.VerifSetBuilderClient(r.Address(), r)
			mc.Sleep(int64(time.Duration(c09Slot)*12*time.Second) - mc.Now())
			ctx, cancel := mcontext.WithCancel(context.Background())
			defer cancel()
			v1 := newAccount("W", "v1", 1)
			accts := &accountsTable{byIndex: map[phase0.ValidatorIndex]*hAccount{1: v1}}
			svc := c09NewBlockRelay(ctx, e, &st, "none", accts)
			for i := 0; i < nops; i++ {
				c := mc.Choose(4)
				s := step{op: []string{"auction", "serve"}[c/2], parent: byte(1 + c%2)}
				if s.op == "auction" {
					_, s.err = svc.AuctionBlock(ctx, c09Slot, phase0.Hash32{s.parent}, v1.pubkey())
				} else {
					var b *builderspec.VersionedSignedBuilderBid
					b, s.err = svc.BuilderBid(ctx, c09Slot, phase0.Hash32{s.parent}, v1.pubkey())
					if b != nil {
						if val, err := b.Value(); err == nil {
							s.val = c09Eth(val.ToBig())
						}
					}
				}
				steps = append(steps, s)
			}
			e.done = true
		}
		u.Check = func(r *mc.Result) mc.Verdict {
			var d []string
			for _, s := range steps {
				x := fmt.Sprintf("%s(parent %d)", s.op, s.parent)
				if s.op == "serve" {
					x += fmt.Sprintf("=%d", s.val)
				}
				if s.err != nil {
					x += " error: " + s.err.Error()
				}
				d = append(d, x)
			}
			desc := ""
			if len(e.relays) > 0 {
				desc = fmt.Sprintf("relay bids per parent: 1:%s 2:%s; ", e.relays[0].parentDefect[1], e.relays[0].parentDefect[2])
			}
			v := mc.Verdict{Outcome: "reorg " + strings.Join(d, " "), Nontrivial: true, Sample: "slot and proposer under two parents: " + desc + strings.Join(d, ", ")}
			switch {
			case r.Panic != "":
				v.Violation, v.Key = v.Sample+": panic: "+firstLine(r.Panic), "C09/blockrelay/panic"
			case !e.done:
				v.Violation, v.Key = v.Sample+": a call never returned", "C09/blockrelay/never-returned"
			}
			for _, s := range steps {
				if v.Violation != "" || s.op != "serve" {
					continue
				}
				want := int64(0)
				if e.relays[0].parentDefect[s.parent] == "none" {
					want = 10 + int64(s.parent)
				}
				switch {
				case want == 0 && s.val != 0:
					v.Violation, v.Key = fmt.Sprintf("%s: a bid of value %d was served for parent %d although no eligible bid exists for that parent", v.Sample, s.val, s.parent), "C09/blockrelay/bid-served-without-winner"
				case want != 0 && s.val == 0:
					v.Violation, v.Key = fmt.Sprintf("%s: nothing was served for parent %d although the auction for that parent has a winner", v.Sample, s.parent), "C09/blockrelay/winning-bid-not-served"
				case want != s.val:
					v.Violation, v.Key = fmt.Sprintf("%s: the bid served for parent %d (value %d) is not the winner of the auction for that parent (value %d)", v.Sample, s.parent, s.val, want), "C09/blockrelay/served-bid-differs"
				}
			}
			return v
		}
		units = append(units, u)
	}
	return units
}

// c09NewBlockRelay builds the real block relay service over the environment's relays and the given strategy.
// The validating accounts are the table's, so that the service fetches the execution configuration (it
// does not when nothing validates).
func c09NewBlockRelay(ctx context.Context, e *c09Env, st *c09Strat, ck string, accts *accountsTable) *standardblockrelay.Service {
	var rel []string
	for _, r := range e.relays {
		rel = append(rel, `"`+r.Address()+`":{}`)
	}
	doc := `{"version":2,"fee_recipient":"` + feeA + `","min_value":"5","relays":{` + strings.Join(rel, ",") + `}}`
	md := &c09Majordomo{doc: doc}
	svc, err := standardblockrelay.New(ctx,
		standardblockrelay.WithLogLevel(zerolog.Disabled), standardblockrelay.WithMonitor(&nullmetrics.Service{}), standardblockrelay.WithMajordomo(md),
		standardblockrelay.WithScheduler(&nopScheduler{}), standardblockrelay.WithListenAddress("127.0.0.1:18550"),
		standardblockrelay.WithChainTime(newChainTime(0, 12*time.Second, 32)), standardblockrelay.WithConfigURL("file:///config.json"),
		standardblockrelay.WithFallbackFeeRecipient(bellatrix.ExecutionAddress{0xff}), standardblockrelay.WithFallbackGasLimit(30000000),
		standardblockrelay.WithAccountsProvider(accts), standardblockrelay.WithValidatorsProvider(c12Validators{}), standardblockrelay.WithValidatingAccountsProvider(accts),
		standardblockrelay.WithValidatorRegistrationSigner(c12Signer{}), standardblockrelay.WithReleaseVersion("test"),
		standardblockrelay.WithBuilderBidProvider(st.mk()), standardblockrelay.WithBuilderConfigs(c09BuilderConfigs(ck)))
	must(err)
	// let the registration round started by the constructor finish
	mc.Sleep(int64(time.Second))
	if pc, err := svc.ProposerConfig(ctx, accts.byIndex[1], accts.byIndex[1].pubkey()); err != nil || len(pc.Relays) != len(e.relays) {
		panic(fmt.Sprintf("harness: the block relay did not take up the execution configuration: %v", err))
	}
	return svc
}

type c09Majordomo struct{ doc string }

func (m *c09Majordomo) Fetch(_ context.Context, _ string) ([]byte, error) { return []byte(m.doc), nil }

func c09Check(st *c09Strat, e *c09Env, r *mc.Result, cache bool) mc.Verdict {
	var desc []string
	for _, rl := range e.relays {
		s := fmt.Sprintf("%s:%d%c/h%d@%d", rl.defect, rl.value, rl.bldr, rl.hdr, c09Lats[rl.lat])
		if rl.step != 0 {
			s += fmt.Sprintf("%+d/try", rl.step)
		}
		desc = append(desc, s)
	}
	v := mc.Verdict{}
	win := "none"
	if e.res != nil && e.res.WinningParticipation != nil {
		win = fmt.Sprint(c09Centi(e.res.WinningParticipation.Score))
	}
	v.Outcome = fmt.Sprintf("%s winner=%s@%d", st.name, win, e.t1/int64(time.Second))
	v.Sample = fmt.Sprintf("%s relays=[%s] builderX=%s -> %s", st.name, strings.Join(desc, " "), e.cfgKind, v.Outcome)
	v.Nontrivial = len(e.relays) > 1 || (len(e.relays) == 1 && e.relays[0].defect != "none")
	fail := func(key, msg string) mc.Verdict {
		v.Violation = v.Sample + ": " + msg
		v.Key = "C09/" + st.name + "/" + key
		if cache {
			v.Key = "C09/blockrelay/" + key
		}
		return v
	}
	if r.Panic != "" {
		return fail("panic", "panic: "+firstLine(r.Panic))
	}
	if !e.done {
		return fail("never-returned", "the auction never returned")
	}
	if e.err != nil || e.res == nil {
		return fail("auction-error", fmt.Sprintf("the auction returned an error: %v", e.err))
	}
	timeout := int64(c09Timeout)
	if e.t1 > timeout {
		return fail("returned-after-deadline", "returned after the strategy's timeout / deadline")
	}
	// eligible bids by arrival; the decision instant is the observed return
	best := int64(0)   // best eligible score among bids handed over strictly before the return
	bestLE := int64(0) // ... at or before the return
	for i := range e.given {
		for _, g := range e.given[i] {
			if !g.eligible {
				continue
			}
			sc := c09Score(e.cfgKind, g.bldr, g.value)
			if sc <= 0 {
				continue
			}
			at := g.at - e.t0
			if at < e.t1 && sc > best {
				best = sc
			}
			if at <= e.t1 && sc > bestLE {
				bestLE = sc
			}
		}
	}
	wp := e.res.WinningParticipation
	if wp == nil && !st.deadline && !cache {
		// "no winner" is only right when no eligible bid arrives before the strategy's deadline: a return
		// without a winner while a relay that answers in time is still pending gives a bid away (the one-shot
		// strategy may return at its soft timeout only with a bid in hand)
		for _, rl := range e.relays {
			lat := c09Lats[rl.lat]
			if lat < 0 || int64(lat)*int64(time.Second) >= timeout || !rl.eligible() || rl.defect == "badsig-first-high" {
				continue
			}
			if sc := c09Score(e.cfgKind, rl.bldr, rl.value); sc > 0 && int64(lat)*int64(time.Second) >= e.t1 {
				return fail("returned-before-deadline-without-winner", fmt.Sprintf("returned at %+.1fs without a winner although relay %d's eligible bid (score %d) arrives at %+ds, before the deadline", float64(e.t1)/1e9, rl.idx, sc, lat))
			}
		}
	}
	if wp == nil {
		if best > 0 {
			return fail("eligible-bid-ignored", fmt.Sprintf("no winner although an eligible bid with score %d had arrived", best))
		}
		if len(e.res.Providers) != 0 {
			return fail("providers-without-winner", "relays are listed for unblinding although there is no winner")
		}
	} else {
		ws := c09Centi(wp.Score)
		if ws <= 0 {
			return fail("zero-score-winner", "a bid with zero (or negative) score won")
		}
		if ws > bestLE {
			return fail("ineligible-or-unknown-bid-won", fmt.Sprintf("winning score %d exceeds every eligible bid that had arrived (max %d)", ws, bestLE))
		}
		if ws < best {
			return fail("not-the-best-bid", fmt.Sprintf("winning score %d although an eligible bid with score %d had arrived", ws, best))
		}
		wh, err := wp.Bid.HeaderHashTreeRoot()
		if err != nil {
			return fail("winner-without-header", "winning bid has no header")
		}
		wb, _ := wp.Bid.Builder()
		wv, _ := wp.Bid.Value()
		// the winning bid must be one an eligible relay actually handed over
		okBid := false
		for i := range e.given {
			for _, g := range e.given[i] {
				if g.eligible && c09Builder(g.bldr) == wb && g.value == c09Eth(wv.ToBig()) && c09Score(e.cfgKind, g.bldr, g.value) == ws {
					okBid = true
				}
			}
		}
		if !okBid {
			return fail("ineligible-or-unknown-bid-won", "the winning bid is not one an eligible relay handed over")
		}
		if len(e.res.Providers) == 0 {
			return fail("winner-relay-not-listed", "no relay is listed for unblinding the winning bid")
		}
		winnerListed := false
		for _, p := range e.res.Providers {
			rl, ok := p.(*c09Relay)
			if !ok {
				return fail("unknown-provider", "a provider that was never configured is listed")
			}
			offered := false
			for _, g := range e.given[rl.idx] {
				rc := *rl
				rc.hdr = g.hdr
				hb := rc.bid(g.value)
				hh, _ := hb.HeaderHashTreeRoot()
				if hh == wh {
					offered = true
					if g.eligible && c09Score(e.cfgKind, g.bldr, g.value) == ws {
						winnerListed = true
					}
				}
			}
			if !offered {
				return fail("provider-did-not-offer-winning-payload", fmt.Sprintf("relay %d is listed for unblinding but never offered the winning payload", rl.idx))
			}
			if !rl.eligible() {
				return fail("ineligible-relay-listed", fmt.Sprintf("relay %d is listed for unblinding although its bids are ineligible", rl.idx))
			}
		}
		if !winnerListed {
			return fail("winner-relay-not-listed", "the relay that gave the winning bid is not among the listed providers")
		}
	}
	if cache && e.servedOK {
		if wp == nil {
			if e.served != nil && e.servedE == nil {
				if val, err := e.served.Value(); err == nil && val.Sign() > 0 {
					return fail("bid-served-without-winner", "a bid was served to the beacon node although the auction had no winner")
				}
			}
		} else {
			if e.served == nil {
				return fail("winning-bid-not-served", "the auction had a winner but no bid was served to the beacon node")
			}
			sh, _ := e.served.HeaderHashTreeRoot()
			wh, _ := wp.Bid.HeaderHashTreeRoot()
			if sh != wh {
				return fail("served-bid-differs", "the bid served to the beacon node is not the winning bid")
			}
		}
	}
	return v
}

func init() {
	hx.Register(&hx.Prop{
		ID:    "C09",
		Title: "The relay auction selects the best eligible bid and only eligible bids",
		Rule: "for the single-shot (best) and the repeated-until-deadline strategy and n = 1..2 (thorough 3) scripted relays: every assignment per relay of one eligibility defect or none (below relay minimum, zero value, zero fee recipient, wrong timestamp, bad signature with known key, bad signature with unknown key, error, empty response) x value x builder x payload header x latency (0, <soft, between, never) (x per-attempt value step for the deadline strategy) x 6 builder configurations (offset +/-, factor 0/50/200), with real BLS signatures; explored with deviation-bounded schedules; plus the block relay's AuctionBlock -> BuilderBid cache path; " +
			"quick restricts latencies/values/builder configurations, thorough uses the full alphabet; " +
			"oracle: winner = arg-max eligible score among bids handed over before the observed return, listed providers offered the winning payload and include the winner's relay, no eligible bid => no winner and nothing served; the one-shot strategy returns without a winner only when no eligible bid arrives before its timeout; two bid requests at the same time without a prior auction (one deviation; thorough two) are both served the winner, or nothing; the block relay's bid cache under a reorg: every sequence of 3 (thorough 4) operations over {auction, serve} x {parent 1, parent 2} for one slot and proposer, the relay's bid depending on the parent: what is served for a parent is the winner of an auction for that parent; non-trivial = more than one relay or a defective single relay; distinct = distinct (strategy, winning score, return second)",
		Assumptions: []string{
			"relays honour request cancellation",
			"score = (value + offset) * factor / 100 with integer division, as documented for builder configurations",
			"a bid whose relay key is unknown cannot be verified and counts as eligible, as the statement says",
		},
		Units:         c09Units,
		MinNontrivial: 1000,
	})
}
