package props

import (
	"context"
	"fmt"
	"strings"

	"verifharness/hx"

	"github.com/attestantio/go-eth2-client/api"
	apiv1 "github.com/attestantio/go-eth2-client/api/v1"
	"github.com/attestantio/go-eth2-client/spec/phase0"
	"github.com/attestantio/vouch/services/attester"
	"github.com/attestantio/vouch/verifmc/mc"
)

// C04: each attestation carries exactly its validator's assignment and the agreed data.
//
// The real attester (real New) with recording stand-ins.  A case is: a duty of 1-3 validators drawn from
// {1,2,3,4} in a given order; per validator a committee index in {0,1} and a position in {0,1,2} (pairs
// distinct inside a duty, as a beacon node assigns them); committee sizes in {3,4}; and per validator a
// skip pattern in {none, already attested by a preceding Attest of the same epoch, no account, zero
// signature}.  The duty is built with attester.NewDuty in the given order, or from per-validator
// AttesterDuty entries through attester.MergeDuties.  The oracle compares what reached the signer and
// the submitter with the duty's entry of the very validator whose account produced the signature.

const (
	c04None = iota
	c04Attested
	c04NoAccount
	c04ZeroSig
)

var c04SkipNames = []string{"-", "attested", "noaccount", "zerosig"}

type c04Entry struct {
	c    phase0.CommitteeIndex
	p    uint64
	size uint64
}

type c04Run struct {
	name  string
	slot  phase0.Slot
	order []phase0.ValidatorIndex
	ref   map[phase0.ValidatorIndex]c04Entry
	skip  map[phase0.ValidatorIndex]int
	data  *phase0.AttestationData
	err   error
	natts int
}

type c04State struct {
	env   *attEnv
	runs  []*c04Run
	desc  string
	skips int
	bad   string // harness-side problem (duty could not be built)
}

// c04Tuples returns all assignments of k distinct (committee, position) pairs.
func c04Tuples(k int) [][]c04Entry {
	var all []c04Entry
	for c := 0; c < 2; c++ {
		for p := 0; p < 3; p++ {
			all = append(all, c04Entry{c: phase0.CommitteeIndex(c), p: uint64(p)})
		}
	}
	var out [][]c04Entry
	var rec func(cur []c04Entry)
	rec = func(cur []c04Entry) {
		if len(cur) == k {
			out = append(out, append([]c04Entry(nil), cur...))
			return
		}
	next:
		for _, e := range all {
			for _, x := range cur {
				if x == e {
					continue next
				}
			}
			rec(append(cur, e))
		}
	}
	rec(nil)
	return out
}

// c04Selections returns all ordered selections of 1..3 validators out of {1,2,3,4}.
func c04Selections() [][]phase0.ValidatorIndex {
	var out [][]phase0.ValidatorIndex
	var rec func(cur []phase0.ValidatorIndex)
	rec = func(cur []phase0.ValidatorIndex) {
		if len(cur) > 0 {
			out = append(out, append([]phase0.ValidatorIndex(nil), cur...))
		}
		if len(cur) == 3 {
			return
		}
	next:
		for v := phase0.ValidatorIndex(1); v <= 4; v++ {
			for _, x := range cur {
				if x == v {
					continue next
				}
			}
			rec(append(cur, v))
		}
	}
	rec(nil)
	return out
}

func c04Ascending(s []phase0.ValidatorIndex) bool {
	for i := 1; i < len(s); i++ {
		if s[i] < s[i-1] {
			return false
		}
	}
	return true
}

func c04Duty(slot phase0.Slot, order []phase0.ValidatorIndex, ref map[phase0.ValidatorIndex]c04Entry, sizes map[phase0.CommitteeIndex]uint64, merge bool) (*attester.Duty, error) {
	if merge {
		var in []*apiv1.AttesterDuty
		for _, v := range order {
			in = append(in, &apiv1.AttesterDuty{Slot: slot, ValidatorIndex: v, CommitteeIndex: ref[v].c, CommitteeLength: sizes[ref[v].c],
				CommitteesAtSlot: 2, ValidatorCommitteeIndex: ref[v].p})
		}
		// the beacon node's answer covers an epoch: the neighbouring slots have duties too (other validators,
		// the same committee numbers, committees two members longer / one shorter, as happens on a real chain)
		for _, d := range []struct {
			off   int64
			delta int64
		}{{-1, -1}, {1, 2}} {
			for c, sz := range sizes {
				in = append(in, &apiv1.AttesterDuty{Slot: phase0.Slot(int64(slot) + d.off), ValidatorIndex: phase0.ValidatorIndex(90 + int64(c) + 10*d.off), CommitteeIndex: c,
					CommitteeLength: uint64(int64(sz) + d.delta), CommitteesAtSlot: 2, ValidatorCommitteeIndex: 0})
			}
		}
		ds, err := attester.MergeDuties(context.Background(), in)
		if err != nil {
			return nil, err
		}
		var own *attester.Duty
		for _, d := range ds {
			if d.Slot() == slot {
				if own != nil {
					return nil, fmt.Errorf("MergeDuties returned two duties for slot %d", slot)
				}
				own = d
			}
		}
		if own == nil {
			return nil, fmt.Errorf("MergeDuties returned no duty for slot %d", slot)
		}
		return own, nil
	}
	var cis []phase0.CommitteeIndex
	var pos []uint64
	for _, v := range order {
		cis = append(cis, ref[v].c)
		pos = append(pos, ref[v].p)
	}
	sz := map[phase0.CommitteeIndex]uint64{}
	for k, v := range sizes {
		sz[k] = v
	}
	return attester.NewDuty(context.Background(), slot, 2, append([]phase0.ValidatorIndex(nil), order...), cis, pos, sz)
}

func c04Units(tier string) []hx.Unit {
	// committee sizes: small ones, and the largest mainnet allows next to one beyond it (other presets)
	sizePairs := [][2]uint64{{3, 4}, {4, 3}, {2048, 3000}}
	if tier == "thorough" {
		sizePairs = [][2]uint64{{3, 4}, {4, 3}, {3, 3}, {4, 4}, {2048, 3000}, {3000, 2048}}
	}
	const epoch = 3
	var units []hx.Unit
	for _, sel := range c04Selections() {
		for _, sp := range sizePairs {
			for _, merge := range []bool{false, true} {
				if merge && !c04Ascending(sel) {
					continue // MergeDuties sorts its input: the order dimension is void there
				}
				sel, sp, merge := sel, sp, merge
				k := len(sel)
				tuples := c04Tuples(k)
				nskip := 1
				for i := 0; i < k; i++ {
					nskip *= 4
				}
				st := &c04State{}
				via := "newduty"
				if merge {
					via = "mergeduties"
				}
				u := hx.Unit{Name: fmt.Sprintf("C04/%s/duty%v/sizes%d-%d", via, sel, sp[0], sp[1]), Cfg: mc.Config{Fixed: true, Horizon: int64(600 * sec)}}
				u.Body = func() {
					*st = c04State{}
					env := newAttEnv(1, 2, 3, 4)
					st.env = env
					svc := newAttester(env, nil)
					sizes := map[phase0.CommitteeIndex]uint64{0: sp[0], 1: sp[1]}
					ents := tuples[mc.Choose(len(tuples))]
					code := mc.Choose(nskip)
					preSlot := phase0.Slot(epoch * attSPE)
					mainSlot := preSlot + 1
					if tier == "thorough" && mc.Choose(2) == 1 {
						preSlot = mainSlot // the preceding run was for the very same slot
					}
					main := &c04Run{name: "main", slot: mainSlot, order: sel, ref: map[phase0.ValidatorIndex]c04Entry{}, skip: map[phase0.ValidatorIndex]int{}}
					pre := &c04Run{name: "preceding", slot: preSlot, ref: map[phase0.ValidatorIndex]c04Entry{}, skip: map[phase0.ValidatorIndex]int{}}
					var d []string
					for j, v := range sel {
						e := ents[j]
						e.size = sizes[e.c]
						main.ref[v] = e
						sk := code % 4
						code /= 4
						main.skip[v] = sk
						if sk != c04None {
							st.skips++
						}
						d = append(d, fmt.Sprintf("v%d(c%d,p%d,n%d,%s)", v, e.c, e.p, e.size, c04SkipNames[sk]))
					}
					for v := phase0.ValidatorIndex(1); v <= 4; v++ {
						if sk, ok := main.skip[v]; ok && sk == c04Attested {
							c := phase0.CommitteeIndex(v % 2)
							pre.order = append(pre.order, v)
							pre.ref[v] = c04Entry{c: c, p: uint64(v-1) % 3, size: sizes[c]}
							pre.skip[v] = c04None
						}
					}
					st.desc = fmt.Sprintf("%s duty [%s] at slot %d", via, strings.Join(d, " "), mainSlot)
					if len(pre.order) > 0 {
						st.desc += fmt.Sprintf(", preceded by a run for %v at slot %d", pre.order, preSlot)
						st.runs = append(st.runs, pre)
					}
					st.runs = append(st.runs, main)
					env.dataFn = func(_ context.Context, run int, opts *api.AttestationDataOpts) (*phase0.AttestationData, error) {
						return &phase0.AttestationData{Slot: opts.Slot, Index: opts.CommitteeIndex, BeaconBlockRoot: root(byte(0xB0 + run)),
							Source: &phase0.Checkpoint{Epoch: epoch - 1, Root: root(byte(0x50 + run))},
							Target: &phase0.Checkpoint{Epoch: epoch, Root: root(byte(0x70 + run))}}, nil
					}
					env.missingFn = func(run int, v phase0.ValidatorIndex) bool {
						return st.runs[run].skip[v] == c04NoAccount
					}
					env.signFn = func(run int, vals []phase0.ValidatorIndex) (bool, func(int) bool) {
						return false, func(i int) bool { return st.runs[run].skip[vals[i]] == c04ZeroSig }
					}
					for i, r := range st.runs {
						duty, err := c04Duty(r.slot, r.order, r.ref, sizes, merge && r == main)
						if err != nil {
							st.bad = "cannot build duty: " + err.Error()
							return
						}
						atts, err := svc.Attest(attCtx(i), duty)
						r.err, r.natts = err, len(atts)
					}
				}
				u.Check = func(r *mc.Result) mc.Verdict { return c04Check(st, r) }
				units = append(units, u)
			}
		}
	}
	return units
}

func c04Check(st *c04State, r *mc.Result) mc.Verdict {
	v := mc.Verdict{Nontrivial: st.skips > 0, Sample: st.desc}
	var o []string
	for _, run := range st.runs {
		n := 0
		for _, s := range st.env.subs {
			if s.run == len(o) {
				n += len(s.atts)
			}
		}
		o = append(o, fmt.Sprintf("%s:submitted=%d,err=%v", run.name, n, run.err != nil))
	}
	v.Outcome = fmt.Sprintf("skipped=%d ", st.skips) + strings.Join(o, " ")
	if r.Panic != "" {
		v.Violation, v.Key, v.Detail = st.desc+": panic: "+firstLine(r.Panic), "C04/panic", r.Panic
		return v
	}
	if st.bad != "" {
		v.Violation, v.Key = st.desc+": "+st.bad, "C04/harness"
		return v
	}
	if key, msg := c04Judge(st); key != "" {
		v.Violation, v.Key = st.desc+": "+msg, "C04/"+key
	}
	return v
}

func c04DataDiff(what string, slot phase0.Slot, br phase0.Root, se phase0.Epoch, sr phase0.Root, te phase0.Epoch, tr phase0.Root, dutySlot phase0.Slot, d *phase0.AttestationData) string {
	switch {
	case slot != dutySlot:
		return fmt.Sprintf("%s carries slot %d, the duty is for slot %d", what, slot, dutySlot)
	case br != d.BeaconBlockRoot:
		return fmt.Sprintf("%s carries block root %#x.., the obtained data has %#x..", what, br[0], d.BeaconBlockRoot[0])
	case se != d.Source.Epoch || sr != d.Source.Root:
		return fmt.Sprintf("%s carries source (%d,%#x..), the obtained data has (%d,%#x..)", what, se, sr[0], d.Source.Epoch, d.Source.Root[0])
	case te != d.Target.Epoch || tr != d.Target.Root:
		return fmt.Sprintf("%s carries target (%d,%#x..), the obtained data has (%d,%#x..)", what, te, tr[0], d.Target.Epoch, d.Target.Root[0])
	}
	return ""
}

// c04Judge is the oracle: it returns the finding key and a description, or "" if the property held.
func c04Judge(st *c04State) (string, string) {
	env := st.env
	for ri, run := range st.runs {
		var data *phase0.AttestationData
		for _, d := range env.data {
			if d.run == ri && d.err == nil {
				data = d.data
			}
		}
		// (1) what the signer was asked
		for _, s := range env.signs {
			if s.run != ri {
				continue
			}
			if len(s.vals) != len(s.cis) {
				return "sign-request-shape", fmt.Sprintf("%s run: the signer got %d accounts with %d committee indices", run.name, len(s.vals), len(s.cis))
			}
			if data == nil {
				return "data-mismatch", fmt.Sprintf("%s run: the signer was called although no attestation data was obtained", run.name)
			}
			if m := c04DataDiff("the sign request", s.slot, s.blockRoot, s.srcEpoch, s.srcRoot, s.tgtEpoch, s.tgtRoot, run.slot, data); m != "" {
				return "data-mismatch", run.name + " run: " + m
			}
			for i, val := range s.vals {
				ent, ok := run.ref[val]
				if !ok {
					return "sign-request-outside-duty", fmt.Sprintf("%s run: the signer was asked for validator %d, which the duty does not list", run.name, val)
				}
				if s.cis[i] != ent.c {
					return "wrong-committee-index", fmt.Sprintf("%s run: the signer was asked to sign for validator %d's account with committee index %d at request position %d; the duty assigns committee %d to validator %d", run.name, val, s.cis[i], i, ent.c, val)
				}
			}
		}
		// (2) what was submitted
		seen := map[phase0.ValidatorIndex]bool{}
		for _, sub := range env.subs {
			if sub.run != ri {
				continue
			}
			for _, a := range sub.atts {
				if a.Data == nil || a.Data.Source == nil || a.Data.Target == nil {
					return "data-mismatch", fmt.Sprintf("%s run: an attestation without complete data was submitted", run.name)
				}
				if a.Signature[0] != 0xA5 {
					return "attestation-without-signature", fmt.Sprintf("%s run: an attestation (committee %d, bits set %v of %d) was submitted with a signature that no signer call returned (%#x..)", run.name, a.Data.Index, a.AggregationBits.BitIndices(), a.AggregationBits.Len(), a.Signature[:4])
				}
				val := phase0.ValidatorIndex(a.Signature[1])
				ent, ok := run.ref[val]
				if !ok {
					return "sign-request-outside-duty", fmt.Sprintf("%s run: an attestation signed by validator %d's account was submitted; the duty does not list it", run.name, val)
				}
				if run.skip[val] != c04None {
					return "attestation-for-skipped-validator", fmt.Sprintf("%s run: an attestation signed by validator %d's account was submitted although the validator is skipped (%s)", run.name, val, c04SkipNames[run.skip[val]])
				}
				if seen[val] {
					return "duplicate-attestation", fmt.Sprintf("%s run: two attestations signed by validator %d's account were submitted", run.name, val)
				}
				seen[val] = true
				if a.Signature != attSig(val, a.Data.Index, a.Data.Slot, a.Data.BeaconBlockRoot, a.Data.Source.Epoch, a.Data.Source.Root, a.Data.Target.Epoch, a.Data.Target.Root) {
					return "signature-over-other-values", fmt.Sprintf("%s run: the attestation submitted with validator %d's signature carries (committee %d, slot %d, root %#x.., source %d, target %d) but the signature was given over (committee %d, slot %d, root %#x.., source %d, target %d)",
						run.name, val, a.Data.Index, a.Data.Slot, a.Data.BeaconBlockRoot[0], a.Data.Source.Epoch, a.Data.Target.Epoch,
						a.Signature[2], a.Signature[3], a.Signature[4], a.Signature[5], a.Signature[7])
				}
				if a.Data.Index != ent.c {
					return "wrong-committee-index", fmt.Sprintf("%s run: validator %d's attestation carries committee index %d; the duty assigns committee %d", run.name, val, a.Data.Index, ent.c)
				}
				n := a.AggregationBits.Len()
				if a.AggregationBits.Count() != 1 || ent.p >= n || !a.AggregationBits.BitAt(ent.p) {
					return "wrong-position-bit", fmt.Sprintf("%s run: validator %d's attestation has aggregation bits %v (length %d); the duty assigns position %d", run.name, val, a.AggregationBits.BitIndices(), n, ent.p)
				}
				if n != ent.size {
					return "wrong-committee-size", fmt.Sprintf("%s run: validator %d's attestation has a bitlist of length %d; committee %d has %d members", run.name, val, n, ent.c, ent.size)
				}
				if data == nil {
					return "data-mismatch", fmt.Sprintf("%s run: an attestation was submitted although no attestation data was obtained", run.name)
				}
				if m := c04DataDiff(fmt.Sprintf("validator %d's attestation", val), a.Data.Slot, a.Data.BeaconBlockRoot, a.Data.Source.Epoch, a.Data.Source.Root, a.Data.Target.Epoch, a.Data.Target.Root, run.slot, data); m != "" {
					return "data-mismatch", run.name + " run: " + m
				}
			}
		}
		for _, val := range run.order {
			if run.skip[val] == c04None && !seen[val] {
				return "missing-attestation", fmt.Sprintf("%s run: no attestation was submitted for validator %d, which is not skipped (Attest returned %v)", run.name, val, run.err)
			}
		}
	}
	return "", ""
}

func init() {
	hx.Register(&hx.Prop{
		ID:    "C04",
		Title: "Each attestation carries exactly its validator's assignment and the agreed data",
		Rule: "one unit per (ordered selection of 1-3 validators out of {1,2,3,4}, committee sizes (3 / 4 members, and 2048 / 3000), duty built by NewDuty in that order or by MergeDuties from an answer that also holds duties of the neighbouring slots with committees of other lengths); inside, all assignments of distinct (committee in {0,1}, position in {0,1,2}) pairs and all skip patterns {none, already attested by a preceding Attest of the same epoch, no account, zero signature}^k are enumerated (thorough: also sizes (3,3),(4,4) and the preceding run on the same slot); " +
			"the real attester runs the whole Attest path; the stand-in signature encodes the signing account and the signed values, and every submitted attestation is compared with the duty entry of the validator that signed it and with the data obtained in that run; " +
			"non-trivial = at least one validator of the duty is skipped; distinct = distinct (number skipped, attestations submitted per run, Attest error) classes",
		Assumptions: []string{
			"no schedule dimension: Attest is sequential code; overlapping runs are C01",
			"a duty does not list a validator twice and gives distinct positions to validators of one committee (what a beacon node returns); the size is a property of the committee",
			"range over the accounts map visits validators in ascending index order (instrumentation); the duty order is varied instead",
			"signing and submission succeed (their failures are C01/C03 inputs)",
		},
		Units:         c04Units,
		MinNontrivial: 50000,
	})
}
