package standard

import "github.com/attestantio/go-eth2-client/spec/phase0"

// VerifC20BeaconBlockRootSlots returns the slots for which a head root is retained (overlay only).
func (s *Service) VerifC20BeaconBlockRootSlots() []phase0.Slot {
	s.beaconBlockRootsMu.Lock()
	defer s.beaconBlockRootsMu.Unlock()
	out := make([]phase0.Slot, 0, len(s.beaconBlockRoots))
	for k := range s.beaconBlockRoots {
		out = append(out, k)
	}
	return out
}
