package standard

import (
	"context"

	"github.com/attestantio/go-eth2-client/spec/phase0"
)

// Read-only probes for the verification harness (overlay only).

// VerifC20PendingAttestationSlots returns the slots marked as having pending attestations.
func (s *Service) VerifC20PendingAttestationSlots() []phase0.Slot {
	s.pendingAttestationsMutex.RLock()
	defer s.pendingAttestationsMutex.RUnlock()
	out := make([]phase0.Slot, 0, len(s.pendingAttestations))
	for k, v := range s.pendingAttestations {
		if v {
			out = append(out, k)
		}
	}
	return out
}

// VerifC20PendingAttestationEntries returns the number of entries of the map (true or false).
func (s *Service) VerifC20PendingAttestationEntries() int {
	s.pendingAttestationsMutex.RLock()
	defer s.pendingAttestationsMutex.RUnlock()
	return len(s.pendingAttestations)
}

// VerifC20SubscriptionInfoEpochs returns the epochs for which subscription information is held.
func (s *Service) VerifC20SubscriptionInfoEpochs() []phase0.Epoch {
	s.subscriptionInfosMutex.Lock()
	defer s.subscriptionInfosMutex.Unlock()
	out := make([]phase0.Epoch, 0, len(s.subscriptionInfos))
	for k := range s.subscriptionInfos {
		out = append(out, k)
	}
	return out
}

// VerifScheduleAttestations runs the controller's own scheduling of an epoch's attestations (as the epoch
// preparation job and the duty refresh do).
func (s *Service) VerifScheduleAttestations(ctx context.Context, epoch phase0.Epoch, validatorIndices []phase0.ValidatorIndex, notCurrentSlot bool) {
	s.scheduleAttestations(ctx, epoch, validatorIndices, notCurrentSlot)
}
