package standard

import (
	"context"

	"github.com/attestantio/go-eth2-client/spec/phase0"
)

// Verification hooks for property C15 (sync committee message window).  They only expose unexported
// functions and state; they never change behaviour.

// VerifC15ScheduleSyncCommitteeMessages calls scheduleSyncCommitteeMessages as the controller does.
func (s *Service) VerifC15ScheduleSyncCommitteeMessages(ctx context.Context, epoch phase0.Epoch, validatorIndices []phase0.ValidatorIndex, notCurrentSlot bool) {
	s.scheduleSyncCommitteeMessages(ctx, epoch, validatorIndices, notCurrentSlot)
}

// VerifC15AltairForkEpoch returns the Altair fork epoch the controller works with.
func (s *Service) VerifC15AltairForkEpoch() phase0.Epoch { return s.altairForkEpoch }

// VerifC15FirstEpochOfSyncPeriod exposes firstEpochOfSyncPeriod.
func (s *Service) VerifC15FirstEpochOfSyncPeriod(period uint64) phase0.Epoch {
	return s.firstEpochOfSyncPeriod(period)
}
