package wallet

// Test-only constructor and probes for the C13 check (compiled in through the build overlay only).
// Nothing here changes behaviour.

import (
	"context"

	"github.com/attestantio/go-eth2-client/spec/phase0"
	"github.com/attestantio/vouch/services/chaintime"
	"github.com/attestantio/vouch/services/validatorsmanager"
	"github.com/rs/zerolog"
	e2wtypes "github.com/wealdtech/go-eth2-wallet-types/v2"
)

// VerifNewService builds a wallet account manager without filesystem stores.  As in New() before the
// first refresh, s.accounts starts nil.
func VerifNewService(accountPaths []string, passphrases [][]byte, validatorsManager validatorsmanager.Service, currentEpochProvider chaintime.Service, farFutureEpoch phase0.Epoch, processConcurrency int64) *Service {
	return &Service{
		log:                  zerolog.Nop(),
		processConcurrency:   processConcurrency,
		accountPaths:         accountPaths,
		passphrases:          passphrases,
		validatorsManager:    validatorsManager,
		slotsPerEpoch:        32,
		farFutureEpoch:       farFutureEpoch,
		currentEpochProvider: currentEpochProvider,
	}
}

// VerifFetchAccountsForWallet compiles the configured specifiers and runs the unexported fetch for one
// wallet, as refreshAccounts does for every wallet it found in a store.
func (s *Service) VerifFetchAccountsForWallet(ctx context.Context, wallet e2wtypes.Wallet) map[phase0.BLSPubKey]e2wtypes.Account {
	verificationRegexes := s.accountPathsToVerificationRegexes(s.accountPaths)
	accounts := make(map[phase0.BLSPubKey]e2wtypes.Account)
	s.fetchAccountsForWallet(ctx, wallet, accounts, verificationRegexes)
	return accounts
}

// VerifMirrorRefreshAccounts is refreshAccounts from the point where the wallets have been found in the
// stores: fetch from each wallet, then install the result.
func (s *Service) VerifMirrorRefreshAccounts(ctx context.Context, wallets []e2wtypes.Wallet) {
	verificationRegexes := s.accountPathsToVerificationRegexes(s.accountPaths)
	accounts := make(map[phase0.BLSPubKey]e2wtypes.Account)
	for _, wallet := range wallets {
		s.fetchAccountsForWallet(ctx, wallet, accounts, verificationRegexes)
	}
	s.mutex.Lock()
	s.accounts = accounts
	s.mutex.Unlock()
}

// VerifRefreshValidators runs the unexported validator refresh.
func (s *Service) VerifRefreshValidators(ctx context.Context) error { return s.refreshValidators(ctx) }

// VerifRegexStrings reports the generated verification regexes (diagnostics in messages only).
func (s *Service) VerifRegexStrings() []string {
	var out []string
	for _, re := range s.accountPathsToVerificationRegexes(s.accountPaths) {
		out = append(out, re.String())
	}
	return out
}

// VerifAccounts returns a copy of the known accounts.
func (s *Service) VerifAccounts() map[phase0.BLSPubKey]e2wtypes.Account {
	s.mutex.RLock()
	defer s.mutex.RUnlock()
	out := make(map[phase0.BLSPubKey]e2wtypes.Account, len(s.accounts))
	for k, v := range s.accounts {
		out[k] = v
	}
	return out
}
